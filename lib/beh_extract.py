#!/usr/bin/env python3
"""Extracts BEHAVIOUR lines printed by a TLC run (PrintT(<<"BEHAVIOUR", json>>)) as ndjson."""
import json, re, sys
pat = re.compile(r'^<<"BEHAVIOUR", (".*")>>\s*$')
n = 0
for l in sys.stdin:
    m = pat.match(l)
    if m:
        print(json.loads(m.group(1)))
        n += 1
sys.stderr.write("%d behaviours\n" % n)
