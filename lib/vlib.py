"""Shared machinery for /verif checks.

* run_tlc()      – runs TLC in a scratch directory with its own -metadir and a
                   timeout; parses state counts and classifies the outcome.
* go_build()     – builds a harness command against /repo's current tree with
                   `-tags verif`.
* Check          – per-run context: collects model-checking statistics, cases,
                   disagreements, known-finding matches; writes the evidence file
                   and computes the exit status.

Exit status contract (bin/check):
  0  property held on everything explored (KNOWN-FINDING lines allowed)
  1  a disagreement between the specification and the real code that is not a
     listed finding: prints `VIOLATION property=<id> replay=<path>`
  2  the machinery itself failed (TLC timeout/OOM/parse error, dead driver,
     spec-level error): never a VIOLATION.
"""
from __future__ import annotations

import fnmatch
import json
import os
import re
import shutil
import subprocess
import sys
import tempfile
import time

ROOT = os.path.dirname(os.path.dirname(os.path.abspath(__file__)))
REPO = os.environ.get("VERIF_REPO", "/repo")
SPEC = os.path.join(ROOT, "spec")
HARNESS = os.path.join(ROOT, "harness")
BUILD = os.path.join(ROOT, ".build")
EVIDENCE = os.path.join(ROOT, "evidence")
REPLAYS = os.path.join(ROOT, "replays")
KNOWN = os.path.join(ROOT, "KNOWN_FINDINGS.json")


class MachineryError(Exception):
    """The check could not be carried out (exit 2, never a violation)."""


def log(*a):
    print(*a, flush=True)


def goenv():
    env = dict(os.environ)
    env["GOFLAGS"] = "-mod=mod"
    env["GOPROXY"] = "off"
    env.pop("GOTOOLCHAIN", None)  # auto: /repo's go.mod selects go1.25.8 (cached)
    env.pop("GOSUMDB", None)
    env.setdefault("GOCACHE", os.path.expanduser("~/.cache/go-build"))
    return env


_scratch_dirs = []


def scratch(prefix="verif-"):
    d = tempfile.mkdtemp(prefix=prefix)
    _scratch_dirs.append(d)
    return d


def cleanup():
    for d in _scratch_dirs:
        shutil.rmtree(d, ignore_errors=True)
    _scratch_dirs.clear()


def _merge_gosum(src, dst):
    """dst := dst ∪ src (line-wise), so the harness follows /repo's go.sum."""
    try:
        have = set(open(dst).read().splitlines()) if os.path.exists(dst) else set()
        want = set(open(src).read().splitlines())
        if not want <= have:
            with open(dst, "w") as f:
                f.write("\n".join(sorted(have | want)) + "\n")
    except OSError:
        pass


def go_build(cmd, tags="verif", race=False):
    """Build harness/cmd/<cmd> against the current /repo tree. Returns binary path.

    With VERIF_REPO=<scratch worktree> (mutant self-tests) the harness is built
    through an alternative -modfile whose `replace` names that tree, and the
    binary goes to a separate build directory, so /repo is never touched.
    """
    bdir = BUILD
    modargs = []
    if os.path.realpath(REPO) != "/repo":
        import hashlib
        tag = hashlib.sha1(os.path.realpath(REPO).encode()).hexdigest()[:10]
        bdir = os.path.join(BUILD, "alt-" + tag)
        os.makedirs(bdir, exist_ok=True)
        alt = os.path.join(bdir, "go.mod")
        with open(os.path.join(HARNESS, "go.mod")) as f:
            mod = f.read()
        mod = mod.replace("=> /repo", "=> " + os.path.realpath(REPO))
        with open(alt, "w") as f:
            f.write(mod)
        shutil.copyfile(os.path.join(HARNESS, "go.sum"), os.path.join(bdir, "go.sum"))
        _merge_gosum(os.path.join(REPO, "go.sum"), os.path.join(bdir, "go.sum"))
        modargs = ["-modfile", alt]
    else:
        _merge_gosum(os.path.join(REPO, "go.sum"), os.path.join(HARNESS, "go.sum"))
    os.makedirs(bdir, exist_ok=True)
    out = os.path.join(bdir, cmd + ("-race" if race else ""))
    args = ["go", "build"] + modargs + ["-tags", tags, "-o", out]
    if race:
        args.append("-race")
    args.append("./cmd/" + cmd)
    t0 = time.time()
    p = subprocess.run(args, cwd=HARNESS, env=goenv(), capture_output=True, text=True)
    if p.returncode != 0:
        raise MachineryError("go build %s failed:\n%s%s" % (cmd, p.stdout, p.stderr))
    log("[build] %s in %.1fs" % (cmd, time.time() - t0))
    return out


def run_cmd(args, timeout, env=None, cwd=None, stdin=None):
    e = goenv()
    if env:
        e.update({k: str(v) for k, v in env.items()})
    try:
        p = subprocess.run(args, cwd=cwd, env=e, capture_output=True, text=True,
                           timeout=timeout, input=stdin)
    except subprocess.TimeoutExpired as ex:
        raise MachineryError("timeout after %ss: %s" % (timeout, " ".join(map(str, args[:4]))))
    return p


class TlcResult:
    def __init__(self):
        self.generated = 0
        self.distinct = 0
        self.depth = 0
        self.ok = False          # "No error has been found"
        self.violation = None    # textual description of an invariant/assume/property violation
        self.error = None        # tool-level error text
        self.out = ""
        self.wall = 0.0
        self.coverage_zero = []

    def __repr__(self):
        return "TlcResult(ok=%s gen=%d distinct=%d viol=%r err=%r)" % (
            self.ok, self.generated, self.distinct, self.violation, self.error)


_RE_STATES = re.compile(r"(\d+) states generated, (\d+) distinct states found")
_RE_DEPTH = re.compile(r"depth of the complete state graph search is (\d+)")


def run_tlc(main, cfg=None, files=None, workers=None, timeout=300, env=None,
            extra=None, deadlock=None, simulate=None, depth_first=False,
            keep_dir=None, heap=None, coverage=False, continue_=False):
    """Run TLC on spec module `main` (path relative to /verif/spec, without .tla).

    All *.tla / *.cfg files of the module's directory (and of `files`, a list of
    extra paths) are copied to a scratch directory first, so the tools never
    litter /verif. Returns a TlcResult; raises MachineryError on timeout.
    """
    src_dir = os.path.join(SPEC, os.path.dirname(main))
    mod = os.path.basename(main)
    d = keep_dir or scratch("tlc-")
    for f in os.listdir(src_dir):
        if f.endswith(".tla") or f.endswith(".cfg"):
            shutil.copyfile(os.path.join(src_dir, f), os.path.join(d, f))
    for f in files or []:
        shutil.copyfile(f, os.path.join(d, os.path.basename(f)))
    cfgname = cfg or (mod + ".cfg")
    args = ["java", "-XX:+UseParallelGC"]
    if heap:
        args.append("-Xmx" + heap)
    args += ["-Xss64m"]
    if depth_first:
        args.append("-Dtlc2.tool.queue.IStateQueue=StateDeque")
    args += ["-cp", "/opt/veriftools/tla/tla2tools.jar:/opt/veriftools/tla/CommunityModules-deps.jar",
             "tlc2.TLC", "-metadir", os.path.join(d, "md"), "-config", cfgname]
    if workers:
        args += ["-workers", str(workers)]
    if deadlock is False:
        args += ["-deadlock"]
    if simulate:
        args += ["-simulate", simulate]
    if coverage:
        args += ["-coverage", "1"]
    if continue_:
        args += ["-continue"]
    if extra:
        args += list(extra)
    args.append(mod + ".tla")
    e = dict(os.environ)
    if env:
        e.update({k: str(v) for k, v in env.items()})
    t0 = time.time()
    r = TlcResult()
    try:
        p = subprocess.run(["timeout", str(int(timeout) + 5)] + args, cwd=d, env=e,
                           capture_output=True, text=True, timeout=timeout + 30)
    except subprocess.TimeoutExpired:
        raise MachineryError("TLC timeout (%ss) on %s/%s" % (timeout, main, cfgname))
    r.wall = time.time() - t0
    r.out = p.stdout + p.stderr
    r.dir = d
    if p.returncode == 124:
        raise MachineryError("TLC timeout (%ss) on %s/%s" % (timeout, main, cfgname))
    for m in _RE_STATES.finditer(r.out):
        r.generated, r.distinct = int(m.group(1)), int(m.group(2))
    m = _RE_DEPTH.search(r.out)
    if m:
        r.depth = int(m.group(1))
    if "No error has been found" in r.out or (simulate and p.returncode == 0 and "Error:" not in r.out):
        r.ok = True
    else:
        lines = r.out.splitlines()
        errs = [i for i, l in enumerate(lines) if l.startswith("Error:")]
        if errs:
            i = errs[0]
            txt = "\n".join(lines[i:i + 12])
            l0 = lines[i]
            if ("is violated" in l0 or "Assumption" in l0 or "Temporal properties were violated" in l0 or "Temporal property" in l0
                    or "Deadlock reached" in l0 or "ostcondition" in l0 or "Action property" in l0):
                r.violation = txt
            else:
                r.error = txt
        else:
            r.error = "TLC exit %d without verdict:\n%s" % (p.returncode, r.out[-2000:])
    r.violated = re.findall(r"^Error: Invariant (\S+) is violated", r.out, re.M)
    if continue_ and r.violated and r.ok:
        # with -continue TLC still ends with "No error has been found"
        r.ok = False
        r.violation = "invariants violated (-continue): " + ", ".join(sorted(set(r.violated)))
    if coverage:
        for l in r.out.splitlines():
            m = re.match(r"<(\w+) line .* of module (\w+)>: (\d+):(\d+)", l.strip())
            if m and m.group(3) == "0" and m.group(4) == "0":
                r.coverage_zero.append(m.group(1))
    return r


def tlc_must_pass(r: TlcResult, what):
    if r.ok:
        return
    raise MachineryError("TLC did not pass on %s: %s" % (what, r.violation or r.error))


def read_ndjson(path):
    out = []
    with open(path) as f:
        for line in f:
            line = line.strip()
            if line:
                out.append(json.loads(line))
    return out


def write_ndjson(path, rows):
    with open(path, "w") as f:
        for r in rows:
            f.write(json.dumps(r, sort_keys=True) + "\n")


def load_known():
    out = {"findings": [], "fixed": []}
    paths = [KNOWN]
    # VERIF_KNOWN_EXTRA: a proposed-findings file used only while developing a check
    if os.environ.get("VERIF_KNOWN_EXTRA"):
        paths.append(os.environ["VERIF_KNOWN_EXTRA"])
    for p in paths:
        if os.path.exists(p):
            with open(p) as f:
                d = json.load(f)
            out["findings"] += d.get("findings", [])
            out["fixed"] += d.get("fixed", [])
    return out


class Check:
    def __init__(self, pid, tier, seed):
        self.pid = pid
        self.tier = tier
        self.seed = seed
        self.t0 = time.time()
        self.level = "model_checking"
        self.states = 0
        self.transitions = 0
        self.traces = 0
        self.evaluations = 0
        self.nontrivial = set()
        self.samples = []
        self.rule = ""
        self.assumptions = []
        self.extra = {}
        self.exhaustive = None
        self.violations = []     # (key, description, replay_path)
        self.known_hits = []     # (finding id, key, what)
        self.tlc_runs = []
        known = load_known()
        self.findings = [f for f in known.get("findings", []) if f.get("property") == pid]

    # ---- bookkeeping -------------------------------------------------
    def add_tlc(self, name, r: TlcResult):
        self.states += r.distinct
        self.transitions += r.generated
        self.tlc_runs.append({"config": name, "distinct": r.distinct, "generated": r.generated,
                              "depth": r.depth, "wall_s": round(r.wall, 2)})
        log("[tlc] %s: %d generated, %d distinct, depth %d, %.1fs" %
            (name, r.generated, r.distinct, r.depth, r.wall))

    def sample(self, s, cap=6):
        if len(self.samples) < cap:
            self.samples.append(s)

    def case(self, key=None, nontrivial=True):
        self.evaluations += 1
        if nontrivial and key is not None:
            self.nontrivial.add(key)

    def disagree(self, key, desc, replay_obj=None):
        """Report a spec/code disagreement found on the real code."""
        for f in self.findings:
            pats = f.get("keys", [])
            if any(key == p or fnmatch.fnmatchcase(key, p) for p in pats):
                self.known_hits.append((f.get("id", "?"), key, f.get("what", "")))
                return False
        path = None
        if replay_obj is not None:
            os.makedirs(REPLAYS, exist_ok=True)
            safe = re.sub(r"[^A-Za-z0-9_.-]+", "_", key)[:80]
            path = os.path.join(REPLAYS, "%s_%s.json" % (self.pid, safe))
            with open(path, "w") as f:
                json.dump(replay_obj, f, indent=1, sort_keys=True, default=str)
        self.violations.append((key, desc, path))
        return True

    # ---- finish ------------------------------------------------------
    def finish(self):
        wall = time.time() - self.t0
        cov = {
            "states": self.states,
            "transitions": self.transitions,
            "traces_validated_against_impl": self.traces,
            "evaluations": self.evaluations,
            "distinct_nontrivial": len(self.nontrivial),
            "rule": self.rule,
            "samples": self.samples or ["(no sample recorded)"],
            "tlc_runs": self.tlc_runs,
            "known_findings_hit": sorted({"%s: %s" % (i, k) for i, k, _ in self.known_hits})[:50],
        }
        if self.exhaustive is not None:
            cov["exhaustive"] = bool(self.exhaustive)
        cov.update(self.extra)
        ev = {
            "property_id": self.pid,
            "tier": self.tier,
            "seed": int(self.seed),
            "level": self.level,
            "coverage": cov,
            "assumptions": self.assumptions,
            "wall_s": round(wall, 2),
            "violations": len(self.violations),
        }
        os.makedirs(EVIDENCE, exist_ok=True)
        with open(os.path.join(EVIDENCE, self.pid + ".json"), "w") as f:
            json.dump(ev, f, indent=1, sort_keys=True, default=str)
        seen = set()
        for fid, key, what in self.known_hits:
            if fid in seen:
                continue
            seen.add(fid)
            n = sum(1 for i, _, _ in self.known_hits if i == fid)
            log("KNOWN-FINDING: property=%s %s %s (%d case(s), e.g. %s)" % (self.pid, fid, what, n, key))
        if self.violations:
            for key, desc, path in self.violations[:10]:
                log("  disagreement %s: %s" % (key, desc))
            key, desc, path = self.violations[0]
            log("VIOLATION property=%s replay=%s" % (self.pid, path or "(none)"))
            return 1
        log("OK property=%s tier=%s seed=%s evaluations=%d nontrivial=%d states=%d traces=%d wall=%.1fs" %
            (self.pid, self.tier, self.seed, self.evaluations, len(self.nontrivial),
             self.states, self.traces, wall))
        return 0


def run_driver(chk: Check, binary, args, timeout=600, env=None, keep=None, count=True):
    """Run a Go conformance driver and fold its ndjson report into chk.

    keep: optional predicate on a disagreement record; records it rejects belong
    to another property's check (drivers shared by a family prefix their keys
    with the property id) and are only counted in the evidence."""
    e = {"VERIF_SEED": chk.seed, "VERIF_TIER": chk.tier}
    if env:
        e.update(env)
    p = run_cmd([binary] + list(args), timeout=timeout, env=e)
    summary = None
    for line in p.stdout.splitlines():
        line = line.strip()
        if not line.startswith("{"):
            continue
        try:
            rec = json.loads(line)
        except ValueError:
            continue
        t = rec.get("t")
        if t == "disagree":
            if keep is not None and not keep(rec):
                chk.extra["disagreements_attributed_elsewhere"] = \
                    chk.extra.get("disagreements_attributed_elsewhere", 0) + 1
                continue
            chk.disagree(rec["key"], rec.get("desc", ""), rec.get("replay"))
        elif t == "dead":
            raise MachineryError("driver %s dead: %s" % (os.path.basename(binary), rec.get("msg")))
        elif t == "summary":
            summary = rec
    if p.returncode != 0 and ("fatal error:" in p.stderr or "panic:" in p.stderr):
        # the process died inside library code on a spec-legal input: that is
        # behaviour of the real code, not of the machinery
        frames = [l.strip() for l in p.stderr.splitlines()
                  if l.startswith("github.com/blinklabs-io/gouroboros")]
        m = re.search(r"^(fatal error|panic): (.*)$", p.stderr, re.M)
        last = re.findall(r"^VH-CASE (.*)$", p.stderr, re.M)
        if frames:
            key = "crash:%s:%s" % (frames[0].split("(")[0], (last[-1] if last else "?"))
            chk.disagree(key, "driver process crashed in library code: %s" % (m.group(0) if m else "?"),
                         {"stderr_tail": p.stderr[-4000:], "last_case": last[-1] if last else None})
            return {"crashed": True}
    if p.returncode != 0 or summary is None:
        raise MachineryError("driver %s exit %d without summary:\n%s\n%s" % (
            os.path.basename(binary), p.returncode, p.stdout[-1500:], p.stderr[-3000:]))
    if not count:
        return summary
    chk.evaluations += summary.get("evaluations", 0)
    for i in range(summary.get("distinct_nontrivial", 0)):
        chk.nontrivial.add("%s#%d" % (os.path.basename(binary) + ":" + " ".join(map(str, args))[:40], i))
    for s in summary.get("samples") or []:
        chk.sample(s)
    for k, v in (summary.get("extra") or {}).items():
        chk.extra[k] = v
    return summary


_RE_BEH = re.compile(r'^<<"BEHAVIOUR", (".*")>>\s*$')


def tlc_behaviours(main, cfg, num, depth, seed, timeout=300, out_path=None):
    """Runs TLC in simulation mode on a *Sim module whose invariant prints
    `<<"BEHAVIOUR", json>>` for every finished behaviour; returns (rows, TlcResult)."""
    r = run_tlc(main, cfg=cfg, workers=1, timeout=timeout,
                simulate="num=%d" % num, extra=["-depth", str(depth), "-seed", str(seed)])
    if r.error or r.violation:
        raise MachineryError("TLC simulation failed on %s/%s: %s" % (main, cfg, r.error or r.violation))
    rows = []
    for l in r.out.splitlines():
        m = _RE_BEH.match(l)
        if m:
            rows.append(json.loads(json.loads(m.group(1))))
    m = re.search(r"The number of states generated: (\d+)", r.out)
    if m:
        r.generated = int(m.group(1))
        r.distinct = r.distinct or r.generated
    if out_path:
        write_ndjson(out_path, rows)
    return rows, r


def run_driver_sharded(chk, binary, mode_args, rows, shards=8, timeout=600, env=None, keep=None):
    """Splits rows (behaviours/cases) over several driver processes."""
    import concurrent.futures
    d = scratch("shards-")
    shards = max(1, min(shards, len(rows)))
    paths = []
    for i in range(shards):
        p = os.path.join(d, "part%d.ndjson" % i)
        write_ndjson(p, rows[i::shards])
        paths.append(p)
    sub = [Check(chk.pid, chk.tier, chk.seed) for _ in paths]
    errs = []

    def one(i):
        try:
            run_driver(sub[i], binary, list(mode_args) + [paths[i]], timeout=timeout, env=env, keep=keep)
        except MachineryError as e:
            errs.append(e)

    with concurrent.futures.ThreadPoolExecutor(max_workers=shards) as ex:
        list(ex.map(one, range(len(paths))))
    if errs:
        raise errs[0]
    for i, s in enumerate(sub):
        chk.evaluations += s.evaluations
        chk.nontrivial |= {"%d/%s" % (i, k) for k in s.nontrivial}
        chk.violations += s.violations
        chk.known_hits += s.known_hits
        for x in s.samples:
            chk.sample(x)
        for k, v in s.extra.items():
            if isinstance(v, (int, float)) and not isinstance(v, bool):
                chk.extra[k] = chk.extra.get(k, 0) + v
            else:
                chk.extra[k] = v
