\* C39 thorough: every history of exactly MaxLen calls for depths 1 and 2 (no
\* VIEW: the history is part of the state); verify tuples deviate from the
\* accepting one in at most one coordinate
CONSTANTS
  Depths = {1, 2}
  FullDepth = 2
  Msgs = {"m1", "m2"}
  DeepMsgs = {"m1"}
  Mode = "hist"
  MaxLen = 3
INIT Init
NEXT Next
INVARIANTS TypeOK PkConstant ForwardSecure SignCurrentOnly Exhaustion EmitHist
