---------------------------- MODULE Selection ----------------------------
(* C41 — chain selection is a consistent preference order.                  *)
(*                                                                          *)
(* Written from the property statement and the Praos / Genesis design:      *)
(*   * ordinary (Praos) rule: the longer chain is preferred; among chains   *)
(*     of equal length the one whose tip has the LOWER VRF output; a tip    *)
(*     without a VRF output loses that tie-break;                           *)
(*   * a fork is deep when adopting it rolls the current selection back by  *)
(*     more than k BLOCKS;                                                  *)
(*   * deep forks are decided first by density: the number of blocks whose  *)
(*     slot lies in the window of w SLOTS after the fork slot               *)
(*     (fs < s /\ s - fs <= w); only equal densities fall back to the       *)
(*     ordinary rule.  Without a window (w = 0) the legacy density is the   *)
(*     ratio blocks-after-the-fork / slots-from-the-fork-to-the-last-block; *)
(*   * Preferred returns a maximal candidate.                               *)
(*                                                                          *)
(* Two kinds of tips (TipKind).  "slots": a tip is [bn, vrf, slots] and the *)
(* legacy ratio follows from the slots (small spans, ratios far apart).     *)
(* "ratio": a tip is [bn, vrf, blocks, span], it carries the legacy density *)
(* as the pair blocks-after-the-fork / slots-after-the-fork (what a tip     *)
(* without per-block slots reports, and what a sparse chain over a long     *)
(* span has): the RESOLUTION dimension.  The domain holds ratios at several *)
(* magnitudes (spans from a few slots to 10^8), ratios that are equal       *)
(* through different totals (1/s = 2/2s), and ratios that are unequal but   *)
(* arbitrarily close (n/s against n/(s+1)).  Density is an exact rational:  *)
(* compared by cross-multiplication, never "approximately".                 *)
(*                                                                          *)
(* A tip is [bn, vrf, slots]; bn and vrf are only ever compared (the driver *)
(* maps them monotonically onto uint64 / 32..64-byte strings), slots, fork  *)
(* slot and window enter through differences (the driver maps them          *)
(* affinely), fork/tip block numbers and k through tb - fb - k (shifted).   *)
EXTENDS Integers, Sequences, FiniteSets, SequencesExt, Json, IOUtils, TLC

CONSTANTS MaxBN,      \* tip block numbers 0..MaxBN
          MaxVRF,     \* VRF outputs 0..MaxVRF, and "no output"
          MaxSlot,    \* block slots are subsets of 1..MaxSlot
          ForkSlots,  \* fork slots
          Windows,    \* window lengths (0 = no window configured)
          DepthSet,   \* name of the set of <<fork block, current tip block, k>> cases
          TrimShallow,\* TRUE: shallow depth cases keep one (fork slot, window) only (they ignore both)
          Arity,      \* 2: cases are (context, a, b); 3: (context, a, b, d)
          SampleMod,  \* triples: every case is checked, 1/SampleMod of them are emitted
          TipKind,    \* "slots" or "ratio" (see above)
          RBlocks,    \* ratio tips: numbers of blocks after the fork (> 0)
          SpanBases,  \* ratio tips: spans are base * mult + offset ...
          SpanMults,
          SpanOffsets,
          ResRoot     \* ratio tips: the domain must hold unequal ratios closer than 1 / ResRoot^2

NoVRF == 0 - 1

ASSUME TipKind \in { "slots", "ratio" }
ASSUME TipKind = "ratio" => Windows = {0}   \* a ratio tip has no per-block slots, hence no window count

\* <<blocks, span>>: the empty suffix, and every blocks / (base * mult + offset) that a chain
\* can have (at most one block per slot)
Ratios == { <<0, 0>> } \cup
          { r \in { <<n, b * m + o>> : n \in RBlocks, b \in SpanBases, m \in SpanMults, o \in SpanOffsets } :
                r[1] > 0 /\ r[2] >= r[1] }

\* named offset sets (a .cfg file cannot write negative numbers: CONSTANT SpanOffsets <- OffsetsAround)
OffsetsAround == { 0 - 1, 0, 1, 200 }
OffsetsSteps  == { 0 - 600, 0 - 200, 0, 1 }   \* chains of near ties at 10^6: a ~ b ~ c but not a ~ c

Tips == IF TipKind = "ratio"
        THEN { [bn |-> n, vrf |-> v, slots |-> {}, blocks |-> r[1], span |-> r[2]] :
                   n \in 0..MaxBN, v \in {NoVRF} \cup 0..MaxVRF, r \in Ratios }
        ELSE [bn : 0..MaxBN, vrf : {NoVRF} \cup 0..MaxVRF, slots : SUBSET (1..MaxSlot)]

\* <<fb, tb, k>>: depth = k (shallow, boundary), depth = k+1 (deep, boundary),
\* current tip behind the fork point (no rollback at all), k = 0
DepthCases ==
    CASE DepthSet = "std"  -> { <<0, 1, 1>>, <<0, 2, 1>>, <<2, 0, 0>> }
      [] DepthSet = "full" -> { <<0, 1, 1>>, <<0, 2, 1>>, <<2, 0, 0>>, <<0, 1, 0>>, <<1, 1, 0>> }
      [] DepthSet = "min"  -> { <<0, 1, 1>>, <<0, 2, 1>> }
      [] DepthSet = "deep" -> { <<0, 2, 1>> }

Contexts == [fb : { d[1] : d \in DepthCases }, tb : { d[2] : d \in DepthCases }, k : { d[3] : d \in DepthCases },
             fs : ForkSlots, w : Windows]
MinOf(S) == CHOOSE m \in S : \A s \in S : m <= s
MaxOf(S) == CHOOSE m \in S : \A s \in S : s <= m

--------------------------------------------------------------------------
(* the ordinary rule                                                         *)
HasVRF(t)      == t.vrf # NoVRF
VrfBeats(a, b) == HasVRF(a) /\ (~HasVRF(b) \/ a.vrf < b.vrf)
Prefers(a, b)  == a.bn > b.bn \/ (a.bn = b.bn /\ VrfBeats(a, b))
Compare(a, b)  == IF Prefers(a, b) THEN 1 ELSE IF Prefers(b, a) THEN 0 - 1 ELSE 0

(* depth                                                                     *)
IsDeepFork(fb, tb, k) == tb > fb /\ tb - fb > k
Deep(x) == IsDeepFork(x.fb, x.tb, x.k)
Ctxs == { x \in Contexts :
            /\ <<x.fb, x.tb, x.k>> \in DepthCases
            /\ (TrimShallow /\ ~Deep(x)) => (x.fs = MinOf(ForkSlots) /\ x.w = MaxOf(Windows)) }

(* density                                                                   *)
InWindow(t, fs, w)  == Cardinality({ s \in t.slots : s > fs /\ s - fs <= w })
After(t, fs)        == { s \in t.slots : s > fs }
LegacyBlocks(t, fs) == IF TipKind = "ratio" THEN t.blocks ELSE Cardinality(After(t, fs))
LegacySpan(t, fs)   == IF TipKind = "ratio" THEN t.span
                       ELSE IF After(t, fs) = {} THEN 0 ELSE MaxOf(After(t, fs)) - fs
\* ratio comparison by cross-multiplication; a chain with no block after the fork has density 0
LegacyDenser(a, b, fs) == LegacyBlocks(a, fs) > 0
                          /\ (LegacyBlocks(b, fs) = 0
                              \/ LegacyBlocks(a, fs) * LegacySpan(b, fs) > LegacyBlocks(b, fs) * LegacySpan(a, fs))
Denser(a, b, x) == IF x.w > 0 THEN InWindow(a, x.fs, x.w) > InWindow(b, x.fs, x.w)
                   ELSE LegacyDenser(a, b, x.fs)

\* three-way form of Denser, each density evaluated once
DensityOrder(a, b, x) ==
    IF x.w > 0
    THEN LET na == InWindow(a, x.fs, x.w)  nb == InWindow(b, x.fs, x.w)
         IN  IF na > nb THEN 1 ELSE IF nb > na THEN 0 - 1 ELSE 0
    ELSE IF LegacyDenser(a, b, x.fs) THEN 1 ELSE IF LegacyDenser(b, a, x.fs) THEN 0 - 1 ELSE 0

(* the Genesis-aware rule: shallow forks by the ordinary rule; deep forks by  *)
(* density first, the ordinary rule only between equally dense chains         *)
CompareWithDensity(a, b, x) ==
    IF ~Deep(x) THEN Compare(a, b)
    ELSE LET d == DensityOrder(a, b, x) IN IF d # 0 THEN d ELSE Compare(a, b)

\* fragment-level Genesis comparison (consensus/genesis): window density, then length
FragmentCompare(a, b, x) ==
    LET da == InWindow(a, x.fs, x.w)  db == InWindow(b, x.fs, x.w)
    IN  IF da # db THEN (IF da > db THEN 1 ELSE 0 - 1)
        ELSE IF a.bn # b.bn THEN (IF a.bn > b.bn THEN 1 ELSE 0 - 1) ELSE 0

Cmp(a, b, x, mode) == CASE mode = "praos"   -> Compare(a, b)
                        [] mode = "density" -> CompareWithDensity(a, b, x)
                        [] mode = "fragment" -> FragmentCompare(a, b, x)
Modes == IF TipKind = "ratio" THEN { "praos", "density" } ELSE { "praos", "density", "fragment" }

(* Preferred: any maximal candidate; the reference left fold keeps the       *)
(* earlier candidate on ties.  Both are phrased over the matrix of pairwise   *)
(* verdicts so that each verdict is evaluated once.                           *)
CmpMat(seq, x, mode) == [i \in 1..Len(seq) |-> [j \in 1..Len(seq) |-> Cmp(seq[i], seq[j], x, mode)]]
MaxOfMat(M) == { i \in 1..Len(M) : \A j \in 1..Len(M) : M[i][j] >= 0 }
RECURSIVE BestOfMat(_, _, _)
BestOfMat(M, i, best) == IF i > Len(M) THEN best
                         ELSE BestOfMat(M, i + 1, IF M[i][best] > 0 THEN i ELSE best)
MaxIdx(seq, x, mode)  == MaxOfMat(CmpMat(seq, x, mode))
PrefIdx(seq, x, mode) == BestOfMat(CmpMat(seq, x, mode), 2, 1)

--------------------------------------------------------------------------
(* case space as states: <<context, a>>, <<context, a, b>>, <<context, a, b, d>> *)
VARIABLE c
Init == c \in { <<x, a>> : x \in Ctxs, a \in Tips }
Next == \/ Len(c) < Arity + 1 /\ \E t \in Tips : c' = Append(c, t)
        \/ Len(c) = Arity + 1 /\ UNCHANGED c

X == c[1]
A == c[2]
B == c[3]
D == c[4]
L1(P) == Len(c) = 2 => P
L2(P) == Len(c) = 3 => P
L3(P) == Len(c) = 4 => P
Cands == SubSeq(c, 2, Len(c))

Reflexive      == L1(\A m \in Modes : Cmp(A, A, X, m) = 0)
\* ---- pairs
Antisymmetric  == L2(\A m \in Modes : Cmp(A, B, X, m) = 0 - Cmp(B, A, X, m))
ShallowIsPraos == L2(~Deep(X) => CompareWithDensity(A, B, X) = Compare(A, B))
LongerWins     == L2(A.bn > B.bn => Compare(A, B) = 1)
LowerVrfWins   == L2((A.bn = B.bn /\ HasVRF(A) /\ HasVRF(B) /\ A.vrf < B.vrf) => Compare(A, B) = 1)
MissingVrfLoses == L2((A.bn = B.bn /\ HasVRF(A) /\ ~HasVRF(B)) => Compare(A, B) = 1)
EqualIffSameKey == L2(Compare(A, B) = 0 <=> (A.bn = B.bn /\ A.vrf = B.vrf))
DeepDensityFirst == L2((Deep(X) /\ X.w > 0 /\ InWindow(A, X.fs, X.w) > InWindow(B, X.fs, X.w))
                       => CompareWithDensity(A, B, X) = 1)
DeepDenserWins == L2((Deep(X) /\ Denser(A, B, X)) => CompareWithDensity(A, B, X) = 1)
DensityOrderIsDenser == L2(DensityOrder(A, B, X) = (IF Denser(A, B, X) THEN 1 ELSE IF Denser(B, A, X) THEN 0 - 1 ELSE 0))
DenserIsStrict == L2(~(Denser(A, B, X) /\ Denser(B, A, X)))
DeepTieIsPraos == L2((Deep(X) /\ ~Denser(A, B, X) /\ ~Denser(B, A, X))
                     => CompareWithDensity(A, B, X) = Compare(A, B))
\* the legacy ratio is exact: between two non-empty suffixes the sign of the cross product decides a deep
\* fork, however small the difference and whatever the lengths and VRF outputs say; only the SAME ratio
\* (also when reached through different totals) falls back to the ordinary rule
Cross(a, b, fs) == LegacyBlocks(a, fs) * LegacySpan(b, fs) - LegacyBlocks(b, fs) * LegacySpan(a, fs)
BothNonEmpty(a, b, fs) == LegacyBlocks(a, fs) > 0 /\ LegacyBlocks(b, fs) > 0
UnequalRatioDecides == L2((Deep(X) /\ X.w = 0 /\ BothNonEmpty(A, B, X.fs) /\ Cross(A, B, X.fs) # 0)
                          => CompareWithDensity(A, B, X) = (IF Cross(A, B, X.fs) > 0 THEN 1 ELSE 0 - 1))
EqualRatioTies      == L2((Deep(X) /\ X.w = 0 /\ BothNonEmpty(A, B, X.fs) /\ Cross(A, B, X.fs) = 0)
                          => CompareWithDensity(A, B, X) = Compare(A, B))
\* ---- triples
\* a density tie is an equivalence: it is the equality of a key, not a closeness relation
DensityTieTransitive == L3((DensityOrder(A, B, X) = 0 /\ DensityOrder(B, D, X) = 0) => DensityOrder(A, D, X) = 0)
Transitive     == L3(\A m \in Modes :
                      LET ab == Cmp(A, B, X, m)  bd == Cmp(B, D, X, m)  ad == Cmp(A, D, X, m)
                      IN  /\ (ab >= 0 /\ bd >= 0) => ad >= 0
                          /\ (ab > 0 /\ bd >= 0) => ad > 0
                          /\ (ab >= 0 /\ bd > 0) => ad > 0)
\* ---- Preferred on every candidate sequence of length 1..3 (all orders are states):
\* the fold returns a maximal candidate, and the maximal candidates form one
\* equivalence class -- so the answer is the same class whatever the order
PrefModes == { "praos", "density" }
PreferredMaximal == \A m \in PrefModes :
                       LET M == CmpMat(Cands, X, m)
                       IN  /\ BestOfMat(M, 2, 1) \in MaxOfMat(M)
                           /\ \A i, j \in MaxOfMat(M) : M[i][j] = 0
Perms3 == { p \in [1..3 -> 1..3] : { p[i] : i \in 1..3 } = 1..3 }
PreferredOrderFree == L3(\A m \in PrefModes : \A p \in Perms3 :
                          LET s2 == [i \in 1..3 |-> Cands[p[i]]]
                          IN  { s2[i] : i \in MaxIdx(s2, X, m) } = { Cands[i] : i \in MaxIdx(Cands, X, m) })

--------------------------------------------------------------------------
(* depth table: the verdict only depends on tb - fb - k (shifting fb and tb  *)
(* together, or tb and k together, changes nothing)                          *)
DeepDom == (0..3) \X (0..3) \X (0..2)
ASSUME \A d \in DeepDom : \A s \in 0..2 :
          /\ IsDeepFork(d[1], d[2], d[3]) = IsDeepFork(d[1] + s, d[2] + s, d[3])
          /\ IsDeepFork(d[1], d[2], d[3]) = IsDeepFork(d[1], d[2] + s, d[3] + s)
          /\ (d[2] <= d[1] => ~IsDeepFork(d[1], d[2], d[3]))

--------------------------------------------------------------------------
(* resolution coverage of the ratio domain: it must hold (1) one density reached through different    *)
(* totals, (2) unequal densities closer than 1 / ResRoot^2 (|n1/s1 - n2/s2| = |cross| / (s1 * s2)),      *)
(* (3) ordinary densities that are far apart (at least 1/4)                                            *)
Abs(i) == IF i < 0 THEN 0 - i ELSE i
RCross(r1, r2) == r1[1] * r2[2] - r2[1] * r1[2]
RPos == { r \in Ratios : r[1] > 0 }
ASSUME TipKind = "ratio" =>
          /\ \E r1, r2 \in RPos : r1 # r2 /\ RCross(r1, r2) = 0
          /\ \E r1, r2 \in RPos : RCross(r1, r2) # 0
                                   /\ Abs(RCross(r1, r2)) < (r1[2] \div ResRoot) * (r2[2] \div ResRoot)
          /\ (\E b \in SpanBases : b < 100) =>
                \E r1, r2 \in RPos : r1[2] < 1000 /\ r2[2] < 1000 /\ 4 * Abs(RCross(r1, r2)) >= r1[2] * r2[2]

--------------------------------------------------------------------------
(* emission                                                                  *)
Seed == IF "VERIF_SEED" \in DOMAIN IOEnv THEN atoi(IOEnv.VERIF_SEED) ELSE 1

SortedSlots(S) == SortSeq(SetToSeq(S), <)
TipArr(t)  == << t.bn, t.vrf, SortedSlots(t.slots) >>
CtxArr(x)  == << x.fb, x.tb, x.k, x.fs, x.w >>
Dens(t, x) == << InWindow(t, x.fs, x.w), LegacyBlocks(t, x.fs), LegacySpan(t, x.fs) >>

\* rows are assembled from tables indexed over SetToSeq(Ctxs) / SetToSeq(Tips)
CS == SetToSeq(Ctxs)
TS == SetToSeq(Tips)
NC == Len(CS)
NT == Len(TS)
TipTab  == [t \in 1..NT |-> TipArr(TS[t])]
CtxTab  == [x \in 1..NC |-> CtxArr(CS[x])]
DensTab == [x \in 1..NC |-> [t \in 1..NT |-> Dens(TS[t], CS[x])]]

PairRow(x, a, b) ==
    [kind |-> TipKind, ctx |-> CtxTab[x], deep |-> Deep(CS[x]), a |-> TipTab[a], b |-> TipTab[b],
     da |-> DensTab[x][a], db |-> DensTab[x][b],
     cmp |-> Compare(TS[a], TS[b]), cwd |-> CompareWithDensity(TS[a], TS[b], CS[x]),
     frag |-> FragmentCompare(TS[a], TS[b], CS[x])]
PairAt(i) == LET j == i - 1
             IN  PairRow((j \div (NT * NT)) + 1, ((j \div NT) % NT) + 1, (j % NT) + 1)

TripleRow(x, a, b, d) ==
    LET seq == << TS[a], TS[b], TS[d] >> IN
    [kind |-> TipKind, ctx |-> CtxTab[x], deep |-> Deep(CS[x]), t |-> << TipTab[a], TipTab[b], TipTab[d] >>,
     dens |-> << DensTab[x][a], DensTab[x][b], DensTab[x][d] >>,
     max |-> MaxIdx(seq, CS[x], "praos"), maxd |-> MaxIdx(seq, CS[x], "density"),
     cab |-> CompareWithDensity(TS[a], TS[b], CS[x]), cbd |-> CompareWithDensity(TS[b], TS[d], CS[x]),
     cad |-> CompareWithDensity(TS[a], TS[d], CS[x])]
TripleAt(i) == LET j == i - 1
               IN  TripleRow((j \div (NT * NT * NT)) + 1, ((j \div (NT * NT)) % NT) + 1,
                             ((j \div NT) % NT) + 1, (j % NT) + 1)
TripleIdx == { i \in 1..(NC * NT * NT * NT) : ((i * 7 + (Seed % 9973) * 13) % SampleMod) = 0 }

DeepRow(d) == [fb |-> d[1], tb |-> d[2], k |-> d[3], deep |-> IsDeepFork(d[1], d[2], d[3])]

Emit ==
    /\ LET ds == SetToSeq(DeepDom) IN ndJsonSerialize("deep.ndjson", [i \in 1..Len(ds) |-> DeepRow(ds[i])])
    /\ IF Arity = 2
       THEN ndJsonSerialize("pairs.ndjson", [i \in 1..(NC * NT * NT) |-> PairAt(i)])
       ELSE LET is == SetToSeq(TripleIdx)
            IN  ndJsonSerialize("triples.ndjson", [i \in 1..Len(is) |-> TripleAt(is[i])])
ASSUME Emit
=======================================================================
