\* C41 thorough: legacy density resolution, all (context, a, b, d); spans 200..600 slots apart at 10^6 give chains of near ties
CONSTANT MaxBN = 1
CONSTANT MaxVRF = 0
CONSTANT MaxSlot = 1
CONSTANT ForkSlots = {1}
CONSTANT Windows = {0}
CONSTANT DepthSet = "deep"
CONSTANT TrimShallow = TRUE
CONSTANT Arity = 3
CONSTANT SampleMod = 61
CONSTANT TipKind = "ratio"
CONSTANT RBlocks = {1, 2}
CONSTANT SpanBases = {1000000}
CONSTANT SpanMults = {1, 2}
CONSTANT SpanOffsets <- OffsetsSteps
CONSTANT ResRoot = 31623
INIT Init
NEXT Next
INVARIANT Reflexive
INVARIANT PreferredMaximal
INVARIANT Antisymmetric
INVARIANT ShallowIsPraos
INVARIANT LongerWins
INVARIANT LowerVrfWins
INVARIANT MissingVrfLoses
INVARIANT EqualIffSameKey
INVARIANT DeepDenserWins
INVARIANT DenserIsStrict
INVARIANT DensityOrderIsDenser
INVARIANT DeepTieIsPraos
INVARIANT UnequalRatioDecides
INVARIANT EqualRatioTies
INVARIANT Transitive
INVARIANT DensityTieTransitive
INVARIANT PreferredOrderFree
