\* C41 quick: legacy density resolution, all (deep context, a, b, d) over sparse ratio tips without VRF output
CONSTANT MaxBN = 1
CONSTANT MaxVRF <- NoVRF
CONSTANT MaxSlot = 1
CONSTANT ForkSlots = {1}
CONSTANT Windows = {0}
CONSTANT DepthSet = "deep"
CONSTANT TrimShallow = TRUE
CONSTANT Arity = 3
CONSTANT SampleMod = 2
CONSTANT TipKind = "ratio"
CONSTANT RBlocks = {1, 2}
CONSTANT SpanBases = {1000000}
CONSTANT SpanMults = {1, 2}
CONSTANT SpanOffsets = {0, 1}
CONSTANT ResRoot = 31623
INIT Init
NEXT Next
INVARIANT Reflexive
INVARIANT PreferredMaximal
INVARIANT Antisymmetric
INVARIANT ShallowIsPraos
INVARIANT LongerWins
INVARIANT LowerVrfWins
INVARIANT MissingVrfLoses
INVARIANT EqualIffSameKey
INVARIANT DeepDenserWins
INVARIANT DenserIsStrict
INVARIANT DensityOrderIsDenser
INVARIANT DeepTieIsPraos
INVARIANT UnequalRatioDecides
INVARIANT EqualRatioTies
INVARIANT Transitive
INVARIANT DensityTieTransitive
