\* C41 quick: all (context, a, b, d) on a reduced tip domain
CONSTANT MaxBN = 1
CONSTANT MaxVRF = 1
CONSTANT MaxSlot = 2
CONSTANT ForkSlots = {0}
CONSTANT Windows = {0, 1}
CONSTANT DepthSet = "min"
CONSTANT TrimShallow = TRUE
CONSTANT Arity = 3
CONSTANT SampleMod = 11
INIT Init
NEXT Next
INVARIANT Reflexive
INVARIANT PreferredMaximal
INVARIANT Antisymmetric
INVARIANT ShallowIsPraos
INVARIANT LongerWins
INVARIANT LowerVrfWins
INVARIANT MissingVrfLoses
INVARIANT EqualIffSameKey
INVARIANT DeepDensityFirst
INVARIANT DeepDenserWins
INVARIANT DenserIsStrict
INVARIANT DensityOrderIsDenser
INVARIANT DeepTieIsPraos
INVARIANT Transitive
