\* C39 thorough: transition cover for depths 4..6; every period and the full
\* verify product at depth 4, neighbour sample for depths 5 and 6, both
\* messages signed
CONSTANTS
  Depths = {4, 5, 6}
  FullDepth = 4
  Msgs = {"m1", "m2"}
  DeepMsgs = {"m1", "m2"}
  Mode = "cover"
  MaxLen = 0
INIT Init
NEXT Next
VIEW View
CONSTRAINT EmitStep
INVARIANTS TypeOK PkConstant ForwardSecure Evolved PeriodBound NoRelabel SignCurrentOnly Exhaustion EmitFan
