\* C39 quick + thorough: transition cover of the key automaton for depths 1..3
\* (every period, every verify tuple: key x period x message x corruption)
CONSTANTS
  Depths = {1, 2, 3}
  FullDepth = 3
  Msgs = {"m1", "m2"}
  DeepMsgs = {"m1"}
  Mode = "cover"
  MaxLen = 0
INIT Init
NEXT Next
VIEW View
CONSTRAINT EmitStep
INVARIANTS TypeOK PkConstant ForwardSecure Evolved PeriodBound NoRelabel SignCurrentOnly Exhaustion EmitFan
