CONSTANT MaxEvol = 5
CONSTANT SlotsPerKes = 7
CONSTANT OpPeriod = 3
INIT Init
NEXT Next
INVARIANT HonestValid
INVARIANT HonestWindow
INVARIANT TamperedInvalid
INVARIANT BodyBound
INVARIANT Covering
INVARIANT InsiderCaught
INVARIANT InsiderExact
