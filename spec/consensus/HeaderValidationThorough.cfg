CONSTANT MaxEvol = 5
CONSTANT SlotsPerKes = 7
CONSTANT OpPeriod = 3
CONSTANT MaxHist = 3
CONSTANT MixedOffs = TRUE
INIT Init
NEXT Next
INVARIANT HonestValid
INVARIANT HonestWindow
INVARIANT TamperedInvalid
INVARIANT BodyBound
INVARIANT Covering
INVARIANT InsiderCaught
INVARIANT InsiderExact
INVARIANT HistoryIrrelevant
INVARIANT ReplayNeedsCold
INVARIANT AcceptedPins
