\* C41 thorough: all (context, a, b, d)
CONSTANT MaxBN = 1
CONSTANT MaxVRF = 1
CONSTANT MaxSlot = 3
CONSTANT ForkSlots = {0, 1}
CONSTANT Windows = {0, 2}
CONSTANT DepthSet = "std"
CONSTANT TrimShallow = TRUE
CONSTANT Arity = 3
CONSTANT SampleMod = 61
CONSTANT TipKind = "slots"
CONSTANT RBlocks = {}
CONSTANT SpanBases = {}
CONSTANT SpanMults = {}
CONSTANT SpanOffsets = {}
CONSTANT ResRoot = 1
INIT Init
NEXT Next
INVARIANT Reflexive
INVARIANT PreferredMaximal
INVARIANT Antisymmetric
INVARIANT ShallowIsPraos
INVARIANT LongerWins
INVARIANT LowerVrfWins
INVARIANT MissingVrfLoses
INVARIANT EqualIffSameKey
INVARIANT DeepDensityFirst
INVARIANT DeepDenserWins
INVARIANT DenserIsStrict
INVARIANT DensityOrderIsDenser
INVARIANT DeepTieIsPraos
INVARIANT UnequalRatioDecides
INVARIANT EqualRatioTies
INVARIANT Transitive
INVARIANT DensityTieTransitive
INVARIANT PreferredOrderFree
