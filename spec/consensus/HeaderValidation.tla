---------------------------- MODULE HeaderValidation ----------------------------
(* C40 — produced headers validate, and tampered ones do not.                 *)
(*                                                                            *)
(* Symbolic crypto: keys are names (a public key and its secret share the    *)
(* name), a VRF certificate / Ed25519 signature / KES signature is the tuple *)
(* of what was proved or signed, hashes are injective, <<"bad">> is a bit-   *)
(* flipped proof or signature and "x" a bit-flipped key.  Nobody can make a  *)
(* tuple for a key he does not hold.                                          *)
(*                                                                            *)
(* Build is BlockBuilder.BuildHeader (Praos and TPraos layouts), Fails is the *)
(* set of the ten checks of HeaderValidator.ValidateHeader that reject a      *)
(* header in a chain context, VbFails the checks of ledger.VerifyBlock.  The  *)
(* KES window is  opPeriod <= slot \div SlotsPerKes < opPeriod + MaxEvol.     *)
(*                                                                            *)
(* Cases = layout x period offset {-1, 0, MaxEvol-1, MaxEvol} x one of        *)
(*  none     the header as built;                                             *)
(*  tamper   one field of the built header (or the block body) changed by a   *)
(*           third party: nothing is re-signed;                               *)
(*  insider  the header built by the holder of the pool's hot (KES) and VRF   *)
(*           keys from one changed input, everything he can sign is signed:   *)
(*           only the checks that need the cold key, the registration or the  *)
(*           chain context can reject it.                                     *)
(*                                                                            *)
(* HISTORY.  A HeaderValidator is an object that lives as long as the node:   *)
(* it holds the configuration (layout, SlotsPerKes, MaxEvol, f) and is shown   *)
(* one header after the other.  The state of the model is the history `hist`  *)
(* of cases one validator instance has been shown (Init: one case on a fresh  *)
(* validator; Next: the same instance is shown another case).  The verdict of *)
(* a step is a function of the configuration and of that step's header and    *)
(* chain context ONLY (HistoryIrrelevant): what the validator accepted or     *)
(* rejected before vouches for nothing - an operational certificate accepted  *)
(* once does not make another cold signature over the same (issuer, hot key,  *)
(* counter, period) acceptable (ReplayNeedsCold), a rejected header does not  *)
(* poison the genuine one.  Histories = pairs of cases of one layout of which *)
(* at least one is accepted on a fresh validator, in both orders (MaxHist 3:  *)
(* followed by the first one again).                                          *)
EXTENDS Integers, Sequences, FiniteSets, SequencesExt, Json, TLC

CONSTANTS MaxEvol,       \* maxKESEvolutions
          SlotsPerKes,   \* slotsPerKESPeriod (>= 4: the slots used stay inside one period)
          OpPeriod,      \* KES period the operational certificate starts at (>= 1)
          MaxHist,       \* headers shown to one validator instance (2 or 3)
          MixedOffs      \* TRUE: the steps of a history are at any two period offsets; FALSE: at the
                         \* same offset, or one of them is the header as built (at any offset)

Layouts == {"praos", "tpraos"}
Offs    == {-1, 0, MaxEvol - 1, MaxEvol}

------------------------------------------------------------------------
(* symbolic crypto *)
Bad == <<"bad">>
NoCert == <<"none">>                      \* the Praos layout has no nonce VRF certificate
VrfProof(k, slot, nonce, seed) == <<"vrfproof", k, slot, nonce, seed>>
VrfOut(proof) == <<"vrfout">> \o proof
VrfVerify(k, proof, out, slot, nonce, seed) == proof = VrfProof(k, slot, nonce, seed) /\ out = VrfOut(proof)
EdSig(k, hot, seq, period) == <<"edsig", k, hot, seq, period>>
KesSig(k, t, body) == <<"kessig", k, t, body>>
Hash(x) == <<"hash", x>>

------------------------------------------------------------------------
(* the chain context a header is validated in, and the pool *)
SlotAt(off) == (OpPeriod + off) * SlotsPerKes + 2      \* third slot of the period
\* the predecessor is two slots back, in the same KES period
CtxOf(off) == [prevSlot |-> SlotAt(off) - 2, prevBlockNo |-> 4, prevHash |-> Hash("prev"), nonce |-> "eta0",
               body |-> "body1"]
\* what the validating node knows about a pool, looked up by the issuer key of the header
Registered(cold) == cold = "c1"
Stake(cold)      == IF Registered(cold) THEN 1 ELSE 0
RegVrfHash(cold) == Hash("v1")            \* only meaningful if Registered(cold)

\* the inputs of BuildHeader: the honest ones for a period offset
Inputs(off) ==
    LET Ctx == CtxOf(off) IN
    [blockNo |-> Ctx.prevBlockNo + 1, slot |-> SlotAt(off), prevHash |-> Ctx.prevHash, nonce |-> Ctx.nonce,
     cold |-> "c1", vrf |-> "v1", hot |-> "k1",
     kesT |-> IF off < 0 THEN 0 ELSE off,          \* period the KES signer is at
     opSeq |-> 1, opPeriod |-> OpPeriod, opSig |-> EdSig("c1", "k1", 1, OpPeriod),
     bodySize |-> 7, bodyHash |-> Hash(Ctx.body), protoMajor |-> 0, protoMinor |-> 0]

\* BlockBuilder.BuildHeader
BodyOf(in, layout) ==
    LET lp == VrfProof(in.vrf, in.slot, in.nonce, "L")
        np == IF layout = "tpraos" THEN VrfProof(in.vrf, in.slot, in.nonce, "Eta") ELSE NoCert
    IN [blockNo |-> in.blockNo, slot |-> in.slot, prevHash |-> in.prevHash, issuer |-> in.cold,
        vrfKey |-> in.vrf, nonceProof |-> np, nonceOut |-> IF layout = "tpraos" THEN VrfOut(np) ELSE NoCert,
        vrfProof |-> lp, vrfOut |-> VrfOut(lp), bodySize |-> in.bodySize, bodyHash |-> in.bodyHash,
        opHot |-> in.hot, opSeq |-> in.opSeq, opPeriod |-> in.opPeriod, opSig |-> in.opSig,
        protoMajor |-> in.protoMajor, protoMinor |-> in.protoMinor]
Build(in, layout) == LET b == BodyOf(in, layout) IN [body |-> b, kesSig |-> KesSig(in.hot, in.kesT, b)]

------------------------------------------------------------------------
(* HeaderValidator.ValidateHeader: the checks that fail *)
CurPeriod(h) == h.body.slot \div SlotsPerKes
Check(k, h, layout, Ctx) ==
    LET b == h.body IN
    CASE k = 1 -> b.slot > Ctx.prevSlot
      [] k = 2 -> b.blockNo = Ctx.prevBlockNo + 1
      [] k = 3 -> b.prevHash = Ctx.prevHash
      [] k = 4 -> VrfVerify(b.vrfKey, b.vrfProof, b.vrfOut, b.slot, Ctx.nonce, "L")
      \* evaluated only when 4 holds; f = 1, so any pool with stake leads
      [] k = 5 -> VrfVerify(b.vrfKey, b.vrfProof, b.vrfOut, b.slot, Ctx.nonce, "L") => Stake(b.issuer) > 0
      [] k = 6 -> layout = "tpraos" => VrfVerify(b.vrfKey, b.nonceProof, b.nonceOut, b.slot, Ctx.nonce, "Eta")
      [] k = 7 -> CurPeriod(h) >= b.opPeriod /\ CurPeriod(h) - b.opPeriod < MaxEvol
      [] k = 8 -> CurPeriod(h) >= b.opPeriod /\ h.kesSig = KesSig(b.opHot, CurPeriod(h) - b.opPeriod, b)
      [] k = 9 -> b.opSig = EdSig(b.issuer, b.opHot, b.opSeq, b.opPeriod)
      [] k = 10 -> Registered(b.issuer) => Hash(b.vrfKey) = RegVrfHash(b.issuer)
Fails(h, layout, Ctx) == {k \in 1..10 : ~Check(k, h, layout, Ctx)}

(* ledger.VerifyBlock on the block [header, body]: leader VRF certificate, KES   *)
(* signature (no upper end of the window: the function is not given MaxEvol),   *)
(* body hash, pool registration, registered VRF key; it stops at the first.     *)
VbCheck(k, h, body, Ctx) ==
    LET b == h.body IN
    CASE k = 1 -> VrfVerify(b.vrfKey, b.vrfProof, b.vrfOut, b.slot, Ctx.nonce, "L")
      [] k = 2 -> CurPeriod(h) >= b.opPeriod /\ h.kesSig = KesSig(b.opHot, CurPeriod(h) - b.opPeriod, b)
      [] k = 3 -> b.bodyHash = Hash(body)
      [] k = 4 -> Registered(b.issuer)
      [] k = 5 -> Registered(b.issuer) => Hash(b.vrfKey) = RegVrfHash(b.issuer)
VbFails(h, body, Ctx) == {k \in 1..5 : ~VbCheck(k, h, body, Ctx)}
MinOf(S) == CHOOSE x \in S : \A y \in S : x <= y

------------------------------------------------------------------------
(* mutations *)
TamperHeader == {"blockNo:+1", "slot:=prev", "slot:-1", "slot:+1", "slot:+period", "prevHash:other",
                 "issuer:otherkey", "issuer:flip", "vrfKey:otherkey", "vrfKey:flip",
                 "vrfProof:flip", "vrfProof:otherslot", "vrfOut:flip", "nonceProof:flip", "nonceOut:flip",
                 "bodySize:+1", "bodyHash:other", "opHot:otherkey", "opHot:flip", "opSeq:+1",
                 "opPeriod:-1", "opPeriod:+1", "opSig:flip", "opSig:othercold",
                 "protoMajor:+1", "protoMinor:+1",
                 "kesSig:flip", "kesSig:otherperiod", "kesSig:otherbody"}
TamperAll == TamperHeader \cup {"body:other"}
InsiderAll == {"blockNo:+1", "slot:=prev", "prevHash:other", "bodyHash:other",
               "opSeq:+1", "opPeriod:-1", "opSig:othercold", "opSig:flip", "pool:other", "vrfKey:unregistered",
               "vrfProof:flip", "nonceProof:flip"}
Applies(m, layout) == m \in {"nonceProof:flip", "nonceOut:flip"} => layout = "tpraos"

\* the field a tamper mutation names
FieldOf ==
    [m \in TamperAll |->
       CASE m \in {"blockNo:+1"} -> "blockNo"
         [] m \in {"slot:=prev", "slot:-1", "slot:+1", "slot:+period"} -> "slot"
         [] m = "prevHash:other" -> "prevHash"
         [] m \in {"issuer:otherkey", "issuer:flip"} -> "issuer"
         [] m \in {"vrfKey:otherkey", "vrfKey:flip"} -> "vrfKey"
         [] m \in {"vrfProof:flip", "vrfProof:otherslot"} -> "vrfProof"
         [] m = "vrfOut:flip" -> "vrfOut"
         [] m = "nonceProof:flip" -> "nonceProof"
         [] m = "nonceOut:flip" -> "nonceOut"
         [] m = "bodySize:+1" -> "bodySize"
         [] m = "bodyHash:other" -> "bodyHash"
         [] m \in {"opHot:otherkey", "opHot:flip"} -> "opHot"
         [] m = "opSeq:+1" -> "opSeq"
         [] m \in {"opPeriod:-1", "opPeriod:+1"} -> "opPeriod"
         [] m \in {"opSig:flip", "opSig:othercold"} -> "opSig"
         [] m = "protoMajor:+1" -> "protoMajor"
         [] m = "protoMinor:+1" -> "protoMinor"
         [] m \in {"kesSig:flip", "kesSig:otherperiod", "kesSig:otherbody"} -> "kesSig"
         [] OTHER -> "body"]

\* tamper: change the built header h; nothing else is recomputed
Tamper(h, m, in, Ctx) ==
    LET b == h.body
        B(nb) == [h EXCEPT !.body = nb]
    IN CASE m = "blockNo:+1"       -> B([b EXCEPT !.blockNo = @ + 1])
         [] m = "slot:=prev"       -> B([b EXCEPT !.slot = Ctx.prevSlot])
         [] m = "slot:-1"          -> B([b EXCEPT !.slot = @ - 1])
         [] m = "slot:+1"          -> B([b EXCEPT !.slot = @ + 1])
         [] m = "slot:+period"     -> B([b EXCEPT !.slot = @ + SlotsPerKes])
         [] m = "prevHash:other"   -> B([b EXCEPT !.prevHash = Hash("fork")])
         [] m = "issuer:otherkey"  -> B([b EXCEPT !.issuer = "c2"])
         [] m = "issuer:flip"      -> B([b EXCEPT !.issuer = "x"])
         [] m = "vrfKey:otherkey"  -> B([b EXCEPT !.vrfKey = "v2"])
         [] m = "vrfKey:flip"      -> B([b EXCEPT !.vrfKey = "x"])
         [] m = "vrfProof:flip"    -> B([b EXCEPT !.vrfProof = Bad])
         [] m = "vrfProof:otherslot" -> B([b EXCEPT !.vrfProof = VrfProof(in.vrf, in.slot - 1, in.nonce, "L")])
         [] m = "vrfOut:flip"      -> B([b EXCEPT !.vrfOut = Bad])
         [] m = "nonceProof:flip"  -> B([b EXCEPT !.nonceProof = Bad])
         [] m = "nonceOut:flip"    -> B([b EXCEPT !.nonceOut = Bad])
         [] m = "bodySize:+1"      -> B([b EXCEPT !.bodySize = @ + 1])
         [] m = "bodyHash:other"   -> B([b EXCEPT !.bodyHash = Hash("body2")])
         [] m = "opHot:otherkey"   -> B([b EXCEPT !.opHot = "k2"])
         [] m = "opHot:flip"       -> B([b EXCEPT !.opHot = "x"])
         [] m = "opSeq:+1"         -> B([b EXCEPT !.opSeq = @ + 1])
         [] m = "opPeriod:-1"      -> B([b EXCEPT !.opPeriod = @ - 1])
         [] m = "opPeriod:+1"      -> B([b EXCEPT !.opPeriod = @ + 1])
         [] m = "opSig:flip"       -> B([b EXCEPT !.opSig = Bad])
         [] m = "opSig:othercold"  -> B([b EXCEPT !.opSig = EdSig("c2", b.opHot, b.opSeq, b.opPeriod)])
         [] m = "protoMajor:+1"    -> B([b EXCEPT !.protoMajor = @ + 1])
         [] m = "protoMinor:+1"    -> B([b EXCEPT !.protoMinor = @ + 1])
         [] m = "kesSig:flip"      -> [h EXCEPT !.kesSig = Bad]
         [] m = "kesSig:otherperiod" -> [h EXCEPT !.kesSig = KesSig(in.hot, in.kesT + 1, b)]
         [] m = "kesSig:otherbody" -> [h EXCEPT !.kesSig = KesSig(in.hot, in.kesT, [b EXCEPT !.blockNo = @ - 1])]
         [] OTHER                  -> h          \* "body:other": the header is untouched

\* insider: build from changed inputs; the KES signer is moved to the period the
\* validator will compute, VRF certificates are made for the slot used
InsiderInputs(in, m, Ctx) ==
    CASE m = "blockNo:+1"      -> [in EXCEPT !.blockNo = @ + 1]
      [] m = "slot:=prev"      -> [in EXCEPT !.slot = Ctx.prevSlot]        \* same KES period
      [] m = "prevHash:other"  -> [in EXCEPT !.prevHash = Hash("fork")]
      [] m = "bodyHash:other"  -> [in EXCEPT !.bodyHash = Hash("body2")]
      [] m = "opSeq:+1"        -> [in EXCEPT !.opSeq = @ + 1]                       \* certificate still signed for the old counter
      [] m = "opPeriod:-1"     -> [in EXCEPT !.opPeriod = @ - 1,                    \* ... for the old start period
                                            !.kesT = (in.slot \div SlotsPerKes) - (in.opPeriod - 1)]
      [] m = "opSig:othercold" -> [in EXCEPT !.opSig = EdSig("c2", in.hot, in.opSeq, in.opPeriod)]
      [] m = "pool:other"      -> [in EXCEPT !.cold = "c2", !.opSig = EdSig("c2", in.hot, in.opSeq, in.opPeriod)]
      [] m = "vrfKey:unregistered" -> [in EXCEPT !.vrf = "v2"]
      [] OTHER                 -> in           \* the certificate flips are applied to the built body
\* ... a garbage VRF certificate or cold signature cannot come out of the builder: it is put in before the
\* KES signature is made
InsiderBuild(in, m, layout, Ctx) ==
    LET in2 == InsiderInputs(in, m, Ctx)
        b   == BodyOf(in2, layout)
        b2  == CASE m = "vrfProof:flip"   -> [b EXCEPT !.vrfProof = Bad]
                 [] m = "nonceProof:flip" -> [b EXCEPT !.nonceProof = Bad]
                 [] m = "opSig:flip"      -> [b EXCEPT !.opSig = Bad]
                 [] OTHER                 -> b
    IN [body |-> b2, kesSig |-> KesSig(in2.hot, in2.kesT, b2)]

------------------------------------------------------------------------
(* the case space *)
CaseSpace ==
    {[layout |-> l, off |-> o, regime |-> "none", mut |-> "none"] : l \in Layouts, o \in Offs}
    \cup {x \in [layout : Layouts, off : Offs, regime : {"tamper"}, mut : TamperAll] : Applies(x.mut, x.layout)}
    \cup {x \in [layout : Layouts, off : Offs, regime : {"insider"}, mut : InsiderAll] : Applies(x.mut, x.layout)}

HeaderOf(x) ==
    LET in == Inputs(x.off) IN
    CASE x.regime = "none"   -> Build(in, x.layout)
      [] x.regime = "tamper" -> Tamper(Build(in, x.layout), x.mut, in, CtxOf(x.off))
      [] OTHER               -> InsiderBuild(in, x.mut, x.layout, CtxOf(x.off))
BodyFor(x) == IF x.regime = "tamper" /\ x.mut = "body:other" THEN "body2" ELSE CtxOf(x.off).body

\* constant tables: TLC evaluates them once (TLCEval: eagerly, a function or set expression is lazy otherwise)
FailsTable   == TLCEval([x \in CaseSpace |-> Fails(HeaderOf(x), x.layout, CtxOf(x.off))])
VbFailsTable == TLCEval([x \in CaseSpace |-> VbFails(HeaderOf(x), BodyFor(x), CtxOf(x.off))])
ExpFails(x)   == FailsTable[x]
ExpVbFails(x) == VbFailsTable[x]
Valid(x)   == ExpFails(x) = {}
VbOk(x)    == ExpVbFails(x) = {}

------------------------------------------------------------------------
(* histories on one validator instance *)
HeaderTable == TLCEval([x \in CaseSpace |-> HeaderOf(x)])
\* two cases that one validator may be shown one after the other
Related(x, y) == /\ x.layout = y.layout                  \* the layout is the validator's configuration
                 /\ Valid(x) \/ Valid(y)
                 /\ MixedOffs \/ x.off = y.off \/ x.regime = "none" \/ y.regime = "none"
ValidCases == TLCEval({x \in CaseSpace : Valid(x)})
Hist2 == TLCEval({p \in (ValidCases \X CaseSpace) \cup (CaseSpace \X ValidCases) : Related(p[1], p[2])})
Hist3 == IF MaxHist >= 3 THEN {<<p[1], p[2], p[1]>> : p \in Hist2} ELSE {}
HistSpace == TLCEval(Hist2 \cup Hist3)

\* the state: the cases one validator instance has been shown, in order
VARIABLE hist
c == hist[Len(hist)]                \* the case being validated now
Init == hist \in {<<x>> : x \in CaseSpace}          \* a fresh validator
Next == \/ /\ Len(hist) = 1
           /\ \E y \in CaseSpace : Related(hist[1], y) /\ hist' = Append(hist, y)
        \/ /\ Len(hist) = 2 /\ MaxHist >= 3
           /\ hist' = Append(hist, hist[1])
        \/ UNCHANGED hist

\* ValidateHeader on a validator that has been shown the cases `before`: the set of failing checks.
\* The instance holds its configuration and nothing else; `before` does not occur on the right.
VerdictAfter(before, x) == Fails(HeaderTable[x], x.layout, CtxOf(x.off))
VbVerdictAfter(before, x) == VbFails(HeaderTable[x], BodyFor(x), CtxOf(x.off))
StepFails(hs, i)   == VerdictAfter(SubSeq(hs, 1, i - 1), hs[i])
StepVbFails(hs, i) == VbVerdictAfter(SubSeq(hs, 1, i - 1), hs[i])

------------------------------------------------------------------------
(* meta-properties *)
InWindow(off) == off >= 0 /\ off < MaxEvol
\* a produced header validates exactly inside the certificate's window
HonestValid   == c.regime = "none" => (Valid(c) <=> InWindow(c.off))
HonestWindow  == c.regime = "none" =>
                    /\ (c.off < 0        => ExpFails(c) = {7, 8} /\ ExpVbFails(c) = {2})
                    /\ (c.off >= MaxEvol => ExpFails(c) = {7}    /\ VbOk(c))
                    /\ (InWindow(c.off)  => VbOk(c))
\* every field of the header body is covered by the KES signature
TamperedInvalid == (c.regime = "tamper" /\ c.mut \in TamperHeader) => 8 \in ExpFails(c)
BodyBound       == (c.regime = "tamper" /\ c.mut = "body:other") =>
                       3 \in ExpVbFails(c) /\ (c.off >= 0 => ExpVbFails(c) = {3}) /\ ExpFails(c) = ExpFails([c EXCEPT !.regime = "none", !.mut = "none"])
\* the checks that cover a field, besides the KES signature
Cover(m, layout) ==
    CASE m = "blockNo:+1" -> {2}
      [] m = "slot:=prev" -> {1, 4} \cup (IF layout = "tpraos" THEN {6} ELSE {})
      [] m \in {"slot:-1", "slot:+1", "slot:+period"} -> {4} \cup (IF layout = "tpraos" THEN {6} ELSE {})
      [] m = "prevHash:other" -> {3}
      [] m \in {"issuer:otherkey", "issuer:flip"} -> {9}
      [] m \in {"vrfKey:otherkey", "vrfKey:flip"} -> {4, 10} \cup (IF layout = "tpraos" THEN {6} ELSE {})
      [] m \in {"vrfProof:flip", "vrfProof:otherslot", "vrfOut:flip"} -> {4}
      [] m \in {"nonceProof:flip", "nonceOut:flip"} -> {6}
      [] m \in {"opHot:otherkey", "opHot:flip", "opSeq:+1", "opPeriod:-1", "opPeriod:+1", "opSig:flip", "opSig:othercold"} -> {9}
      [] OTHER -> {}
Covering == (c.regime = "tamper" /\ c.mut \in TamperHeader) => Cover(c.mut, c.layout) \subseteq ExpFails(c)
\* whoever lacks the cold key, the registration or the chain context cannot make a header that passes both
InsiderCaught == c.regime = "insider" => ~(Valid(c) /\ VbOk(c))
InsiderExact  == (c.regime = "insider" /\ InWindow(c.off)) =>
    CASE c.mut = "blockNo:+1"      -> ExpFails(c) = {2} /\ VbOk(c)
      [] c.mut = "slot:=prev"      -> ExpFails(c) = {1} /\ VbOk(c)
      [] c.mut = "prevHash:other"  -> ExpFails(c) = {3} /\ VbOk(c)
      [] c.mut = "bodyHash:other"  -> Valid(c) /\ ExpVbFails(c) = {3}
      [] c.mut = "opSeq:+1"        -> ExpFails(c) = {9}
      [] c.mut = "opPeriod:-1"     -> 9 \in ExpFails(c) /\ ExpFails(c) \subseteq {7, 9}
      [] c.mut = "opSig:othercold" -> ExpFails(c) = {9}
      [] c.mut = "opSig:flip"      -> ExpFails(c) = {9}
      [] c.mut = "pool:other"      -> ExpFails(c) = {5} /\ ExpVbFails(c) = {4}
      [] c.mut = "vrfProof:flip"   -> ExpFails(c) = {4} /\ ExpVbFails(c) = {1}
      [] c.mut = "nonceProof:flip" -> ExpFails(c) = {6} /\ VbOk(c)
      [] OTHER                     -> ExpFails(c) = {10} /\ ExpVbFails(c) = {5}
\* every check is the only one to reject some case (so dropping it is observable in the verdict)
Isolated == \A l \in Layouts :
    /\ \A k \in (1..10) \ {6} : \E x \in CaseSpace : x.layout = l /\ ExpFails(x) = {k}
    /\ l = "tpraos" => \E x \in CaseSpace : x.layout = l /\ ExpFails(x) = {6}
    /\ \A k \in 1..5 : \E x \in CaseSpace : x.layout = l /\ ExpVbFails(x) = {k}
\* the strict and the non-strict upper end of the window differ exactly at offset MaxEvol
WindowEdge == \A l \in Layouts :
    /\ Valid([layout |-> l, off |-> MaxEvol - 1, regime |-> "none", mut |-> "none"])
    /\ ~Valid([layout |-> l, off |-> MaxEvol, regime |-> "none", mut |-> "none"])

\* ---- histories ----
\* every step gets the verdict a fresh validator gives
HistoryIrrelevant == \A i \in 1..Len(hist) :
    /\ StepFails(hist, i) = ExpFails(hist[i])
    /\ StepVbFails(hist, i) = ExpVbFails(hist[i])
    /\ \A j \in 1..Len(hist) : hist[i] = hist[j] => StepFails(hist, i) = StepFails(hist, j)
\* the four things an operational certificate certifies
CertTuple(x) == LET b == HeaderTable[x].body IN <<b.issuer, b.opHot, b.opSeq, b.opPeriod>>
CertReplay(x, y) == CertTuple(x) = CertTuple(y) /\ HeaderTable[x].body.opSig # HeaderTable[y].body.opSig
\* a certificate accepted once does not vouch for another cold signature over the same tuple (whoever made
\* it, whatever else is re-signed), before or after
ReplayNeedsCold == \A i, j \in 1..Len(hist) :
    (Valid(hist[i]) /\ CertReplay(hist[i], hist[j])) => 9 \in StepFails(hist, j)
\* ValidateHeader pins every field of the header but the body hash (VerifyBlock pins that one): two headers
\* accepted in one chain context differ in nothing else
AcceptedPins == \A i, j \in 1..Len(hist) :
    (Valid(hist[i]) /\ Valid(hist[j]) /\ hist[i].off = hist[j].off) =>
        LET a == HeaderTable[hist[i]].body  b == HeaderTable[hist[j]].body
        IN {f \in DOMAIN a : a[f] # b[f]} \subseteq {"bodyHash"}
\* after an accepted header, and before one, every check is the only rejecting one for some case; and
\* the cold signature is the only thing that rejects some replayed certificate
HistIsolated == \A l \in Layouts : \A k \in (1..10) \ (IF l = "tpraos" THEN {} ELSE {6}) :
    /\ \E p \in Hist2 : p[1].layout = l /\ Valid(p[1]) /\ ExpFails(p[2]) = {k}
    /\ \E p \in Hist2 : p[1].layout = l /\ Valid(p[2]) /\ ExpFails(p[1]) = {k}
CertReplayObservable == \A l \in Layouts :
    /\ \E p \in Hist2 : p[1].layout = l /\ Valid(p[1]) /\ CertReplay(p[1], p[2]) /\ ExpFails(p[2]) = {9}
    /\ \E p \in Hist2 : p[1].layout = l /\ Valid(p[2]) /\ CertReplay(p[1], p[2]) /\ ExpFails(p[1]) = {9}

------------------------------------------------------------------------
(* emission *)
OffName(o) == CASE o = -1 -> "m1" [] o = 0 -> "0" [] o = MaxEvol - 1 -> "maxm1" [] OTHER -> "max"
Row(x) == [layout |-> x.layout, off |-> OffName(x.off), regime |-> x.regime, mut |-> x.mut,
           valid |-> Valid(x), fails |-> ExpFails(x), vbok |-> VbOk(x),
           vbfirst |-> IF VbOk(x) THEN 0 ELSE MinOf(ExpVbFails(x)),
           \* periods the insider's KES signer is ahead of the honest one
           kesd |-> (IF x.regime = "insider" THEN InsiderInputs(Inputs(x.off), x.mut, CtxOf(x.off)) ELSE Inputs(x.off)).kesT
                    - Inputs(x.off).kesT,
           field |-> IF x.regime = "tamper" THEN FieldOf[x.mut] ELSE "-"]

RowTable == TLCEval([x \in CaseSpace |-> Row(x)])
\* a step of a history carries the verdict of its case (HistoryIrrelevant is checked on every history)
HistRow(hs) == [layout |-> hs[1].layout, steps |-> [i \in 1..Len(hs) |-> RowTable[hs[i]]],
                \* some later step replays the certificate tuple of an earlier one under another cold signature
                certreplay |-> \E i, j \in 1..Len(hs) : i < j /\ CertReplay(hs[i], hs[j])]

ASSUME MaxEvol >= 2 /\ SlotsPerKes >= 4 /\ OpPeriod >= 2 /\ MaxHist \in {2, 3} /\ MixedOffs \in BOOLEAN
ASSUME HistIsolated
ASSUME CertReplayObservable
ASSUME ndJsonSerialize("histories.ndjson", SetToSeq({HistRow(hs) : hs \in HistSpace}))
ASSUME Isolated
ASSUME WindowEdge
ASSUME ndJsonSerialize("cases.ndjson", SetToSeq({RowTable[x] : x \in CaseSpace}))
=======================================================================
