\* C41 quick: all (context, a, b)
CONSTANT MaxBN = 1
CONSTANT MaxVRF = 1
CONSTANT MaxSlot = 3
CONSTANT ForkSlots = {0, 2}
CONSTANT Windows = {0, 2}
CONSTANT DepthSet = "std"
CONSTANT TrimShallow = FALSE
CONSTANT Arity = 2
CONSTANT SampleMod = 1
INIT Init
NEXT Next
INVARIANT Reflexive
INVARIANT PreferredMaximal
INVARIANT Antisymmetric
INVARIANT ShallowIsPraos
INVARIANT LongerWins
INVARIANT LowerVrfWins
INVARIANT MissingVrfLoses
INVARIANT EqualIffSameKey
INVARIANT DeepDensityFirst
INVARIANT DeepDenserWins
INVARIANT DenserIsStrict
INVARIANT DensityOrderIsDenser
INVARIANT DeepTieIsPraos
