CONSTANT MaxEvol = 3
CONSTANT SlotsPerKes = 4
CONSTANT OpPeriod = 2
CONSTANT MaxHist = 2
CONSTANT MixedOffs = FALSE
INIT Init
NEXT Next
INVARIANT HonestValid
INVARIANT HonestWindow
INVARIANT TamperedInvalid
INVARIANT BodyBound
INVARIANT Covering
INVARIANT InsiderCaught
INVARIANT InsiderExact
INVARIANT HistoryIrrelevant
INVARIANT ReplayNeedsCold
INVARIANT AcceptedPins
