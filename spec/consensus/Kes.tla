------------------------------- MODULE Kes -------------------------------
(* C39 -- KES (MMM sum composition over Ed25519) with symbolic crypto.       *)
(*                                                                          *)
(* Hashing is injective (see Hash), a leaf                                  *)
(* signature is unforgeable (it IS the tuple <<"sig", leafkey, msg>>), a    *)
(* corrupted component equals nothing.  The secret key is the structure of  *)
(* kes/sign.go: per level the child key, the seed of the right subtree      *)
(* (until used) and the stored pair of subtree public keys.  Gen / Upd /    *)
(* SignRec / Ver transcribe keyGenInternal / updateInternal / signInternal  *)
(* / SumXKesSig.Verify.                                                     *)
(*                                                                          *)
(* The state machine is the API seen by a caller: Update, Sign, use of a    *)
(* spent (pre-Update) handle, an adversary relabelling the current key      *)
(* material with another period, and Verify of the last signature with      *)
(* any key / period / message / single corrupted component.                 *)
(*                                                                          *)
(* Behaviours for the replay on the real code are written to rows.ndjson:   *)
(*   cover mode (VIEW hides the history): one "hist" row per generated      *)
(*     state-changing transition (shortest access history + that step),     *)
(*     one "fan" row per distinct state (access history + every call that   *)
(*     leaves the state unchanged, with the expected result);               *)
(*   hist mode (no VIEW): every history of exactly MaxLen calls.            *)
EXTENDS Integers, Sequences, FiniteSets, Json, CSV, TLC

CONSTANTS Depths,     \* tree depths explored (a behaviour fixes one)
          FullDepth,  \* depth <= FullDepth: every period is tried; deeper: the neighbour sample
          Msgs,       \* messages
          DeepMsgs,   \* messages signed by keys deeper than FullDepth (a subset of Msgs)
          Mode,       \* "cover" | "hist"
          MaxLen      \* hist mode: length of the emitted histories

VARIABLES d,    \* depth of this key
          key,  \* secret key material of the live handle
          t,    \* period of the live handle
          sig,  \* last signature made at the current period [t, m, s], or NoSig
          h     \* history of calls with the expected result of each

vars == <<d, key, t, sig, h>>
View == <<d, key, t, sig>>

Keys == {"A", "B"}        \* A: the key under test; B: an unrelated key pair (another seed)
Wiped == <<"wiped">>
Bad   == <<"bad">>
NoSig == [t |-> -1, m |-> "", s |-> [leaf |-> Bad, pairs |-> <<>>]]

--------------------------------------------------------------------------
(* the construction *)

\* The public key of key k's level-l subtree whose first leaf is lo is NAMED
\* <<"pk", k, l, lo>> (level 0: the Ed25519 key of that leaf).  Hash is the
\* injective pair hash: it yields that name for exactly the two genuine
\* children of a subtree and a free term for any other pair, so two hashes are
\* equal iff their arguments are.
Pk(k, l, lo) == <<"pk", k, l, lo>>
Hash(a, b) ==
    IF /\ a[1] = "pk" /\ b[1] = "pk" /\ a[2] = b[2] /\ a[3] = b[3]
       /\ b[4] = a[4] + 2^(a[3]) /\ a[4] % 2^(a[3] + 1) = 0
    THEN <<"pk", a[2], a[3] + 1, a[4]>>
    ELSE <<"H", a, b>>

RECURSIVE Gen(_, _, _)
\* keyGenInternal: fresh secret key of that subtree (leftmost leaf active)
Gen(k, l, lo) ==
    IF l = 0 THEN [lvl |-> 0, leaf |-> <<k, lo>>]
    ELSE [lvl |-> l, child |-> Gen(k, l - 1, lo),
          seed |-> <<k, l - 1, lo + 2^(l - 1)>>,
          L |-> Pk(k, l - 1, lo), R |-> Pk(k, l - 1, lo + 2^(l - 1))]

RECURSIVE Upd(_, _)
\* updateInternal: evolve a subtree key from relative period p to p + 1
Upd(sk, p) ==
    IF sk.lvl = 0 THEN [sk EXCEPT !.leaf = Wiped]
    ELSE LET half == 2^(sk.lvl - 1) IN
         IF p < half - 1 THEN [sk EXCEPT !.child = Upd(sk.child, p)]
         ELSE IF p = half - 1
              THEN [sk EXCEPT !.child = Gen(sk.seed[1], sk.seed[2], sk.seed[3]),
                              !.seed = Wiped]
              ELSE [sk EXCEPT !.child = Upd(sk.child, p - half)]

RECURSIVE SignRec(_, _)
\* signInternal: leaf signature by the active leaf key, plus the stored pair
\* of every level (pairs[l] is level l, 1 = lowest).  Like the code it always
\* descends into the one child it holds: the period only labels the result.
SignRec(sk, m) ==
    IF sk.lvl = 0 THEN [leaf |-> <<"sig", sk.leaf, m>>, pairs |-> <<>>]
    ELSE LET s == SignRec(sk.child, m) IN
         [leaf |-> s.leaf, pairs |-> Append(s.pairs, <<sk.L, sk.R>>)]

PublicKeyOf(sk) == Hash(sk.L, sk.R)

RECURSIVE Ver(_, _, _, _, _)
\* SumXKesSig.Verify: descend by the bits of p
Ver(l, pk, p, m, s) ==
    IF l = 0 THEN /\ pk[1] = "pk" /\ pk[3] = 0
                  /\ s.leaf = <<"sig", <<pk[2], pk[4]>>, m>>
    ELSE /\ Hash(s.pairs[l][1], s.pairs[l][2]) = pk
         /\ LET half == 2^(l - 1) IN
            IF p >= half THEN Ver(l - 1, s.pairs[l][2], p - half, m, s)
                         ELSE Ver(l - 1, s.pairs[l][1], p, m, s)

Verify(dd, pk, p, m, s) == p >= 0 /\ p < 2^dd /\ Ver(dd, pk, p, m, s)

\* corruption of one component of a signature: <<"none",0,0>>, <<"leaf",0,0>>,
\* <<"pair", level, side>> (side 1 = left, 2 = right)
Corr(dd) == {<<"none", 0, 0>>, <<"leaf", 0, 0>>}
            \cup {<<"pair", l, s>> : l \in 1..dd, s \in 1..2}
Corrupt(s, c) ==
    IF c[1] = "none" THEN s
    ELSE IF c[1] = "leaf" THEN [s EXCEPT !.leaf = Bad]
    ELSE [s EXCEPT !.pairs[c[2]][c[3]] = Bad]

RECURSIVE Material(_)
\* leaf periods whose signing key can be derived from the material held
Material(sk) ==
    IF sk.lvl = 0 THEN (IF sk.leaf = Wiped THEN {} ELSE {sk.leaf[2]})
    ELSE Material(sk.child)
         \cup (IF sk.seed = Wiped THEN {}
               ELSE sk.seed[3] .. (sk.seed[3] + 2^(sk.seed[2]) - 1))

\* memoised constants
PkOf == [k \in Keys |-> [dd \in Depths |-> Pk(k, dd, 0)]]

--------------------------------------------------------------------------
(* parameter ranges of the calls *)

Flip(x, l) == IF (x \div 2^l) % 2 = 1 THEN x - 2^l ELSE x + 2^l

\* periods tried around x: all of them (plus -1 "certificate in the future",
\* 2^d and the alias 2^d + x) for small depths, else extremes, x, x-1, x+1 and
\* every period that differs from x in exactly one bit
Periods(dd, x) ==
    IF dd <= FullDepth THEN (-1 .. 2^dd) \cup {2^dd + x}
    ELSE {-1, 0, 2^dd - 1, 2^dd, 2^dd + x, x, x + 1} \cup {y \in {x - 1} : y >= 0}
         \cup {Flip(x, l) : l \in 0..(dd - 1)}

LastPeriod == 2^d - 1

NoArg == [p |-> 0, m |-> "", k |-> "", c |-> <<"none", 0, 0>>]
Call(op, p, m, k, c) == [op |-> op, p |-> p, m |-> m, k |-> k, c |-> c]

None == <<"none", 0, 0>>
\* small depths: the full product.  Deeper: every period with every corruption
\* for the genuine key and message, every period with every key and message
\* for the intact signature.
VerifyCallsFull ==
    IF d <= FullDepth
    THEN {Call("verify", p, m, k, c) : p \in Periods(d, sig.t), m \in Msgs, k \in Keys, c \in Corr(d)}
    ELSE {Call("verify", p, sig.m, "A", c) : p \in Periods(d, sig.t), c \in Corr(d)}
         \cup {Call("verify", p, m, k, None) : p \in Periods(d, sig.t), m \in Msgs, k \in Keys}
\* messages signed: all for small depths, one for deep keys (content is opaque)
SignMsgs == IF d <= FullDepth THEN Msgs ELSE DeepMsgs
\* hist mode: the accepting tuple and every tuple deviating in one coordinate
VerifyCallsOneOff ==
    {Call("verify", sig.t, sig.m, "A", <<"none", 0, 0>>),
     Call("verify", sig.t, sig.m, "B", <<"none", 0, 0>>)}
    \cup {Call("verify", p, sig.m, "A", <<"none", 0, 0>>) : p \in Periods(d, sig.t)}
    \cup {Call("verify", sig.t, m, "A", <<"none", 0, 0>>) : m \in Msgs}
    \cup {Call("verify", sig.t, sig.m, "A", c) : c \in Corr(d)}

Calls ==
    {Call("update", 0, "", "", NoArg.c)}
    \cup {Call("sign", p, m, "", NoArg.c) : p \in Periods(d, t) \ {-1}, m \in SignMsgs}
    \cup (IF t > 0 THEN {Call("stale", p, m, "", NoArg.c) : p \in {0, t - 1, t}, m \in SignMsgs}
                        \cup {Call("staleupdate", 0, "", "", NoArg.c)}
          ELSE {})
    \cup {Call("relabel", p, m, "", NoArg.c) : p \in ((Periods(d, t) \cap (0..LastPeriod)) \ {t}), m \in SignMsgs}
    \cup (IF sig = NoSig THEN {}
          ELSE IF Mode = "cover" THEN VerifyCallsFull ELSE VerifyCallsOneOff)

--------------------------------------------------------------------------
(* the transition function: expected result and successor state of a call *)

\* ok: the call succeeded / the signature verified / the forgery verified
\* alt: (relabel) the relabelled signature is the honest one for period t
Outcome(c) ==
    CASE c.op = "update" ->
           IF t < LastPeriod
           THEN [ok |-> TRUE,  alt |-> FALSE, key |-> Upd(key, t), t |-> t + 1, sig |-> NoSig]
           ELSE [ok |-> FALSE, alt |-> FALSE, key |-> key, t |-> t, sig |-> sig]
      [] c.op = "sign" ->
           IF c.p = t
           THEN [ok |-> TRUE,  alt |-> FALSE, key |-> key, t |-> t,
                 sig |-> [t |-> t, m |-> c.m, s |-> SignRec(key, c.m)]]
           ELSE [ok |-> FALSE, alt |-> FALSE, key |-> key, t |-> t, sig |-> sig]
      [] c.op \in {"stale", "staleupdate"} ->   \* a spent handle is erased
                [ok |-> FALSE, alt |-> FALSE, key |-> key, t |-> t, sig |-> sig]
      [] c.op = "relabel" ->
           LET s == SignRec(key, c.m) IN
                [ok |-> Verify(d, PkOf["A"][d], c.p, c.m, s),
                 alt |-> Verify(d, PkOf["A"][d], t, c.m, s),
                 key |-> key, t |-> t, sig |-> sig]
      [] c.op = "verify" ->
                [ok |-> Verify(d, PkOf[c.k][d], c.p, c.m, Corrupt(sig.s, c.c)),
                 alt |-> FALSE, key |-> key, t |-> t, sig |-> sig]

Mutates(o) == o.key # key \/ o.t # t \/ o.sig # sig

\* what the replay compares: result of the call and the observable state after it
Exp(o) == [ok |-> o.ok, alt |-> o.alt, t |-> o.t, pk |-> "A", mut |-> Mutates(o)]
Entry(c) == LET o == Outcome(c) IN [c |-> c, e |-> Exp(o)]

Init == /\ d \in Depths
        /\ key = Gen("A", d, 0)
        /\ t = 0
        /\ sig = NoSig
        /\ h = <<>>

Step(c) == LET o == Outcome(c) IN
           /\ key' = o.key /\ t' = o.t /\ sig' = o.sig
           /\ h' = Append(h, [c |-> c, e |-> Exp(o)])
           /\ UNCHANGED d

Next == /\ (Mode = "hist" => Len(h) < MaxLen)
        /\ \E c \in Calls : Step(c)

--------------------------------------------------------------------------
(* invariants *)

TypeOK == t \in 0..LastPeriod /\ (sig # NoSig => sig.t = t)

\* evolving never changes the public key
PkConstant == PublicKeyOf(key) = PkOf["A"][d]

\* forward security: exactly the periods t .. 2^d - 1 are derivable from the
\* key material; in particular nothing below t
ForwardSecure == Material(key) = t .. LastPeriod

\* the closed form of the evolved key: t Updates of a fresh key
RECURSIVE KeyAt(_, _)
KeyAt(dd, n) == IF n = 0 THEN Gen("A", dd, 0) ELSE Upd(KeyAt(dd, n - 1), n - 1)
Evolved == d <= 4 => key = KeyAt(d, t)

\* period- and message-bound, under this public key only, no corruption tolerated
PeriodBound ==
    sig # NoSig =>
      \A p \in Periods(d, sig.t), m \in Msgs, k \in Keys, c \in Corr(d) :
         Verify(d, PkOf[k][d], p, m, Corrupt(sig.s, c))
            <=> (p = sig.t /\ m = sig.m /\ k = "A" /\ c = <<"none", 0, 0>>)

\* the current material cannot produce a signature for any other period
NoRelabel == \A p \in Periods(d, t) \ {t}, m \in Msgs :
                ~Verify(d, PkOf["A"][d], p, m, SignRec(key, m))

\* signing succeeds for the current period only; exhaustion at 2^d - 1
SignCurrentOnly == \A c \in Calls : c.op = "sign" => (Outcome(c).ok <=> c.p = t)
Exhaustion == Outcome(Call("update", 0, "", "", NoArg.c)).ok <=> t < LastPeriod

--------------------------------------------------------------------------
(* emission of behaviours *)

File == "rows.ndjson"
Write(row) == CSVWrite("%1$s", <<ToJson(row)>>, File)

\* cover mode, evaluated for every generated successor (before the VIEW
\* discards it): a state-changing step is emitted with its access history
EmitStep ==
    (Mode = "cover" /\ Len(h) > 0 /\ h[Len(h)].e.mut)
        => Write([kind |-> "hist", d |-> d, steps |-> h])

\* cover mode, evaluated once per distinct state: all calls that leave it unchanged
FanOf == LET es == {Entry(c) : c \in Calls} IN {x \in es : ~x.e.mut}
EmitFan ==
    Mode = "cover" => Write([kind |-> "fan", d |-> d, t |-> t, steps |-> h, fan |-> FanOf])

\* hist mode
EmitHist  == (Mode = "hist" /\ Len(h) = MaxLen) => Write([kind |-> "hist", d |-> d, steps |-> h])
==========================================================================
