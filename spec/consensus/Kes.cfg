\* C39 quick: transition cover for depths 4, 5 and the Cardano depth 6: every key period;
\* verify periods are the neighbour sample (extremes, t-1, t, t+1, 2^d,
\* 2^d+t, -1 and every period one bit away from t)
CONSTANTS
  Depths = {4, 5, 6}
  FullDepth = 3
  Msgs = {"m1", "m2"}
  DeepMsgs = {"m1"}
  Mode = "cover"
  MaxLen = 0
INIT Init
NEXT Next
VIEW View
CONSTRAINT EmitStep
INVARIANTS TypeOK PkConstant ForwardSecure Evolved PeriodBound NoRelabel SignCurrentOnly Exhaustion EmitFan
