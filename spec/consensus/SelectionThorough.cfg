\* C41 thorough: the DESIGN domain, all (context, a, b)
CONSTANT MaxBN = 2
CONSTANT MaxVRF = 2
CONSTANT MaxSlot = 4
CONSTANT ForkSlots = {0, 1, 2}
CONSTANT Windows = {0, 2, 4}
CONSTANT DepthSet = "std"
CONSTANT TrimShallow = FALSE
CONSTANT Arity = 2
CONSTANT SampleMod = 1
CONSTANT TipKind = "slots"
CONSTANT RBlocks = {}
CONSTANT SpanBases = {}
CONSTANT SpanMults = {}
CONSTANT SpanOffsets = {}
CONSTANT ResRoot = 1
INIT Init
NEXT Next
INVARIANT Reflexive
INVARIANT PreferredMaximal
INVARIANT Antisymmetric
INVARIANT ShallowIsPraos
INVARIANT LongerWins
INVARIANT LowerVrfWins
INVARIANT MissingVrfLoses
INVARIANT EqualIffSameKey
INVARIANT DeepDensityFirst
INVARIANT DeepDenserWins
INVARIANT DenserIsStrict
INVARIANT DensityOrderIsDenser
INVARIANT DeepTieIsPraos
INVARIANT UnequalRatioDecides
INVARIANT EqualRatioTies
