\* C24 quick: 150 seeded pseudo-random histories of 10 calls over the full request alphabet
CONSTANTS
  Limit = 3
  Reqs <- AllReqs
  Replies <- SmallReplies
  Blockings <- BOOLEAN
  TxNs = {0, 1, 2}
  Mode = "chain"
  MaxLen = 10
  Chains = 150
INIT Init
NEXT Next
INVARIANTS TypeOK AckedLeReceived AckWithinOutstanding OutstandingExact WireInRange RefusedLocally PerCall DoneOnlyFromBlocking OutRejectsOverLimit EmitHist
