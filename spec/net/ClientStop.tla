----------------------------- MODULE ClientStop -----------------------------
(***************************************************************************)
(* C15 (part 2) - the clients' Stop() paths over the shutdown of the engine *)
(* and the connection.  Four kinds of Stop (protocol/<name>/client.go):    *)
(*                                                                         *)
(*   engine  keepalive, peersharing, localstatequery: the promoted         *)
(*           Protocol.Stop(): close(stopChan), unregister                  *)
(*   nowait  txsubmission: lifecycle mutex; Protocol.Stop()                *)
(*   soft    localtxmonitor, localtxsubmission: sync.Once { busy mutex;    *)
(*           SendMessage(Done) } - the protocol itself keeps running       *)
(*   wait    blockfetch, chainsync: [chainsync: TryLock the busy mutex for *)
(*           up to 5 s]; lifecycle mutex; unless IsDone: SendMessage(Done),*)
(*           WaitSendQueueDrained(250 ms); Protocol.Stop(); unlock;        *)
(*           <-DoneChan; [blockfetch: release the busy lock, close the     *)
(*           result channels]                                              *)
(*                                                                         *)
(* over the engine (recvLoop leaves only between two messages - never      *)
(* while a handler, i.e. a user callback, runs -, DoneChan closes after    *)
(* both loops, clean-up goroutine closes the result channels) and the      *)
(* blocking call of the client (busy mutex, request, wait released by      *)
(* DoneChan / by the closed result channel).                               *)
(*                                                                         *)
(* Scenarios (the user acts whenever the library has come to rest):        *)
(*   blocked     a call waits for a reply that never comes; Stop           *)
(*   twice       Stop; Stop; one more call                                 *)
(*   conc        two Stops at the same time                                *)
(*   afterclose  the peer closes; Stop                                     *)
(*   handler     a handler sits in a user callback; Stop; the callback     *)
(*               returns                                                   *)
(* each ended by the peer closing (or not) and Close().  Observations: at  *)
(* rest after the Stop(s) - returned or parked - and at the end.           *)
(* Obligations: once the connection has ended every Stop and every call    *)
(* has returned; after Close nothing is left.                              *)
(***************************************************************************)
EXTENDS Integers, Sequences, FiniteSets, TLC, Json, IOUtils, CSV, SequencesExt

CONSTANTS Clients, Scenarios, Ends, Emit

\* kind: see above; call: the client has a blocking call (it takes the busy mutex); rel: what releases its wait;
\* cb: a handler runs a user callback; post: the handler takes the lifecycle mutex after the callback;
\* cleanup: clean-up goroutine; aux: a goroutine of the call that outlives it in the handler scenario
Attr == [
  chainsync         |-> [kind |-> "wait",   bm |-> "try",  call |-> TRUE,  rel |-> "done",    cb |-> TRUE,  post |-> TRUE,  cleanup |-> FALSE, aux |-> "syncloop"],
  blockfetch        |-> [kind |-> "wait",   bm |-> "none", call |-> TRUE,  rel |-> "done",    cb |-> TRUE,  post |-> FALSE, cleanup |-> FALSE, aux |-> "watcher"],
  txsubmission      |-> [kind |-> "nowait", bm |-> "none", call |-> FALSE, rel |-> "done",    cb |-> TRUE,  post |-> FALSE, cleanup |-> FALSE, aux |-> ""],
  localtxmonitor    |-> [kind |-> "soft",   bm |-> "lock", call |-> TRUE,  rel |-> "cleaned", cb |-> FALSE, post |-> FALSE, cleanup |-> TRUE,  aux |-> ""],
  localtxsubmission |-> [kind |-> "soft",   bm |-> "lock", call |-> TRUE,  rel |-> "cleaned", cb |-> FALSE, post |-> FALSE, cleanup |-> TRUE,  aux |-> ""],
  localstatequery   |-> [kind |-> "engine", bm |-> "none", call |-> TRUE,  rel |-> "done",    cb |-> FALSE, post |-> FALSE, cleanup |-> TRUE,  aux |-> ""],
  keepalive         |-> [kind |-> "engine", bm |-> "none", call |-> FALSE, rel |-> "done",    cb |-> TRUE,  post |-> FALSE, cleanup |-> TRUE,  aux |-> ""],
  peersharing       |-> [kind |-> "engine", bm |-> "none", call |-> TRUE,  rel |-> "done",    cb |-> FALSE, post |-> FALSE, cleanup |-> FALSE, aux |-> ""]]

Program(sc, e) ==
    LET tail == (IF e = "peerclose" THEN <<"peerclose">> ELSE <<>>) \o <<"close">> IN
    CASE sc = "blocked"    -> <<"call", "stop1", "obs">> \o tail
      [] sc = "twice"      -> <<"stop1", "stop2", "obs", "call2">> \o tail
      [] sc = "conc"       -> <<"stop12", "obs">> \o tail
      [] sc = "afterclose" -> <<"peerclose", "stop1", "obs", "close">>
      [] sc = "handler"    -> <<"trigger", "stop1", "obs", "release">> \o tail

CaseOk(x) ==
    /\ x.sc = "blocked" => Attr[x.k].call
    /\ x.sc = "handler" => Attr[x.k].cb
    /\ x.sc = "afterclose" => x.e = "userclose"
CaseSpace == {x \in [k : Clients, sc : Scenarios, e : Ends] : CaseOk(x)}

VARIABLES c, us,
          stopped, mux, reg, g, done, cleaned,
          hk, cbrel,          \* handler: "none", "cb" (inside the user callback), "post"; the driver lets the callback return
          busy, lm, os, ls,   \* busy mutex owner ("" free); lifecycle mutex owner; the Once of soft Stop; lifecycle state
          chclosed,           \* Stop has closed the result channels (blockfetch) / readyForNextBlockChan (chainsync)
          sp, sb,             \* stopper -> pc; stopper -> holds the busy mutex
          pcC, pcC2,          \* calls: "none", "lock", "send", "wait", "ret"
          wire, eof,
          perr, merr, sh, closeSig, connClosed, errClosed, uc, drain

vars == <<c, us, stopped, mux, reg, g, done, cleaned, hk, cbrel, busy, lm, os, ls, chclosed, sp, sb, pcC, pcC2, wire, eof,
          perr, merr, sh, closeSig, connClosed, errClosed, uc, drain>>

A == Attr[c.k]
Prog == Program(c.sc, c.e)
Step == IF us <= Len(Prog) THEN Prog[us] ELSE "end"
Stoppers == {"s1", "s2"}
GNames == {"recv", "send", "closer", "cleanup", "aux"}
Down == stopped \/ done \/ mux = "down" \/ ~g["recv"] \/ ~g["send"]
ReadAlive == ~(stopped \/ mux = "down" \/ ~g["send"])
StateAlive == ~(stopped \/ done)

Init ==
    /\ c \in CaseSpace /\ us = 1
    /\ stopped = FALSE /\ mux = "up" /\ reg = TRUE
    \* the auxiliary goroutine exists in the handler scenario only (Sync's syncLoop, GetBlockRange's busy watcher)
    /\ g = [n \in GNames |-> CASE n = "cleanup" -> A.cleanup [] n = "aux" -> (c.sc = "handler" /\ A.aux # "") [] OTHER -> TRUE]
    /\ done = FALSE /\ cleaned = FALSE /\ hk = "none" /\ cbrel = FALSE
    /\ busy = "" /\ lm = "" /\ os = "new" /\ ls = "running" /\ chclosed = FALSE
    /\ sp = [s \in Stoppers |-> "idle"] /\ sb = [s \in Stoppers |-> FALSE]
    /\ pcC = "none" /\ pcC2 = "none"
    /\ wire = <<>> /\ eof = FALSE
    /\ perr = FALSE /\ merr = FALSE /\ sh = "wait" /\ closeSig = FALSE /\ connClosed = FALSE /\ errClosed = FALSE
    /\ uc = "no" /\ drain = TRUE          \* the user of these cases reads ErrorChan all the time (the adverse order is ClientApi.tla's)

engV  == <<stopped, mux, reg, g, done, cleaned>>
connV == <<perr, merr, sh, closeSig, connClosed, errClosed, uc, drain>>
mtxV  == <<busy, lm, os, ls, chclosed>>

--------------------------------------------------------------------------
(* the calls *)

Released == (IF A.rel = "cleaned" THEN cleaned ELSE done) \/ (chclosed /\ c.k = "blockfetch")

Call(pc, id, other) ==
    \/ /\ pc = "lock" /\ busy = "" /\ busy' = id /\ pc' = "send"
    \/ /\ pc = "send" /\ (IF Down THEN pc' = "ret" /\ busy' = "" ELSE pc' = "wait" /\ UNCHANGED busy)
    \/ /\ pc = "wait" /\ Released /\ pc' = "ret" /\ busy' = (IF busy = id THEN "" ELSE busy)
Call1 == Call(pcC, "c1", pcC2) /\ UNCHANGED <<c, us, engV, hk, cbrel, lm, os, ls, chclosed, sp, sb, pcC2, wire, eof, connV>>
Call2 == Call(pcC2, "c2", pcC) /\ UNCHANGED <<c, us, engV, hk, cbrel, lm, os, ls, chclosed, sp, sb, pcC, wire, eof, connV>>

--------------------------------------------------------------------------
(* Stop() *)

Go(s, to) == sp' = [sp EXCEPT ![s] = to]
StopFrame == UNCHANGED <<c, us, mux, g, done, cleaned, hk, cbrel, pcC, pcC2, wire, eof, connV>>

SBegin(s) ==
    /\ sp[s] = "start"
    /\ CASE A.kind = "engine" -> Go(s, "pstop") /\ UNCHANGED os
         [] A.kind = "nowait" -> Go(s, "life") /\ UNCHANGED os
         [] A.kind = "soft"   -> IF os = "new" THEN os' = "running" /\ Go(s, "busy")
                                 ELSE UNCHANGED os /\ Go(s, "oncewait")
         [] OTHER             -> Go(s, IF A.bm = "try" THEN "spin" ELSE "life") /\ UNCHANGED os
    /\ UNCHANGED <<stopped, reg, busy, lm, ls, chclosed, sb>> /\ StopFrame
\* sync.Once: a second caller waits until the first has finished
SOnceWait(s) == sp[s] = "oncewait" /\ os = "done" /\ Go(s, "ret") /\ UNCHANGED <<stopped, reg, mtxV, sb>> /\ StopFrame
\* chain-sync: TryLock for up to 5 s, then on without the lock
SSpin(s) ==
    /\ sp[s] = "spin"
    /\ IF busy = "" THEN busy' = s /\ sb' = [sb EXCEPT ![s] = TRUE] ELSE UNCHANGED <<busy, sb>>
    /\ Go(s, "life")
    /\ UNCHANGED <<stopped, reg, lm, os, ls, chclosed>> /\ StopFrame
SBusy(s) ==
    /\ sp[s] = "busy" /\ busy = "" /\ busy' = s /\ sb' = [sb EXCEPT ![s] = TRUE] /\ Go(s, "send")
    /\ UNCHANGED <<stopped, reg, lm, os, ls, chclosed>> /\ StopFrame
SLife(s) ==
    /\ sp[s] = "life" /\ lm = ""
    /\ IF ls # "running"
       THEN \* nothing to stop: hand back what is held
            /\ Go(s, "ret") /\ busy' = (IF sb[s] THEN "" ELSE busy) /\ sb' = [sb EXCEPT ![s] = FALSE] /\ UNCHANGED lm
       ELSE /\ lm' = s /\ Go(s, IF A.kind = "wait" THEN "send" ELSE "pstop") /\ UNCHANGED <<busy, sb>>
    /\ UNCHANGED <<stopped, reg, os, ls, chclosed>> /\ StopFrame
\* SendMessage(Done): queued or refused, never blocks here (the queue is not full: the C21 finding is a full queue)
SSend(s) ==
    /\ sp[s] = "send"
    /\ IF A.kind = "soft"
       THEN busy' = "" /\ sb' = [sb EXCEPT ![s] = FALSE] /\ os' = "done" /\ Go(s, "ret")
       ELSE UNCHANGED <<busy, sb, os>> /\ Go(s, "drain")
    /\ UNCHANGED <<stopped, reg, lm, ls, chclosed>> /\ StopFrame
\* WaitSendQueueDrained (bounded), the busy mutex goes back
SDrain(s) ==
    /\ sp[s] = "drain"
    /\ busy' = (IF sb[s] THEN "" ELSE busy) /\ sb' = [sb EXCEPT ![s] = FALSE]
    /\ Go(s, "pstop")
    /\ UNCHANGED <<stopped, reg, lm, os, ls, chclosed>> /\ StopFrame
SPStop(s) ==
    /\ sp[s] = "pstop"
    /\ stopped' = TRUE /\ reg' = FALSE
    /\ CASE A.kind = "engine" -> Go(s, "ret") /\ UNCHANGED <<lm, ls, chclosed>>
         [] A.kind = "nowait" -> Go(s, "ret") /\ lm' = "" /\ ls' = "stopped" /\ UNCHANGED chclosed
         [] OTHER             -> Go(s, "waitdone") /\ lm' = "" /\ ls' = "stopped"
                                 /\ chclosed' = (chclosed \/ c.k = "chainsync")     \* close(readyForNextBlockChan) before the wait
    /\ UNCHANGED <<busy, os, sb>> /\ StopFrame
SWaitDone(s) ==
    /\ sp[s] = "waitdone" /\ done
    /\ IF c.k = "blockfetch" THEN chclosed' = TRUE /\ Go(s, "relock") ELSE UNCHANGED chclosed /\ Go(s, "ret")
    /\ UNCHANGED <<stopped, reg, busy, lm, os, ls, sb>> /\ StopFrame
SRelock(s) == sp[s] = "relock" /\ lm = "" /\ Go(s, "ret") /\ UNCHANGED <<stopped, reg, mtxV, sb>> /\ StopFrame
Stopper(s) == SBegin(s) \/ SOnceWait(s) \/ SSpin(s) \/ SBusy(s) \/ SLife(s) \/ SSend(s) \/ SDrain(s) \/ SPStop(s) \/ SWaitDone(s) \/ SRelock(s)

--------------------------------------------------------------------------
(* the engine *)

EngFrame == UNCHANGED <<c, us, mux, mtxV, sp, sb, pcC, pcC2, eof, merr, sh, closeSig, connClosed, errClosed, uc, drain>>
Exit(n) == g' = [g EXCEPT ![n] = FALSE]
\* the message that makes the handler call the user's callback
RLTake ==
    /\ g["recv"] /\ ~stopped /\ hk = "none" /\ wire = <<"in">>
    /\ wire' = <<>> /\ hk' = "cb"
    /\ UNCHANGED <<stopped, reg, g, done, cleaned, cbrel, perr>> /\ EngFrame
HCallbackReturns ==
    /\ hk = "cb" /\ cbrel /\ hk' = (IF A.post THEN "post" ELSE "none")
    /\ UNCHANGED <<stopped, reg, g, done, cleaned, cbrel, wire, perr>> /\ EngFrame
\* chain-sync: the handler signals readyForNextBlockChan under the lifecycle mutex
HPost == hk = "post" /\ lm = "" /\ hk' = "none" /\ UNCHANGED <<stopped, reg, g, done, cleaned, cbrel, wire, perr>> /\ EngFrame
ExitFrame == UNCHANGED <<stopped, reg, hk, cbrel, wire, perr>> /\ EngFrame
RLExit == g["recv"] /\ hk = "none" /\ (stopped \/ mux = "down" \/ ~g["send"]) /\ Exit("recv") /\ UNCHANGED <<done, cleaned>> /\ ExitFrame
SLExit == g["send"] /\ (stopped \/ ~g["recv"]) /\ Exit("send") /\ UNCHANGED <<done, cleaned>> /\ ExitFrame
Closer == g["closer"] /\ ~g["recv"] /\ ~g["send"] /\ Exit("closer") /\ done' = TRUE /\ UNCHANGED cleaned /\ ExitFrame
Cleanup == g["cleanup"] /\ done /\ Exit("cleanup") /\ cleaned' = TRUE /\ UNCHANGED done /\ ExitFrame
Aux == g["aux"] /\ (done \/ chclosed) /\ Exit("aux") /\ UNCHANGED <<done, cleaned>> /\ ExitFrame
Engine == RLTake \/ HCallbackReturns \/ HPost \/ RLExit \/ SLExit \/ Closer \/ Cleanup \/ Aux

ConnFrame == UNCHANGED <<c, us, stopped, reg, g, done, cleaned, hk, cbrel, mtxV, sp, sb, pcC, pcC2, eof, uc, drain>>
MuxRead ==
    /\ mux = "up"
    /\ \/ /\ wire = <<"wire">> /\ (IF reg THEN wire' = (IF ReadAlive THEN <<"in">> ELSE <<>>) /\ UNCHANGED <<mux, merr>>
                                   ELSE wire' = <<>> /\ mux' = "down" /\ merr' = TRUE)
       \/ /\ wire # <<"wire">> /\ eof /\ mux' = "down" /\ merr' = TRUE /\ UNCHANGED wire
    /\ UNCHANGED <<perr, sh, closeSig, connClosed, errClosed>> /\ ConnFrame
Shutdown ==
    /\ \/ sh = "wait" /\ (closeSig \/ perr \/ merr) /\ sh' = "wg" /\ mux' = "down" /\ connClosed' = TRUE /\ UNCHANGED errClosed
       \/ sh = "wg" /\ drain /\ sh' = "exit" /\ errClosed' = TRUE /\ UNCHANGED <<mux, connClosed>>
    /\ UNCHANGED <<wire, perr, merr, closeSig>> /\ ConnFrame

Library == Call1 \/ Call2 \/ (\E s \in Stoppers : Stopper(s)) \/ Engine \/ MuxRead \/ Shutdown

--------------------------------------------------------------------------
(* the user: one step of the scenario whenever the library is at rest *)

Resting == ~ENABLED Library
UserFrame == UNCHANGED <<c, stopped, mux, reg, g, done, cleaned, hk, mtxV, sb, perr, merr, sh, connClosed, errClosed>>
UserStep ==
    /\ us <= Len(Prog) /\ Resting /\ uc = "no"
    /\ us' = us + 1
    /\ LET x == Prog[us] IN
       /\ pcC' = (IF x = "call" THEN "lock" ELSE pcC)
       /\ pcC2' = (IF x = "call2" /\ A.call THEN "lock" ELSE pcC2)
       /\ sp' = [s \in Stoppers |-> IF (s = "s1" /\ x \in {"stop1", "stop12"}) \/ (s = "s2" /\ x \in {"stop2", "stop12"})
                                    THEN "start" ELSE sp[s]]
       /\ wire' = (IF x = "trigger" THEN <<"wire">> ELSE wire)
       /\ cbrel' = (cbrel \/ x = "release")
       /\ eof' = (eof \/ x = "peerclose")
       /\ IF x = "close" THEN uc' = "in" /\ closeSig' = TRUE ELSE UNCHANGED <<uc, closeSig>>
    /\ UNCHANGED drain /\ UserFrame
UserCloseRet ==
    /\ uc = "in" /\ connClosed /\ uc' = "ret" /\ drain' = TRUE
    /\ UNCHANGED <<us, cbrel, sp, pcC, pcC2, wire, eof, closeSig>> /\ UserFrame
User == UserStep \/ UserCloseRet

Next == Library \/ User
Spec == Init /\ [][Next]_vars /\ WF_vars(Call1) /\ WF_vars(Call2) /\ WF_vars(User)
        /\ \A s \in Stoppers : WF_vars(Stopper(s))
        /\ WF_vars(RLTake \/ HCallbackReturns \/ HPost \/ RLExit) /\ WF_vars(SLExit) /\ WF_vars(Closer) /\ WF_vars(Cleanup) /\ WF_vars(Aux)
        /\ WF_vars(MuxRead) /\ WF_vars(Shutdown)

--------------------------------------------------------------------------
(* properties *)

SPcs == {"idle", "start", "oncewait", "spin", "busy", "life", "send", "drain", "pstop", "waitdone", "relock", "ret"}
TypeOK ==
    /\ \A s \in Stoppers : sp[s] \in SPcs
    /\ pcC \in {"none", "lock", "send", "wait", "ret"} /\ pcC2 \in {"none", "lock", "send", "wait", "ret"}
    /\ hk \in {"none", "cb", "post"} /\ busy \in {"", "c1", "c2", "s1", "s2"} /\ lm \in {"", "s1", "s2"}
    /\ os \in {"new", "running", "done"} /\ ls \in {"running", "stopped"}
MutexOwners == /\ \A s \in Stoppers : (busy = s <=> sb[s]) /\ (lm = s => sp[s] \in {"send", "drain", "pstop"})
               /\ (busy = "c1" => pcC \in {"send", "wait"}) /\ (busy = "c2" => pcC2 \in {"send", "wait"})
\* DoneChan is never closed while a handler (a callback) runs: what the wait in Stop hangs on
DoneAfterHandler == done => (hk = "none" /\ ~g["recv"] /\ ~g["send"])
\* result channels are closed (clean-up goroutine, block-fetch Stop) only after DoneChan: no handler sends on a closed channel
CloseAfterDone == (cleaned \/ (chclosed /\ c.k = "blockfetch")) => done

StopRet(s) == sp[s] \in {"idle", "ret"}
CallRet(pc) == pc \in {"none", "ret"}
Alive == {n \in GNames : g[n]} \cup (IF ReadAlive THEN {"read"} ELSE {}) \cup (IF StateAlive THEN {"state"} ELSE {})
         \cup (IF sh # "exit" THEN {"shutdown"} ELSE {})
Terminal == ~ENABLED Next
AllBack == StopRet("s1") /\ StopRet("s2") /\ CallRet(pcC) /\ CallRet(pcC2)

\* liveness as the property states it, and the same on terminal states (the graph of a case is finite and acyclic)
StopsAndCallsReturn == (mux = "down" /\ (hk = "cb" => cbrel)) ~> AllBack
CloseCompletes == (uc # "no") ~> (uc = "ret" /\ errClosed /\ Alive = {} /\ AllBack)
ScenarioPlayed == <>(us > Len(Prog))
TerminalGood == Terminal => (us > Len(Prog) /\ uc = "ret" /\ errClosed /\ Alive = {} /\ AllBack)

--------------------------------------------------------------------------
CaseRow(x) == [kind |-> "stop", client |-> x.k, scenario |-> x.sc, ending |-> x.e]
ASSUME Emit => ndJsonSerialize("stop_cases.ndjson", SetToSeq({CaseRow(x) : x \in CaseSpace}))

Where(s) == IF sp[s] = "idle" THEN "none" ELSE IF sp[s] = "ret" THEN "ret" ELSE "parked"
WhereC(pc) == IF pc = "none" THEN "none" ELSE IF pc = "ret" THEN "ret" ELSE "parked"
Write(row) == CSVWrite("%1$s", <<ToJson(row)>>, "stop_outcomes.ndjson")
Key == [client |-> c.k, scenario |-> c.sc, ending |-> c.e]
EmitOutcome ==
    /\ (Emit /\ Step = "obs" /\ Resting) =>
           Write(Key @@ [at |-> "rest", stop1 |-> Where("s1"), stop2 |-> Where("s2"), call |-> WhereC(pcC), up |-> mux = "up",
                         alive |-> SetToSeq(Alive)])
    /\ (Emit /\ Terminal) =>
           Write(Key @@ [at |-> "end", stop1 |-> Where("s1"), stop2 |-> Where("s2"), call |-> WhereC(pcC), call2 |-> WhereC(pcC2),
                         closeret |-> uc = "ret", errclosed |-> errClosed, alive |-> SetToSeq(Alive)])
==============================================================================
