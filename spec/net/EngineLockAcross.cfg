CONSTANTS
  SegMax = 65535
  MaxBatch = 20
  Me = "client"
  StateMapC <- Vproto
  MsgTypes = {0, 4}
  MaxPeer = 0
  MaxApp = 2
  PeerMode = "conforming"
  Variant = "lockAcrossEnqueue"
SPECIFICATION Spec
CHECK_DEADLOCK FALSE
INVARIANTS Refines HandlingImpliesAccepted ConformingNeverFails
PROPERTIES ConversationCompletes
