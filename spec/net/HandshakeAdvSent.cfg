\* C19 quick, the dimension "what was sent": the repaired initiator put a PROPER subset of its table on the wire
\* (3-version window, magics per version as in HandshakeAdv.cfg), against every reply of the adversarial responder
CONSTANTS
  W = 3
  CliMagics = {1, 2}
  SrvMagics = {1}
  CliPerVersion = TRUE
  SrvPerVersion = FALSE
  MaxSize = 3
  QCases <- AdvQ
  FlagSpace <- OnlyNoFlags
  FlagsInModel = FALSE
  Responder = "adversary"
  ClientDesign = "fixed"
  SentSpace = "proper"
INIT Init
NEXT Next
INVARIANTS TypeOK ClientSafe ClientComplete OnlyAcceptSelects SentOfConfigured UnsentNeverSettles SentDecides SentOnlyJudgesAccepts
