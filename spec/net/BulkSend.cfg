\* C15: a large reply is pending when the peer stops reading and the connection ends (quick and thorough)
CONSTANTS
  Cap = 2
  Segs = 5
  MaxRead = 2
  Whos = {"msg", "stream"}
  Designs = {"code"}
  Emit = TRUE
SPECIFICATION Spec
INVARIANTS TypeOK DoneAfterLoops TerminalGood EmitOutcome
PROPERTIES CloseCompletes EndsWithConnection ReachesBlocked
