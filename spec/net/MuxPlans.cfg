CONSTANT MaxIn = 2
INIT Init
NEXT Next
INVARIANTS PrefixOnly StopsAtFirst
