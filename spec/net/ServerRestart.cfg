\* C15 quick: restart on Done, two of the three servers (chain-sync: thorough tier), scripts of up to 2 steps, every timing; the code as it is (the repaired design: thorough tier)
CONSTANTS
  MaxLen = 2
  MaxGen = 3
  Protos = {"blockfetch", "txsubmission"}
  Times = {"free", "early", "mid", "late"}
  FreeAll = FALSE
  Designs = {"extracted"}
  Emit = TRUE
SPECIFICATION Spec
INVARIANTS TypeOK RegisteredRuns OneLive DoneAfterLoops CleanAfterDone GenBound TerminalGood RestGood EmitOutcome
