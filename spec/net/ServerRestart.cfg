\* C15 quick: restart on Done, the three servers, scripts of up to 2 steps, every timing; the code as it is (emitted) and repaired
CONSTANTS
  MaxLen = 2
  MaxGen = 3
  Protos = {"chainsync", "blockfetch", "txsubmission"}
  Times = {"free", "early", "mid", "late"}
  Designs = {"extracted", "repaired"}
  Emit = TRUE
SPECIFICATION Spec
INVARIANTS TypeOK RegisteredRuns OneLive DoneAfterLoops CleanAfterDone GenBound TerminalGood RestGood EmitOutcome
