\* thorough: limits 0..3, histories of up to 6 roll-forwards/roll-backwards, Stop at any moment
CONSTANTS
  Limits = {0, 1, 2, 3}
  Default = 4
  MaxHist = 6
  WithStop = TRUE
  Bug = "none"
  QCap = 5
  StopFix = FALSE
  EmitMax = 6
  Pipes = {FALSE}
  PCap = 1
SPECIFICATION Spec
INVARIANTS Safe Strict0 TokensFit Locks Counter TermStop TermDelivered
CHECK_DEADLOCK FALSE
