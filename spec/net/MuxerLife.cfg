CONSTANTS
  Keys = {"a", "b"}
  Design = "asis"
  MaxWrites = 2
SPECIFICATION Spec
INVARIANTS NoPanic ClosedAfterAll NilStartsNothing WgNonNegative
PROPERTIES StopLeadsToClosed
CHECK_DEADLOCK FALSE
