------------------------------- MODULE ReqResp -------------------------------
(* C25  Local request/response calls get their own answers.

   One model for the blocking request/response clients
   (protocol/localstatequery, localtxmonitor, localtxsubmission, peersharing):

     G goroutines, each running a program of N API calls;
     a call  = take the client's call mutex (if the client has one: Mutex), then
               one or two requests: [auto-acquire when a query is issued while the
               client is not acquired (AutoAcquire)], the request itself; each
               request is enqueued with SendMessage and the caller then waits on
               the result channel of the expected reply kind; release() sends its
               message and does not wait;
     engine  = requests leave the send queue one at a time, only when the protocol
               is back in a client-agency state (st = "ready");
     server  = answers every request and TAGS the reply with the request it
               answers (ghost value) plus its session state: the acquired point,
               the number of acquisitions so far, the number of "next" queries
               served in this acquisition;
     handler = the client's message handler hands the reply to ANY goroutine that
               waits on the channel of that reply kind (one channel per kind,
               shared by all callers).

   OwnAnswer: every reply a caller received answers the request that caller sent.
   With Mutex = TRUE it holds across acquire / re-acquire / release. With
   Mutex = FALSE (peersharing.Client.GetPeers as read, F-C25) TLC finds two
   concurrent callers swapping replies (ReqRespNoMutex.cfg).

   Behaviours are emitted (Hist = TRUE) as rows: the programs, the history of
   invocation / return events and, per call, the reply the model's server gave. *)
EXTENDS Integers, Sequences, FiniteSets, TLC, Json, IOUtils, CSV

CONSTANTS G, N,
          Ops,          \* subset of {"acq1", "acq2", "rel", "qa", "qb", "qc"}
          Mutex,        \* the client serialises calls with a mutex
          AutoAcquire,  \* a query on a non-acquired client first acquires the tip
          RelRule,      \* restrict the programs so that every release is legal in every interleaving
          Hist          \* carry and emit the history

Gs == 1..G
AcqOps == {"acq1", "acq2"}
QOps == {"qa", "qb", "qc"}
PointOf(op) == IF op = "acq1" THEN 1 ELSE 2
Tip == 9
None == [k |-> "none"]

VARIABLES
    prog,      \* prog[g]: sequence of N ops (constant along a behaviour)
    pc,        \* pc[g]: idle, lock, step, wait, ret
    idx,       \* idx[g]: calls completed
    sub,       \* sub[g]: requests sent so far inside the running call
    waitk,     \* waitk[g]: reply kind the goroutine waits for
    mu,        \* 0 or the goroutine holding the call mutex
    acquired,  \* client-side flag (c.acquired)
    sendq,     \* engine send queue
    st,        \* "ready" (client has agency) | "busy"
    srvin,     \* request being served
    reply,     \* reply on its way back
    hdl,       \* reply inside the client's handler, waiting for a receiver
    snapP, acqN, cnt,   \* server session state
    got,       \* got[g]: <<request tag sent, reply received>> pairs
    out,       \* out[g]: per finished call, what the caller saw
    h          \* history of <<"I", g>> / <<"R", g>> events (Hist only)
vars == <<prog, pc, idx, sub, waitk, mu, acquired, sendq, st, srvin, reply, hdl, snapP, acqN, cnt, got, out, h>>

Op(g) == prog[g][idx[g] + 1]
Tag(g) == <<g, idx[g] + 1, sub[g] + 1>>

\* Release on a client that is not acquired is a misuse of the API (the message is not permitted in the
\* idle state). In a sequential program the model skips such a call (out.snap = -1, the replay skips it too).
\* With several goroutines the programs are restricted (RelRule) so that a release is legal whatever the
\* interleaving: only one goroutine releases, and never twice without an acquire or query of its own in between.
RelLegalProgs(pr) ==
    /\ Cardinality({g \in Gs : \E i \in 1..N : pr[g][i] = "rel"}) <= 1
    /\ \A g \in Gs : \A i \in 1..N : pr[g][i] = "rel" => (i > 1 /\ pr[g][i - 1] # "rel")

Init ==
    /\ prog \in [Gs -> [1..N -> Ops]]
    /\ (RelRule => RelLegalProgs(prog))
    /\ pc = [g \in Gs |-> "idle"] /\ idx = [g \in Gs |-> 0] /\ sub = [g \in Gs |-> 0]
    /\ waitk = [g \in Gs |-> "none"]
    /\ mu = 0 /\ acquired = FALSE
    /\ sendq = <<>> /\ st = "ready" /\ srvin = None /\ reply = None /\ hdl = None
    /\ snapP = 0 /\ acqN = 0 /\ cnt = 0
    /\ got = [g \in Gs |-> <<>>] /\ out = [g \in Gs |-> <<>>]
    /\ h = <<>>

Ev(e) == IF Hist THEN h' = Append(h, e) ELSE h' = h

Invoke(g) ==
    /\ pc[g] = "idle" /\ idx[g] < N
    /\ pc' = [pc EXCEPT ![g] = "lock"]
    /\ Ev(<<"I", g>>)
    /\ UNCHANGED <<prog, idx, sub, waitk, mu, acquired, sendq, st, srvin, reply, hdl, snapP, acqN, cnt, got, out>>

Lock(g) ==
    /\ pc[g] = "lock" /\ (Mutex => mu = 0)
    /\ mu' = IF Mutex THEN g ELSE mu
    /\ pc' = [pc EXCEPT ![g] = "step"]
    /\ UNCHANGED <<prog, idx, sub, waitk, acquired, sendq, st, srvin, reply, hdl, snapP, acqN, cnt, got, out, h>>

\* next request of the running call
Step(g) ==
    /\ pc[g] = "step"
    /\ LET op == Op(g) IN
       IF op = "rel"
       THEN /\ IF acquired
               THEN /\ sendq' = Append(sendq, [k |-> "rel", tag |-> Tag(g), p |-> 0, op |-> op])
                    /\ acquired' = FALSE
                    /\ out' = [out EXCEPT ![g] = Append(@, [op |-> op, snap |-> 0, acqn |-> 0, cnt |-> 0])]
               ELSE /\ UNCHANGED <<sendq, acquired>>        \* skipped: nothing to release
                    /\ out' = [out EXCEPT ![g] = Append(@, [op |-> op, snap |-> -1, acqn |-> 0, cnt |-> 0])]
            /\ pc' = [pc EXCEPT ![g] = "ret"]
            /\ UNCHANGED <<waitk, sub>>
       ELSE IF op \in AcqOps \/ (op \in QOps /\ AutoAcquire /\ ~acquired)
       THEN /\ sendq' = Append(sendq, [k |-> "acq", tag |-> Tag(g),
                                       p |-> IF op \in AcqOps THEN PointOf(op) ELSE Tip, op |-> op])
            /\ waitk' = [waitk EXCEPT ![g] = "acq"]
            /\ sub' = [sub EXCEPT ![g] = @ + 1]
            /\ pc' = [pc EXCEPT ![g] = "wait"]
            /\ UNCHANGED <<acquired, out>>
       ELSE /\ sendq' = Append(sendq, [k |-> "q", tag |-> Tag(g), p |-> 0, op |-> op])
            /\ waitk' = [waitk EXCEPT ![g] = "res"]
            /\ sub' = [sub EXCEPT ![g] = @ + 1]
            /\ pc' = [pc EXCEPT ![g] = "wait"]
            /\ UNCHANGED <<acquired, out>>
    /\ UNCHANGED <<prog, idx, mu, st, srvin, reply, hdl, snapP, acqN, cnt, got, h>>

\* engine: one request at a time, only with client agency
Wire ==
    /\ sendq # <<>> /\ st = "ready" /\ srvin = None
    /\ srvin' = Head(sendq) /\ sendq' = Tail(sendq)
    /\ st' = IF Head(sendq).k = "rel" THEN "ready" ELSE "busy"
    /\ UNCHANGED <<prog, pc, idx, sub, waitk, mu, acquired, reply, hdl, snapP, acqN, cnt, got, out, h>>

\* server: answers the request and tags the reply with it
Serve ==
    /\ srvin # None /\ reply = None
    /\ srvin' = None
    /\ CASE srvin.k = "rel" ->
              /\ snapP' = 0 /\ cnt' = 0 /\ UNCHANGED <<acqN, reply>>
         [] srvin.k = "acq" ->
              /\ snapP' = srvin.p /\ acqN' = acqN + 1 /\ cnt' = 0
              /\ reply' = [k |-> "acq", tag |-> srvin.tag, op |-> srvin.op, snap |-> srvin.p, acqn |-> acqN + 1, cnt |-> 0]
         [] srvin.k = "q" ->
              /\ reply' = [k |-> "res", tag |-> srvin.tag, op |-> srvin.op, snap |-> snapP, acqn |-> acqN, cnt |-> cnt]
              /\ cnt' = IF srvin.op = "qb" THEN cnt + 1 ELSE cnt
              /\ UNCHANGED <<snapP, acqN>>
    /\ UNCHANGED <<prog, pc, idx, sub, waitk, mu, acquired, sendq, st, hdl, got, out, h>>

\* client engine: the reply moves the protocol back to a client-agency state, then the handler runs
Deliver ==
    /\ reply # None /\ hdl = None
    /\ hdl' = reply /\ reply' = None /\ st' = "ready"
    /\ UNCHANGED <<prog, pc, idx, sub, waitk, mu, acquired, sendq, srvin, snapP, acqN, cnt, got, out, h>>

\* handler: resultChan <- reply; whoever waits on that channel receives it
HandOff(g) ==
    /\ hdl # None /\ pc[g] = "wait"
    /\ waitk[g] = (IF hdl.k = "acq" THEN "acq" ELSE "res")
    /\ got' = [got EXCEPT ![g] = Append(@, <<<<g, idx[g] + 1, sub[g]>>, hdl.tag>>)]
    /\ acquired' = IF hdl.k = "acq" THEN TRUE ELSE acquired
    /\ hdl' = None
    /\ IF hdl.k = "acq" /\ Op(g) \in QOps
       THEN pc' = [pc EXCEPT ![g] = "step"] /\ UNCHANGED out       \* auto-acquire done: now the query
       ELSE /\ pc' = [pc EXCEPT ![g] = "ret"]
            /\ out' = [out EXCEPT ![g] = Append(@, [op |-> Op(g), snap |-> hdl.snap, acqn |-> hdl.acqn, cnt |-> hdl.cnt])]
    /\ UNCHANGED <<prog, idx, sub, waitk, mu, sendq, st, srvin, reply, snapP, acqN, cnt, h>>

Return(g) ==
    /\ pc[g] = "ret"
    /\ mu' = IF mu = g THEN 0 ELSE mu
    /\ idx' = [idx EXCEPT ![g] = @ + 1]
    /\ sub' = [sub EXCEPT ![g] = 0]
    /\ pc' = [pc EXCEPT ![g] = "idle"]
    /\ Ev(<<"R", g>>)
    /\ UNCHANGED <<prog, waitk, acquired, sendq, st, srvin, reply, hdl, snapP, acqN, cnt, got, out>>

Next ==
    \/ \E g \in Gs : Invoke(g) \/ Lock(g) \/ Step(g) \/ HandOff(g) \/ Return(g)
    \/ Wire \/ Serve \/ Deliver

Spec == Init /\ [][Next]_vars /\ WF_vars(Next)

--------------------------------------------------------------------------
Terminal ==
    /\ \A g \in Gs : idx[g] = N /\ pc[g] = "idle"
    /\ sendq = <<>> /\ srvin = None /\ reply = None /\ hdl = None

TypeOK ==
    /\ mu \in 0..G
    /\ \A g \in Gs : pc[g] \in {"idle", "lock", "step", "wait", "ret"} /\ idx[g] \in 0..N /\ sub[g] \in 0..2

\* THE property: every reply received answers the request its receiver sent
OwnAnswer == \A g \in Gs : \A k \in 1..Len(got[g]) : got[g][k][1] = got[g][k][2]

\* the call mutex really serialises the calls
MutexExcl == Mutex => Cardinality({g \in Gs : pc[g] \in {"step", "wait", "ret"}}) <= 1

\* the server never sees a query outside an acquired session
QueryInSession == (AutoAcquire /\ srvin # None /\ srvin.k = "q") => snapP # 0

\* what a caller saw belongs to its own call (kind of call and, for sequential histories, the session)
OutShape == \A g \in Gs : Len(out[g]) <= N /\ \A k \in 1..Len(out[g]) : out[g][k].op = prog[g][k]

\* under RelRule no release is ever skipped, whatever the interleaving
RelLegal == RelRule => \A g \in Gs : \A k \in 1..Len(out[g]) : out[g][k].snap # -1

\* liveness: every call returns
Termination == <>Terminal

--------------------------------------------------------------------------
(* emission *)
Sequential == /\ Len(h) % 2 = 0
              /\ \A j \in 1..Len(h) : (j % 2 = 1) => (h[j][1] = "I" /\ h[j + 1] = <<"R", h[j][2]>>)

Write(row) == CSVWrite("%1$s", <<ToJson(row)>>, "rows.ndjson")
EmitRow ==
    (Hist /\ Terminal) =>
        Write([g |-> G, n |-> N, prog |-> prog, h |-> h, out |-> out, seq |-> Sequential,
               auto |-> AutoAcquire])
==============================================================================
