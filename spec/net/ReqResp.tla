------------------------------- MODULE ReqResp -------------------------------
(* C25  Local request/response calls get their own answers.

   One model for the blocking request/response clients
   (protocol/localstatequery, localtxmonitor, localtxsubmission, peersharing):

     G goroutines, each running a program of N API calls;
     a call  = take the client's call mutex (if the client has one: Mutex), then
               one or two requests: [auto-acquire when a query is issued while the
               client is not acquired (AutoAcquire)], the request itself; each
               request is enqueued with SendMessage and the caller then waits on
               the result channel of the expected reply kind; release() sends its
               message and does not wait;
     engine  = requests leave the send queue one at a time, only when the protocol
               is back in a client-agency state (st = "ready");
     server  = answers every request and TAGS the reply with the request it
               answers (ghost value) plus its session state: the acquired point,
               the number of acquisitions so far, the number of "next" queries
               served in this acquisition;
     handler = the client's message handler hands the reply to ANY goroutine that
               waits on the channel of that reply kind (one channel per kind,
               shared by all callers).

   OwnAnswer: every reply a caller received answers the request that caller sent.
   With Mutex = TRUE it holds across acquire / re-acquire / release. With
   Mutex = FALSE (peersharing.Client.GetPeers as read, F-C25) TLC finds two
   concurrent callers swapping replies (ReqRespNoMutex.cfg).

   Reply FORM (wave 5). A reply is not only "the answer to request t": it reaches the client in a FORM, and the
   form selects the branch of the client's message handler that deals with it. "plain" replies are the ones the
   typed decoder of the client accepts (results, Acquired, AcceptTx, RejectTx with a reason the ledger's error
   decoder knows). An "opaque" reply (op "qx") is a well-formed reply to the request whose payload the client's
   typed decoder does NOT accept (a RejectTx reason no known error type parses, a query result of another type).
   The property says nothing about what a client does with such a reply, so the model admits both (onop):
     "raw"   the reply is handed to the caller as it is (the caller sees its own reply, undecoded, or a decode
             error of its own reply) and the connection goes on;
     "fail"  the handler returns an error instead of handing the reply over: the connection fails (dead), the
             result channels are closed, the waiting call and every later call return an error and NO reply.
   In both, OwnAnswer must hold for every reply that is received afterwards, and a call may fail only because the
   connection failed on an opaque reply (ErrOnlyWhenDead). What must never happen is written down as a model of
   its own: DupOpaque = TRUE hands the opaque reply over and leaves it in the handler for a second hand-off
   (a handler branch that sends to the result channel and falls through to the ordinary send): TLC reports
   OwnAnswer violated, the duplicate is received by the NEXT call (ReqRespDupOpaque.cfg).

   Behaviours are emitted (Hist = TRUE) as rows: the programs, the history of
   invocation / return events and, per call, the reply the model's server gave. *)
EXTENDS Integers, Sequences, FiniteSets, TLC, Json, IOUtils, CSV

CONSTANTS G, N,
          Ops,          \* subset of {"acq1", "acq2", "rel", "qa", "qb", "qc", "qx"}
          Mutex,        \* the client serialises calls with a mutex
          AutoAcquire,  \* a query on a non-acquired client first acquires the tip
          RelRule,      \* restrict the programs so that every release is legal in every interleaving
          Hist,         \* carry and emit the history
          OnOpaque,     \* subset of {"raw", "fail"}: what the client may do with a reply its decoder does not accept
          DupOpaque     \* model of a broken handler: an opaque reply handed over raw stays in the handler for a second hand-off

Gs == 1..G
AcqOps == {"acq1", "acq2"}
QOps == {"qa", "qb", "qc", "qx"}
FormOf(op) == IF op = "qx" THEN "opaque" ELSE "plain"     \* the form in which the server's answer to this request arrives
ErrRec(op) == [op |-> op, snap |-> -2, acqn |-> 0, cnt |-> 0]   \* the call returned an error and no reply
PointOf(op) == IF op = "acq1" THEN 1 ELSE 2
Tip == 9
None == [k |-> "none"]

VARIABLES
    prog,      \* prog[g]: sequence of N ops (constant along a behaviour)
    pc,        \* pc[g]: idle, lock, step, wait, ret
    idx,       \* idx[g]: calls completed
    sub,       \* sub[g]: requests sent so far inside the running call
    waitk,     \* waitk[g]: reply kind the goroutine waits for
    mu,        \* 0 or the goroutine holding the call mutex
    acquired,  \* client-side flag (c.acquired)
    sendq,     \* engine send queue
    st,        \* "ready" (client has agency) | "busy"
    srvin,     \* request being served
    reply,     \* reply on its way back
    hdl,       \* reply inside the client's handler, waiting for a receiver
    snapP, acqN, cnt,   \* server session state
    got,       \* got[g]: <<request tag sent, reply received>> pairs
    out,       \* out[g]: per finished call, what the caller saw
    onop,      \* what this client does with an opaque reply (constant along a behaviour)
    dead,      \* the connection failed: no request is sent, no reply is handed over any more
    dup,       \* DupOpaque only: the reply in the handler has been handed over once already
    h          \* history of <<"I", g>> / <<"R", g>> events (Hist only)
vars == <<prog, pc, idx, sub, waitk, mu, acquired, sendq, st, srvin, reply, hdl, snapP, acqN, cnt, got, out, onop, dead, dup, h>>

Op(g) == prog[g][idx[g] + 1]
Tag(g) == <<g, idx[g] + 1, sub[g] + 1>>

\* Release on a client that is not acquired is a misuse of the API (the message is not permitted in the
\* idle state). In a sequential program the model skips such a call (out.snap = -1, the replay skips it too).
\* With several goroutines the programs are restricted (RelRule) so that a release is legal whatever the
\* interleaving: only one goroutine releases, and never twice without an acquire or query of its own in between.
RelLegalProgs(pr) ==
    /\ Cardinality({g \in Gs : \E i \in 1..N : pr[g][i] = "rel"}) <= 1
    /\ \A g \in Gs : \A i \in 1..N : pr[g][i] = "rel" => (i > 1 /\ pr[g][i - 1] # "rel")

Init ==
    /\ prog \in [Gs -> [1..N -> Ops]]
    /\ (RelRule => RelLegalProgs(prog))
    /\ onop \in OnOpaque
    /\ ((\A g \in Gs : \A i \in 1..N : prog[g][i] # "qx") => onop = CHOOSE x \in OnOpaque : TRUE)  \* no opaque reply: one behaviour, not two
    /\ dead = FALSE /\ dup = FALSE
    /\ pc = [g \in Gs |-> "idle"] /\ idx = [g \in Gs |-> 0] /\ sub = [g \in Gs |-> 0]
    /\ waitk = [g \in Gs |-> "none"]
    /\ mu = 0 /\ acquired = FALSE
    /\ sendq = <<>> /\ st = "ready" /\ srvin = None /\ reply = None /\ hdl = None
    /\ snapP = 0 /\ acqN = 0 /\ cnt = 0
    /\ got = [g \in Gs |-> <<>>] /\ out = [g \in Gs |-> <<>>]
    /\ h = <<>>

Ev(e) == IF Hist THEN h' = Append(h, e) ELSE h' = h

Invoke(g) ==
    /\ pc[g] = "idle" /\ idx[g] < N
    /\ pc' = [pc EXCEPT ![g] = "lock"]
    /\ Ev(<<"I", g>>)
    /\ UNCHANGED <<prog, idx, sub, waitk, mu, acquired, sendq, st, srvin, reply, hdl, snapP, acqN, cnt, got, out, onop, dead, dup>>

Lock(g) ==
    /\ pc[g] = "lock" /\ (Mutex => mu = 0)
    /\ mu' = IF Mutex THEN g ELSE mu
    /\ pc' = [pc EXCEPT ![g] = "step"]
    /\ UNCHANGED <<prog, idx, sub, waitk, acquired, sendq, st, srvin, reply, hdl, snapP, acqN, cnt, got, out, onop, dead, dup, h>>

\* next request of the running call
Step(g) ==
    /\ pc[g] = "step"
    /\ LET op == Op(g) IN
       IF op = "rel" /\ ~acquired
       THEN /\ out' = [out EXCEPT ![g] = Append(@, [op |-> op, snap |-> -1, acqn |-> 0, cnt |-> 0])]   \* skipped: nothing to release
            /\ pc' = [pc EXCEPT ![g] = "ret"]
            /\ UNCHANGED <<sendq, acquired, waitk, sub>>
       ELSE IF dead
       THEN /\ out' = [out EXCEPT ![g] = Append(@, ErrRec(op))]      \* SendMessage on a failed connection: an error, no request leaves
            /\ pc' = [pc EXCEPT ![g] = "ret"]
            /\ UNCHANGED <<sendq, acquired, waitk, sub>>
       ELSE IF op = "rel"
       THEN /\ sendq' = Append(sendq, [k |-> "rel", tag |-> Tag(g), p |-> 0, op |-> op])
            /\ acquired' = FALSE
            /\ out' = [out EXCEPT ![g] = Append(@, [op |-> op, snap |-> 0, acqn |-> 0, cnt |-> 0])]
            /\ pc' = [pc EXCEPT ![g] = "ret"]
            /\ UNCHANGED <<waitk, sub>>
       ELSE IF op \in AcqOps \/ (op \in QOps /\ AutoAcquire /\ ~acquired)
       THEN /\ sendq' = Append(sendq, [k |-> "acq", tag |-> Tag(g),
                                       p |-> IF op \in AcqOps THEN PointOf(op) ELSE Tip, op |-> op])
            /\ waitk' = [waitk EXCEPT ![g] = "acq"]
            /\ sub' = [sub EXCEPT ![g] = @ + 1]
            /\ pc' = [pc EXCEPT ![g] = "wait"]
            /\ UNCHANGED <<acquired, out>>
       ELSE /\ sendq' = Append(sendq, [k |-> "q", tag |-> Tag(g), p |-> 0, op |-> op])
            /\ waitk' = [waitk EXCEPT ![g] = "res"]
            /\ sub' = [sub EXCEPT ![g] = @ + 1]
            /\ pc' = [pc EXCEPT ![g] = "wait"]
            /\ UNCHANGED <<acquired, out>>
    /\ UNCHANGED <<prog, idx, mu, st, srvin, reply, hdl, snapP, acqN, cnt, got, onop, dead, dup, h>>

\* engine: one request at a time, only with client agency
Wire ==
    /\ sendq # <<>> /\ st = "ready" /\ srvin = None /\ ~dead
    /\ srvin' = Head(sendq) /\ sendq' = Tail(sendq)
    /\ st' = IF Head(sendq).k = "rel" THEN "ready" ELSE "busy"
    /\ UNCHANGED <<prog, pc, idx, sub, waitk, mu, acquired, reply, hdl, snapP, acqN, cnt, got, out, onop, dead, dup, h>>

\* server: answers the request and tags the reply with it
Serve ==
    /\ srvin # None /\ reply = None
    /\ srvin' = None
    /\ CASE srvin.k = "rel" ->
              /\ snapP' = 0 /\ cnt' = 0 /\ UNCHANGED <<acqN, reply>>
         [] srvin.k = "acq" ->
              /\ snapP' = srvin.p /\ acqN' = acqN + 1 /\ cnt' = 0
              /\ reply' = [k |-> "acq", tag |-> srvin.tag, op |-> srvin.op, snap |-> srvin.p, acqn |-> acqN + 1, cnt |-> 0, form |-> "plain"]
         [] srvin.k = "q" ->
              /\ reply' = [k |-> "res", tag |-> srvin.tag, op |-> srvin.op, snap |-> snapP, acqn |-> acqN, cnt |-> cnt, form |-> FormOf(srvin.op)]
              /\ cnt' = IF srvin.op = "qb" THEN cnt + 1 ELSE cnt
              /\ UNCHANGED <<snapP, acqN>>
    /\ UNCHANGED <<prog, pc, idx, sub, waitk, mu, acquired, sendq, st, hdl, got, out, onop, dead, dup, h>>

\* client engine: the reply moves the protocol back to a client-agency state, then the handler runs
Deliver ==
    /\ reply # None /\ hdl = None
    /\ hdl' = reply /\ reply' = None /\ st' = "ready"
    /\ UNCHANGED <<prog, pc, idx, sub, waitk, mu, acquired, sendq, srvin, snapP, acqN, cnt, got, out, onop, dead, dup, h>>

\* handler: resultChan <- reply; whoever waits on that channel receives it. An opaque reply is handed over as it
\* is (onop = "raw") or not at all (onop = "fail", FailConn).
HandOff(g) ==
    /\ hdl # None /\ ~dead /\ pc[g] = "wait"
    /\ ~(hdl.form = "opaque" /\ onop = "fail")
    /\ waitk[g] = (IF hdl.k = "acq" THEN "acq" ELSE "res")
    /\ got' = [got EXCEPT ![g] = Append(@, <<<<g, idx[g] + 1, sub[g]>>, hdl.tag>>)]
    /\ acquired' = IF hdl.k = "acq" THEN TRUE ELSE acquired
    /\ IF DupOpaque /\ hdl.form = "opaque" /\ ~dup
       THEN hdl' = hdl /\ dup' = TRUE          \* broken handler: the same reply will be sent to the channel once more
       ELSE hdl' = None /\ dup' = FALSE
    /\ IF hdl.k = "acq" /\ Op(g) \in QOps
       THEN pc' = [pc EXCEPT ![g] = "step"] /\ UNCHANGED out       \* auto-acquire done: now the query
       ELSE /\ pc' = [pc EXCEPT ![g] = "ret"]
            /\ out' = [out EXCEPT ![g] = Append(@, [op |-> Op(g), snap |-> hdl.snap, acqn |-> hdl.acqn, cnt |-> hdl.cnt])]
    /\ UNCHANGED <<prog, idx, sub, waitk, mu, sendq, st, srvin, reply, snapP, acqN, cnt, onop, dead, h>>

\* handler returns an error for a reply it cannot use: the connection fails, nobody receives the reply
FailConn ==
    /\ hdl # None /\ ~dead /\ hdl.form = "opaque" /\ onop = "fail"
    /\ dead' = TRUE /\ hdl' = None
    /\ UNCHANGED <<prog, pc, idx, sub, waitk, mu, acquired, sendq, st, srvin, reply, snapP, acqN, cnt, got, out, onop, dup, h>>

\* a caller waiting on a result channel of a failed connection: the channel is closed, the call returns an error
Abort(g) ==
    /\ dead /\ pc[g] = "wait"
    /\ out' = [out EXCEPT ![g] = Append(@, ErrRec(Op(g)))]
    /\ pc' = [pc EXCEPT ![g] = "ret"]
    /\ UNCHANGED <<prog, idx, sub, waitk, mu, acquired, sendq, st, srvin, reply, hdl, snapP, acqN, cnt, got, onop, dead, dup, h>>

Return(g) ==
    /\ pc[g] = "ret"
    /\ mu' = IF mu = g THEN 0 ELSE mu
    /\ idx' = [idx EXCEPT ![g] = @ + 1]
    /\ sub' = [sub EXCEPT ![g] = 0]
    /\ pc' = [pc EXCEPT ![g] = "idle"]
    /\ Ev(<<"R", g>>)
    /\ UNCHANGED <<prog, waitk, acquired, sendq, st, srvin, reply, hdl, snapP, acqN, cnt, got, out, onop, dead, dup>>

Next ==
    \/ \E g \in Gs : Invoke(g) \/ Lock(g) \/ Step(g) \/ HandOff(g) \/ Abort(g) \/ Return(g)
    \/ Wire \/ Serve \/ Deliver \/ FailConn

Spec == Init /\ [][Next]_vars /\ WF_vars(Next)

--------------------------------------------------------------------------
Terminal ==
    /\ \A g \in Gs : idx[g] = N /\ pc[g] = "idle"
    /\ sendq = <<>> /\ srvin = None /\ reply = None /\ (hdl = None \/ DupOpaque)

TypeOK ==
    /\ mu \in 0..G
    /\ onop \in OnOpaque /\ dead \in BOOLEAN /\ dup \in BOOLEAN /\ (dup => DupOpaque)
    /\ \A g \in Gs : pc[g] \in {"idle", "lock", "step", "wait", "ret"} /\ idx[g] \in 0..N /\ sub[g] \in 0..2

\* THE property: every reply received answers the request its receiver sent
OwnAnswer == \A g \in Gs : \A k \in 1..Len(got[g]) : got[g][k][1] = got[g][k][2]

\* the call mutex really serialises the calls
MutexExcl == Mutex => Cardinality({g \in Gs : pc[g] \in {"step", "wait", "ret"}}) <= 1

\* the server never sees a query outside an acquired session
QueryInSession == (AutoAcquire /\ srvin # None /\ srvin.k = "q") => snapP # 0

\* what a caller saw belongs to its own call (kind of call and, for sequential histories, the session)
OutShape == \A g \in Gs : Len(out[g]) <= N /\ \A k \in 1..Len(out[g]) : out[g][k].op = prog[g][k]

\* under RelRule no release is ever skipped, whatever the interleaving
RelLegal == RelRule => \A g \in Gs : \A k \in 1..Len(out[g]) : out[g][k].snap # -1

\* REPLY FORM: a call returns an error (and no reply) only on a failed connection, a connection fails only where
\* the client is of the kind that refuses opaque replies and the programs contain a request answered that way, and
\* nothing is handed over or sent on a failed connection
IsErr(o) == o.snap = -2
ErrOnlyWhenDead ==
    /\ (\E g \in Gs : \E k \in 1..Len(out[g]) : IsErr(out[g][k])) => dead
    /\ dead => (onop = "fail" /\ \E g \in Gs : \E i \in 1..N : prog[g][i] = "qx")
    /\ dead => (hdl = None /\ sendq = <<>>)
\* an opaque reply handed over raw is the caller's own reply like any other; after a failure every call that starts
\* returns an error: the calls of one goroutine are values up to some call and errors from there on
ErrSuffix == \A g \in Gs : \A k \in 1..Len(out[g]) : \A j \in 1..k :
                 (IsErr(out[g][j]) /\ out[g][k].snap # -1) => IsErr(out[g][k])
\* every opaque reply ends in exactly one of the two ways at the call that asked for it
OpaqueOutcome == \A g \in Gs : \A k \in 1..Len(out[g]) :
                    (out[g][k].op = "qx" /\ onop = "fail") => IsErr(out[g][k])

\* liveness: every call returns
Termination == <>Terminal

--------------------------------------------------------------------------
(* emission *)
Sequential == /\ Len(h) % 2 = 0
              /\ \A j \in 1..Len(h) : (j % 2 = 1) => (h[j][1] = "I" /\ h[j + 1] = <<"R", h[j][2]>>)

Write(row) == CSVWrite("%1$s", <<ToJson(row)>>, "rows.ndjson")
EmitRow ==
    (Hist /\ Terminal) =>
        Write([g |-> G, n |-> N, prog |-> prog, h |-> h, out |-> out, seq |-> Sequential,
               auto |-> AutoAcquire, onop |-> onop])
==============================================================================
