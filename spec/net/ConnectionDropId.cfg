CONSTANT NtNVersions = {9, 10, 13}
CONSTANT NtCVersions = {12}
CONSTANT DMQVersions = {1}
CONSTANT ExtraIds = {99}
CONSTANT Design = "dropid"
CONSTANT LkaOffKinds = {"ntn"}
CONSTANT LkaOffFull = FALSE
CONSTANT StopScope = "duplex"
INIT Init
NEXT Next
INVARIANT TypeOK
INVARIANT MachineMatchesOutcome
INVARIANT InitiatorOnlyNeverDeliversRequest
INVARIANT ResponderOnlyNeverDeliversResponse
INVARIANT StartedIffEnabled
INVARIANT StopRemovesExactlyThatPair
INVARIANT EnabledIsReachable
INVARIANT LocalOptInOnlyAffectsOwnInitiator
