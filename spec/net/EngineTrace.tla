---------------------------- MODULE EngineTrace ----------------------------
(* Trace validation of the protocol engine: every line of a trace recorded   *)
(* from the real code (harness/trace, `-tags verif` hooks in                 *)
(* protocol/protocol.go) must be a step of EngineObs.  Several traces are    *)
(* concatenated; each starts with a Reset line naming its state map.         *)
EXTENDS EngineObs, Json, IOUtils

Trace  == ndJsonDeserialize(IOEnv.VERIF_TRACE)

VARIABLES l,      \* next line
          skip,   \* the current trace was rejected: ignore its remaining lines
          errs    \* rejections so far: <<line number, rule>>
tvars == <<ovars, l, skip, errs>>

\* every trace starts with a Reset line that carries the state maps (fields smdef,
\* smdefs) the two endpoints were running with (TB binding: dumped from the Go StateMap)
TraceInit == /\ l = 1 /\ skip = FALSE /\ errs = <<>>
             /\ ObsInit(Trace[1].smdef, Trace[1].smdefs, Trace[1].a = 1)

Step(e) ==
    CASE e.ev = "State"    -> EvState(e.ep, e.s1, e.t)
      [] e.ev = "Trans"    -> EvTrans(e.ep, e.mt, e.s1, e.s2, e.t)
      [] e.ev = "TransErr" -> EvTransErr(e.ep, e.mt, e.s1, e.t)
      [] e.ev = "Enq"      -> EvEnq(e.ep, e.h, e.mt, e.len, e.g)
      [] e.ev = "EnqAbort" -> EvEnqAbort(e.ep, e.h, e.g)
      [] e.ev = "Enqd"     -> UNCHANGED ovars     \* the caller's view of a completed enqueue (used by drivers as a delay point)
      [] e.ev = "Deq"      -> EvDeq(e.ep, e.h, e.mt, e.len, e.a)
      [] e.ev = "SegOut"   -> EvSegOut(e.ep, e.len, e.a)
      [] e.ev = "SegIn"    -> EvSegIn(e.ep, e.len, e.a)
      [] e.ev = "MsgIn"    -> EvMsgIn(e.ep, e.mt, e.len, e.h, e.a, e.b, e.s1)
      [] e.ev = "RecvDeq"  -> EvRecvDeq(e.ep, e.mt)
      [] e.ev = "Handle"   -> EvHandle(e.ep, e.mt)
      [] e.ev = "RecvErr"  -> EvRecvErr(e.ep, e.mt)
      [] e.ev = "Release"  -> EvRelease(e.ep, e.mt, e.len, e.a)
      [] e.ev = "Error"    -> EvError(e.ep)
      [] e.ev = "Stop"     -> EvStop(e.ep)
      [] e.ev = "Exit"     -> EvExit(e.ep, e.s1)
      [] e.ev = "TimerArm" -> EvTimerArm(e.ep, e.s1, e.a, e.t)
      [] e.ev = "Timeout"  -> EvTimeout(e.ep, e.s1, e.t)
      [] e.ev = "End"      -> EvEnd(e.ep, e.s1)
      [] OTHER             -> Fail("unknown event " \o e.ev)

\* A rejected line ends the judgement of its trace only: the rule is recorded
\* and the remaining lines up to the next Reset are skipped, so one TLC run
\* judges every trace of the file.
TraceNext ==
    /\ l <= Len(Trace)
    /\ l' = l + 1
    /\ LET e == Trace[l] IN
         IF e.ev = "Reset"
           THEN ObsReset(e.smdef, e.smdefs, e.a = 1) /\ skip' = FALSE /\ UNCHANGED errs
         ELSE IF skip
           THEN UNCHANGED <<ovars, skip, errs>>
         ELSE /\ Step(e)
              /\ skip' = (obsErr' # "none")
              /\ errs' = IF obsErr' # "none" THEN Append(errs, <<l, obsErr'>>) ELSE errs

TraceSpec == TraceInit /\ [][TraceNext]_tvars

\* reported once, when every line has been consumed
Report == (l = Len(Trace) + 1) => PrintT(<<"REJECTS", ToJson(errs)>>)
\* all lines consumed (checked as a postcondition on the search depth)
AllConsumed == TLCGet("stats").diameter = Len(Trace) + 1
=============================================================================
