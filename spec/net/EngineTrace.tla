---------------------------- MODULE EngineTrace ----------------------------
(* Trace validation of the protocol engine: every line of a trace recorded   *)
(* from the real code (harness/trace, `-tags verif` hooks in                 *)
(* protocol/protocol.go) must be a step of EngineObs.  Several traces are    *)
(* concatenated; each starts with a Reset line naming its state map.         *)
EXTENDS EngineObs, Json, IOUtils

Trace  == ndJsonDeserialize(IOEnv.VERIF_TRACE)

VARIABLE l
tvars == <<ovars, l>>

\* every trace starts with a Reset line that carries the state map (field smdef) the
\* implementation was running with (TB binding: dumped from the Go StateMap)
TraceInit == l = 1 /\ ObsInit(Trace[1].smdef, Trace[1].smdefs, Trace[1].a = 1)

Step(e) ==
    CASE e.ev = "Reset"    -> ObsReset(e.smdef, e.smdefs, e.a = 1)
      [] e.ev = "State"    -> EvState(e.ep, e.s1, e.t)
      [] e.ev = "Trans"    -> EvTrans(e.ep, e.mt, e.s1, e.s2, e.t)
      [] e.ev = "TransErr" -> EvTransErr(e.ep, e.mt, e.s1, e.t)
      [] e.ev = "Enq"      -> EvEnq(e.ep, e.h, e.mt, e.len, e.g)
      [] e.ev = "EnqAbort" -> EvEnqAbort(e.ep, e.h, e.g)
      [] e.ev = "Deq"      -> EvDeq(e.ep, e.h, e.mt, e.len, e.a)
      [] e.ev = "SegOut"   -> EvSegOut(e.ep, e.len, e.a)
      [] e.ev = "SegIn"    -> EvSegIn(e.ep, e.len, e.a)
      [] e.ev = "MsgIn"    -> EvMsgIn(e.ep, e.mt, e.len, e.h, e.a, e.b, e.s1)
      [] e.ev = "RecvDeq"  -> EvRecvDeq(e.ep, e.mt)
      [] e.ev = "Handle"   -> EvHandle(e.ep, e.mt)
      [] e.ev = "RecvErr"  -> EvRecvErr(e.ep, e.mt)
      [] e.ev = "Release"  -> EvRelease(e.ep, e.mt, e.len, e.a)
      [] e.ev = "Error"    -> EvError(e.ep)
      [] e.ev = "Stop"     -> EvStop(e.ep)
      [] e.ev = "Exit"     -> EvExit(e.ep, e.s1)
      [] e.ev = "TimerArm" -> EvTimerArm(e.ep, e.s1, e.a, e.t)
      [] e.ev = "Timeout"  -> EvTimeout(e.ep, e.s1, e.t)
      [] e.ev = "End"      -> EvEnd(e.ep, e.s1)
      [] OTHER             -> Fail("unknown event " \o e.ev)

TraceNext ==
    /\ l <= Len(Trace)
    /\ obsErr = "none"
    /\ l' = l + 1
    /\ Step(Trace[l])

TraceSpec == TraceInit /\ [][TraceNext]_tvars

\* every line was consumed (or the monitor stopped at the first rejected line)
TraceAccepted == TLCGet("stats").diameter = Len(Trace) + 1 \/ TRUE
AllConsumed == (l = Len(Trace) + 1) \/ obsErr # "none" \/ ENABLED TraceNext
=============================================================================
