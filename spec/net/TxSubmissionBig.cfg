\* C24 quick: histories of 2 non-blocking calls with req = Limit whose replies hit the limit (Limit and Limit+1 ids)
CONSTANTS
  Limit = 3
  Reqs <- LimitReq
  Replies <- BigReplies
  Blockings <- OnlyNonBlocking
  TxNs = {}
  Mode = "hist"
  MaxLen = 2
  Chains = 0
INIT Init
NEXT Next
INVARIANTS TypeOK AckedLeReceived AckWithinOutstanding OutstandingExact WireInRange RefusedLocally PerCall DoneOnlyFromBlocking OutRejectsOverLimit EmitHist
