----------------------------- MODULE EngineObs -----------------------------
(***************************************************************************)
(* Observable behaviour of one mini-protocol conversation run by the       *)
(* gouroboros protocol engine (protocol/protocol.go): the state machine    *)
(* over the `verif` trace events of both endpoints (client, server).       *)
(*                                                                         *)
(* Every event operator is TOTAL: an event that the engine must never      *)
(* produce in the current state does not disable the step, it records the  *)
(* reason in obsErr (sticky).  ObsOK == obsErr = "none" is the invariant.   *)
(* The same operators are used                                             *)
(*   - by EngineTrace.tla to validate traces recorded from the real code,  *)
(*   - by Engine.tla (the goroutine-level model), whose every action emits *)
(*     the corresponding event, so TLC checks that the design only ever    *)
(*     produces accepted event sequences (refinement by construction).     *)
(*                                                                         *)
(* Properties encoded (DESIGN Appendix A):                                 *)
(*  C10 stream integrity    MsgIn at B = next message dequeued at A, same  *)
(*                          hash and length; SegIn lengths = SegOut lengths*)
(*  C11 agency/permission   a receive transition needs peer agency and a   *)
(*                          permitted message; Handle only after it; no    *)
(*                          Handle after a receive-side error               *)
(*  C12 order/exactly once  Deq is FIFO per enqueuing goroutine; send      *)
(*                          transitions follow dequeue order, each once;   *)
(*                          nothing is written after an illegal first      *)
(*                          message; first message transitions before the  *)
(*                          segment is written                             *)
(*  C13 bounded buffering   admission: len <= limit, pending <= limit, the *)
(*                          limit is the one of the state that was read;   *)
(*                          pending = sum of the admitted sizes            *)
(*  C14 timers              armed only for states with a timeout and not   *)
(*                          for the initial state; Timeout only when armed *)
(*                          and expired; disarmed by every state change    *)
(***************************************************************************)
EXTENDS Integers, Sequences, FiniteSets, TLC

CONSTANTS SegMax,    \* 65535
          MaxBatch   \* 20

EP == {"client", "server"}
Peer(ep) == IF ep = "client" THEN "server" ELSE "client"

VARIABLES
    sm,          \* [EP -> state map in force: record (init, agency, trans, limit, timeout)], set by Reset
    linked,      \* both endpoints are traced and talk to each other
    st,          \* [EP -> state name]   ("" before the initial State event)
    transCount,  \* [EP -> number of transitions so far]
    enq,         \* [EP -> Seq([h, mt, len, g])] enqueued, not yet dequeued
    pendTrans,   \* [EP -> Seq(mt)] dequeued, send transition outstanding
    firstPend,   \* [EP -> BOOLEAN] first message of the batch not yet transitioned
    sendFailed,  \* [EP -> BOOLEAN] a send-side transition failed
    outBytes,    \* [EP -> bytes dequeued into the payload buffer, not yet written]
    batchCount,  \* [EP -> messages in the current batch]
    wire,        \* [EP -> Seq(len)] segments written by EP, not yet read by the peer
    sent,        \* [EP -> Seq([h, len])] messages dequeued by EP, not yet admitted by the peer
    inBuf,       \* [EP -> bytes received, not yet consumed as messages]
    recvQ,       \* [EP -> Seq([mt, len])]
    cur,         \* [EP -> [mt, phase]] the message recvLoop is working on
    pend, sizes, \* [EP -> pendingRecvBytes], [EP -> Seq(len)]
    recvErr, errCount, stopSeen, exits,
    timer,       \* [EP -> [armed, state, at, dur]]
    timeouts,    \* [EP -> number of Timeout events]
    handled,     \* [EP -> number of Handle events]
    obsErr

ovars == <<sm, linked, st, transCount, enq, pendTrans, firstPend, sendFailed, outBytes, batchCount,
           wire, sent, inBuf, recvQ, cur, pend, sizes, recvErr, errCount, stopSeen, exits,
           timer, timeouts, handled, obsErr>>

\* sm[ep] is the state map endpoint ep runs with (the two endpoints of a conversation
\* may be configured with different byte limits and timeouts)
SM(ep) == sm[ep]
Agency(ep, s) == IF s \in DOMAIN SM(ep).agency THEN SM(ep).agency[s] ELSE "unknown"
HasTrans(ep, f, m, t) == \E i \in DOMAIN SM(ep).trans :
                            SM(ep).trans[i].f = f /\ SM(ep).trans[i].m = m /\ SM(ep).trans[i].t = t
Permitted(ep, f, m)   == \E i \in DOMAIN SM(ep).trans : SM(ep).trans[i].f = f /\ SM(ep).trans[i].m = m
\* every transition for (f, m) depends on the message payload (MatchFunc)
AllConditional(ep, f, m) == \A i \in DOMAIN SM(ep).trans :
                            (SM(ep).trans[i].f = f /\ SM(ep).trans[i].m = m) => SM(ep).trans[i].c
LimitOf(ep, s)   == IF s \in DOMAIN SM(ep).limit THEN SM(ep).limit[s] ELSE 0
TimeoutOf(ep, s) == IF s \in DOMAIN SM(ep).timeout THEN SM(ep).timeout[s] ELSE 0   \* microseconds; -1 = dynamic

\* need: a state with a timeout was entered and its timer has not been armed yet
NoTimer == [armed |-> FALSE, state |-> "", at |-> 0, dur |-> 0, need |-> FALSE]
\* ab: message type of a receive transition request that recvLoop abandoned because it
\* saw the stop signal first; stateLoop may still answer it afterwards
NoCur   == [mt |-> -1, phase |-> "none", ab |-> -1]

ObsInit(smc, sms, lnk) ==
    /\ sm = [e \in EP |-> IF e = "client" THEN smc ELSE sms] /\ linked = lnk
    /\ st = [e \in EP |-> ""]
    /\ transCount = [e \in EP |-> 0]
    /\ enq = [e \in EP |-> <<>>]
    /\ pendTrans = [e \in EP |-> <<>>]
    /\ firstPend = [e \in EP |-> FALSE]
    /\ sendFailed = [e \in EP |-> FALSE]
    /\ outBytes = [e \in EP |-> 0]
    /\ batchCount = [e \in EP |-> 0]
    /\ wire = [e \in EP |-> <<>>]
    /\ sent = [e \in EP |-> <<>>]
    /\ inBuf = [e \in EP |-> 0]
    /\ recvQ = [e \in EP |-> <<>>]
    /\ cur = [e \in EP |-> NoCur]
    /\ pend = [e \in EP |-> 0]
    /\ sizes = [e \in EP |-> <<>>]
    /\ recvErr = [e \in EP |-> FALSE]
    /\ errCount = [e \in EP |-> 0]
    /\ stopSeen = [e \in EP |-> FALSE]
    /\ exits = [e \in EP |-> {}]
    /\ timer = [e \in EP |-> NoTimer]
    /\ timeouts = [e \in EP |-> 0]
    /\ handled = [e \in EP |-> 0]
    /\ obsErr = "none"

\* re-initialisation between concatenated traces
ObsReset(smc, sms, lnk) ==
    /\ sm' = [e \in EP |-> IF e = "client" THEN smc ELSE sms] /\ linked' = lnk
    /\ st' = [e \in EP |-> ""]
    /\ transCount' = [e \in EP |-> 0]
    /\ enq' = [e \in EP |-> <<>>]
    /\ pendTrans' = [e \in EP |-> <<>>]
    /\ firstPend' = [e \in EP |-> FALSE]
    /\ sendFailed' = [e \in EP |-> FALSE]
    /\ outBytes' = [e \in EP |-> 0]
    /\ batchCount' = [e \in EP |-> 0]
    /\ wire' = [e \in EP |-> <<>>]
    /\ sent' = [e \in EP |-> <<>>]
    /\ inBuf' = [e \in EP |-> 0]
    /\ recvQ' = [e \in EP |-> <<>>]
    /\ cur' = [e \in EP |-> NoCur]
    /\ pend' = [e \in EP |-> 0]
    /\ sizes' = [e \in EP |-> <<>>]
    /\ recvErr' = [e \in EP |-> FALSE]
    /\ errCount' = [e \in EP |-> 0]
    /\ stopSeen' = [e \in EP |-> FALSE]
    /\ exits' = [e \in EP |-> {}]
    /\ timer' = [e \in EP |-> NoTimer]
    /\ timeouts' = [e \in EP |-> 0]
    /\ handled' = [e \in EP |-> 0]
    /\ obsErr' = "none"

Fail(msg) ==
    /\ obsErr' = msg
    /\ UNCHANGED <<sm, linked, st, transCount, enq, pendTrans, firstPend, sendFailed, outBytes, batchCount,
                   wire, sent, inBuf, recvQ, cur, pend, sizes, recvErr, errCount, stopSeen, exits,
                   timer, timeouts, handled>>

Keep(vs) == UNCHANGED vs /\ UNCHANGED obsErr

DropAt(s, i) == SubSeq(s, 1, i - 1) \o SubSeq(s, i + 1, Len(s))
Max2(a, b) == IF a > b THEN a ELSE b
Min2(a, b) == IF a < b THEN a ELSE b

-----------------------------------------------------------------------------
\* State(s): setState assigned the current state (under currentStateMu)
EvState(ep, s, t) ==
    IF st[ep] = "" /\ s # SM(ep).init THEN Fail("State: initial state is not the protocol's initial state")
    ELSE IF st[ep] # "" /\ s # st[ep] THEN Fail("State: state set without a matching transition")
    ELSE IF timer[ep].need THEN Fail("TimerArm missing: a state with a timeout was entered without arming its timer")
    ELSE /\ st' = [st EXCEPT ![ep] = s]
         \* setState stops the previous timer first; a non-initial state with a timeout must be armed next
         /\ timer' = [timer EXCEPT ![ep] = [NoTimer EXCEPT !.need = (transCount[ep] > 0 /\ TimeoutOf(ep, s) # 0 /\ Agency(ep, s) # "none")]]
         /\ Keep(<<sm, linked, transCount, enq, pendTrans, firstPend, sendFailed, outBytes, batchCount,
                   wire, sent, inBuf, recvQ, cur, pend, sizes, recvErr, errCount, stopSeen, exits,
                   timeouts, handled>>)

\* Trans(mt, from, to): stateLoop accepted a transition request
EvTrans(ep, mt, from, to, t) ==
    IF timer[ep].need THEN Fail("TimerArm missing: a state with a timeout was entered without arming its timer")
    ELSE IF from # st[ep] THEN Fail("Trans: transition from a state that is not the current one")
    ELSE IF ~HasTrans(ep, from, mt, to) THEN Fail("Trans: transition not in the state map")
    ELSE IF Agency(ep, from) = ep THEN
        \* we hold agency: this must be the send transition of the oldest dequeued message
        IF pendTrans[ep] = <<>> \/ Head(pendTrans[ep]) # mt
          THEN Fail("Trans(send): not the oldest dequeued message without a transition")
          ELSE /\ pendTrans' = [pendTrans EXCEPT ![ep] = Tail(@)]
               /\ firstPend' = [firstPend EXCEPT ![ep] = FALSE]
               /\ st' = [st EXCEPT ![ep] = to]
               /\ transCount' = [transCount EXCEPT ![ep] = @ + 1]
               /\ Keep(<<sm, linked, enq, sendFailed, outBytes, batchCount, wire, sent, inBuf, recvQ, cur,
                         pend, sizes, recvErr, errCount, stopSeen, exits, timer, timeouts, handled>>)
    ELSE IF Agency(ep, from) = Peer(ep) THEN
        IF cur[ep].phase = "none" /\ cur[ep].ab = mt
          THEN \* late answer to an abandoned request (the protocol is stopping)
               /\ cur' = [cur EXCEPT ![ep].ab = -1]
               /\ st' = [st EXCEPT ![ep] = to]
               /\ transCount' = [transCount EXCEPT ![ep] = @ + 1]
               /\ Keep(<<sm, linked, enq, pendTrans, firstPend, sendFailed, outBytes, batchCount, wire, sent,
                         inBuf, recvQ, pend, sizes, recvErr, errCount, stopSeen, exits, timer, timeouts, handled>>)
        ELSE IF cur[ep].phase # "taken" \/ cur[ep].mt # mt
          THEN Fail("Trans(recv): not the message the receive loop is processing")
        ELSE IF recvErr[ep] THEN Fail("Trans(recv): after a receive-side error")
        ELSE /\ cur' = [cur EXCEPT ![ep].phase = "trans"]
             /\ st' = [st EXCEPT ![ep] = to]
             /\ transCount' = [transCount EXCEPT ![ep] = @ + 1]
             /\ Keep(<<sm, linked, enq, pendTrans, firstPend, sendFailed, outBytes, batchCount, wire, sent,
                       inBuf, recvQ, pend, sizes, recvErr, errCount, stopSeen, exits, timer, timeouts, handled>>)
    ELSE Fail("Trans: transition out of a state in which nobody has agency")

\* TransErr(mt, from): stateLoop refused a transition request
EvTransErr(ep, mt, from, t) ==
    IF from # st[ep] THEN Fail("TransErr: state is not the current one")
    ELSE IF Permitted(ep, from, mt) /\ ~AllConditional(ep, from, mt)
        THEN Fail("TransErr: a message the state map permits was refused")
    ELSE IF cur[ep].phase = "none" /\ cur[ep].ab = mt
        THEN /\ cur' = [cur EXCEPT ![ep].ab = -1]      \* late answer to an abandoned request
             /\ Keep(<<sm, linked, st, transCount, enq, pendTrans, firstPend, sendFailed, outBytes, batchCount,
                       wire, sent, inBuf, recvQ, pend, sizes, recvErr, errCount, stopSeen, exits, timer,
                       timeouts, handled>>)
    ELSE IF cur[ep].phase = "taken" /\ cur[ep].mt = mt
        THEN /\ cur' = [cur EXCEPT ![ep].phase = "failed"]
             /\ Keep(<<sm, linked, st, transCount, enq, pendTrans, firstPend, sendFailed, outBytes, batchCount,
                       wire, sent, inBuf, recvQ, pend, sizes, recvErr, errCount, stopSeen, exits, timer,
                       timeouts, handled>>)
    ELSE IF pendTrans[ep] # <<>> /\ Head(pendTrans[ep]) = mt
        THEN /\ sendFailed' = [sendFailed EXCEPT ![ep] = TRUE]
             /\ Keep(<<sm, linked, st, transCount, enq, pendTrans, firstPend, outBytes, batchCount,
                       wire, sent, inBuf, recvQ, cur, pend, sizes, recvErr, errCount, stopSeen, exits, timer,
                       timeouts, handled>>)
    ELSE Fail("TransErr: no outstanding transition request for this message")

EvEnq(ep, h, mt, len, g) ==
    /\ enq' = [enq EXCEPT ![ep] = Append(@, [h |-> h, mt |-> mt, len |-> len, g |-> g])]
    /\ Keep(<<sm, linked, st, transCount, pendTrans, firstPend, sendFailed, outBytes, batchCount,
              wire, sent, inBuf, recvQ, cur, pend, sizes, recvErr, errCount, stopSeen, exits, timer,
              timeouts, handled>>)

EvEnqAbort(ep, h, g) ==
    LET idx == {i \in DOMAIN enq[ep] : enq[ep][i].h = h /\ enq[ep][i].g = g} IN
    IF idx = {} THEN Fail("EnqAbort: message was not enqueued")
    ELSE LET i == CHOOSE j \in idx : \A k \in idx : k <= j IN
         /\ enq' = [enq EXCEPT ![ep] = DropAt(@, i)]
         /\ Keep(<<sm, linked, st, transCount, pendTrans, firstPend, sendFailed, outBytes, batchCount,
                   wire, sent, inBuf, recvQ, cur, pend, sizes, recvErr, errCount, stopSeen, exits, timer,
                   timeouts, handled>>)

\* Deq(h, mt, len, n): sendLoop took a message from the send queue (n-th of its batch)
EvDeq(ep, h, mt, len, n) ==
    LET idx == {i \in DOMAIN enq[ep] : enq[ep][i].h = h /\ enq[ep][i].mt = mt /\ enq[ep][i].len = len} IN
    IF idx = {} THEN Fail("Deq: a message that was never enqueued (or twice)")
    ELSE LET i == CHOOSE j \in idx : \A k \in idx : j <= k IN
         IF \E j \in 1..(i - 1) : enq[ep][j].g = enq[ep][i].g
           THEN Fail("Deq: overtakes an earlier message of the same sender")
         ELSE IF n # batchCount[ep] + 1 \/ n > MaxBatch THEN Fail("Deq: batch counter")
         ELSE IF sendFailed[ep] THEN Fail("Deq: after a failed send transition")
         ELSE /\ enq' = [enq EXCEPT ![ep] = DropAt(@, i)]
              /\ pendTrans' = [pendTrans EXCEPT ![ep] = Append(@, mt)]
              /\ firstPend' = [firstPend EXCEPT ![ep] = IF n = 1 THEN TRUE ELSE @]
              /\ outBytes' = [outBytes EXCEPT ![ep] = @ + len]
              /\ batchCount' = [batchCount EXCEPT ![ep] = n]
              /\ sent' = [sent EXCEPT ![ep] = Append(@, [h |-> h, len |-> len])]
              /\ Keep(<<sm, linked, st, transCount, sendFailed, wire, inBuf, recvQ, cur, pend, sizes,
                        recvErr, errCount, stopSeen, exits, timer, timeouts, handled>>)

\* SegOut(len, buf): sendLoop is about to hand a segment to the muxer; buf = payload buffer length
EvSegOut(ep, len, buf) ==
    IF buf # outBytes[ep] THEN Fail("SegOut: payload buffer is not the concatenation of the dequeued messages")
    ELSE IF len # Min2(outBytes[ep], SegMax) \/ len <= 0 THEN Fail("SegOut: segment length")
    ELSE IF firstPend[ep] THEN Fail("SegOut: written before the first message's state transition")
    ELSE IF sendFailed[ep] THEN Fail("SegOut: written after a refused send transition")
    ELSE /\ outBytes' = [outBytes EXCEPT ![ep] = @ - len]
         /\ batchCount' = [batchCount EXCEPT ![ep] = IF outBytes[ep] = len THEN 0 ELSE @]
         /\ wire' = [wire EXCEPT ![ep] = IF linked THEN Append(@, len) ELSE @]
         /\ Keep(<<sm, linked, st, transCount, enq, pendTrans, firstPend, sendFailed, sent, inBuf, recvQ, cur,
                   pend, sizes, recvErr, errCount, stopSeen, exits, timer, timeouts, handled>>)

\* SegIn(len, buf): readLoop appended a segment payload; buf = buffer length afterwards
EvSegIn(ep, len, buf) ==
    IF linked /\ (wire[Peer(ep)] = <<>> \/ Head(wire[Peer(ep)]) # len)
        THEN Fail("SegIn: segment is not the next one the peer wrote")
    ELSE IF buf # inBuf[ep] + len THEN Fail("SegIn: read buffer length")
    ELSE /\ inBuf' = [inBuf EXCEPT ![ep] = @ + len]
         /\ wire' = [wire EXCEPT ![Peer(ep)] = IF linked THEN Tail(@) ELSE @]
         /\ Keep(<<sm, linked, st, transCount, enq, pendTrans, firstPend, sendFailed, outBytes, batchCount,
                   sent, recvQ, cur, pend, sizes, recvErr, errCount, stopSeen, exits, timer, timeouts, handled>>)

\* MsgIn(mt, len, h, pending, limit, state): readLoop admitted a decoded message (under pendingBytesMu)
EvMsgIn(ep, mt, len, h, pending, limit, sread) ==
    IF len > inBuf[ep] THEN Fail("MsgIn: message longer than the buffered bytes")
    ELSE IF linked /\ (sent[Peer(ep)] = <<>> \/ Head(sent[Peer(ep)]) # [h |-> h, len |-> len])
        THEN Fail("MsgIn: not the next message the peer dequeued (bytes or order differ)")
    ELSE IF limit # LimitOf(ep, sread) THEN Fail("MsgIn: limit is not the limit of the state that was read")
    ELSE IF limit > 0 /\ len > limit THEN Fail("MsgIn: oversized message admitted")
    ELSE IF limit > 0 /\ pending > limit THEN Fail("MsgIn: pending receive bytes above the state's limit")
    ELSE IF pending # pend[ep] + len THEN Fail("MsgIn: pending byte accounting")
    ELSE /\ inBuf' = [inBuf EXCEPT ![ep] = @ - len]
         /\ sent' = [sent EXCEPT ![Peer(ep)] = IF linked THEN Tail(@) ELSE @]
         /\ pend' = [pend EXCEPT ![ep] = pending]
         /\ sizes' = [sizes EXCEPT ![ep] = Append(@, len)]
         /\ recvQ' = [recvQ EXCEPT ![ep] = Append(@, [mt |-> mt, len |-> len])]
         /\ Keep(<<sm, linked, st, transCount, enq, pendTrans, firstPend, sendFailed, outBytes, batchCount,
                   wire, cur, recvErr, errCount, stopSeen, exits, timer, timeouts, handled>>)

EvRecvDeq(ep, mt) ==
    IF recvQ[ep] = <<>> \/ Head(recvQ[ep]).mt # mt THEN Fail("RecvDeq: not the oldest admitted message")
    ELSE IF cur[ep].phase # "none" THEN Fail("RecvDeq: previous message not finished")
    ELSE IF recvErr[ep] THEN Fail("RecvDeq: receive loop continued after a receive-side error")
    ELSE /\ recvQ' = [recvQ EXCEPT ![ep] = Tail(@)]
         /\ cur' = [cur EXCEPT ![ep] = [mt |-> mt, phase |-> "taken", ab |-> -1]]
         /\ Keep(<<sm, linked, st, transCount, enq, pendTrans, firstPend, sendFailed, outBytes, batchCount,
                   wire, sent, inBuf, pend, sizes, recvErr, errCount, stopSeen, exits, timer, timeouts, handled>>)

EvHandle(ep, mt) ==
    IF cur[ep].mt # mt \/ cur[ep].phase # "trans"
        THEN Fail("Handle: handler called without an accepted receive transition for this message")
    ELSE IF recvErr[ep] THEN Fail("Handle: after a receive-side error")
    ELSE /\ cur' = [cur EXCEPT ![ep].phase = "handling"]
         /\ handled' = [handled EXCEPT ![ep] = @ + 1]
         /\ Keep(<<sm, linked, st, transCount, enq, pendTrans, firstPend, sendFailed, outBytes, batchCount,
                   wire, sent, inBuf, recvQ, pend, sizes, recvErr, errCount, stopSeen, exits, timer, timeouts>>)

\* RecvErr: handleMessage returned an error (refused transition, handler error, or shutdown)
EvRecvErr(ep, mt) ==
    \* "trans": the transition was accepted but the requester saw the stop signal first
    IF cur[ep].mt # mt \/ cur[ep].phase \notin {"taken", "failed", "handling", "trans"}
        THEN Fail("RecvErr: no message in progress")
    ELSE /\ recvErr' = [recvErr EXCEPT ![ep] = TRUE]
         /\ cur' = [cur EXCEPT ![ep] = [mt |-> -1, phase |-> "none",
                                       ab |-> IF cur[ep].phase = "taken" THEN mt ELSE -1]]
         /\ Keep(<<sm, linked, st, transCount, enq, pendTrans, firstPend, sendFailed, outBytes, batchCount,
                   wire, sent, inBuf, recvQ, pend, sizes, errCount, stopSeen, exits, timer, timeouts, handled>>)

\* Release(mt, size, pending): the handler returned nil; bytes released (under pendingBytesMu)
EvRelease(ep, mt, size, pending) ==
    IF cur[ep].mt # mt \/ cur[ep].phase # "handling" THEN Fail("Release: handler was not running for this message")
    ELSE IF sizes[ep] = <<>> \/ Head(sizes[ep]) # size THEN Fail("Release: size is not the oldest admitted size")
    ELSE IF pending # Max2(0, pend[ep] - size) THEN Fail("Release: pending byte accounting")
    ELSE /\ sizes' = [sizes EXCEPT ![ep] = Tail(@)]
         /\ pend' = [pend EXCEPT ![ep] = pending]
         /\ cur' = [cur EXCEPT ![ep] = NoCur]
         /\ Keep(<<sm, linked, st, transCount, enq, pendTrans, firstPend, sendFailed, outBytes, batchCount,
                   wire, sent, inBuf, recvQ, recvErr, errCount, stopSeen, exits, timer, timeouts, handled>>)

EvError(ep) ==
    /\ errCount' = [errCount EXCEPT ![ep] = @ + 1]
    /\ Keep(<<sm, linked, st, transCount, enq, pendTrans, firstPend, sendFailed, outBytes, batchCount,
              wire, sent, inBuf, recvQ, cur, pend, sizes, recvErr, stopSeen, exits, timer, timeouts, handled>>)

EvStop(ep) ==
    /\ stopSeen' = [stopSeen EXCEPT ![ep] = TRUE]
    /\ Keep(<<sm, linked, st, transCount, enq, pendTrans, firstPend, sendFailed, outBytes, batchCount,
              wire, sent, inBuf, recvQ, cur, pend, sizes, recvErr, errCount, exits, timer, timeouts, handled>>)

EvExit(ep, loop) ==
    /\ exits' = [exits EXCEPT ![ep] = @ \cup {loop}]
    /\ Keep(<<sm, linked, st, transCount, enq, pendTrans, firstPend, sendFailed, outBytes, batchCount,
              wire, sent, inBuf, recvQ, cur, pend, sizes, recvErr, errCount, stopSeen, timer, timeouts, handled>>)

\* TimerArm(state, dur): a state timer was started (dur in microseconds)
EvTimerArm(ep, s, dur, t) ==
    IF s # st[ep] THEN Fail("TimerArm: not for the current state")
    ELSE IF transCount[ep] = 0 THEN Fail("TimerArm: timer armed for the initial state")
    ELSE IF TimeoutOf(ep, s) = 0 THEN Fail("TimerArm: state has no timeout")
    ELSE IF TimeoutOf(ep, s) > 0 /\ dur # TimeoutOf(ep, s) THEN Fail("TimerArm: duration is not the state's timeout")
    ELSE IF timer[ep].armed THEN Fail("TimerArm: previous timer still armed")
    ELSE /\ timer' = [timer EXCEPT ![ep] = [armed |-> TRUE, state |-> s, at |-> t, dur |-> dur, need |-> FALSE]]
         /\ Keep(<<sm, linked, st, transCount, enq, pendTrans, firstPend, sendFailed, outBytes, batchCount,
                   wire, sent, inBuf, recvQ, cur, pend, sizes, recvErr, errCount, stopSeen, exits, timeouts,
                   handled>>)

\* Timeout(state): the state timer fired
EvTimeout(ep, s, t) ==
    IF ~timer[ep].armed \/ timer[ep].state # s \/ s # st[ep] THEN Fail("Timeout: no timer armed for this state")
    ELSE IF t - timer[ep].at < timer[ep].dur - 1000 THEN Fail("Timeout: fired before the state's timeout elapsed")
    ELSE /\ timer' = [timer EXCEPT ![ep] = NoTimer]
         /\ timeouts' = [timeouts EXCEPT ![ep] = @ + 1]
         /\ Keep(<<sm, linked, st, transCount, enq, pendTrans, firstPend, sendFailed, outBytes, batchCount,
                   wire, sent, inBuf, recvQ, cur, pend, sizes, recvErr, errCount, stopSeen, exits, handled>>)

\* End(expect): the driver closes the trace after everything has come to rest
\*  expect = "clean"   : conforming conversation, nothing may be left over and no error
\*           "error"   : the endpoint must have reported an error and stopped
\*           "timeout" : ... and the error must be a state timeout
\*           "any"     : only the unconditional end-of-trace rules
EvEnd(ep, expect) ==
    IF errCount[ep] > 0 /\ ~stopSeen[ep] THEN Fail("End: error reported but the protocol was not stopped")
    ELSE IF expect = "clean" /\ (errCount[ep] > 0 \/ pendTrans[ep] # <<>> \/ recvQ[ep] # <<>> \/ outBytes[ep] # 0
                                 \/ enq[ep] # <<>> \/ cur[ep].phase # "none" \/ inBuf[ep] # 0
                                 \/ (linked /\ (wire[ep] # <<>> \/ sent[ep] # <<>>)))
        THEN Fail("End: conforming conversation did not complete cleanly")
    ELSE IF expect \in {"error", "timeout"} /\ errCount[ep] = 0 THEN Fail("End: expected error was not reported")
    ELSE IF expect = "timeout" /\ timeouts[ep] = 0 THEN Fail("End: expected state timeout did not fire")
    ELSE IF expect = "notimeout" /\ timeouts[ep] > 0 THEN Fail("End: spurious state timeout")
    ELSE IF stopSeen[ep] /\ exits[ep] # {"send", "read", "recv", "state"} /\ expect # "any"
        THEN Fail("End: protocol stopped but not every loop exited")
    ELSE UNCHANGED ovars

ObsOK == obsErr = "none"
=============================================================================
