\* C24 quick: every history of 4 calls with a fixed legal req (window arithmetic, Done/restart)
CONSTANTS
  Limit = 3
  Reqs <- OneReq
  Replies <- WinReplies
  Blockings <- BOOLEAN
  TxNs = {1}
  Mode = "hist"
  MaxLen = 4
  Chains = 0
INIT Init
NEXT Next
INVARIANTS TypeOK AckedLeReceived AckWithinOutstanding OutstandingExact WireInRange RefusedLocally PerCall DoneOnlyFromBlocking OutRejectsOverLimit EmitHist
