CONSTANT NtNVersions = {7, 8, 9, 10, 11, 12, 13, 14, 15}
CONSTANT NtCVersions = {9, 10, 11, 12, 13, 14, 15, 16, 17, 18, 19, 20, 21}
CONSTANT DMQVersions = {1}
CONSTANT ExtraIds = {11, 99}
CONSTANT Design = "fixed"
CONSTANT LkaOffKinds = {"ntn"}
CONSTANT LkaOffFull = FALSE
CONSTANT StopScope = "duplex"
INIT Init
NEXT Next
INVARIANT TypeOK
INVARIANT MachineMatchesOutcome
INVARIANT InitiatorOnlyNeverDeliversRequest
INVARIANT ResponderOnlyNeverDeliversResponse
INVARIANT StartedIffEnabled
INVARIANT EnabledIsReachable
INVARIANT LocalOptInOnlyAffectsOwnInitiator
INVARIANT StopRemovesExactlyThatPair
