CONSTANTS
  MaxOps = 5
INIT Init
NEXT Next
INVARIANTS TypeOK GateHolds OncePerToken ErrorStops StoppedIsFinal RegRefusedWhenStopped
