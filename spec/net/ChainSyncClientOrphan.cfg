\* finding F-C21-orphan: TLC is EXPECTED to report that OrphanFree is violated
\* (Stop() does not wait for the replies to the requests it has pipelined).
CONSTANTS
  Limits = {1, 2}
  Default = 3
  MaxHist = 2
  WithStop = TRUE
  Bug = "none"
  QCap = 5
  StopFix = FALSE
  EmitMax = 0
  Pipes = {FALSE}
  PCap = 1
SPECIFICATION Spec
INVARIANTS Safe OrphanFree
CHECK_DEADLOCK FALSE
