\* C25 simulation: 3 goroutines x 2 calls over the whole alphabet, random programs and interleavings (-simulate)
CONSTANTS
  G = 3
  N = 2
  Ops = {"acq1", "acq2", "rel", "qa", "qb", "qc"}
  Mutex = TRUE
  AutoAcquire = TRUE
  RelRule = TRUE
  Hist = TRUE
  OnOpaque = {"raw"}
  DupOpaque = FALSE
SPECIFICATION Spec
INVARIANTS TypeOK OwnAnswer MutexExcl QueryInSession OutShape RelLegal ErrOnlyWhenDead ErrSuffix OpaqueOutcome EmitRow

