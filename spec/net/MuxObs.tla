------------------------------ MODULE MuxObs ------------------------------
(* Observer specification of a pair of muxers (or one muxer and a raw peer)   *)
(* over the `verif` trace events of muxer/muxer.go; same technique as         *)
(* EngineObs: total event operators, the rule that rejects an event is        *)
(* recorded in mErr.  MuxTrace.tla validates recorded traces with it.         *)
(*  C09: payloads intact and in order (every Recv is the next segment the     *)
(*       peer wrote: protocol id, direction, length, content hash); one Write *)
(*       per segment (the bytes on the wire, parsed independently by the      *)
(*       driver's tap, are the Send events in order); 1 <= payload <= 65535;  *)
(*       delivery only to the receiver registered for (protocol, direction);  *)
(*       zero-length / unregistered protocol => error; the read loop never    *)
(*       ends without an error or a requested stop.                           *)
(*  C17: direction gate of the diffusion mode.                                *)
EXTENDS Integers, Sequences, FiniteSets, TLC

MX == {"A", "B"}
PeerOf(m) == IF m = "A" THEN "B" ELSE "A"
RoleFor(resp) == IF resp = 1 THEN "init" ELSE "resp"

VARIABLES mode, reg, wire, cur, errs, exited, stopAsked, sendLog, tapLog, delivered, inflight, mErr
\* inflight[m]: segments handed to a receiver channel of m and not yet consumed by the protocol: <<pid, role, h>>
mvars == <<mode, reg, wire, cur, errs, exited, stopAsked, sendLog, tapLog, delivered, inflight, mErr>>

NoSeg == [pid |-> -1, resp |-> 0, len |-> 0, h |-> "", phase |-> "none"]

MInitVals(ma, mb) ==
    /\ mode = [m \in MX |-> IF m = "A" THEN ma ELSE mb]
    /\ reg = [m \in MX |-> {}] /\ wire = [m \in MX |-> <<>>] /\ cur = [m \in MX |-> NoSeg]
    /\ errs = [m \in MX |-> <<>>] /\ exited = [m \in MX |-> FALSE] /\ stopAsked = [m \in MX |-> FALSE]
    /\ sendLog = [m \in MX |-> <<>>] /\ tapLog = [m \in MX |-> <<>>] /\ delivered = [m \in MX |-> 0]
    /\ inflight = [m \in MX |-> <<>>]
    /\ mErr = "none"
MReset(ma, mb) ==
    /\ mode' = [m \in MX |-> IF m = "A" THEN ma ELSE mb]
    /\ reg' = [m \in MX |-> {}] /\ wire' = [m \in MX |-> <<>>] /\ cur' = [m \in MX |-> NoSeg]
    /\ errs' = [m \in MX |-> <<>>] /\ exited' = [m \in MX |-> FALSE] /\ stopAsked' = [m \in MX |-> FALSE]
    /\ sendLog' = [m \in MX |-> <<>>] /\ tapLog' = [m \in MX |-> <<>>] /\ delivered' = [m \in MX |-> 0]
    /\ inflight' = [m \in MX |-> <<>>]
    /\ mErr' = "none"

MFail(msg) == mErr' = msg /\ UNCHANGED <<mode, reg, wire, cur, errs, exited, stopAsked, sendLog, tapLog, delivered, inflight>>
Seg(e) == [pid |-> e.pid, resp |-> e.resp, len |-> e.len, h |-> e.h]

MReg(m, pid, role) ==
    /\ reg' = [reg EXCEPT ![m] = @ \cup {<<pid, role>>}]
    /\ UNCHANGED <<mode, wire, cur, errs, exited, stopAsked, sendLog, tapLog, delivered, inflight, mErr>>
MUnreg(m, pid, role) ==
    /\ reg' = [reg EXCEPT ![m] = @ \ {<<pid, role>>}]
    /\ UNCHANGED <<mode, wire, cur, errs, exited, stopAsked, sendLog, tapLog, delivered, inflight, mErr>>

\* Send: header+payload written in one Write under sendMutex.  raw = written by the driver's raw peer
MSend(m, e, raw) ==
    IF ~raw /\ (e.len < 1 \/ e.len > 65535) THEN MFail("C09 Send: payload length outside 1..65535")
    ELSE /\ wire' = [wire EXCEPT ![m] = Append(@, Seg(e))]
         /\ sendLog' = [sendLog EXCEPT ![m] = Append(@, Seg(e))]
         /\ UNCHANGED <<mode, reg, cur, errs, exited, stopAsked, tapLog, delivered, inflight, mErr>>

MRecvHdr(m, e) ==
    LET w == wire[PeerOf(m)] IN
    IF cur[m].phase # "none" THEN MFail("C09 RecvHdr: previous segment not finished")
    ELSE IF w = <<>> \/ Head(w).pid # e.pid \/ Head(w).resp # e.resp \/ Head(w).len # e.len
        THEN MFail("C09 RecvHdr: header is not that of the next segment the peer wrote")
    ELSE /\ cur' = [cur EXCEPT ![m] = [pid |-> e.pid, resp |-> e.resp, len |-> e.len, h |-> Head(w).h, phase |-> "hdr"]]
         /\ UNCHANGED <<mode, reg, wire, errs, exited, stopAsked, sendLog, tapLog, delivered, inflight, mErr>>

MRecv(m, e) ==
    IF cur[m].phase # "hdr" \/ cur[m].pid # e.pid \/ cur[m].resp # e.resp \/ cur[m].len # e.len
        THEN MFail("C09 Recv: payload without its header")
    ELSE IF e.len = 0 THEN MFail("C09 Recv: zero-length segment accepted")
    ELSE IF cur[m].h # e.h THEN MFail("C09 Recv: payload bytes differ from what the peer wrote")
    ELSE /\ cur' = [cur EXCEPT ![m].phase = "recv"]
         /\ wire' = [wire EXCEPT ![PeerOf(m)] = Tail(@)]
         /\ UNCHANGED <<mode, reg, errs, exited, stopAsked, sendLog, tapLog, delivered, inflight, mErr>>

MRoute(m, e) ==
    IF cur[m].phase # "recv" \/ cur[m].pid # e.pid THEN MFail("C09 Route: no segment in hand")
    ELSE IF e.role # RoleFor(e.resp) THEN MFail("C09 Route: wrong role for the segment's direction")
    ELSE IF mode[m] = "I" /\ e.resp = 0 THEN MFail("C17 Route: request routed on an initiator-only connection")
    ELSE IF mode[m] = "R" /\ e.resp = 1 THEN MFail("C17 Route: response routed on a responder-only connection")
    ELSE /\ cur' = [cur EXCEPT ![m].phase = "route"]
         \* the hand-over follows; Deliver is logged after the channel send, so the consumer's
         \* Consume may be logged first: the segment counts as in flight from here
         /\ inflight' = [inflight EXCEPT ![m] = Append(@, <<e.pid, e.role, cur[m].h>>)]
         /\ UNCHANGED <<mode, reg, wire, errs, exited, stopAsked, sendLog, tapLog, delivered, mErr>>

MDeliver(m, e) ==
    IF cur[m].phase # "route" \/ cur[m].pid # e.pid THEN MFail("C09 Deliver: segment was not routed")
    ELSE IF <<e.pid, e.role>> \notin reg[m] THEN MFail("C09 Deliver: delivered to a receiver that is not registered")
    ELSE IF e.role # RoleFor(cur[m].resp) THEN MFail("C09 Deliver: delivered to the wrong direction's receiver")
    ELSE /\ cur' = [cur EXCEPT ![m] = NoSeg]
         /\ delivered' = [delivered EXCEPT ![m] = @ + 1]
         /\ UNCHANGED <<mode, reg, wire, errs, exited, stopAsked, sendLog, tapLog, inflight, mErr>>

MDrop(m, e) ==
    IF cur[m].phase # "route" THEN MFail("C09 Drop: segment was not routed")
    ELSE /\ cur' = [cur EXCEPT ![m].phase = "dropped"]
         /\ inflight' = [inflight EXCEPT ![m] = SubSeq(@, 1, Len(@) - 1)]     \* it was never handed over
         /\ UNCHANGED <<mode, reg, wire, errs, exited, stopAsked, sendLog, tapLog, delivered, mErr>>

MErrEv(m, e) ==
    /\ errs' = [errs EXCEPT ![m] = Append(@, e.text)]
    /\ UNCHANGED <<mode, reg, wire, cur, exited, stopAsked, sendLog, tapLog, delivered, inflight, mErr>>

MStopCall(m) ==
    /\ stopAsked' = [stopAsked EXCEPT ![m] = TRUE]
    /\ UNCHANGED <<mode, reg, wire, cur, errs, exited, sendLog, tapLog, delivered, inflight, mErr>>

\* the read loop returned
MExit(m) ==
    IF errs[m] = <<>> /\ ~stopAsked[m]
        THEN MFail("C09 Exit: the read loop ended without reporting an error (connection silently dead)")
    ELSE /\ exited' = [exited EXCEPT ![m] = TRUE]
         /\ UNCHANGED <<mode, reg, wire, cur, errs, stopAsked, sendLog, tapLog, delivered, inflight, mErr>>

\* Consume: the protocol took a segment from its receiver channel; h = hash of the payload AS CONSUMED.
\* It must be the oldest segment delivered to that receiver and still carry the bytes that were received.
MConsume(m, e) ==
    LET idx == {i \in DOMAIN inflight[m] : inflight[m][i][1] = e.pid /\ inflight[m][i][2] = e.role} IN
    IF idx = {} THEN MFail("C09 Consume: a segment that was never delivered to this receiver")
    ELSE LET i == CHOOSE j \in idx : \A k \in idx : j <= k IN
         IF inflight[m][i][3] # e.h
           THEN MFail("C09 Consume: payload changed between delivery and consumption (or order within the receiver)")
         ELSE /\ inflight' = [inflight EXCEPT ![m] = SubSeq(@, 1, i - 1) \o SubSeq(@, i + 1, Len(@))]
              /\ UNCHANGED <<mode, reg, wire, cur, errs, exited, stopAsked, sendLog, tapLog, delivered, mErr>>

\* Wire: a segment parsed by the driver from the raw bytes m wrote (independent tap)
MWire(m, e) ==
    /\ tapLog' = [tapLog EXCEPT ![m] = Append(@, Seg(e))]
    /\ UNCHANGED <<mode, reg, wire, cur, errs, exited, stopAsked, sendLog, delivered, inflight, mErr>>

\* End(expect, n): expect = "clean" | "error" | "any"; n = number of deliveries the specification predicts (-1: not stated)
MEnd(m, expect, n) ==
    IF tapLog[m] # <<>> /\ tapLog[m] # sendLog[m]
        THEN MFail("C09 End: the bytes on the wire are not the sent segments, each in one piece and in Send order")
    ELSE IF expect = "clean" /\ (errs[m] # <<>> \/ wire[PeerOf(m)] # <<>> \/ cur[m].phase # "none")
        THEN MFail("C09 End: segments lost or error in a conforming run")
    ELSE IF expect = "error" /\ errs[m] = <<>> THEN MFail("C09 End: expected error was not reported")
    ELSE IF expect = "error" /\ ~exited[m] THEN MFail("C09 End: error reported but the read loop did not end")
    ELSE IF n >= 0 /\ delivered[m] # n THEN MFail("C09 End: number of delivered segments differs from the specification")
    ELSE UNCHANGED mvars
=============================================================================
