CONSTANT MaxIn = 3
INIT Init
NEXT Next
INVARIANTS PrefixOnly StopsAtFirst
