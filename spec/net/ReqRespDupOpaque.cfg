\* C25 a handler that hands an opaque reply over and leaves it in place for the ordinary hand-off (two sends to the result channel): OwnAnswer must be violated, the NEXT call receives the duplicate
CONSTANTS
  G = 1
  N = 2
  Ops = {"qa", "qx"}
  Mutex = TRUE
  AutoAcquire = FALSE
  RelRule = FALSE
  Hist = FALSE
  OnOpaque = {"raw"}
  DupOpaque = TRUE
SPECIFICATION Spec
INVARIANTS TypeOK OwnAnswer MutexExcl QueryInSession OutShape RelLegal ErrOnlyWhenDead ErrSuffix OpaqueOutcome EmitRow
