\* C25 exhaustive: 3 goroutines x 2 calls across acquire / release / query
CONSTANTS
  G = 3
  N = 2
  Ops = {"acq1", "rel", "qa"}
  Mutex = TRUE
  AutoAcquire = TRUE
  RelRule = TRUE
  Hist = FALSE
  OnOpaque = {"raw"}
  DupOpaque = FALSE
SPECIFICATION Spec
INVARIANTS TypeOK OwnAnswer MutexExcl QueryInSession OutShape RelLegal ErrOnlyWhenDead ErrSuffix OpaqueOutcome EmitRow
PROPERTIES Termination
