----------------------------- MODULE Connection -----------------------------
(***************************************************************************)
(* C17 - Connection roles and diffusion modes gate what is accepted.       *)
(*                                                                         *)
(* Two halves, kept apart on purpose.                                      *)
(*                                                                         *)
(* (A) What the NEGOTIATION enabled, written from the Ouroboros network    *)
(*     specification (and CIP-0137 for the DMQ pair):                      *)
(*       - data flow: duplex iff node-to-node, version >= 10 and BOTH      *)
(*         sides advertised InitiatorAndResponder (ntnDataFlow); otherwise *)
(*         unidirectional: the side that opened the connection is          *)
(*         initiator-only, the accepting side responder-only; node-to-     *)
(*         client and DMQ node-to-client are always unidirectional;        *)
(*       - mini-protocols: node-to-node chain-sync 2, block-fetch 3,       *)
(*         tx-submission 4, keep-alive 8 from v7, peer-sharing 10 from v11 *)
(*         and only when both sides enabled peer sharing; node-to-client   *)
(*         chain-sync 5, local-tx-submission 6, local-state-query 7 (from  *)
(*         v2), local-tx-monitor 9 from v12; DMQ node-to-client            *)
(*         local-message-submission 14 and local-message-notification 15   *)
(*         and nothing else.                                               *)
(*                                                                         *)
(* (B) The implementation-shaped machine: Connection.setupConnection       *)
(*     (which instances it constructs from the version's flags, which it   *)
(*     registers with the muxer in which role, which muxer diffusion mode  *)
(*     it sets) followed by muxer.readLoop on ONE inbound segment          *)
(*     (direction gate -> Route -> Deliver) and the handler's own guard.   *)
(*       Design = "fixed"  : the repaired design                           *)
(*       Design = "legacy" : the version's full-duplex flag is not         *)
(*                           consulted, the muxer mode follows the peer's  *)
(*                           advertisement alone, and the peer-sharing     *)
(*                           responder only looks at the local setting     *)
(*                           (kept so that TLC reproduces the              *)
(*                           counterexamples)                              *)
(*                                                                         *)
(* The invariants state (A) about every state of (B).  What the property   *)
(* leaves open is a choice `impl` of the machine: whether the Leios trio   *)
(* (CIP-0164 prototype, ids 18-20, no version assigned by the network      *)
(* specification) runs on node-to-node connections, and whether a          *)
(* peer-sharing instance exists (refusing requests) when peer sharing was  *)
(* not negotiated at a version that has the protocol.  The emitted         *)
(* expectation is "any" exactly where the choices differ.                  *)
(*                                                                         *)
(* LOCAL OPTIONS THAT ARE NOT NEGOTIATION INPUTS.  A configuration also    *)
(* carries what the application asked for locally without it ever going on *)
(* the wire: `lka`, "this side sends keep-alives" (WithKeepAlive).  Half   *)
(* (A) does not mention it, on purpose: what the negotiation enabled is a  *)
(* function of the negotiation alone.  The only thing such an opt-in may   *)
(* decide is whether the application's OWN initiator of that protocol runs *)
(* (AppOptional: with lka off, the keep-alive initiator may stay unstarted *)
(* - a third open choice of the machine, `kaOptIn`).  The instance, the    *)
(* responder that answers the PEER's requests, every other protocol and    *)
(* the muxer mode are the same with the option on and off                  *)
(* (LocalOptInOnlyAffectsOwnInitiator), and the C17 invariants hold for    *)
(* both values.  Design = "optin" is the defective reading ("keep-alives   *)
(* are opt-in": no keep-alive instance at all unless lka), kept so that    *)
(* TLC shows EnabledIsReachable is not vacuous in this dimension.          *)
(*                                                                         *)
(* HISTORIES: A ROLE WAS STOPPED BEFORE THE PROBE.  "An enabled protocol   *)
(* is ALWAYS reachable through the connection" is a statement about every  *)
(* moment of the connection's life, not only about the moment after        *)
(* set-up.  The one thing that changes the registered set afterwards is    *)
(* the application (or the protocol itself, on Done) stopping ONE role of  *)
(* ONE mini-protocol: Client.Stop() / Server.Stop() -> Protocol.Stop() ->  *)
(* Muxer.UnregisterProtocol(id, role).  A configuration therefore carries  *)
(* `stop`: NoStop, or the (protocol, role) pair - one the negotiation      *)
(* obliged the connection to run - that was stopped between set-up and the *)
(* probe (action DoStop).  Stopping <<p, r>> removes exactly that pair:    *)
(* the opposite role of p (on a duplex connection both share the protocol  *)
(* number in the muxer) and every other protocol stay registered and       *)
(* reachable (StopRemovesExactlyThatPair; StartedIffEnabled and            *)
(* EnabledIsReachable are stated about Live(c) = Required(c) minus the     *)
(* stopped pair).  About a segment for the stopped pair itself the         *)
(* property is silent (expectation "any").  Design = "dropid" is the       *)
(* defective reading (the whole per-protocol-number entry goes when one    *)
(* role is unregistered), kept so that TLC shows the invariants are not    *)
(* vacuous in this dimension.                                              *)
(***************************************************************************)
EXTENDS Integers, FiniteSets, Sequences, SequencesExt, Json, TLC

CONSTANTS
    NtNVersions,   \* supported node-to-node versions
    NtCVersions,   \* supported node-to-client versions (without the 0x8000 class bit)
    DMQVersions,   \* supported DMQ node-to-client versions (without the 0x1000 class bit)
    ExtraIds,      \* protocol numbers no connection of these kinds ever runs
    Design,        \* "fixed" | "legacy" | "optin" | "dropid"
    \* Every configuration is taken with the local keep-alive option on (there it
    \* must be without effect on node-to-client / DMQ connections).  With the option off:
    LkaOffKinds,   \* the connection kinds taken (quick tier: node-to-node, where the
                   \* option means something; thorough: all kinds)
    LkaOffFull,    \* TRUE: with every peer-sharing setting (thorough);
                   \* FALSE: with peer sharing off on both sides only (quick)
    \* Every configuration is taken without a stopped role.  With one role stopped:
    StopScope      \* "none": no histories; "duplex": the configurations that negotiated
                   \* duplex operation, local keep-alive option on, peer sharing set alike
                   \* on both sides (quick); "all": every configuration (thorough)

LeiosIds == {18, 19, 20}
KnownIds == {2, 3, 4, 5, 6, 7, 8, 9, 10, 14, 15} \cup LeiosIds
Ids      == KnownIds \cup ExtraIds
Roles    == {"init", "resp"}
Keys     == Ids \X Roles

\* a response segment (top bit of the protocol number set) goes to the local
\* initiator, a request segment to the local responder
RoleFor(seg) == IF seg.resp THEN "init" ELSE "resp"

VersionsOf(kind) == CASE kind = "ntn" -> NtNVersions
                      [] kind = "ntc" -> NtCVersions
                      [] kind = "dmq" -> DMQVersions

\* "no role was stopped" (not a member of Keys: removing it removes nothing)
NoStop == <<0, "none">>

\* Configurations without a history.  The peer's diffusion mode and peer-sharing
\* flag only exist on the wire of node-to-node version data (peer sharing from
\* v11).  lka is the local, never negotiated, "send keep-alives" option of the
\* application.
BaseConfigs ==
    { c \in [server : BOOLEAN, kind : {"ntn", "ntc", "dmq"}, lfd : BOOLEAN, pfd : BOOLEAN,
             ver : NtNVersions \cup NtCVersions \cup DMQVersions, lps : BOOLEAN, pps : BOOLEAN,
             lka : BOOLEAN, stop : {NoStop}] :
        /\ c.ver \in VersionsOf(c.kind)
        /\ c.kind # "ntn" => (~c.pfd /\ ~c.lps /\ ~c.pps)
        /\ (c.kind = "ntn" /\ c.ver < 11) => ~c.pps
        /\ ~c.lka => (c.kind \in LkaOffKinds /\ (LkaOffFull \/ (~c.lps /\ ~c.pps))) }

ASSUME LkaOffKinds \subseteq {"ntn", "ntc", "dmq"} /\ LkaOffFull \in BOOLEAN
ASSUME Design \in {"fixed", "legacy", "optin", "dropid"}
ASSUME StopScope \in {"none", "duplex", "all"}

Segs == [id : Ids, resp : BOOLEAN]

-----------------------------------------------------------------------------
(* (A) the negotiation                                                       *)

NegDuplex(c) == c.kind = "ntn" /\ c.ver >= 10 /\ c.lfd /\ c.pfd
NegRoles(c)  == IF NegDuplex(c) THEN Roles ELSE IF c.server THEN {"resp"} ELSE {"init"}
NegPeerSharing(c) == c.kind = "ntn" /\ c.ver >= 11 /\ c.lps /\ c.pps

Enabled(c) ==
    CASE c.kind = "ntn" -> {2, 3, 4} \cup (IF c.ver >= 7 THEN {8} ELSE {})
                                     \cup (IF NegPeerSharing(c) THEN {10} ELSE {})
      [] c.kind = "ntc" -> {5, 6} \cup (IF c.ver >= 2 THEN {7} ELSE {})
                                  \cup (IF c.ver >= 12 THEN {9} ELSE {})
      [] c.kind = "dmq" -> {14, 15}

\* protocol numbers whose presence the property leaves open
OpenIds(c) ==
    IF c.kind = "ntn"
      THEN LeiosIds \cup (IF c.ver >= 11 /\ ~NegPeerSharing(c) THEN {10} ELSE {})
      ELSE {}

\* (protocol, role) pairs that are enabled but whose start is the local
\* application's own choice: the initiator of keep-alive when the application
\* did not ask to send keep-alives.  Never a responder: the peer's requests for
\* an enabled protocol are answered whatever the local application sends itself.
AppOptional(c) == IF c.kind = "ntn" /\ ~c.lka THEN {<<8, "init">>} ELSE {}

\* what the negotiation obliges the connection to run
Required(c) == ((Enabled(c) \X NegRoles(c)) \ AppOptional(c))

\* protocols whose responder hands a well-formed first request to the application
\* (peer sharing only when negotiated; never through a refusing instance)
AppIds(c) == Enabled(c) \cup (IF c.kind = "ntn" THEN LeiosIds ELSE {})

\* The histories.  Only a pair that certainly runs can be stopped: one the
\* negotiation obliges the connection to run.
StopSpace(b) ==
    CASE StopScope = "none"   -> {}
      [] StopScope = "duplex" -> IF NegDuplex(b) /\ b.lka /\ b.lps = b.pps THEN Required(b) ELSE {}
      [] StopScope = "all"    -> Required(b)

Configs == BaseConfigs \cup UNION { { [b EXCEPT !.stop = k] : k \in StopSpace(b) } : b \in BaseConfigs }

\* what the connection is still obliged to run after the history
Live(c) == Required(c) \ {c.stop}

\* the other role of the stopped protocol (shares the protocol number in the muxer)
Opposite(k) == <<k[1], IF k[2] = "init" THEN "resp" ELSE "init">>

-----------------------------------------------------------------------------
(* (B) the machine                                                           *)

\* protocol/versions.go as the network specification has it
Flags(c) == [ keepAlive      |-> c.kind = "ntn" /\ c.ver >= 7,
              fullDuplex     |-> c.kind = "ntn" /\ c.ver >= 10,
              peerSharing    |-> c.kind = "ntn" /\ c.ver >= 11,
              localQuery     |-> c.kind = "ntc" /\ c.ver >= 2,
              localTxMonitor |-> c.kind = "ntc" /\ c.ver >= 12 ]

Impls(c) ==
    { i \in [leios : BOOLEAN, psRefusing : BOOLEAN, kaOptIn : BOOLEAN] :
        /\ i.leios => c.kind = "ntn"
        /\ i.psRefusing => (c.kind = "ntn" /\ c.ver >= 11 /\ ~NegPeerSharing(c))
        \* the keep-alive initiator waits for the application's opt-in (only
        \* distinguishable when the application did not opt in)
        /\ i.kaOptIn => (c.kind = "ntn" /\ ~c.lka) }

Setup(c, impl) ==
    LET f    == Flags(c)
        \* the peer advertised InitiatorAndResponder (node-to-node version data only)
        hsFD == c.kind = "ntn" /\ c.pfd /\ (Design = "legacy" \/ f.fullDuplex)
        both == c.lfd /\ hsFD
        cons == CASE c.kind = "ntn" ->
                       {2, 3, 4} \cup (IF f.keepAlive /\ (Design = "optin" => c.lka) THEN {8} ELSE {})
                                 \cup (IF f.peerSharing /\ (NegPeerSharing(c) \/ impl.psRefusing) THEN {10} ELSE {})
                                 \cup (IF impl.leios THEN LeiosIds ELSE {})
                  [] c.kind = "ntc" ->
                       {5, 6} \cup (IF f.localQuery THEN {7} ELSE {})
                              \cup (IF f.localTxMonitor THEN {9} ELSE {})
                  [] c.kind = "dmq" -> {14, 15}
        ini  == both \/ ~c.server
        rsp  == both \/ c.server
    IN [ constructed |-> cons,
         registered  |-> {k \in Keys : /\ k[1] \in cons
                                        /\ ((k[2] = "init" /\ ini) \/ (k[2] = "resp" /\ rsp))
                                        /\ (impl.kaOptIn => k # <<8, "init">>)},
         mode        |-> IF Design = "legacy"
                           THEN (IF hsFD THEN "IR" ELSE IF c.server THEN "R" ELSE "I")
                           ELSE (IF both THEN "IR" ELSE IF c.server THEN "R" ELSE "I") ]

\* Protocol.Stop -> Muxer.UnregisterProtocol(id, role): the receiver of exactly
\* that (protocol, role) pair goes; instances and muxer mode are untouched
AfterStop(s, k) ==
    [s EXCEPT !.registered = IF Design = "dropid" THEN {q \in @ : q[1] # k[1]} ELSE @ \ {k}]

\* the responder's own guard in front of the application callback
Guard(c, id) ==
    id = 10 => (IF Design = "legacy" THEN c.lps ELSE c.lps /\ c.pps)

NoSetup == [constructed |-> {}, registered |-> {}, mode |-> "none"]
NoSeg   == [id |-> 0, resp |-> FALSE]     \* nothing read yet

VARIABLES
    c, impl,        \* the configuration and the open choices (fixed)
    seg,            \* the one inbound segment (chosen when readLoop reads it)
    pc,             \* "setup" | "stop" | "read" | "route" | "deliver" | "handle" | "done"
    st,             \* result of setupConnection
    delivered,      \* the segment was put on a receiver's channel
    app,            \* the application callback of a responder ran
    errs            \* reasons the connection was closed with an error

vars == <<c, seg, impl, pc, st, delivered, app, errs>>

Init ==
    /\ c \in Configs /\ impl \in Impls(c) /\ seg = NoSeg
    /\ pc = "setup" /\ st = NoSetup
    /\ delivered = FALSE /\ app = FALSE /\ errs = {}

Fail(why) == errs' = errs \cup {why} /\ pc' = "done"

DoSetup ==
    /\ pc = "setup" /\ st' = Setup(c, impl)
    /\ pc' = IF c.stop = NoStop THEN "read" ELSE "stop"
    /\ UNCHANGED <<c, seg, impl, delivered, app, errs>>

\* the history: one running role is stopped before the peer's segment arrives
DoStop ==
    /\ pc = "stop" /\ st' = AfterStop(st, c.stop) /\ pc' = "read"
    /\ UNCHANGED <<c, seg, impl, delivered, app, errs>>

\* readLoop after the payload was read: the direction gate
Read ==
    /\ pc = "read"
    /\ \E sg \in Segs :
         /\ seg' = sg
         /\ IF st.mode = "I" /\ ~sg.resp THEN Fail("request on initiator-only")
            ELSE IF st.mode = "R" /\ sg.resp THEN Fail("response on responder-only")
            ELSE pc' = "route" /\ UNCHANGED errs
    /\ UNCHANGED <<c, impl, st, delivered, app>>

Route ==
    /\ pc = "route"
    /\ IF <<seg.id, RoleFor(seg)>> \in st.registered
         THEN pc' = "deliver" /\ UNCHANGED errs
         ELSE Fail("unknown protocol")
    /\ UNCHANGED <<c, seg, impl, st, delivered, app>>

Deliver ==
    /\ pc = "deliver"
    /\ delivered' = TRUE
    /\ pc' = IF seg.resp THEN "done" ELSE "handle"
    /\ UNCHANGED <<c, seg, impl, st, app, errs>>

\* a well-formed first request reaches the responder's handler
Handle ==
    /\ pc = "handle"
    /\ IF Guard(c, seg.id)
         THEN app' = TRUE /\ pc' = "done" /\ UNCHANGED errs
         ELSE Fail("refused") /\ UNCHANGED app
    /\ UNCHANGED <<c, seg, impl, st, delivered>>

Done == pc = "done" /\ UNCHANGED vars

Next == DoSetup \/ DoStop \/ Read \/ Route \/ Deliver \/ Handle \/ Done

-----------------------------------------------------------------------------
(* the same run as a function of the case (what is emitted)                  *)

OutcomeS(cc, sg, s) ==
    LET k  == <<sg.id, RoleFor(sg)>>
    IN  IF s.mode = "I" /\ ~sg.resp
          THEN [deliver |-> FALSE, app |-> FALSE, errs |-> {"request on initiator-only"}]
        ELSE IF s.mode = "R" /\ sg.resp
          THEN [deliver |-> FALSE, app |-> FALSE, errs |-> {"response on responder-only"}]
        ELSE IF k \notin s.registered
          THEN [deliver |-> FALSE, app |-> FALSE, errs |-> {"unknown protocol"}]
        ELSE IF sg.resp
          THEN [deliver |-> TRUE, app |-> FALSE, errs |-> {}]
        ELSE IF Guard(cc, sg.id)
          THEN [deliver |-> TRUE, app |-> TRUE, errs |-> {}]
          ELSE [deliver |-> TRUE, app |-> FALSE, errs |-> {"refused"}]

SetupH(cc, im) == IF cc.stop = NoStop THEN Setup(cc, im) ELSE AfterStop(Setup(cc, im), cc.stop)

Outcome(cc, sg, im) == OutcomeS(cc, sg, SetupH(cc, im))

MachineMatchesOutcome ==
    pc = "done" => [deliver |-> delivered, app |-> app, errs |-> errs] = Outcome(c, seg, impl)

TypeOK ==
    /\ pc \in {"setup", "stop", "read", "route", "deliver", "handle", "done"}
    /\ delivered \in BOOLEAN /\ app \in BOOLEAN
    /\ pc \in {"stop", "read"} => (st.registered \subseteq Keys /\ st.constructed \subseteq Ids)
    /\ c.stop # NoStop => c.stop \in Required(c)
    /\ st.mode \in {"none", "I", "R", "IR"}

-----------------------------------------------------------------------------
(* C17                                                                       *)

InitiatorOnlyNeverDeliversRequest ==
    (NegRoles(c) = {"init"} /\ ~seg.resp) =>
        /\ ~delivered /\ ~app
        /\ pc = "done" => errs # {}

ResponderOnlyNeverDeliversResponse ==
    (NegRoles(c) = {"resp"} /\ seg.resp) =>
        /\ ~delivered
        /\ pc = "done" => errs # {}

\* (the registered set never changes after DoSetup / DoStop: it is examined at
\* pc = "stop", before the history, and at pc = "read", after it)
StartedIffEnabled ==
    /\ pc = "stop" => \A k \in Required(c) : k \in st.registered
    /\ pc = "read" =>
         \A k \in Keys :
            /\ k \in Live(c) => k \in st.registered
            /\ k \in st.registered => (k[2] \in NegRoles(c) /\ k[1] \in Enabled(c) \cup OpenIds(c))
    /\ delivered => (RoleFor(seg) \in NegRoles(c) /\ seg.id \in Enabled(c) \cup OpenIds(c))
    /\ app => (~seg.resp /\ "resp" \in NegRoles(c) /\ seg.id \in AppIds(c))

EnabledIsReachable ==
    /\ pc = "read" =>
         \A id \in Enabled(c) :
            /\ id \in st.constructed
            /\ \A r \in NegRoles(c) : <<id, r>> \in Live(c) => <<id, r>> \in st.registered
    /\ (pc = "done" /\ <<seg.id, RoleFor(seg)>> \in Live(c)) =>
            (delivered /\ errs = {} /\ (~seg.resp => app))

\* A local option that never went on the wire cannot change what the negotiation
\* enabled: the same configuration with the option flipped has the same
\* obligations except for the application's own optional initiator, and the
\* machine constructs the same instances, sets the same muxer mode and
\* registers the same pairs - again except for that initiator.  In particular
\* the responder side is identical: the peer cannot tell the difference.
Flip(cc) == [cc EXCEPT !.lka = ~cc.lka]
FlipImpl(cc, im) == [im EXCEPT !.kaOptIn = FALSE]
LocalOptInOnlyAffectsOwnInitiator ==
    \* (c never changes: the statements about the case alone are examined once)
    /\ pc = "setup" =>
         /\ Enabled(Flip(c)) = Enabled(c) /\ NegRoles(Flip(c)) = NegRoles(c)
         /\ (Required(c) \ {<<8, "init">>}) = (Required(Flip(c)) \ {<<8, "init">>})
         /\ AppOptional(c) \subseteq (Ids \X {"init"})
    /\ pc = "read" =>
         LET other == SetupH(Flip(c), FlipImpl(c, impl))
         IN  /\ st.constructed = other.constructed
             /\ st.mode = other.mode
             /\ (st.registered \ {<<8, "init">>}) = (other.registered \ {<<8, "init">>})

\* Stopping one role takes away that role's receiver and nothing else: the set-up
\* minus exactly the stopped pair is what the muxer routes to afterwards; the
\* instances and the muxer mode are the set-up's.  In particular the opposite
\* role of the same protocol, which the negotiation enabled, is still registered
\* (on a duplex connection; on a unidirectional one it never was) and a segment
\* for it is delivered, and so is a segment for every other obliged pair.
StopRemovesExactlyThatPair ==
    c.stop # NoStop =>
        /\ pc = "stop" => c.stop \in st.registered
        /\ pc = "read" =>
             LET before == Setup(c, impl)
             IN  /\ st.registered = before.registered \ {c.stop}
                 /\ st.constructed = before.constructed /\ st.mode = before.mode
                 /\ Opposite(c.stop) \in Required(c) => Opposite(c.stop) \in st.registered
                 /\ NegDuplex(c) => Opposite(c.stop) \in Required(c) \cup AppOptional(c)
        /\ (pc = "done" /\ <<seg.id, RoleFor(seg)>> \in Required(c) /\ <<seg.id, RoleFor(seg)>> # c.stop) =>
                (delivered /\ errs = {} /\ (~seg.resp => app))
        /\ (pc = "done" /\ <<seg.id, RoleFor(seg)>> = c.stop) => ~delivered

-----------------------------------------------------------------------------
(* emitted cases: one row per configuration                                  *)

Tri(S) == IF S = {TRUE} THEN "yes" ELSE IF S = {FALSE} THEN "no" ELSE "any"

\* the property is silent about a segment for the role the application stopped
\* itself (unless the direction gate rejects it anyway)
Silent(cc, sg) == <<sg.id, RoleFor(sg)>> = cc.stop

SegRow(cc, sg, sets) ==
    LET outs == {OutcomeS(cc, sg, s) : s \in sets}
        why  == UNION {o.errs : o \in outs}
        open == IF Silent(cc, sg) THEN {TRUE, FALSE} ELSE {}
    IN [ id      |-> sg.id,
         resp    |-> sg.resp,
         deliver |-> Tri({o.deliver : o \in outs} \cup open),
         app     |-> Tri({o.app : o \in outs} \cup open),
         err     |-> Tri({(o.errs # {}) : o \in outs} \cup open),
         \* the property itself demands the error only at the direction gate
         gate    |-> \E w \in why : w \in {"request on initiator-only", "response on responder-only"},
         why     |-> SetToSeq(why) ]

\* the segments a history row is probed with: both directions of every protocol
\* the negotiation enabled (the stopped protocol's other role among them)
Probes(cc) == IF cc.stop = NoStop THEN Segs ELSE {sg \in Segs : sg.id \in Enabled(cc)}

\* `constructed` and `registered` are the set-up's (what is observable when
\* NewConnection returns, before the history); `segs` are after the history
Row(cc) ==
    LET sets  == {Setup(cc, im) : im \in Impls(cc)}
        setsH == {SetupH(cc, im) : im \in Impls(cc)}
    IN [ server  |-> cc.server, kind |-> cc.kind, lfd |-> cc.lfd, pfd |-> cc.pfd,
         ver     |-> cc.ver, lps |-> cc.lps, pps |-> cc.pps, lka |-> cc.lka,
         stop    |-> [id |-> cc.stop[1], role |-> cc.stop[2]],
         live    |-> SetToSeq(Live(cc)),
         optional |-> SetToSeq(AppOptional(cc)),
         roles   |-> SetToSeq(NegRoles(cc)),
         enabled |-> SetToSeq(Enabled(cc)),
         constructed |-> SetToSeq({ <<id, Tri({(id \in s.constructed) : s \in sets})>> : id \in KnownIds }),
         registered  |-> SetToSeq({ <<k[1], k[2], Tri({(k \in s.registered) : s \in sets})>> : k \in KnownIds \X Roles }),
         segs    |-> SetToSeq({ SegRow(cc, sg, setsH) : sg \in Probes(cc) }) ]

Emit == ndJsonSerialize(IF Design = "fixed" THEN "cases.ndjson" ELSE "cases_" \o Design \o ".ndjson",
                        SetToSeq({Row(cc) : cc \in Configs}))
ASSUME Emit
=============================================================================
