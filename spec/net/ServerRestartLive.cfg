\* C15 thorough: the temporal statements on the repaired design
CONSTANTS
  MaxLen = 2
  MaxGen = 3
  Protos = {"chainsync", "txsubmission"}
  Times = {"free", "early", "mid", "late"}
  FreeAll = TRUE
  Designs = {"repaired"}
  Emit = FALSE
SPECIFICATION Spec
INVARIANTS TypeOK
PROPERTIES OldInstanceEnds CallsReturn CloseCompletes ScriptPlayed
