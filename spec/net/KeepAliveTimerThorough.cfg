\* C15 thorough: scripts of up to 3 steps, up to 3 timer ticks, both designs
CONSTANTS
  MaxLen = 3
  MaxTicks = 3
  Designs = {"extracted", "repaired"}
  Emit = TRUE
  Holds = {"free", "tick"}
  Late = TRUE
SPECIFICATION Spec
INVARIANTS TypeOK WireAfterStop DoneAfterLoops CleanAfterDone NoImmortalTimer TerminalGood EmitOutcome
PROPERTIES CloseCompletes TimerQuiesces ScriptPlayed
