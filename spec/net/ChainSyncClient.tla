--------------------------- MODULE ChainSyncClient ---------------------------
(***************************************************************************)
(* C21 - goroutine-level model of the syncing chain-sync client            *)
(* (protocol/chainsync/client.go) on top of the protocol engine, against a *)
(* server that answers every RequestNext from a history over               *)
(*        F  RollForward          AF  AwaitReply . RollForward             *)
(*        B  RollBackward         AB  AwaitReply . RollBackward            *)
(* and, when the history is exhausted, with AwaitReply and silence.        *)
(*                                                                         *)
(* Processes and the code they stand for                                   *)
(*  Sync       Sync(): busyMutex; FindIntersect; wait IntersectFound;      *)
(*             first RequestNext; syncPipelinedRequestNext = 0; go syncLoop*)
(*  syncLoop   take a token from readyForNextBlockChan; busyMutex; if the  *)
(*             counter is > 0 decrement it, else enqueue max(limit,1)      *)
(*             RequestNext and set the counter to that number - 1          *)
(*  sendLoop   (engine) with agency and no queued transition: dequeue a    *)
(*             batch to the wire, transition for its first message, queue  *)
(*             the others; with agency and a queued transition: do it      *)
(*  recvLoop   (engine) with the peer holding agency: transition for the   *)
(*             next reply, then the handler: callback, then lifecycleMutex *)
(*             and the token (blocking send on a channel of capacity limit)*)
(*  Stop       busyMutex; lifecycleMutex; enqueue Done; wait (bounded) for *)
(*             the send queue to drain; unlock busyMutex; close the token  *)
(*             channel; Protocol.Stop(); unlock; wait for the receive loop *)
(*  server     engine + application: one request at a time, in order       *)
(*                                                                         *)
(* Every action emits its events into the observer of ChainSyncObs.tla;    *)
(* ObsOK is the safety property, together with the liveness properties     *)
(* below.  Timing assumptions (stated, not checked): Stop gives up on      *)
(* busyMutex (5 s) only when the sync loop is blocked on a full send queue;*)
(* the 250 ms drain wait only expires when the send loop is legitimately   *)
(* blocked (no agency or a queued transition).                             *)
(*                                                                         *)
(* QCap is the capacity of the engine's send queue (80).  As coded, Stop   *)
(* sends Done with a blocking SendMessage while holding lifecycleMutex: if *)
(* the queue is full of pipelined requests the send loop cannot write (the *)
(* server holds agency and has nothing to say), Stop never returns         *)
(* (finding F-C21-stopfull, reachable when the limit exceeds QCap minus the*)
(* first batch: ChainSyncClientStopFull.cfg).  StopFix = TRUE is the       *)
(* repaired design: Stop does not wait for room.                           *)
(*                                                                         *)
(* Bug = "none" is the design.  The other values are the defects the check *)
(* is meant to catch, kept so that the counterexamples stay reproducible:  *)
(*   offbyone     the counter is decremented only while it is > 1          *)
(*   counter      the counter is set to the number of requests, not - 1    *)
(*   signal_first the token is given before the callback runs              *)
(*   await_cb     AwaitReply invokes the roll-backward callback            *)
(*   small_chan   token channel of capacity 1 with a non-blocking send     *)
(*                                                                         *)
(* Block pipeline (pipe = TRUE: Config.Pipeline set, node-to-client).  The  *)
(* handler of a RollForward does not call the application: it hands the    *)
(* block to the pipeline (Submit, which blocks while PCap blocks are in    *)
(* flight), gives the ready signal and returns.  The pipeline applies the  *)
(* blocks one at a time in submission order (that is Pipeline.tla's        *)
(* guarantee, C42-C44; here it is the FIFO pq and the apply process apc).  *)
(* The handler of a RollBackward first waits until the pipeline has        *)
(* drained (WaitForDrain: everything submitted has been applied - C43,     *)
(* DrainSound) and only then calls the roll-backward callback.  Timing     *)
(* assumption (stated, not checked): the apply callbacks finish within     *)
(* PipelineDrainTimeout (30 s), so the drain wait never gives up.          *)
(*   nodrain      the roll-backward callback does not wait for the drain   *)
(*   drain_queued the drain wait only looks at the blocks queued between   *)
(*                the stages, not at the one the apply stage is working on *)
(*                                                                         *)
(* The module also emits the server histories for the conformance driver   *)
(* (plans.ndjson) with the callback sequence the specification predicts.   *)
(***************************************************************************)
EXTENDS ChainSyncObs, Json, SequencesExt

CONSTANTS Limits,    \* configured pipeline limits
          Default,   \* what NewClient substitutes for a configured 0 (75 in the code)
          MaxHist,   \* RollForward/RollBackward messages in a server history
          WithStop,  \* Stop may be called at any moment after Sync returned
          Bug,
          QCap,      \* capacity of the engine's send queue (80 in the code)
          StopFix,   \* FALSE: Stop() as coded; TRUE: Stop() does not wait for room in a full send queue
          EmitMax,   \* emit all histories up to this length (0: none)
          Pipes,     \* subset of BOOLEAN: conversations without / with a block pipeline
          PCap       \* blocks the pipeline takes before Submit blocks (PrefetchBufferSize, scaled)

Kinds == {"F", "B", "AF", "AB"}

VARIABLES limit,      \* configured limit of this conversation
          cpc,        \* Sync(): start | waitI | sendFirst | running
          busy, life, \* holders of busyMutex / lifecycleMutex
          sendQ,      \* client send queue
          qtrans,     \* send loop: transitions queued behind the first message of a batch
          cst,        \* client protocol state
          wire,       \* client -> server, written and not yet processed
          sst, owed,  \* server protocol state; reply owed after an AwaitReply
          nsent,      \* RollForward/RollBackward sent so far
          tailed,     \* the server said AwaitReply for good
          s2c,        \* server -> client, not yet handled
          hpc, hmsg,  \* handler program counter and message
          ready,      \* tokens in readyForNextBlockChan
          chanOpen,   \* readyForNextBlockChan # nil
          lpc,        \* syncLoop: off | wait | lock | send | exit
          pipelined,  \* syncPipelinedRequestNext
          left,       \* syncLoop: RequestNext messages of the current batch still to enqueue
          spc,        \* Stop(): idle | lock | done | drain | close | proto | wait | ret
          stopped,    \* Protocol.Stop() happened (stopChan closed)
          obs,        \* the observer
          pipe,       \* a block pipeline is configured
          pq,         \* pipeline: blocks submitted, not yet taken by the apply stage (ids, in order)
          apc         \* pipeline: apply stage idle | cb

pvars == <<pipe, pq, apc>>
vars == <<pipe, pq, apc, limit, cpc, busy, life, sendQ, qtrans, cst, wire, sst, owed, nsent, tailed, s2c, hpc, hmsg,
          ready, chanOpen, lpc, pipelined, left, spc, stopped, obs>>

Eff      == IF limit = 0 THEN Default ELSE limit        \* NewClient
Cap      == IF Bug = "small_chan" THEN 1 ELSE Eff       \* make(chan bool, PipelineLimit)
MsgCount == Max2(Eff, 1)                                \* max(c.config.PipelineLimit, 1)

Init ==
    /\ limit \in Limits
    /\ cpc = "start" /\ busy = "none" /\ life = "none"
    /\ sendQ = <<>> /\ qtrans = <<>> /\ cst = "Idle" /\ wire = <<>>
    /\ sst = "Idle" /\ owed = "" /\ nsent = 0 /\ tailed = FALSE /\ s2c = <<>>
    /\ hpc = "idle" /\ hmsg = [k |-> "", id |-> 0, sig |-> FALSE]
    /\ ready = 0 /\ chanOpen = TRUE /\ lpc = "off" /\ pipelined = 0 /\ left = 0
    /\ spc = "idle" /\ stopped = FALSE
    /\ pipe \in Pipes /\ pq = <<>> /\ apc = "idle"
    /\ obs = ObsNew(limit, Default, pipe)

SendNext(m) == CASE m = "RN" -> "CanAwait" [] m = "FI" -> "Intersect" [] m = "DN" -> "Done"

RECURSIVE ObsBatch(_, _)
ObsBatch(o, b) ==
    IF b = <<>> THEN o
    ELSE ObsBatch(CASE Head(b) = "RN" -> ObsReq(o) [] Head(b) = "DN" -> ObsDoneW(o) [] OTHER -> o, Tail(b))

Rep(x, n) == [i \in 1..n |-> x]

-----------------------------------------------------------------------------
\* Sync()
SyncStart ==
    /\ cpc = "start" /\ busy = "none"
    /\ busy' = "sync" /\ sendQ' = Append(sendQ, "FI") /\ cpc' = "waitI"
    /\ UNCHANGED <<limit, life, qtrans, cst, wire, sst, owed, nsent, tailed, s2c, hpc, hmsg, ready, chanOpen,
                   lpc, pipelined, left, spc, stopped, obs>>

SyncFirst ==
    /\ cpc = "sendFirst"
    /\ sendQ' = Append(sendQ, "RN") /\ pipelined' = 0 /\ busy' = "none" /\ cpc' = "running" /\ lpc' = "wait"
    /\ left' = left
    /\ UNCHANGED <<limit, life, qtrans, cst, wire, sst, owed, nsent, tailed, s2c, hpc, hmsg, ready, chanOpen,
                   spc, stopped, obs>>

\* engine, client side: sendLoop
SendBatch ==
    /\ ~stopped /\ cst = "Idle" /\ qtrans = <<>> /\ sendQ # <<>>
    /\ \E n \in 1..Len(sendQ) :
         LET b == SubSeq(sendQ, 1, n) IN
         /\ sendQ' = SubSeq(sendQ, n + 1, Len(sendQ))
         /\ wire' = wire \o b
         /\ cst' = SendNext(Head(b))
         /\ qtrans' = Tail(b)
         /\ obs' = ObsBatch(obs, b)
    /\ UNCHANGED <<limit, cpc, busy, life, sst, owed, nsent, tailed, s2c, hpc, hmsg, ready, chanOpen, lpc,
                   pipelined, left, spc, stopped>>

SendQueued ==
    /\ ~stopped /\ cst = "Idle" /\ qtrans # <<>>
    /\ cst' = SendNext(Head(qtrans)) /\ qtrans' = Tail(qtrans)
    /\ UNCHANGED <<limit, cpc, busy, life, sendQ, wire, sst, owed, nsent, tailed, s2c, hpc, hmsg, ready,
                   chanOpen, lpc, pipelined, left, spc, stopped, obs>>

\* server: engine + application
SrvRecv ==
    /\ wire # <<>> /\ sst = "Idle"
    /\ wire' = Tail(wire)
    /\ sst' = SendNext(Head(wire))
    /\ obs' = IF Head(wire) = "DN" THEN ObsSrvDone(obs) ELSE obs
    /\ UNCHANGED <<limit, cpc, busy, life, sendQ, qtrans, cst, owed, nsent, tailed, s2c, hpc, hmsg, ready,
                   chanOpen, lpc, pipelined, left, spc, stopped>>

SrvAfterDone ==     \* anything that follows Done is a protocol error at the peer
    /\ wire # <<>> /\ sst = "Done"
    /\ wire' = Tail(wire) /\ obs' = ObsPeerErr(obs)
    /\ UNCHANGED <<limit, cpc, busy, life, sendQ, qtrans, cst, sst, owed, nsent, tailed, s2c, hpc, hmsg, ready,
                   chanOpen, lpc, pipelined, left, spc, stopped>>

SrvIntersect ==
    /\ sst = "Intersect"
    /\ s2c' = Append(s2c, [k |-> "I", id |-> 0]) /\ sst' = "Idle"
    /\ UNCHANGED <<limit, cpc, busy, life, sendQ, qtrans, cst, wire, owed, nsent, tailed, hpc, hmsg, ready,
                   chanOpen, lpc, pipelined, left, spc, stopped, obs>>

SrvReply(k) ==
    /\ sst = "CanAwait" /\ ~tailed /\ nsent < MaxHist
    /\ IF k \in {"F", "B"}
         THEN /\ s2c' = Append(s2c, [k |-> k, id |-> nsent + 1])
              /\ nsent' = nsent + 1 /\ sst' = "Idle" /\ owed' = owed
              /\ obs' = ObsSrvSend(obs, k, nsent + 1, "")
         ELSE /\ s2c' = Append(s2c, [k |-> "A", id |-> 0])
              /\ sst' = "MustReply" /\ owed' = (IF k = "AF" THEN "F" ELSE "B") /\ nsent' = nsent
              /\ obs' = ObsSrvSend(obs, "A", 0, "")
    /\ UNCHANGED <<limit, cpc, busy, life, sendQ, qtrans, cst, wire, tailed, hpc, hmsg, ready, chanOpen, lpc,
                   pipelined, left, spc, stopped>>

SrvOwed ==
    /\ sst = "MustReply" /\ owed # ""
    /\ s2c' = Append(s2c, [k |-> owed, id |-> nsent + 1])
    /\ nsent' = nsent + 1 /\ sst' = "Idle" /\ owed' = ""
    /\ obs' = ObsSrvSend(obs, owed, nsent + 1, "")
    /\ UNCHANGED <<limit, cpc, busy, life, sendQ, qtrans, cst, wire, tailed, hpc, hmsg, ready, chanOpen, lpc,
                   pipelined, left, spc, stopped>>

SrvTail ==          \* end of the history: AwaitReply, then silence
    /\ sst = "CanAwait" /\ ~tailed
    /\ s2c' = Append(s2c, [k |-> "A", id |-> 0]) /\ sst' = "MustReply" /\ tailed' = TRUE
    /\ obs' = ObsSrvSend(obs, "A", 0, "")
    /\ UNCHANGED <<limit, cpc, busy, life, sendQ, qtrans, cst, wire, owed, nsent, hpc, hmsg, ready, chanOpen,
                   lpc, pipelined, left, spc, stopped>>

\* engine, client side: recvLoop takes the next reply when the server holds agency
CliRecv ==
    /\ ~stopped /\ hpc = "idle" /\ s2c # <<>> /\ cst \in {"CanAwait", "MustReply", "Intersect"}
    /\ LET m == Head(s2c) IN
       /\ s2c' = Tail(s2c)
       /\ CASE m.k = "I" ->
                 /\ cst' = "Idle" /\ cpc' = "sendFirst"
                 /\ UNCHANGED <<hpc, hmsg, obs>>
            [] m.k = "A" ->
                 /\ cst' = "MustReply" /\ cpc' = cpc
                 /\ obs' = ObsHandle(obs, 1)
                 /\ IF Bug = "await_cb"
                      THEN hpc' = "cbstart" /\ hmsg' = [k |-> "B", id |-> 0, sig |-> FALSE]
                      ELSE UNCHANGED <<hpc, hmsg>>
            [] OTHER ->
                 /\ cst' = "Idle" /\ cpc' = cpc
                 /\ obs' = ObsHandle(obs, IF m.k = "F" THEN 2 ELSE 3)
                 /\ hmsg' = [k |-> m.k, id |-> m.id, sig |-> Bug # "signal_first"]
                 /\ hpc' = IF Bug = "signal_first" THEN "presig"
                           ELSE IF pipe THEN (IF m.k = "F" THEN "submit" ELSE "drain")
                           ELSE "cbstart"
    /\ UNCHANGED <<limit, busy, life, sendQ, qtrans, wire, sst, owed, nsent, tailed, ready, chanOpen, lpc,
                   pipelined, left, spc, stopped>>

\* handler: the application callback (arbitrarily slow: two separate steps)
CbBegin ==
    /\ hpc = "cbstart" /\ hpc' = "cb"
    /\ obs' = ObsCbBegin(obs, hmsg.k, hmsg.id, "")
    /\ UNCHANGED <<limit, cpc, busy, life, sendQ, qtrans, cst, wire, sst, owed, nsent, tailed, s2c, hmsg, ready,
                   chanOpen, lpc, pipelined, left, spc, stopped>>

CbEnd ==
    /\ hpc = "cb" /\ hpc' = (IF hmsg.sig THEN "cbdone" ELSE "idle")
    /\ obs' = ObsCbEnd(obs)
    /\ UNCHANGED <<limit, cpc, busy, life, sendQ, qtrans, cst, wire, sst, owed, nsent, tailed, s2c, hmsg, ready,
                   chanOpen, lpc, pipelined, left, spc, stopped>>

\* block pipeline
\* handleRollForward: Pipeline.Submit (blocks while the pipeline is full), then the ready signal
PipeSubmit ==
    /\ hpc = "submit" /\ Len(pq) + (IF apc = "cb" THEN 1 ELSE 0) < PCap
    /\ pq' = Append(pq, hmsg.id) /\ hpc' = "cbdone"
    /\ UNCHANGED <<pipe, apc, limit, cpc, busy, life, sendQ, qtrans, cst, wire, sst, owed, nsent, tailed, s2c, hmsg,
                   ready, chanOpen, lpc, pipelined, left, spc, stopped, obs>>

\* the pipeline's apply stage: one block at a time, in submission order; ApplyFunc is arbitrarily slow
ApplyBegin ==
    /\ apc = "idle" /\ pq # <<>>
    /\ apc' = "cb" /\ pq' = Tail(pq)
    /\ obs' = ObsCbBegin(obs, "F", Head(pq), "")
    /\ UNCHANGED <<pipe, limit, cpc, busy, life, sendQ, qtrans, cst, wire, sst, owed, nsent, tailed, s2c, hpc, hmsg,
                   ready, chanOpen, lpc, pipelined, left, spc, stopped>>

ApplyEnd ==
    /\ apc = "cb" /\ apc' = "idle"
    /\ obs' = ObsCbEnd(obs)
    /\ UNCHANGED <<pipe, pq, limit, cpc, busy, life, sendQ, qtrans, cst, wire, sst, owed, nsent, tailed, s2c, hpc, hmsg,
                   ready, chanOpen, lpc, pipelined, left, spc, stopped>>

\* handleRollBackward: WaitForDrain returns when everything submitted has been applied
Drained == CASE Bug = "nodrain"      -> TRUE
             [] Bug = "drain_queued" -> pq = <<>>
             [] OTHER                -> pq = <<>> /\ apc = "idle"
PipeDrain ==
    /\ hpc = "drain" /\ Drained
    /\ hpc' = "cbstart"
    /\ UNCHANGED <<pipe, pq, apc, limit, cpc, busy, life, sendQ, qtrans, cst, wire, sst, owed, nsent, tailed, s2c, hmsg,
                   ready, chanOpen, lpc, pipelined, left, spc, stopped, obs>>

\* handler: lifecycleMutex.Lock(); if chan # nil { select { chan <- true | <-DoneChan } }; Unlock()
SigLock ==
    /\ hpc \in {"cbdone", "presig"} /\ life = "none"
    /\ life' = "handler" /\ hpc' = (IF hpc = "cbdone" THEN "sig" ELSE "presig2")
    /\ UNCHANGED <<limit, cpc, busy, sendQ, qtrans, cst, wire, sst, owed, nsent, tailed, s2c, hmsg, ready,
                   chanOpen, lpc, pipelined, left, spc, stopped, obs>>

SigSend ==
    /\ hpc \in {"sig", "presig2"}
    /\ \/ ~chanOpen /\ ready' = ready
       \/ chanOpen /\ ready < Cap /\ ready' = ready + 1
       \/ chanOpen /\ ready >= Cap /\ Bug = "small_chan" /\ ready' = ready     \* non-blocking send: dropped
    /\ life' = "none" /\ hpc' = (IF hpc = "sig" THEN "idle" ELSE "cbstart")
    /\ UNCHANGED <<limit, cpc, busy, sendQ, qtrans, cst, wire, sst, owed, nsent, tailed, s2c, hmsg, chanOpen,
                   lpc, pipelined, left, spc, stopped, obs>>

\* syncLoop
LoopTake ==
    /\ lpc = "wait" /\ ready > 0
    /\ ready' = ready - 1 /\ lpc' = "lock"
    /\ UNCHANGED <<limit, cpc, busy, life, sendQ, qtrans, cst, wire, sst, owed, nsent, tailed, s2c, hpc, hmsg,
                   chanOpen, pipelined, left, spc, stopped, obs>>

LoopExit ==
    /\ lpc = "wait" /\ ready = 0 /\ ~chanOpen
    /\ lpc' = "exit"
    /\ UNCHANGED <<limit, cpc, busy, life, sendQ, qtrans, cst, wire, sst, owed, nsent, tailed, s2c, hpc, hmsg,
                   ready, chanOpen, pipelined, left, spc, stopped, obs>>

Room == Len(sendQ) < QCap

LoopLocked ==
    /\ lpc = "lock" /\ busy = "none"
    /\ IF pipelined > (IF Bug = "offbyone" THEN 1 ELSE 0)
         THEN pipelined' = pipelined - 1 /\ lpc' = "wait" /\ UNCHANGED <<busy, left>>
         ELSE busy' = "loop" /\ lpc' = "send" /\ left' = MsgCount /\ pipelined' = pipelined
    /\ UNCHANGED <<limit, cpc, life, sendQ, qtrans, cst, wire, sst, owed, nsent, tailed, s2c, hpc, hmsg, ready,
                   chanOpen, spc, stopped, obs>>

\* for range msgCount { SendMessage(RequestNext) }: blocks while the send queue is full,
\* fails once the protocol is stopped (the loop then returns)
LoopSend ==
    /\ lpc = "send"
    /\ \/ /\ stopped
          /\ lpc' = "exit" /\ busy' = "none" /\ UNCHANGED <<sendQ, left, pipelined>>
       \/ /\ ~stopped /\ left > 0 /\ Room
          /\ sendQ' = Append(sendQ, "RN") /\ left' = left - 1
          /\ IF left = 1
               THEN /\ pipelined' = (IF Bug = "counter" THEN MsgCount ELSE MsgCount - 1)
                    /\ busy' = "none" /\ lpc' = "wait"
               ELSE UNCHANGED <<pipelined, busy, lpc>>
    /\ UNCHANGED <<limit, cpc, life, qtrans, cst, wire, sst, owed, nsent, tailed, s2c, hpc, hmsg, ready,
                   chanOpen, spc, stopped, obs>>

\* Stop()
\* busyMutex.TryLock() for up to 5 s: obtained, or given up because the holder (the sync loop,
\* blocked on a full send queue) does not release it
StopBegin ==
    /\ WithStop /\ spc = "idle" /\ cpc = "running"
    /\ \/ busy = "none" /\ busy' = "stop"
       \/ busy = "loop" /\ lpc = "send" /\ ~Room /\ busy' = busy
    /\ spc' = "lock" /\ obs' = ObsStopCall(obs)
    /\ UNCHANGED <<limit, cpc, life, sendQ, qtrans, cst, wire, sst, owed, nsent, tailed, s2c, hpc, hmsg, ready,
                   chanOpen, lpc, pipelined, left, stopped>>

StopLock ==
    /\ spc = "lock" /\ life = "none"
    /\ life' = "stop" /\ spc' = "done"
    /\ UNCHANGED <<limit, cpc, busy, sendQ, qtrans, cst, wire, sst, owed, nsent, tailed, s2c, hpc, hmsg, ready,
                   chanOpen, lpc, pipelined, left, stopped, obs>>

\* if !c.IsDone() { SendMessage(Done) }: as coded this waits for room in the send queue
StopSendDone ==
    /\ spc = "done"
    /\ \/ cst = "Done" /\ sendQ' = sendQ
       \/ cst # "Done" /\ Room /\ sendQ' = Append(sendQ, "DN")
       \/ cst # "Done" /\ ~Room /\ StopFix /\ sendQ' = sendQ
    /\ spc' = "drain"
    /\ UNCHANGED <<limit, cpc, busy, life, qtrans, cst, wire, sst, owed, nsent, tailed, s2c, hpc, hmsg, ready,
                   chanOpen, lpc, pipelined, left, stopped, obs>>

StopDrain ==        \* WaitSendQueueDrained(250ms): drained, or timed out with the send loop blocked
    /\ spc = "drain"
    /\ sendQ = <<>> \/ ~(cst = "Idle" /\ qtrans = <<>>)
    /\ busy' = (IF busy = "stop" THEN "none" ELSE busy) /\ spc' = "close"
    /\ UNCHANGED <<limit, cpc, life, sendQ, qtrans, cst, wire, sst, owed, nsent, tailed, s2c, hpc, hmsg, ready,
                   chanOpen, lpc, pipelined, left, stopped, obs>>

StopClose ==
    /\ spc = "close" /\ chanOpen' = FALSE /\ spc' = "proto"
    /\ UNCHANGED <<limit, cpc, busy, life, sendQ, qtrans, cst, wire, sst, owed, nsent, tailed, s2c, hpc, hmsg,
                   ready, lpc, pipelined, left, stopped, obs>>

StopProto ==
    /\ spc = "proto" /\ stopped' = TRUE /\ life' = "none" /\ spc' = "wait"
    /\ UNCHANGED <<limit, cpc, busy, sendQ, qtrans, cst, wire, sst, owed, nsent, tailed, s2c, hpc, hmsg, ready,
                   chanOpen, lpc, pipelined, left, obs>>

StopRet ==          \* <-doneChan: the receive loop (and with it any handler) has finished
    /\ spc = "wait" /\ hpc = "idle"
    /\ spc' = "ret" /\ obs' = ObsStopRet(obs, FALSE)
    /\ UNCHANGED <<limit, cpc, busy, life, sendQ, qtrans, cst, wire, sst, owed, nsent, tailed, s2c, hpc, hmsg,
                   ready, chanOpen, lpc, pipelined, left, stopped>>

ClientProgress ==
    \/ SyncStart \/ SyncFirst \/ SendBatch \/ SendQueued
    \/ SrvRecv \/ SrvAfterDone \/ SrvIntersect \/ (\E k \in Kinds : SrvReply(k)) \/ SrvOwed \/ SrvTail
    \/ CliRecv \/ CbBegin \/ CbEnd \/ SigLock \/ SigSend
    \/ LoopTake \/ LoopExit \/ LoopLocked \/ LoopSend
    \/ StopLock \/ StopSendDone \/ StopDrain \/ StopClose \/ StopProto \/ StopRet

Progress == (ClientProgress /\ UNCHANGED pvars) \/ PipeSubmit \/ ApplyBegin \/ ApplyEnd \/ PipeDrain

Next == Progress \/ (StopBegin /\ UNCHANGED pvars)

Spec == Init /\ [][Next]_vars /\ WF_vars(Progress)

-----------------------------------------------------------------------------
\* safety
Safe      == ObsOK(obs)
Strict0   == obs.strict => limit = 0          \* only a configured 0 lets the outstanding requests exceed max(limit,1)
TokensFit == ready <= Cap
Locks     == /\ (busy = "stop") => spc \in {"lock", "done", "drain"}
             /\ (life = "stop") => spc \in {"done", "drain", "close", "proto"}
             /\ (busy = "loop") <=> lpc = "send"
Counter   == pipelined >= 0 /\ pipelined <= MsgCount
\* NOT an invariant of the client as coded (ChainSyncClientOrphan.cfg expects the violation): Stop()
\* unregisters the protocol while replies to pipelined requests are still due; such a reply makes the
\* client's muxer fail ("unknown protocol") and tears the connection down (finding F-C21-orphan)
OrphanFree == stopped => (s2c = <<>> /\ sst \notin {"CanAwait", "MustReply"} /\ (\A i \in 1..Len(wire) : wire[i] # "RN"))
\* the block pipeline
\* the observer's view of the pipeline is the pipeline (the queue of blocks handed over and not yet
\* applied, plus the block whose handler is still in Submit)
PipeView  == /\ obs.err = "none" =>
                  /\ [i \in 1..Len(obs.inpipe) |-> obs.inpipe[i].tip] = pq \o (IF hpc = "submit" THEN <<hmsg.id>> ELSE <<>>)
                  /\ (obs.app = "cb") <=> (apc = "cb")
             /\ Len(pq) + (IF apc = "cb" THEN 1 ELSE 0) <= PCap
             /\ ~pipe => (pq = <<>> /\ apc = "idle" /\ hpc \notin {"submit", "drain"})
\* at the moment the roll-backward callback is called, and while it runs, every block of an earlier
\* RollForward has been applied (what WaitForDrain is there for: C43 DrainSound seen from the client)
DrainedAtRollback == (pipe /\ hmsg.k = "B" /\ hpc \in {"cbstart", "cb"}) => (pq = <<>> /\ apc = "idle")
\* liveness
StopLive  == (spc # "idle") ~> (spc = "ret")
Delivered == tailed /\ obs.pend = <<>> /\ obs.cbDone = nsent /\ obs.ncb = nsent
Delivery  == <>(spc # "idle") \/ <>[]Delivered
\* the same two properties as state predicates on the states in which nothing but a call of Stop can
\* happen (the model has no cycles: every action consumes a message, a token or a program counter)
Terminal      == ~ENABLED Progress
TermStop      == Terminal => spc \in {"idle", "ret"}
TermDelivered == (Terminal /\ spc = "idle") => Delivered

-----------------------------------------------------------------------------
\* plans for the conformance driver
Hist(n) == UNION {[1..k -> Kinds] : k \in 0..n}
RECURSIVE Cbs(_)
Cbs(h) == IF h = <<>> THEN <<>>
          ELSE <<(IF Head(h) \in {"F", "AF"} THEN "F" ELSE "B")>> \o Cbs(Tail(h))
\* before[i]: how many callbacks have returned when callback i is entered - all the earlier ones, also
\* when the roll-forward callbacks are the applies of a block pipeline (p)
PlanRow(h, p) == [hist |-> h, n |-> Len(h), cbs |-> Cbs(h), pipe |-> p, before |-> [i \in 1..Len(h) |-> i - 1]]
ASSUME Pipes \subseteq BOOLEAN /\ PCap \in Nat \ {0}
ASSUME EmitMax = 0 \/ ndJsonSerialize("plans.ndjson", SetToSeq({PlanRow(h, p) : h \in Hist(EmitMax), p \in Pipes}))
=============================================================================
