\* quick: limits 0..3, histories of up to 3 roll-forwards/roll-backwards, Stop at any moment;
\* the histories for the driver are emitted up to length 4 (the thorough configuration model-checks up to 6)
CONSTANTS
  Limits = {0, 1, 2, 3}
  Default = 4
  MaxHist = 3
  WithStop = TRUE
  Bug = "none"
  QCap = 5
  StopFix = FALSE
  EmitMax = 4
  Pipes = {FALSE}
  PCap = 1
SPECIFICATION Spec
INVARIANTS Safe Strict0 TokensFit Locks Counter TermStop TermDelivered
CHECK_DEADLOCK FALSE
