\* C24 thorough: every history of 3 calls over the full request alphabet
CONSTANTS
  Limit = 3
  Reqs <- AllReqs
  Replies <- SmallReplies
  Blockings <- BOOLEAN
  TxNs = {0, 2}
  Mode = "hist"
  MaxLen = 3
  Chains = 0
INIT Init
NEXT Next
INVARIANTS TypeOK AckedLeReceived AckWithinOutstanding OutstandingExact WireInRange RefusedLocally PerCall DoneOnlyFromBlocking OutRejectsOverLimit EmitHist
