CONSTANTS
  SegMax = 65535
  MaxBatch = 20
SPECIFICATION TraceSpec
INVARIANT Report
POSTCONDITION AllConsumed
CHECK_DEADLOCK FALSE
