CONSTANTS
  SegMax = 65535
  MaxBatch = 20
SPECIFICATION TraceSpec
INVARIANT ObsOK
CHECK_DEADLOCK FALSE
