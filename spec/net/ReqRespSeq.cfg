\* C25 every sequential program of 4 calls over the whole alphabet, with the server's session state per call
CONSTANTS
  G = 1
  N = 4
  Ops = {"acq1", "acq2", "rel", "qa", "qb", "qc"}
  Mutex = TRUE
  AutoAcquire = TRUE
  RelRule = FALSE
  Hist = TRUE
  OnOpaque = {"raw"}
  DupOpaque = FALSE
SPECIFICATION Spec
INVARIANTS TypeOK OwnAnswer MutexExcl QueryInSession OutShape RelLegal ErrOnlyWhenDead ErrSuffix OpaqueOutcome EmitRow

