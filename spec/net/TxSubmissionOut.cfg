\* C24 quick/thorough: the outbound side alone, every single wire request x application answer
CONSTANTS
  Limit = 3
  Reqs <- LegalReqs
  Replies <- SmallReplies
  Blockings <- BOOLEAN
  TxNs = {}
  Mode = "out"
  MaxLen = 1
  Chains = 0
INIT Init
NEXT Next
INVARIANTS TypeOK AckedLeReceived AckWithinOutstanding OutstandingExact WireInRange RefusedLocally PerCall DoneOnlyFromBlocking OutRejectsOverLimit EmitHist
