------------------------------ MODULE MuxPlans ------------------------------
(* Adversarial inbound byte streams for a real muxer, with the outcome the     *)
(* specification (Muxer.tla, sequential meaning of its read loop) predicts:    *)
(* segments are handled in order; a zero-length payload, a segment in the      *)
(* direction the diffusion mode forbids, or a segment for a (protocol,         *)
(* direction) nobody registered ends the connection with an error; everything  *)
(* before it is delivered to exactly the registered receiver.                  *)
EXTENDS Integers, Sequences, FiniteSets, TLC, Json, SequencesExt

CONSTANT MaxIn
Protos == {2, 5}
SegKinds == [pid : Protos \cup {99}, resp : {0, 1}, len : {0, 1, 65535}]
Streams == UNION {[1..n -> SegKinds] : n \in 1..MaxIn}
Modes == {"I", "R", "IR"}
\* registered receivers: both directions of protocol 2, only the responder of 5
Registered == {<<2, "init">>, <<2, "resp">>, <<5, "resp">>}
RoleFor(resp) == IF resp = 1 THEN "init" ELSE "resp"

Offends(mode, seg) ==
    \/ seg.len = 0
    \/ mode = "I" /\ seg.resp = 0
    \/ mode = "R" /\ seg.resp = 1
    \/ <<seg.pid, RoleFor(seg.resp)>> \notin Registered

RECURSIVE Delivered(_, _, _)
Delivered(mode, s, i) ==
    IF i > Len(s) \/ Offends(mode, s[i]) THEN 0 ELSE 1 + Delivered(mode, s, i + 1)

VARIABLES mode, stream
Init == mode \in Modes /\ stream \in Streams
Next == UNCHANGED <<mode, stream>>
\* meta: the count is a prefix length and an offending segment is never counted
PrefixOnly == Delivered(mode, stream, 1) <= Len(stream)
StopsAtFirst == \A i \in 1..Len(stream) :
                   (Offends(mode, stream[i]) /\ \A j \in 1..(i - 1) : ~Offends(mode, stream[j]))
                       => Delivered(mode, stream, 1) = i - 1

Row(m, s, n) == [id |-> "mux-" \o m \o "-" \o ToString(n), mode |-> m,
                 reg |-> SetToSeq({[pid |-> k[1], role |-> k[2]] : k \in Registered}),
                 script |-> s, delivered |-> Delivered(m, s, 1)]
Rows == LET ss == SetToSeq(Streams) ms == SetToSeq(Modes) IN
        [i \in 1..(Len(ss) * Len(ms)) |->
            Row(ms[((i - 1) % Len(ms)) + 1], ss[((i - 1) \div Len(ms)) + 1], i)]
\* conforming runs: 1..6 protocols sending concurrently in both directions, payload sizes at the limits
PairCases == SetToSeq({1, 3, 6} \X {5, 40} \X {TRUE, FALSE})
PairRows == [i \in 1..Len(PairCases) |->
               [id |-> "pair-" \o ToString(i), kind |-> "pair", senders |-> PairCases[i][1],
                perSend |-> PairCases[i][2], fragment |-> PairCases[i][3],
                sizes |-> <<1, 2, 255, 4096, 65534, 65535>>]]
\* the unregister race of Muxer.tla (Route . Unregister . Deliver)
\* receivers that lag behind: all segments are full size and the protocols only start consuming
\* after everything has been written (at most 8 segments per receiver, below the channel capacity)
LagRows == <<[id |-> "pair-lag-1", kind |-> "pair", senders |-> 1, perSend |-> 8, fragment |-> FALSE, sizes |-> <<65535>>, lag |-> TRUE],
             [id |-> "pair-lag-2", kind |-> "pair", senders |-> 3, perSend |-> 6, fragment |-> TRUE, sizes |-> <<65535, 65535, 40000>>, lag |-> TRUE]>>
RaceRows == <<[id |-> "race-1", kind |-> "race"], [id |-> "race-2", kind |-> "race"]>>
ASSUME ndJsonSerialize("mux.ndjson", Rows)
ASSUME ndJsonSerialize("pair.ndjson", PairRows \o LagRows \o RaceRows)
=============================================================================
