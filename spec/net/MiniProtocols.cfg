INIT RefInit
NEXT RefNext
INVARIANT RefWellFormed
CHECK_DEADLOCK FALSE
