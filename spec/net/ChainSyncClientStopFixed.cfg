\* finding F-C21-stopfull, repaired: send queue smaller than the pipelined batch, repaired Stop().
\* with the repaired Stop() the same configuration passes.
CONSTANTS
  Limits = {3}
  Default = 4
  MaxHist = 2
  WithStop = TRUE
  Bug = "none"
  QCap = 2
  StopFix = TRUE
  EmitMax = 0
  Pipes = {FALSE}
  PCap = 1
SPECIFICATION Spec
INVARIANTS Safe TermStop TermDelivered
CHECK_DEADLOCK FALSE
