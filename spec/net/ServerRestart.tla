---------------------------- MODULE ServerRestart ----------------------------
(***************************************************************************)
(* C15 (part 1) - the server side restarts a mini-protocol when the client *)
(* says Done (protocol/{chainsync,blockfetch,txsubmission}/server.go:      *)
(* handleDone / handleClientDone): from INSIDE the message handler of the  *)
(* old Protocol instance                                                   *)
(*                                                                         *)
(*   [tx-submission: push ErrStopServerProcess to the waiting              *)
(*    RequestTxIds call; DoneFunc]                                         *)
(*   Stop()          close(stopChan), unregister from the muxer            *)
(*   initProtocol()  a new Protocol; ProtocolInstance() returns it from    *)
(*                   now on although it is not started yet                 *)
(*   Start()         register with the muxer - or, if the muxer is already *)
(*                   stopping, report an error and start nothing           *)
(*                   [tx-submission: + a clean-up goroutine per instance]  *)
(*   return          recvLoop of the old instance sees stopChan and goes   *)
(*                                                                         *)
(* Instances are generations 1..MaxGen.  The muxer routes a segment to the *)
(* instance that is registered at that moment; a segment for a protocol    *)
(* nobody is registered for ends the muxer ("unknown protocol"), a segment *)
(* handed to an instance that is stopping is lost with it.                 *)
(*                                                                         *)
(* The peer: a script of <= MaxLen steps over                              *)
(*   done   Done / ClientDone                                              *)
(*   req    a request (chain-sync RequestNext, block-fetch RequestRange,   *)
(*          tx-submission Init)                                            *)
(*   close  the peer closes the connection                                 *)
(* with at least one done, and a timing for the steps that follow the      *)
(* first done:                                                             *)
(*   early  they arrive while the old instance is still registered (the    *)
(*          handler is held before it does anything)                       *)
(*   mid    they are written as soon as the old instance has unregistered  *)
(*          (they race with the registration of the new one)               *)
(*   late   they are written when the new instance is running              *)
(*   free   any of these                                                   *)
(* The user: tx-submission: RequestTxIds(blocking) is waiting when the     *)
(* Done comes (it returns ErrStopServerProcess) and is called again at     *)
(* once; chain-sync / block-fetch: one server call (RollBackward /         *)
(* NoBlocks = SendMessage on ProtocolInstance()) at any moment - it is the *)
(* answer to the request (the request handler itself does not answer), so  *)
(* it leaves the queue once a request has come.  A call                    *)
(* that obtains the new instance between initProtocol and Start blocks in  *)
(* enqueueMessage (the queue does not exist yet) until that instance ends. *)
(* Close() when the script is played and the library has come to rest      *)
(* (observation "rest": which old goroutines are left, is the connection   *)
(* up), then the final observation.                                        *)
(*                                                                         *)
(* Obligations (C15): every goroutine of an old instance ends (already at  *)
(* rest, while the connection is up); every call returns once the          *)
(* connection has ended; after Close nothing is left (the clean-up         *)
(* goroutine of a new instance that could not register included).          *)
(* design "extracted": Protocol.Start closes DoneChan on a failed          *)
(* registration iff the source of the tree under test does so              *)
(* (c15_table.json engine.startfail_done); "repaired": it does.            *)
(***************************************************************************)
EXTENDS Integers, Sequences, FiniteSets, TLC, Json, IOUtils, CSV, SequencesExt

CONSTANTS MaxLen, MaxGen, Protos, Times, FreeAll, Designs, Emit

Table == JsonDeserialize("c15_table.json")
StartFailDone == Table.engine.startfail_done

Gens == 1..MaxGen
Steps == {"done", "req", "close"}
Dones(s) == {i \in 1..Len(s) : s[i] = "done"}
FirstDone(s) == CHOOSE i \in Dones(s) : \A j \in Dones(s) : i <= j

OkScript(p, s) ==
    /\ Dones(s) # {}
    /\ \A i \in 1..Len(s) : s[i] = "close" => i = Len(s)
    /\ p = "txsubmission" => s[1] = "done"        \* generation 1 is waiting in TxIdsBlocking: only Done (or a reply) is legal
Scripts(p) == {s \in UNION {[1..n -> Steps] : n \in 1..MaxLen} : OkScript(p, s)}
\* a timing says something only if a step follows the first done; "free" (the union of the others) is explored for
\* those scripts too iff FreeAll (thorough tier)
Timed(s, t) == IF FirstDone(s) < Len(s) THEN (t # "free" \/ FreeAll) ELSE t = "free"
CaseSpace == {[p |-> p, s |-> s, t |-> t, design |-> d] : p \in Protos, s \in UNION {Scripts(p) : p \in Protos}, t \in Times, d \in Designs}
CaseOk(x) == x.s \in Scripts(x.p) /\ Timed(x.s, x.t)

VARIABLES c,
          ex,            \* generation -> "none", "new" (created, not started), "run", "failed" (could not register), "stopped"
          gr, dn,        \* generation -> goroutines alive (recv, send, closer, cleanup); DoneChan closed
          st, inb, q,    \* generation -> protocol state ("init", "idle", "blk", "done"); messages handed over; a request queued
          hp,            \* generation -> where its handler is: "none", "push", "stop", "init", "start", "ret"
          cur, reg,      \* ProtocolInstance(); the generation registered with the muxer (0: none)
          nreg, handled, \* registrations so far; requests whose handler ran
          pi, wire, eof, mux,
          perr, merr, sh, closeSig, connClosed, errClosed,
          uc, drain,
          pc1, pc2, p2   \* calls: "none", "idle", "send", "blocked", "wait", "ret"; the instance call 2 obtained

vars == <<c, ex, gr, dn, st, inb, q, hp, cur, reg, nreg, handled, pi, wire, eof, mux,
          perr, merr, sh, closeSig, connClosed, errClosed, uc, drain, pc1, pc2, p2>>

S == c.s
Tx == c.p = "txsubmission"
Repaired == c.design = "repaired"
AllG == IF Tx THEN {"recv", "send", "closer", "cleanup"} ELSE {"recv", "send", "closer"}
Stopped(i) == ex[i] = "stopped"
Down(i) == Stopped(i) \/ dn[i] \/ mux = "down" \/ "recv" \notin gr[i] \/ "send" \notin gr[i]
ReadAlive(i) == ex[i] = "run" /\ mux # "down" /\ "send" \in gr[i]
StateAlive(i) == ex[i] = "run" /\ ~dn[i]
ClientAgency(s) == s \in {"init", "idle0", "blk"}
\* chain-sync / block-fetch Idle is a client-agency state ("idle0"), "await" (CanAwait / Busy) the server's;
\* tx-submission Idle is the server's ("idle")
Initial == IF Tx THEN "init" ELSE "idle0"

Init ==
    /\ c \in {x \in CaseSpace : CaseOk(x)}
    /\ ex = [i \in Gens |-> IF i = 1 THEN "run" ELSE "none"]
    /\ gr = [i \in Gens |-> IF i = 1 THEN AllG ELSE {}]
    /\ dn = [i \in Gens |-> FALSE]
    /\ st = [i \in Gens |-> IF i = 1 THEN (IF Tx THEN "idle" ELSE "idle0") ELSE "none"]   \* tx-submission: Init was received before the case starts
    /\ inb = [i \in Gens |-> <<>>] /\ q = [i \in Gens |-> FALSE]
    /\ hp = [i \in Gens |-> "none"]
    /\ cur = 1 /\ reg = 1 /\ nreg = 1 /\ handled = 0
    /\ pi = 1 /\ wire = <<>> /\ eof = FALSE /\ mux = "up"
    /\ perr = FALSE /\ merr = FALSE /\ sh = "wait" /\ closeSig = FALSE /\ connClosed = FALSE /\ errClosed = FALSE
    /\ uc = "no" /\ drain = TRUE          \* the user of these cases reads ErrorChan all the time (the adverse order is ClientApi.tla's)
    /\ pc1 = (IF Tx THEN "send" ELSE "none") /\ pc2 = "idle" /\ p2 = 0

connV == <<perr, merr, sh, closeSig, connClosed, errClosed>>
userV == <<uc, drain>>
peerV == <<pi, eof>>
callV == <<pc1, pc2, p2>>

--------------------------------------------------------------------------
(* the user's calls *)

\* tx-submission call 1: RequestTxIds(blocking) on generation 1
C1Send ==
    /\ pc1 = "send"
    /\ IF Down(1) THEN pc1' = "ret" /\ UNCHANGED q
       ELSE pc1' = "wait" /\ q' = [q EXCEPT ![1] = TRUE]
    /\ UNCHANGED <<c, ex, gr, dn, st, inb, hp, cur, reg, nreg, handled, wire, mux, peerV, connV, userV, pc2, p2>>
C1Released ==
    /\ pc1 = "wait" /\ dn[1]
    /\ pc1' = "ret"
    /\ UNCHANGED <<c, ex, gr, dn, st, inb, q, hp, cur, reg, nreg, handled, wire, mux, peerV, connV, userV, pc2, p2>>

\* call 2 obtains ProtocolInstance(): tx-submission once call 1 has returned, the others at any moment
C2Grab ==
    /\ pc2 = "idle" /\ (Tx => pc1 = "ret") /\ uc = "no"
    /\ p2' = cur /\ pc2' = "send"
    /\ UNCHANGED <<c, ex, gr, dn, st, inb, q, hp, cur, reg, nreg, handled, wire, mux, peerV, connV, userV, pc1>>
\* SendMessage on it: not started yet -> blocks on the missing queue; shutting down -> error; else queued
C2Send ==
    /\ pc2 = "send"
    /\ CASE ex[p2] = "new"  -> pc2' = "blocked" /\ UNCHANGED q
         [] ex[p2] # "new" /\ Down(p2) -> pc2' = "ret" /\ UNCHANGED q
         [] OTHER -> /\ q' = [q EXCEPT ![p2] = TRUE]
                     /\ pc2' = IF Tx THEN "wait" ELSE "ret"
    /\ UNCHANGED <<c, ex, gr, dn, st, inb, hp, cur, reg, nreg, handled, wire, mux, peerV, connV, userV, pc1, p2>>
\* released from enqueueMessage / from the wait by the end of the instance it holds
C2Released ==
    /\ \/ pc2 = "blocked" /\ (Stopped(p2) \/ dn[p2] \/ (ex[p2] = "run" /\ ("recv" \notin gr[p2] \/ "send" \notin gr[p2])))
       \/ pc2 = "wait" /\ dn[p2]
    /\ pc2' = "ret"
    /\ UNCHANGED <<c, ex, gr, dn, st, inb, q, hp, cur, reg, nreg, handled, wire, mux, peerV, connV, userV, pc1, p2>>
Calls == C1Send \/ C1Released \/ C2Grab \/ C2Send \/ C2Released

--------------------------------------------------------------------------
(* an instance *)

EngFrame == UNCHANGED <<c, wire, mux, peerV, merr, sh, closeSig, connClosed, errClosed, userV>>

\* sendLoop puts the queued message on the wire when the server has agency: tx-submission RequestTxIds (Idle ->
\* TxIdsBlocking), chain-sync RollBackward / block-fetch NoBlocks (the reply to the request: back to Idle)
SLSend(i) ==
    /\ ex[i] = "run" /\ "send" \in gr[i] /\ "recv" \in gr[i] /\ q[i] /\ st[i] = (IF Tx THEN "idle" ELSE "await")
    /\ q' = [q EXCEPT ![i] = FALSE] /\ st' = [st EXCEPT ![i] = IF Tx THEN "blk" ELSE "idle0"]
    /\ UNCHANGED <<ex, gr, dn, inb, hp, cur, reg, nreg, handled, perr, callV>> /\ EngFrame

\* early: the handler of the first Done is held until the peer has played everything and the muxer has read it
EarlyOk(i) == (c.t = "early" /\ i = 1) => (pi > Len(S) /\ wire = <<>> /\ mux # "failing" /\ (eof => mux = "down"))

\* recvLoop takes a message in a client-agency state
RLTake(i) ==
    /\ ex[i] = "run" /\ "recv" \in gr[i] /\ hp[i] = "none" /\ ClientAgency(st[i]) /\ inb[i] # <<>>
    /\ inb' = [inb EXCEPT ![i] = Tail(@)]
    /\ LET m == Head(inb[i]) IN
       CASE m = "done" /\ st[i] \in {"idle0", "blk"} ->
                /\ st' = [st EXCEPT ![i] = "done"] /\ hp' = [hp EXCEPT ![i] = IF Tx THEN "push" ELSE "stop"]
                /\ UNCHANGED <<ex, reg, perr, handled>>
         [] m = "req" /\ st[i] \in {"idle0", "init"} ->
                /\ handled' = handled + 1
                /\ st' = [st EXCEPT ![i] = IF Tx THEN "idle" ELSE "await"]      \* the request handler does not answer: call 2 is the answer
                /\ UNCHANGED <<ex, reg, perr, hp>>
         [] OTHER ->      \* not permitted in this state: SendError, Stop
                /\ ex' = [ex EXCEPT ![i] = "stopped"] /\ reg' = (IF reg = i THEN 0 ELSE reg) /\ perr' = TRUE
                /\ UNCHANGED <<st, hp, handled>>
    /\ UNCHANGED <<gr, dn, q, cur, nreg, callV>> /\ EngFrame

\* tx-submission handleDone: ErrStopServerProcess to the call that waits on this instance (a rendezvous)
HPush(i) ==
    /\ hp[i] = "push" /\ EarlyOk(i)
    /\ \/ i = 1 /\ pc1 = "wait" /\ pc1' = "ret" /\ UNCHANGED <<pc2, p2>>
       \/ pc2 = "wait" /\ p2 = i /\ pc2' = "ret" /\ UNCHANGED <<pc1, p2>>
    /\ hp' = [hp EXCEPT ![i] = "stop"]
    /\ UNCHANGED <<ex, gr, dn, st, inb, q, cur, reg, nreg, handled, perr>> /\ EngFrame
HStop(i) ==
    /\ hp[i] = "stop" /\ (Tx \/ EarlyOk(i))
    /\ ex' = [ex EXCEPT ![i] = "stopped"] /\ reg' = (IF reg = i THEN 0 ELSE reg)
    /\ hp' = [hp EXCEPT ![i] = "init"]
    /\ UNCHANGED <<gr, dn, st, inb, q, cur, nreg, handled, perr, callV>> /\ EngFrame
HInit(i) ==
    /\ hp[i] = "init" /\ i < MaxGen
    /\ cur' = i + 1 /\ ex' = [ex EXCEPT ![i + 1] = "new"]
    /\ hp' = [hp EXCEPT ![i] = "start"]
    /\ UNCHANGED <<gr, dn, st, inb, q, reg, nreg, handled, perr, callV>> /\ EngFrame
HStart(i) ==
    /\ hp[i] = "start"
    /\ IF mux # "down"
       THEN /\ ex' = [ex EXCEPT ![i + 1] = "run"] /\ gr' = [gr EXCEPT ![i + 1] = AllG]
            /\ st' = [st EXCEPT ![i + 1] = Initial] /\ reg' = i + 1 /\ nreg' = nreg + 1
            /\ UNCHANGED <<dn, perr>>
       ELSE \* the muxer is stopping: "could not register protocol with muxer", nothing runs
            /\ ex' = [ex EXCEPT ![i + 1] = "failed"] /\ gr' = [gr EXCEPT ![i + 1] = AllG \cap {"cleanup"}]
            /\ dn' = [dn EXCEPT ![i + 1] = Repaired \/ StartFailDone] /\ perr' = TRUE
            /\ UNCHANGED <<st, reg, nreg>>
    /\ hp' = [hp EXCEPT ![i] = "ret"]
    /\ UNCHANGED <<inb, q, cur, handled, callV>> /\ EngFrame
HReturn(i) ==
    /\ hp[i] = "ret" /\ hp' = [hp EXCEPT ![i] = "none"]
    /\ UNCHANGED <<ex, gr, dn, st, inb, q, cur, reg, nreg, handled, perr, callV>> /\ EngFrame

Gone(i, n) == gr' = [gr EXCEPT ![i] = @ \ {n}]
ExitFrame == UNCHANGED <<ex, st, inb, q, hp, cur, reg, nreg, handled, perr, callV>> /\ EngFrame
RLExit(i) == "recv" \in gr[i] /\ hp[i] = "none" /\ (Stopped(i) \/ mux = "down" \/ "send" \notin gr[i]) /\ Gone(i, "recv") /\ UNCHANGED dn /\ ExitFrame
SLExit(i) == "send" \in gr[i] /\ (Stopped(i) \/ "recv" \notin gr[i]) /\ Gone(i, "send") /\ UNCHANGED dn /\ ExitFrame
Closer(i) == "closer" \in gr[i] /\ "recv" \notin gr[i] /\ "send" \notin gr[i] /\ Gone(i, "closer") /\ dn' = [dn EXCEPT ![i] = TRUE] /\ ExitFrame
Cleanup(i) == "cleanup" \in gr[i] /\ dn[i] /\ Gone(i, "cleanup") /\ UNCHANGED dn /\ ExitFrame

Handler(i) == HPush(i) \/ HStop(i) \/ HInit(i) \/ HStart(i) \/ HReturn(i)
Instance(i) == SLSend(i) \/ RLTake(i) \/ Handler(i) \/ RLExit(i) \/ SLExit(i) \/ Closer(i) \/ Cleanup(i)

--------------------------------------------------------------------------
(* the muxer and the connection *)

ConnFrame == UNCHANGED <<c, ex, gr, dn, st, q, hp, cur, reg, nreg, handled, peerV, userV, callV>>
\* muxer.readLoop: a segment goes to the instance registered at that moment; one for a protocol nobody is registered for,
\* or EOF, makes readLoop give up ("failing": it reads no more) and then stop the muxer - in between a new instance can
\* still register
MuxRead ==
    /\ mux = "up"
    /\ \/ /\ wire # <<>> /\ wire' = Tail(wire)
          /\ IF reg # 0
             THEN inb' = (IF ReadAlive(reg) THEN [inb EXCEPT ![reg] = Append(@, Head(wire))] ELSE inb) /\ UNCHANGED mux
             ELSE mux' = "failing" /\ UNCHANGED inb
       \/ /\ wire = <<>> /\ eof /\ mux' = "failing" /\ UNCHANGED <<wire, inb>>
    /\ UNCHANGED <<perr, merr, sh, closeSig, connClosed, errClosed>> /\ ConnFrame
MuxFail ==
    /\ mux = "failing" /\ mux' = "down" /\ merr' = TRUE
    /\ UNCHANGED <<wire, inb, perr, sh, closeSig, connClosed, errClosed>> /\ ConnFrame
\* forwarders and shutdown goroutine in one (they are followed step by step in ClientApi.tla)
Shutdown ==
    /\ \/ sh = "wait" /\ (closeSig \/ perr \/ merr) /\ sh' = "wg" /\ mux' = "down" /\ connClosed' = TRUE /\ UNCHANGED errClosed
       \/ sh = "wg" /\ drain /\ sh' = "exit" /\ errClosed' = TRUE /\ UNCHANGED <<mux, connClosed>>
    /\ UNCHANGED <<wire, inb, perr, merr, closeSig>> /\ ConnFrame

Library == Calls \/ (\E i \in Gens : Instance(i)) \/ MuxRead \/ MuxFail \/ Shutdown

--------------------------------------------------------------------------
(* the peer and the user *)

TimingOk(i) ==
    (i > FirstDone(S)) =>
        CASE c.t = "mid"  -> Stopped(1)
          [] c.t = "late" -> nreg >= 2
          [] OTHER        -> TRUE
Peer ==
    /\ pi <= Len(S) /\ ~eof /\ TimingOk(pi)
    /\ (Tx /\ pi = 1) => st[1] = "blk"        \* the raw peer says Done once it has the blocking request
    /\ IF S[pi] = "close" THEN eof' = TRUE /\ UNCHANGED wire
       ELSE wire' = Append(wire, S[pi]) /\ UNCHANGED eof
    /\ pi' = pi + 1
    /\ UNCHANGED <<c, ex, gr, dn, st, inb, q, hp, cur, reg, nreg, handled, mux, connV, userV, callV>>

PeerDone == pi > Len(S)
AtRest == uc = "no" /\ PeerDone /\ ~ENABLED Library
UserClose ==
    /\ AtRest
    /\ uc' = "in" /\ closeSig' = TRUE
    /\ UNCHANGED <<c, ex, gr, dn, st, inb, q, hp, cur, reg, nreg, handled, wire, mux, peerV, perr, merr, sh, connClosed, errClosed, drain, callV>>
UserCloseRet ==
    /\ uc = "in" /\ connClosed
    /\ uc' = "ret" /\ drain' = TRUE
    /\ UNCHANGED <<c, ex, gr, dn, st, inb, q, hp, cur, reg, nreg, handled, wire, mux, peerV, perr, merr, sh, closeSig, connClosed, errClosed, callV>>
User == UserClose \/ UserCloseRet

Next == Library \/ Peer \/ User
Spec == Init /\ [][Next]_vars /\ WF_vars(Calls) /\ WF_vars(Peer) /\ WF_vars(User) /\ WF_vars(MuxRead) /\ WF_vars(MuxFail) /\ WF_vars(Shutdown)
        /\ \A i \in Gens : WF_vars(SLSend(i)) /\ WF_vars(RLTake(i) \/ Handler(i) \/ RLExit(i)) /\ WF_vars(SLExit(i))
                           /\ WF_vars(Closer(i)) /\ WF_vars(Cleanup(i))

--------------------------------------------------------------------------
(* properties *)

TypeOK ==
    /\ \A i \in Gens : ex[i] \in {"none", "new", "run", "failed", "stopped"} /\ gr[i] \subseteq AllG
                       /\ hp[i] \in {"none", "push", "stop", "init", "start", "ret"}
    /\ cur \in Gens /\ reg \in 0..MaxGen /\ nreg \in 1..MaxGen
    /\ pc1 \in {"none", "send", "wait", "ret"} /\ pc2 \in {"idle", "send", "blocked", "wait", "ret"}
\* the muxer routes to a running instance, and to the newest one
RegisteredRuns == reg # 0 => (ex[reg] = "run" /\ reg = cur)
\* at most one instance is not yet stopped
OneLive == Cardinality({i \in Gens : ex[i] \in {"new", "run"}}) <= 1
\* DoneChan only after both loops and the handler (no push, no close of a result channel under a running handler)
DoneAfterLoops == \A i \in Gens : (dn[i] /\ ex[i] # "failed") => ("recv" \notin gr[i] /\ "send" \notin gr[i] /\ hp[i] = "none")
\* the clean-up goroutine of an instance closes ITS channels once: it is gone only after that instance's DoneChan
CleanAfterDone == \A i \in Gens : (Tx /\ ex[i] \in {"run", "stopped", "failed"} /\ "cleanup" \notin gr[i]) => dn[i]
\* enough generations for the script
GenBound == \A i \in Gens : hp[i] = "init" => i < MaxGen

GNames(i) == gr[i] \cup (IF ReadAlive(i) /\ ~Stopped(i) THEN {"read"} ELSE {}) \cup (IF StateAlive(i) /\ ~Stopped(i) THEN {"state"} ELSE {})
OldAlive == UNION {GNames(i) : i \in {j \in Gens : j < cur}}
Alive == UNION {GNames(i) : i \in Gens} \cup (IF sh # "exit" THEN {"shutdown"} ELSE {})
Ret1 == pc1 \in {"none", "ret"}
Ret2 == pc2 = "ret"
Terminal == ~ENABLED Next

\* liveness, as the property states it
OldInstanceEnds == \A i \in Gens : Stopped(i) ~> (GNames(i) = {})
CallsReturn == (mux = "down") ~> (Ret1 /\ (pc2 # "idle" => Ret2))
CloseCompletes == (uc # "no") ~> (uc = "ret" /\ errClosed /\ Alive = {} /\ Ret1 /\ Ret2)
ScriptPlayed == <>(PeerDone /\ uc # "no")
\* acyclic finite graph: the same on terminal states (quick tier), and the old instances are gone at every rest
\* (the code as it is satisfies it as well if Protocol.Start closes DoneChan on a failed registration)
TerminalGood == (Terminal /\ (Repaired \/ StartFailDone)) => (PeerDone /\ uc = "ret" /\ errClosed /\ Alive = {} /\ Ret1 /\ Ret2)
RestGood == AtRest => (OldAlive = {} /\ pc2 # "idle" /\ (((Repaired \/ StartFailDone) /\ mux = "down") => (Ret1 /\ Ret2)))

--------------------------------------------------------------------------
CaseRow(x) == [kind |-> "restart", proto |-> x.p, script |-> x.s, timing |-> x.t]
ASSUME Emit => ndJsonSerialize("restart_cases.ndjson",
                               SetToSeq({CaseRow(x) : x \in {y \in CaseSpace : CaseOk(y) /\ y.design = "extracted"}}))

Write(row) == CSVWrite("%1$s", <<ToJson(row)>>, "restart_outcomes.ndjson")
Key == [proto |-> c.p, script |-> S, timing |-> c.t]
EmitOutcome ==
    /\ (Emit /\ AtRest /\ ~Repaired) =>
           Write(Key @@ [at |-> "rest", oldalive |-> SetToSeq(OldAlive), up |-> mux = "up", gens |-> cur, nreg |-> nreg,
                         handled |-> handled, ret1 |-> Ret1, ret2 |-> Ret2, c2 |-> pc2])
    /\ (Emit /\ Terminal /\ ~Repaired) =>
           Write(Key @@ [at |-> "end", alive |-> SetToSeq(Alive), closeret |-> uc = "ret", errclosed |-> errClosed,
                         gens |-> cur, nreg |-> nreg, handled |-> handled, ret1 |-> Ret1, ret2 |-> Ret2])
==============================================================================
