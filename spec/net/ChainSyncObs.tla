---------------------------- MODULE ChainSyncObs ----------------------------
(***************************************************************************)
(* C21 - observer of one chain-sync conversation of a syncing client        *)
(* (protocol/chainsync/client.go: Sync, syncLoop, handleRollForward,        *)
(* handleRollBackward, handleAwaitReply, Stop).                             *)
(*                                                                         *)
(* The observer is a record o and one TOTAL operator per observable event: *)
(* an event the client must never produce in the current situation does    *)
(* not disable anything, it records the rule in o.err (sticky).            *)
(*    ObsOK(o) == o.err = "none"                                           *)
(* The same operators are used                                             *)
(*  - by ChainSyncClient.tla (the goroutine-level model of the client):    *)
(*    every model action emits its events into the observer and TLC checks *)
(*    ObsOK in every reachable state (the design only produces accepted    *)
(*    event sequences);                                                    *)
(*  - by ChainSyncTrace.tla, which replays traces recorded from the real   *)
(*    client (engine `verif` events + driver events) through the observer. *)
(*                                                                         *)
(* Events                                                                  *)
(*   Req            the client's sendLoop dequeued a RequestNext to the    *)
(*                  wire (engine event Deq, message type 0)                *)
(*   DoneW          ... dequeued Done (type 7)                             *)
(*   SrvSend(k,t,h) the server is about to send k in {"A","F","B"}         *)
(*                  (AwaitReply, RollForward, RollBackward) with tip t and *)
(*                  payload identity h                                     *)
(*   Handle(mt)     the client's engine calls the handler for a message of *)
(*                  type 1 AwaitReply, 2 RollForward, 3 RollBackward       *)
(*   CbBegin(k,t,h) the application callback was entered / CbEnd returned  *)
(*   StopCall, StopRet(err), SrvDone (server handled Done), PeerErr,       *)
(*   CliErr, End(mode)                                                     *)
(*                                                                         *)
(* Rules (property C21)                                                    *)
(*   Outstanding    Req written - RollForward/RollBackward handled <= eff  *)
(*                  eff = configured limit, 0 replaced by the default as   *)
(*                  NewClient does.  The configured-0 case is additionally *)
(*                  flagged (o.strict) when the outstanding requests       *)
(*                  exceed max(configured,1): finding F-C21z.              *)
(*   Backpressure   Req written - callbacks returned <= eff  (the ready    *)
(*                  signal is given after the callback, so a slow callback *)
(*                  throttles the requests)                                *)
(*   Order/once/tip handled messages are the server's messages in order;   *)
(*                  each RollForward/RollBackward gets exactly one         *)
(*                  callback of its kind with its tip and payload before   *)
(*                  the next message is handled; AwaitReply gets none      *)
(*   Stop           Done only after Stop was called, nothing is written    *)
(*                  after Done, Stop returns without error and with no     *)
(*                  handler running, nothing happens after it returned, no *)
(*                  protocol error at either end                           *)
(*   End            a conversation that was not stopped delivers the whole *)
(*                  server history (no lost ready signal, no hang)         *)
(*                                                                         *)
(* Block pipeline (o.pipe, Config.Pipeline, node-to-client only)           *)
(*   The roll-forward "callback" is the pipeline's ApplyFunc: the handler  *)
(*   of a RollForward hands the block to the pipeline (Submit), gives the  *)
(*   ready signal and returns; the block is applied later, by the          *)
(*   pipeline's apply goroutine.  o.inpipe is the queue of the blocks      *)
(*   handed over and not yet applied, o.app says whether an apply is       *)
(*   running.  The rules become                                            *)
(*   Order/once/tip every block is applied exactly once, in the order the  *)
(*                  server sent the RollForwards, with the tip and payload *)
(*                  of its message, one apply at a time;                   *)
(*   Drain          the roll-backward callback is entered only when every  *)
(*                  block of an earlier RollForward has been applied       *)
(*                  (o.inpipe empty, no apply running) - "in the order the *)
(*                  server sent them" across the two kinds of callbacks -  *)
(*                  and no block is applied while it runs;                 *)
(*   Backpressure   a RollForward frees its request when it is handled     *)
(*                  (the pipeline does the throttling), a RollBackward     *)
(*                  when its callback returned;                            *)
(*   Stop           the pipeline is the application's: blocks handed over  *)
(*                  before Stop may be applied after Stop returned (the    *)
(*                  property is silent), but all of them are applied by    *)
(*                  the End of the conversation.                           *)
(***************************************************************************)
EXTENDS Integers, Sequences, FiniteSets, TLC

Max2(a, b) == IF a > b THEN a ELSE b

NoCur == [k |-> "", tip |-> 0, h |-> "", ph |-> "none"]

ObsNew(cfg, dflt, pipe) ==
    [cfg |-> cfg, eff |-> IF cfg = 0 THEN dflt ELSE cfg,
     pipe |-> pipe,       \* a block pipeline is configured
     inpipe |-> <<>>,     \* pipeline: blocks handed over by the RollForward handler, not yet applied
     app |-> "idle",      \* pipeline: idle | cb (the apply callback is running)
     free |-> 0,          \* requests whose answer no longer holds back the next request: callbacks returned
                          \* (pipeline: RollForwards handled + roll-backward callbacks returned)
     written |-> 0,       \* RequestNext messages dequeued to the wire
     handled |-> 0,       \* RollForward/RollBackward handled
     ncb |-> 0,           \* callbacks entered
     cbDone |-> 0,        \* callbacks returned
     pend |-> <<>>,       \* messages the server sent, not yet handled by the client
     cur |-> NoCur,       \* the message the client's handler is working on
     stop |-> "no",       \* no | called | ret
     doneW |-> FALSE,     \* Done written
     srvDone |-> FALSE,   \* Done handled by the server
     strict |-> FALSE,    \* outstanding exceeded max(configured limit, 1)
     maxOut |-> 0,        \* high-water mark of outstanding requests
     err |-> "none"]

ObsOK(o) == o.err = "none"

Fail(o, msg) == [o EXCEPT !.err = msg]

KindOfType(mt) == CASE mt = 1 -> "A" [] mt = 2 -> "F" [] mt = 3 -> "B" [] OTHER -> "?"

ObsReq(o) ==
    IF ~ObsOK(o) THEN o
    ELSE IF o.doneW THEN Fail(o, "Req: RequestNext written after Done")
    ELSE IF o.stop = "ret" THEN Fail(o, "Req: RequestNext written after Stop returned")
    ELSE LET w == o.written + 1 IN
      IF w - o.handled > o.eff
        THEN Fail(o, "Outstanding: more requests on the wire than the pipeline limit")
      ELSE IF w - o.free > o.eff
        THEN Fail(o, "Backpressure: request written before the callback of an answered request returned")
      ELSE [o EXCEPT !.written = w,
                     !.strict = @ \/ (w - o.handled > Max2(o.cfg, 1)),
                     !.maxOut = Max2(@, w - o.handled)]

ObsDoneW(o) ==
    IF ~ObsOK(o) THEN o
    ELSE IF o.stop = "no" THEN Fail(o, "Done: written although Stop was not called")
    ELSE IF o.doneW THEN Fail(o, "Done: written twice")
    ELSE [o EXCEPT !.doneW = TRUE]

ObsSrvSend(o, k, tip, h) ==
    IF ~ObsOK(o) THEN o
    ELSE [o EXCEPT !.pend = Append(@, [k |-> k, tip |-> tip, h |-> h])]

ObsHandle(o, mt) ==
    IF ~ObsOK(o) THEN o
    ELSE IF o.stop = "ret" THEN Fail(o, "Handle: message handled after Stop returned")
    ELSE IF o.cur.ph = "handled"
        THEN Fail(o, "Callback: RollForward/RollBackward handled without its callback")
    ELSE IF o.cur.ph = "cb" THEN Fail(o, "Handle: next message handled while a callback is running")
    ELSE IF o.pend = <<>> \/ Head(o.pend).k # KindOfType(mt)
        THEN Fail(o, "Handle: not the next message the server sent")
    ELSE LET m == Head(o.pend) IN
         IF mt = 1
           THEN [o EXCEPT !.pend = Tail(@), !.cur = NoCur]
           ELSE IF o.pipe /\ mt = 2
             THEN [o EXCEPT !.pend = Tail(@), !.handled = @ + 1, !.free = @ + 1,
                            !.inpipe = Append(@, [tip |-> m.tip, h |-> m.h]),
                            !.cur = [k |-> m.k, tip |-> m.tip, h |-> m.h, ph |-> "piped"]]
           ELSE [o EXCEPT !.pend = Tail(@), !.handled = @ + 1,
                          !.cur = [k |-> m.k, tip |-> m.tip, h |-> m.h, ph |-> "handled"]]

\* pipeline: the apply callback of a block was entered
ObsApplyBegin(o, tip, h) ==
    IF o.app = "cb" THEN Fail(o, "Callback: block applied while the apply of the previous block is still running")
    ELSE IF o.cur.ph = "cb" THEN Fail(o, "Order: block applied while the roll-backward callback is running")
    ELSE IF o.inpipe = <<>>
        THEN Fail(o, "Callback: block applied that no handled RollForward handed to the pipeline (duplicate or spurious)")
    ELSE IF tip # Head(o.inpipe).tip
        THEN Fail(o, "Order: the block applied is not the oldest one handed to the pipeline (order or tip)")
    ELSE IF h # Head(o.inpipe).h THEN Fail(o, "Callback: block/point is not the one the message carried")
    ELSE [o EXCEPT !.inpipe = Tail(@), !.app = "cb", !.ncb = @ + 1]

ObsCbBegin(o, k, tip, h) ==
    IF ~ObsOK(o) THEN o
    ELSE IF o.pipe /\ k = "F" THEN ObsApplyBegin(o, tip, h)
    ELSE IF o.stop = "ret" THEN Fail(o, "Callback: invoked after Stop returned")
    ELSE IF o.cur.ph # "handled"
        THEN Fail(o, "Callback: invoked without a RollForward/RollBackward being handled (AwaitReply, duplicate or late)")
    ELSE IF k # o.cur.k THEN Fail(o, "Callback: wrong kind (roll-forward vs roll-backward)")
    ELSE IF tip # o.cur.tip THEN Fail(o, "Callback: tip is not the tip the message carried")
    ELSE IF h # o.cur.h THEN Fail(o, "Callback: block/point is not the one the message carried")
    ELSE IF o.inpipe # <<>> \/ o.app = "cb"
        THEN Fail(o, "Drain: roll-backward callback entered before the blocks of the earlier RollForwards were applied")
    ELSE [o EXCEPT !.cur.ph = "cb", !.ncb = @ + 1]

ObsCbEnd(o) ==
    IF ~ObsOK(o) THEN o
    ELSE IF o.app = "cb" THEN [o EXCEPT !.app = "idle", !.cbDone = @ + 1]     \* pipeline: the apply callback
    ELSE IF o.cur.ph # "cb" THEN Fail(o, "Callback: return without entry")
    ELSE [o EXCEPT !.cur.ph = "done", !.cbDone = @ + 1, !.free = @ + 1]

ObsStopCall(o) ==
    IF ~ObsOK(o) THEN o
    ELSE IF o.stop # "no" THEN Fail(o, "Stop: called twice")
    ELSE [o EXCEPT !.stop = "called"]

ObsStopRet(o, failed) ==
    IF ~ObsOK(o) THEN o
    ELSE IF o.stop # "called" THEN Fail(o, "Stop: returned without being called")
    ELSE IF failed THEN Fail(o, "Stop: returned an error")
    ELSE IF o.cur.ph \in {"handled", "cb"} THEN Fail(o, "Stop: returned while a handler was still running")
    ELSE [o EXCEPT !.stop = "ret"]

ObsSrvDone(o) ==
    IF ~ObsOK(o) THEN o
    ELSE IF ~o.doneW THEN Fail(o, "Peer: Done handled that the client never wrote")
    ELSE [o EXCEPT !.srvDone = TRUE]

ObsPeerErr(o) == IF ~ObsOK(o) THEN o ELSE Fail(o, "Peer: protocol error at the server")
\* the server's chain-sync restarts after Done (Server.handleDone); the restart fails when the connection
\* has been torn down meanwhile (a reply to a still outstanding request reached the client's muxer after
\* Stop had unregistered the protocol)
ObsPeerRestartErr(o) ==
    IF ~ObsOK(o) THEN o
    ELSE Fail(o, "PeerRestart: server could not re-register after Done, the connection was torn down after the client's Stop")
ObsCliErr(o)  == IF ~ObsOK(o) THEN o ELSE Fail(o, "Client: protocol error in a conforming conversation")

\* End(mode): the driver closes the trace when everything has come to rest
\*   complete : Stop was called only after the whole history had been delivered
\*   stopped  : Stop was called in the middle of the history
\*   stalled  : everything at rest, history not exhausted, nothing outstanding, no Stop
\*   hung     : no event for a long time although work is in progress
ObsEnd(o, mode) ==
    IF ~ObsOK(o) THEN o
    ELSE IF mode = "stalled"
        THEN Fail(o, "End: client at rest with nothing outstanding although the server has more to send (lost ready signal)")
    ELSE IF mode = "hung" THEN Fail(o, "End: conversation hung")
    ELSE IF o.stop = "called" THEN Fail(o, "End: Stop did not return")
    ELSE IF o.stop = "no" THEN Fail(o, "End: Stop was never called")
    ELSE IF o.cur.ph \in {"handled", "cb"} THEN Fail(o, "End: callback missing or still running")
    ELSE IF o.inpipe # <<>> \/ o.app = "cb"
        THEN Fail(o, "End: blocks handed to the pipeline were never applied")
    ELSE IF o.ncb # o.handled \/ o.cbDone # o.handled
        THEN Fail(o, "End: not exactly one callback per RollForward/RollBackward")
    ELSE IF mode = "complete" /\ o.pend # <<>> THEN Fail(o, "End: server messages never handled")
    ELSE o
=============================================================================
