----------------------------- MODULE MuxerLife -----------------------------
(***************************************************************************)
(* Shutdown of the muxer at the grain of its goroutines (muxer/muxer.go):  *)
(*   readLoop            gate -> read -> deliver -> ... -> exit            *)
(*   one sender per registered protocol (RegisterProtocol starts it under  *)
(*                       waitGroupMutex, inside the wait group)            *)
(*   the clean-up goroutine of New():  <-doneChan ; conn.Close() ;         *)
(*                       lock waitGroupMutex ; waitGroup.Wait() ; unlock ; *)
(*                       close(errorChan)                                  *)
(* sendError() checks doneChan, then sends on errorChan without blocking,  *)
(* then calls Stop().  A send on a closed channel panics in Go even inside *)
(* a select with a default branch, so the design is safe only because      *)
(* every goroutine that can call sendError is counted by the wait group    *)
(* the clean-up goroutine waits for BEFORE it closes errorChan.            *)
(*   Design = "asis"      the code                                         *)
(*   Design = "senderOutsideWg"  senders started with a bare `go` (what    *)
(*                        RegisterProtocol would be without waitGroup.Go): *)
(*                        TLC must find the panic                          *)
(*   Design = "regUnlocked"  RegisterProtocol without waitGroupMutex: a    *)
(*                        sender can be added after Wait() has returned    *)
(***************************************************************************)
EXTENDS Integers, FiniteSets, TLC

CONSTANTS Keys, Design, MaxWrites

VARIABLES done, connClosed, errClosed, errs, panicked,
          wgMutex,      \* "free" | "cleanup" | "reg"
          wg,           \* wait group counter
          rpc,          \* readLoop: "gate" | "read" | "deliver" | "sendErr1" | "sendErr2" | "exit"
          cpc,          \* clean-up: "waitDone" | "closeConn" | "lock" | "wait" | "closeErr" | "end"
          spc,          \* [Keys -> "none" | "idle" | "write" | "sendErr1" | "sendErr2" | "exit"]
          regpc,        \* [Keys -> "no" | "locked" | "checked" | "done" | "nil"]   RegisterProtocol calls
          peerClosed, writes

vars == <<done, connClosed, errClosed, errs, panicked, wgMutex, wg, rpc, cpc, spc, regpc, peerClosed, writes>>

Init ==
    /\ done = FALSE /\ connClosed = FALSE /\ errClosed = FALSE /\ errs = 0 /\ panicked = FALSE
    /\ wgMutex = "free" /\ wg = 1 /\ rpc = "gate" /\ cpc = "waitDone"
    /\ spc = [k \in Keys |-> "none"] /\ regpc = [k \in Keys |-> "no"]
    /\ peerClosed = FALSE /\ writes = 0

\* ---- API
Stop == /\ ~done /\ done' = TRUE
        /\ UNCHANGED <<connClosed, errClosed, errs, panicked, wgMutex, wg, rpc, cpc, spc, regpc, peerClosed, writes>>
PeerClose == /\ ~peerClosed /\ peerClosed' = TRUE
             /\ UNCHANGED <<done, connClosed, errClosed, errs, panicked, wgMutex, wg, rpc, cpc, spc, regpc, writes>>

\* RegisterProtocol(k): lock waitGroupMutex ; check doneChan ; start the sender ; unlock
RegLock(k) ==
    /\ regpc[k] = "no"
    /\ IF Design = "regUnlocked" THEN UNCHANGED wgMutex
       ELSE wgMutex = "free" /\ wgMutex' = "reg"
    /\ regpc' = [regpc EXCEPT ![k] = "locked"]
    /\ UNCHANGED <<done, connClosed, errClosed, errs, panicked, wg, rpc, cpc, spc, peerClosed, writes>>
RegCheck(k) ==
    /\ regpc[k] = "locked"
    /\ IF done THEN /\ regpc' = [regpc EXCEPT ![k] = "nil"]
                    /\ wgMutex' = IF Design = "regUnlocked" THEN wgMutex ELSE "free"
               ELSE /\ regpc' = [regpc EXCEPT ![k] = "checked"] /\ UNCHANGED wgMutex
    /\ UNCHANGED <<done, connClosed, errClosed, errs, panicked, wg, rpc, cpc, spc, peerClosed, writes>>
RegStart(k) ==
    /\ regpc[k] = "checked"
    /\ regpc' = [regpc EXCEPT ![k] = "done"]
    /\ spc' = [spc EXCEPT ![k] = "idle"]
    /\ wg' = IF Design = "senderOutsideWg" THEN wg ELSE wg + 1
    /\ wgMutex' = IF Design = "regUnlocked" THEN wgMutex ELSE "free"
    /\ UNCHANGED <<done, connClosed, errClosed, errs, panicked, rpc, cpc, peerClosed, writes>>

\* ---- sendError, two steps: the doneChan check, then the channel send + Stop
SendErr2Effect ==
    /\ IF errClosed THEN panicked' = TRUE /\ UNCHANGED errs
                    ELSE errs' = (IF errs < 10 THEN errs + 1 ELSE errs) /\ UNCHANGED panicked
    /\ done' = TRUE

\* ---- readLoop
RGate == /\ rpc = "gate"
         /\ IF done THEN rpc' = "exit" /\ wg' = wg - 1 ELSE rpc' = "read" /\ UNCHANGED wg
         /\ UNCHANGED <<done, connClosed, errClosed, errs, panicked, wgMutex, cpc, spc, regpc, peerClosed, writes>>
RRead == /\ rpc = "read"
         /\ \/ (connClosed \/ peerClosed) /\ rpc' = "sendErr1"       \* read error / EOF
            \/ ~connClosed /\ ~peerClosed /\ rpc' = "deliver"        \* a segment arrived
            \/ ~connClosed /\ ~peerClosed /\ rpc' = "sendErr1"       \* an offending segment
         /\ UNCHANGED <<done, connClosed, errClosed, errs, panicked, wgMutex, wg, cpc, spc, regpc, peerClosed, writes>>
RDeliver == /\ rpc = "deliver"
            /\ IF done THEN rpc' = "exit" /\ wg' = wg - 1 ELSE rpc' = "gate" /\ UNCHANGED wg
            /\ UNCHANGED <<done, connClosed, errClosed, errs, panicked, wgMutex, cpc, spc, regpc, peerClosed, writes>>
RErr1 == /\ rpc = "sendErr1"
         /\ IF done THEN rpc' = "exit" /\ wg' = wg - 1 ELSE rpc' = "sendErr2" /\ UNCHANGED wg
         /\ UNCHANGED <<done, connClosed, errClosed, errs, panicked, wgMutex, cpc, spc, regpc, peerClosed, writes>>
RErr2 == /\ rpc = "sendErr2" /\ SendErr2Effect
         /\ rpc' = "exit" /\ wg' = wg - 1
         /\ UNCHANGED <<connClosed, errClosed, wgMutex, cpc, spc, regpc, peerClosed, writes>>

\* ---- sender goroutine of protocol k
Dec(k) == IF Design = "senderOutsideWg" THEN wg ELSE wg - 1
SIdle(k) ==
    /\ spc[k] = "idle"
    /\ \/ done /\ spc' = [spc EXCEPT ![k] = "exit"] /\ wg' = Dec(k) /\ UNCHANGED writes
       \/ ~done /\ writes < MaxWrites /\ spc' = [spc EXCEPT ![k] = "write"] /\ writes' = writes + 1 /\ UNCHANGED wg
    /\ UNCHANGED <<done, connClosed, errClosed, errs, panicked, wgMutex, rpc, cpc, regpc, peerClosed>>
SWrite(k) ==
    /\ spc[k] = "write"
    /\ IF done \/ connClosed \/ peerClosed
         THEN spc' = [spc EXCEPT ![k] = "sendErr1"]       \* Send() returned an error
         ELSE spc' = [spc EXCEPT ![k] = "idle"]
    /\ UNCHANGED <<done, connClosed, errClosed, errs, panicked, wgMutex, wg, rpc, cpc, regpc, peerClosed, writes>>
SErr1(k) ==
    /\ spc[k] = "sendErr1"
    /\ IF done THEN spc' = [spc EXCEPT ![k] = "exit"] /\ wg' = Dec(k)
               ELSE spc' = [spc EXCEPT ![k] = "sendErr2"] /\ UNCHANGED wg
    /\ UNCHANGED <<done, connClosed, errClosed, errs, panicked, wgMutex, rpc, cpc, regpc, peerClosed, writes>>
SErr2(k) ==
    /\ spc[k] = "sendErr2" /\ SendErr2Effect
    /\ spc' = [spc EXCEPT ![k] = "exit"] /\ wg' = Dec(k)
    /\ UNCHANGED <<connClosed, errClosed, wgMutex, rpc, cpc, regpc, peerClosed, writes>>

\* ---- the clean-up goroutine
CWaitDone  == /\ cpc = "waitDone" /\ done /\ cpc' = "closeConn"
              /\ UNCHANGED <<done, connClosed, errClosed, errs, panicked, wgMutex, wg, rpc, spc, regpc, peerClosed, writes>>
CCloseConn == /\ cpc = "closeConn" /\ connClosed' = TRUE /\ cpc' = "lock"
              /\ UNCHANGED <<done, errClosed, errs, panicked, wgMutex, wg, rpc, spc, regpc, peerClosed, writes>>
CLock      == /\ cpc = "lock" /\ wgMutex = "free" /\ wgMutex' = "cleanup" /\ cpc' = "wait"
              /\ UNCHANGED <<done, connClosed, errClosed, errs, panicked, wg, rpc, spc, regpc, peerClosed, writes>>
CWait      == /\ cpc = "wait" /\ wg = 0 /\ wgMutex' = "free" /\ cpc' = "closeErr"
              /\ UNCHANGED <<done, connClosed, errClosed, errs, panicked, wg, rpc, spc, regpc, peerClosed, writes>>
CCloseErr  == /\ cpc = "closeErr" /\ errClosed' = TRUE /\ cpc' = "end"
              /\ UNCHANGED <<done, connClosed, errs, panicked, wgMutex, wg, rpc, spc, regpc, peerClosed, writes>>

Next == Stop \/ PeerClose \/ RGate \/ RRead \/ RDeliver \/ RErr1 \/ RErr2
        \/ CWaitDone \/ CCloseConn \/ CLock \/ CWait \/ CCloseErr
        \/ \E k \in Keys : RegLock(k) \/ RegCheck(k) \/ RegStart(k) \/ SIdle(k) \/ SWrite(k) \/ SErr1(k) \/ SErr2(k)

Procs == RGate \/ RRead \/ RDeliver \/ RErr1 \/ RErr2 \/ CWaitDone \/ CCloseConn \/ CLock \/ CWait \/ CCloseErr
Spec == Init /\ [][Next]_vars /\ WF_vars(RGate \/ RRead \/ RDeliver \/ RErr1 \/ RErr2)
             /\ WF_vars(CWaitDone \/ CCloseConn \/ CLock \/ CWait \/ CCloseErr)
             /\ \A k \in Keys : WF_vars(RegCheck(k) \/ RegStart(k) \/ SIdle(k) \/ SWrite(k) \/ SErr1(k) \/ SErr2(k))

-----------------------------------------------------------------------------
NoPanic == ~panicked
\* the error channel is closed only after every goroutine of the muxer has ended
ClosedAfterAll == errClosed => (rpc = "exit" /\ \A k \in Keys : spc[k] \in {"none", "exit"})
\* a registration that finds the muxer stopping gets nothing and starts nothing
NilStartsNothing == \A k \in Keys : regpc[k] = "nil" => spc[k] = "none"
WgNonNegative == wg >= 0
\* Stop (or the first error) always ends with the error channel closed
StopLeadsToClosed == done ~> errClosed
=============================================================================
