\* C15: the timer chain as the code has it must violate NoImmortalTimerAny (TLC has to object: the model predicts the leak)
CONSTANTS
  MaxLen = 1
  MaxTicks = 2
  Designs = {"extracted"}
  Emit = FALSE
  Holds = {"free"}
  Late = FALSE
SPECIFICATION Spec
INVARIANTS TypeOK NoImmortalTimerAny
