\* C15: the timer chain with a startTimer that arms unconditionally (the code as it was found) must violate NoImmortalTimerAny (TLC has to object: the model predicts the leak)
CONSTANTS
  MaxLen = 1
  MaxTicks = 2
  Designs = {"unguarded"}
  Emit = FALSE
  Holds = {"free"}
  Late = FALSE
SPECIFICATION Spec
INVARIANTS TypeOK NoImmortalTimerAny
