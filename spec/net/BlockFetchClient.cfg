\* C23 quick: every response shape with up to 2 blocks x 2 points x close x follow-up (repaired design)
CONSTANTS
  Points = {1, 2}
  MaxBlocks = 2
  HashCheck = TRUE
  Collect = TRUE
  FollowUps = {"none", "block", "range"}
  Emit = TRUE
SPECIFICATION Spec
INVARIANTS TypeOK GetBlockSound GetBlockExact RangeOrder RangeReturn BusyLock EmitOutcome
PROPERTIES Termination RangeCompletes
