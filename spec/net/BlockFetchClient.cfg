\* C23 quick: every response shape with up to 2 blocks x 2 points x close x follow-up (repaired design)
\* x three callback configurations in which each of BlockFunc / BlockRawFunc / BatchDoneFunc is once set and once
\* unset (the thorough tier runs all eight)
CONSTANTS
  Points = {1, 2}
  MaxBlocks = 2
  HashCheck = TRUE
  Collect = TRUE
  FollowUps = {"none", "block", "range"}
  Configs = {"bf+bdf", "raw", "bdf"}
  Emit = TRUE
SPECIFICATION Spec
INVARIANTS TypeOK GetBlockSound GetBlockExact RangeOrder RangeReturn BusyLock BatchDoneFuncIffConfigured ReleasedAtBatchDone BlockCallbackPresent EmitOutcome
PROPERTIES Termination RangeCompletes EveryRequestSent
