\* the code as read, F-C23b/c: GetBlock waits for one block and then for BatchDone -> Termination must be violated
CONSTANTS
  Points = {1, 2}
  MaxBlocks = 2
  HashCheck = TRUE
  Collect = FALSE
  FollowUps = {"none"}
  Configs = {"bf+bdf"}
  Emit = FALSE
SPECIFICATION Spec
INVARIANTS TypeOK GetBlockSound RangeOrder BusyLock
PROPERTIES Termination
