\* C15 quick: the keep-alive timer chain; scripts of 1 step, free and held schedules;
\* the code as it is (terminal observations emitted) and repaired (the PROPERTIES)
CONSTANTS
  MaxLen = 1
  MaxTicks = 1
  Designs = {"extracted", "repaired"}
  Emit = TRUE
  Holds = {"free", "tick"}
  Late = TRUE
SPECIFICATION Spec
INVARIANTS TypeOK WireAfterStop DoneAfterLoops CleanAfterDone NoImmortalTimer TerminalGood EmitOutcome
