\* C15 quick: one call per protocol, scripts of up to 2 steps, the table as extracted from the tree under test
CONSTANTS
  MaxLen = 2
  ApiFilter = {"localtxsubmission.SubmitTx", "localtxmonitor.HasTx", "localstatequery.GetCurrentEra", "chainsync.Sync",
               "blockfetch.GetBlock", "peersharing.GetPeers", "txsubmission.RequestTxIdsBlocking"}
  Design = "extracted"
  Emit = TRUE
SPECIFICATION Spec
INVARIANTS TypeOK DoneAfterHandler CleanAfterDone MutexOwner TimerSound TimeoutEndsSilence EmitOutcome
