\* C15 quick: one call per protocol, scripts of up to 2 steps, the table as extracted from the tree under test;
\* of node-to-node chain-sync and of the block-fetch call that returns before the batch is in (timeouts behind the
\* call's back) only the scripts whose silence lasts until the state timeout fires
CONSTANTS
  MaxLen = 2
  ApiFilter = {"localtxsubmission.SubmitTx", "localtxmonitor.HasTx", "localstatequery.GetCurrentEra", "chainsync.Sync",
               "blockfetch.GetBlock", "peersharing.GetPeers", "txsubmission.RequestTxIdsBlocking",
               "chainsync-ntn.Sync", "blockfetch.GetBlockRange"}
  TmoOnly = {"chainsync-ntn.Sync", "blockfetch.GetBlockRange"}
  Design = "extracted"
  Emit = TRUE
SPECIFICATION Spec
INVARIANTS TypeOK DoneAfterHandler CleanAfterDone MutexOwner TimerSound TimeoutEndsSilence EmitOutcome
