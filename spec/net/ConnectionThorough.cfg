CONSTANT NtNVersions = {7, 8, 9, 10, 11, 12, 13, 14, 15}
CONSTANT NtCVersions = {9, 10, 11, 12, 13, 14, 15, 16, 17, 18, 19, 20, 21}
CONSTANT DMQVersions = {1}
CONSTANT ExtraIds = {1, 11, 12, 13, 16, 17, 21, 99, 1000, 32767}
CONSTANT Design = "fixed"
CONSTANT LkaOffKinds = {"ntn", "ntc", "dmq"}
CONSTANT LkaOffFull = TRUE
CONSTANT StopScope = "all"
INIT Init
NEXT Next
INVARIANT TypeOK
INVARIANT MachineMatchesOutcome
INVARIANT InitiatorOnlyNeverDeliversRequest
INVARIANT ResponderOnlyNeverDeliversResponse
INVARIANT StartedIffEnabled
INVARIANT EnabledIsReachable
INVARIANT LocalOptInOnlyAffectsOwnInitiator
INVARIANT StopRemovesExactlyThatPair
