CONSTANTS
  MaxScript = 3
  MaxOps = 2
INIT Init
NEXT Next
INVARIANTS HandledBounded ErrorCutsOff PrefixMonotone
