\* C15 quick: the property's liveness statements on the repaired design, three calls, scripts of one step
CONSTANTS
  MaxLen = 1
  ApiFilter = {"localtxmonitor.HasTx", "blockfetch.GetBlockRange", "peersharing.GetPeers"}
  TmoOnly = {}
  Design = "repaired"
  Emit = FALSE
SPECIFICATION Spec
INVARIANTS TypeOK DoneAfterHandler CleanAfterDone MutexOwner ErrorChanSafe TimerSound TimeoutEndsSilence StateLoopEnds
PROPERTIES CallReturns CloseCompletes SecondCallReturns ScriptPlayed SilenceTimesOut
