------------------------------- MODULE Engine -------------------------------
(***************************************************************************)
(* Goroutine-level model of one mini-protocol endpoint                     *)
(* (protocol/protocol.go): sendLoop, readLoop, recvLoop and stateLoop with  *)
(* the two one-slot ready tokens, the send queue, queued state transitions  *)
(* of pipelined batches, the rendezvous with stateLoop (request, Trans,     *)
(* setState, reply) and the stop signal observed independently by every     *)
(* loop (Go `select` = nondeterministic choice among the ready cases).      *)
(*                                                                         *)
(* Every action emits the trace event the instrumented code emits at that  *)
(* point, through the TOTAL event operators of EngineObs.  The invariant   *)
(* ObsOK therefore says: under every interleaving of the goroutines, every *)
(* local send history and every byte stream from an adversarial peer, the  *)
(* design only produces event sequences the observer accepts -- the same   *)
(* observer that validates the traces of the real code (EngineTrace.tla).  *)
(* Message framing (segments, leftover bytes, byte limits) and timers are  *)
(* covered by trace validation only; here every message is one segment of  *)
(* length 1.                                                               *)
(***************************************************************************)
EXTENDS EngineObs, SequencesExt

CONSTANTS
    Me,          \* "client" | "server": the role of the modelled endpoint
    StateMapC,   \* the state map (record: init, agency, trans, limit, timeout)
    MsgTypes,    \* message types the peer / the application may use
    MaxPeer,     \* the peer writes any sequence of at most MaxPeer messages
    MaxApp,      \* the application queues any sequence of at most MaxApp messages
    PeerMode,    \* "adversarial": the peer writes an arbitrary fixed stream; "conforming": the peer is the
                 \* protocol's reference automaton: it reads what we write and answers when it has agency
    Variant      \* "asis" | "noRecvToken": recvLoop without the wait for the receive token (a defective
                 \* design kept as a self-test: TLC must reject it)

BadType == 99    \* undecodable bytes / unknown message type from the peer

VARIABLES
    inbound,                 \* the peer's messages not yet read (adversarial: fixed at Init; conforming: grows)
    appScript, apos,         \* the application's messages (fixed at Init) and the next one to queue
    batch, outWire,          \* messages of the batch being collected / messages written to the wire, not yet read by the peer
    pstate, pchunks,         \* conforming peer: its protocol state and how many Chunks it has streamed
    cstate,                  \* currentState
    sTok, rTok,              \* sendReadyChan / recvReadyChan (one-slot)
    sendQ,                   \* send queue (message types)
    slpc, scur, queued, count,       \* sendLoop
    rdpc, rdcur, recvQc,             \* readLoop
    rlpc, rcurm,                     \* recvLoop
    stpc, stTo, stWho,               \* stateLoop: "init" | "idle" | "set" | "exit"
    sreply, rreply,                  \* replies to transition requests: "none" | "ok" | "err"
    stopped,                         \* stopChan closed
    errPending                       \* which loop is inside SendError: "none" | "send" | "recv" | "read"

pv == <<batch, outWire, pstate, pchunks>>
evars == <<inbound, appScript, apos, pv, cstate, sTok, rTok, sendQ, slpc, scur, queued, count,
           rdpc, rdcur, recvQc, rlpc, rcurm, stpc, stTo, stWho, sreply, rreply, stopped, errPending>>
vars == <<ovars, evars>>

Scripts(n, alphabet) == UNION {[1..k -> alphabet] : k \in 0..n}
\* the state in which the peer hands agency back after entering peer-agency state t (vproto: Busy -Resp-> Idle)
PeerReturn(t) == LET back == {StateMapC.trans[i].t : i \in {j \in DOMAIN StateMapC.trans :
                                  StateMapC.trans[j].f = t /\ StateMapC.agency[StateMapC.trans[j].t] # StateMapC.agency[t]}}
                 IN IF back = {} THEN "dead" ELSE CHOOSE x \in back : TRUE
Targets(f, m) == {StateMapC.trans[i].t : i \in {j \in DOMAIN StateMapC.trans :
                                                    StateMapC.trans[j].f = f /\ StateMapC.trans[j].m = m}}
AgencyC(s) == StateMapC.agency[s]
H(i) == ToString(i)

\* a conforming application only queues messages of its own role that the protocol permits in order
\* when every request is answered (client pipelining is conforming): for the reference run the
\* peer's answers are Resp for every Req
RECURSIVE AppRun(_, _, _)
AppRun(a, i, s0) ==
    IF i > Len(a) THEN TRUE
    ELSE IF s0 = "dead" THEN FALSE
    ELSE LET ts == Targets(s0, a[i]) IN
         IF ts = {} \/ AgencyC(s0) # Me THEN FALSE
         ELSE LET t == CHOOSE x \in ts : TRUE IN
              \* when the peer gets agency it answers and hands agency back (reference: first permitted closing reply)
              AppRun(a, i + 1, IF AgencyC(t) = Peer(Me) THEN PeerReturn(t) ELSE t)
ConformingApp(a) == Me = "client" /\ AppRun(a, 1, StateMapC.init)

Init ==
    /\ ObsInit(StateMapC, StateMapC, FALSE)
    /\ inbound \in (IF PeerMode = "adversarial" THEN Scripts(MaxPeer, MsgTypes \cup {BadType}) ELSE {<<>>})
    /\ appScript \in (IF PeerMode = "adversarial" THEN Scripts(MaxApp, MsgTypes)
                      ELSE {a \in Scripts(MaxApp, MsgTypes) : ConformingApp(a)})
    /\ apos = 1 /\ batch = <<>> /\ outWire = <<>> /\ pstate = StateMapC.init /\ pchunks = 0
    /\ cstate = "" /\ sTok = FALSE /\ rTok = FALSE /\ sendQ = <<>>
    /\ slpc = "waitTok" /\ scur = 0 /\ queued = <<>> /\ count = 0
    /\ rdpc = "idle" /\ rdcur = 0 /\ recvQc = <<>>
    /\ rlpc = "waitTok" /\ rcurm = 0
    /\ stpc = "init" /\ stTo = "" /\ stWho = "none" /\ sreply = "none" /\ rreply = "none"
    /\ stopped = FALSE /\ errPending = "none"

\* setState: assign the state and signal the token of whoever has agency
SetTokens(s) ==
    /\ sTok' = IF AgencyC(s) = Me THEN TRUE ELSE sTok
    /\ rTok' = IF AgencyC(s) = Peer(Me) THEN TRUE ELSE rTok

-----------------------------------------------------------------------------
(* stateLoop *)
ST_Init ==
    /\ stpc = "init"
    /\ EvState(Me, StateMapC.init, 0)
    /\ cstate' = StateMapC.init /\ SetTokens(StateMapC.init) /\ stpc' = "idle"
    /\ UNCHANGED <<inbound, appScript, apos, pv, sendQ, slpc, scur, queued, count, rdpc, rdcur, recvQc,
                   rlpc, rcurm, stTo, stWho, sreply, rreply, stopped, errPending>>

\* a transition request is taken from stateTransitionChan
ST_Request(who, m) ==
    /\ stpc = "idle"
    /\ IF Targets(cstate, m) # {}
         THEN \E to \in Targets(cstate, m) :
                /\ EvTrans(Me, m, cstate, to, 0)
                /\ stpc' = "set" /\ stTo' = to /\ stWho' = who
                /\ UNCHANGED <<sreply, rreply>>
         ELSE /\ EvTransErr(Me, m, cstate, 0)
              /\ sreply' = IF who = "send" THEN "err" ELSE sreply
              /\ rreply' = IF who = "recv" THEN "err" ELSE rreply
              /\ UNCHANGED <<stpc, stTo, stWho>>
ST_RequestSend ==
    /\ slpc \in {"firstTrans", "applyQueued"} /\ sreply = "none"
    /\ ST_Request("send", scur)
    /\ UNCHANGED <<inbound, appScript, apos, pv, cstate, sTok, rTok, sendQ, slpc, scur, queued, count,
                   rdpc, rdcur, recvQc, rlpc, rcurm, stopped, errPending>>
ST_RequestRecv ==
    /\ rlpc = "trans" /\ rreply = "none"
    /\ ST_Request("recv", rcurm)
    /\ UNCHANGED <<inbound, appScript, apos, pv, cstate, sTok, rTok, sendQ, slpc, scur, queued, count,
                   rdpc, rdcur, recvQc, rlpc, rcurm, stopped, errPending>>
ST_Set ==
    /\ stpc = "set"
    /\ EvState(Me, stTo, 0)
    /\ cstate' = stTo /\ SetTokens(stTo) /\ stpc' = "idle" /\ stWho' = "none"
    /\ sreply' = IF stWho = "send" THEN "ok" ELSE sreply
    /\ rreply' = IF stWho = "recv" THEN "ok" ELSE rreply
    /\ UNCHANGED <<inbound, appScript, apos, pv, sendQ, slpc, scur, queued, count, rdpc, rdcur, recvQc,
                   rlpc, rcurm, stTo, stopped, errPending>>
ST_Exit ==
    /\ stpc = "idle" /\ stopped
    /\ EvExit(Me, "state") /\ stpc' = "exit"
    /\ UNCHANGED <<inbound, appScript, apos, pv, cstate, sTok, rTok, sendQ, slpc, scur, queued, count,
                   rdpc, rdcur, recvQc, rlpc, rcurm, stTo, stWho, sreply, rreply, stopped, errPending>>

-----------------------------------------------------------------------------
(* the application queues messages *)
Enqueue ==
    /\ apos <= Len(appScript) /\ ~stopped /\ Len(sendQ) < 3
    /\ EvEnq(Me, H(apos), appScript[apos], 1, 1)
    /\ sendQ' = Append(sendQ, [mt |-> appScript[apos], id |-> apos])
    /\ apos' = apos + 1
    /\ UNCHANGED <<inbound, appScript, pv, cstate, sTok, rTok, slpc, scur, queued, count, rdpc, rdcur,
                   recvQc, rlpc, rcurm, stpc, stTo, stWho, sreply, rreply, stopped, errPending>>

-----------------------------------------------------------------------------
(* sendLoop *)
SL_TakeTok ==
    /\ slpc = "waitTok" /\ sTok /\ errPending # "send"
    /\ sTok' = FALSE
    /\ IF queued # <<>>
         THEN slpc' = "applyQueued" /\ scur' = Head(queued)
         ELSE slpc' = "collect" /\ UNCHANGED scur
    /\ UNCHANGED <<ovars, inbound, appScript, apos, pv, cstate, rTok, sendQ, queued, count, rdpc, rdcur,
                   recvQc, rlpc, rcurm, stpc, stTo, stWho, sreply, rreply, stopped, errPending>>

\* reply to the transition request of a queued (pipelined) message
SL_QueuedDone ==
    /\ slpc = "applyQueued" /\ sreply = "ok"
    /\ queued' = Tail(queued) /\ sreply' = "none" /\ slpc' = "waitTok"
    /\ UNCHANGED <<ovars, inbound, appScript, apos, pv, cstate, sTok, rTok, sendQ, scur, count, rdpc, rdcur,
                   recvQc, rlpc, rcurm, stpc, stTo, stWho, rreply, stopped, errPending>>

SL_Dequeue ==
    /\ slpc = "collect" /\ sendQ # <<>> /\ count < MaxBatch
    /\ LET m == Head(sendQ) IN
         /\ EvDeq(Me, H(m.id), m.mt, 1, count + 1)
         /\ scur' = m.mt
         /\ IF count = 0 THEN slpc' = "firstTrans" /\ UNCHANGED queued
                         ELSE queued' = Append(queued, m.mt) /\ UNCHANGED slpc
    /\ sendQ' = Tail(sendQ) /\ count' = count + 1
    /\ batch' = Append(batch, Head(sendQ).mt)
    /\ UNCHANGED <<inbound, appScript, apos, outWire, pstate, pchunks, cstate, sTok, rTok, rdpc, rdcur, recvQc, rlpc, rcurm,
                   stpc, stTo, stWho, sreply, rreply, stopped, errPending>>

SL_FirstDone ==
    /\ slpc = "firstTrans" /\ sreply = "ok"
    /\ sreply' = "none" /\ slpc' = "collect"
    /\ UNCHANGED <<ovars, inbound, appScript, apos, pv, cstate, sTok, rTok, sendQ, scur, queued, count,
                   rdpc, rdcur, recvQc, rlpc, rcurm, stpc, stTo, stWho, rreply, stopped, errPending>>

\* the batch is closed (queue empty, or the code's other break conditions) and written
SL_Flush ==
    /\ slpc = "collect" /\ count > 0
    /\ EvSegOut(Me, count, count)
    /\ count' = 0 /\ slpc' = "waitTok"
    /\ outWire' = outWire \o batch /\ batch' = <<>>
    /\ UNCHANGED <<inbound, appScript, apos, pstate, pchunks, cstate, sTok, rTok, sendQ, scur, queued, rdpc, rdcur,
                   recvQc, rlpc, rcurm, stpc, stTo, stWho, sreply, rreply, stopped, errPending>>

\* a refused send transition: SendError, nothing is written
SL_Refused ==
    /\ slpc \in {"firstTrans", "applyQueued"} /\ sreply = "err" /\ errPending = "none"
    /\ sreply' = "none" /\ errPending' = "send" /\ slpc' = "error"
    /\ UNCHANGED <<ovars, inbound, appScript, apos, pv, cstate, sTok, rTok, sendQ, scur, queued, count,
                   rdpc, rdcur, recvQc, rlpc, rcurm, stpc, stTo, stWho, rreply, stopped>>

SL_Exit ==
    /\ \/ slpc \in {"waitTok", "collect"} /\ (stopped \/ rlpc = "exit")
       \/ slpc \in {"firstTrans", "applyQueued"} /\ stopped /\ sreply # "err"     \* transitionState saw stopChan
       \/ slpc = "error" /\ errPending # "send"
    /\ EvExit(Me, "send") /\ slpc' = "exit"
    /\ UNCHANGED <<inbound, appScript, apos, pv, cstate, sTok, rTok, sendQ, scur, queued, count, rdpc,
                   rdcur, recvQc, rlpc, rcurm, stpc, stTo, stWho, sreply, rreply, stopped, errPending>>

-----------------------------------------------------------------------------
(* readLoop: one segment = one message of length 1 *)
RD_Segment ==
    /\ rdpc = "idle" /\ inbound # <<>> /\ ~stopped
    /\ EvSegIn(Me, 1, 1)
    /\ rdcur' = Head(inbound) /\ inbound' = Tail(inbound) /\ rdpc' = "decode"
    /\ UNCHANGED <<appScript, apos, pv, cstate, sTok, rTok, sendQ, slpc, scur, queued, count, recvQc,
                   rlpc, rcurm, stpc, stTo, stWho, sreply, rreply, stopped, errPending>>
\* the read loop accounts the message under pendingBytesMu (MsgIn), RELEASES the mutex, and only then hands
\* the message to the receive queue, blocking while the queue is full (capacity RecvCap)
\*   Variant = "lockAcrossEnqueue": the mutex is kept until the message is in the queue (a defective
\*   design: recvLoop needs the same mutex to release the bytes of the message it has just handled)
RecvCap   == IF Variant \in {"smallQueue", "lockAcrossEnqueue"} THEN 1 ELSE 3
MaxChunks == IF Variant \in {"smallQueue", "lockAcrossEnqueue"} THEN 3 ELSE 1
RD_Admit ==
    /\ rdpc = "decode" /\ rdcur # BadType
    /\ EvMsgIn(Me, rdcur, 1, "x", pend[Me] + 1, 0, cstate)
    /\ rdpc' = "enqueue"
    /\ UNCHANGED <<inbound, appScript, apos, pv, cstate, sTok, rTok, sendQ, slpc, scur, queued, count, rdcur, recvQc,
                   rlpc, rcurm, stpc, stTo, stWho, sreply, rreply, stopped, errPending>>
RD_Enqueue ==
    /\ rdpc = "enqueue" /\ Len(recvQc) < RecvCap
    /\ recvQc' = Append(recvQc, rdcur) /\ rdpc' = "idle"
    /\ UNCHANGED <<ovars, inbound, appScript, apos, pv, cstate, sTok, rTok, sendQ, slpc, scur, queued, count, rdcur,
                   rlpc, rcurm, stpc, stTo, stWho, sreply, rreply, stopped, errPending>>
RD_DecodeError ==
    /\ rdpc = "decode" /\ rdcur = BadType /\ errPending = "none"
    /\ errPending' = "read" /\ rdpc' = "error"
    /\ UNCHANGED <<ovars, inbound, appScript, apos, pv, cstate, sTok, rTok, sendQ, slpc, scur, queued, count,
                   rdcur, recvQc, rlpc, rcurm, stpc, stTo, stWho, sreply, rreply, stopped>>
RD_Exit ==
    /\ \/ rdpc \in {"idle", "decode", "enqueue"} /\ (stopped \/ slpc = "exit")
       \/ rdpc = "error" /\ errPending # "read"
    /\ EvExit(Me, "read") /\ rdpc' = "exit"
    /\ UNCHANGED <<inbound, appScript, apos, pv, cstate, sTok, rTok, sendQ, slpc, scur, queued, count, rdcur,
                   recvQc, rlpc, rcurm, stpc, stTo, stWho, sreply, rreply, stopped, errPending>>

-----------------------------------------------------------------------------
(* recvLoop *)
RL_TakeTok ==
    /\ rlpc = "waitTok" /\ (rTok \/ Variant = "noRecvToken")
    /\ rTok' = FALSE /\ rlpc' = "waitMsg"
    /\ UNCHANGED <<ovars, inbound, appScript, apos, pv, cstate, sTok, sendQ, slpc, scur, queued, count, rdpc,
                   rdcur, recvQc, rcurm, stpc, stTo, stWho, sreply, rreply, stopped, errPending>>
RL_TakeMsg ==
    /\ rlpc = "waitMsg" /\ recvQc # <<>>
    /\ EvRecvDeq(Me, Head(recvQc))
    /\ rcurm' = Head(recvQc) /\ recvQc' = Tail(recvQc) /\ rlpc' = "trans"
    /\ UNCHANGED <<inbound, appScript, apos, pv, cstate, sTok, rTok, sendQ, slpc, scur, queued, count, rdpc,
                   rdcur, stpc, stTo, stWho, sreply, rreply, stopped, errPending>>
RL_Handle ==
    /\ rlpc = "trans" /\ rreply = "ok"
    /\ EvHandle(Me, rcurm)
    /\ rreply' = "none" /\ rlpc' = "handling"
    /\ UNCHANGED <<inbound, appScript, apos, pv, cstate, sTok, rTok, sendQ, slpc, scur, queued, count, rdpc,
                   rdcur, recvQc, rcurm, stpc, stTo, stWho, sreply, stopped, errPending>>
RL_Release ==
    /\ rlpc = "handling"
    /\ ~(Variant = "lockAcrossEnqueue" /\ rdpc = "enqueue")        \* pendingBytesMu is held by the read loop
    /\ EvRelease(Me, rcurm, 1, pend[Me] - 1)
    /\ rlpc' = "waitTok"
    /\ UNCHANGED <<inbound, appScript, apos, pv, cstate, sTok, rTok, sendQ, slpc, scur, queued, count, rdpc,
                   rdcur, recvQc, rcurm, stpc, stTo, stWho, sreply, rreply, stopped, errPending>>
\* handleMessage failed: refused transition (then SendError) or shutdown seen by transitionState
RL_Failed ==
    /\ rlpc = "trans"
    /\ \/ rreply = "err" /\ errPending = "none" /\ errPending' = "recv" /\ rlpc' = "error"
       \/ rreply # "err" /\ stopped /\ rlpc' = "leaving" /\ UNCHANGED errPending
    /\ EvRecvErr(Me, rcurm)
    /\ rreply' = "none"
    /\ UNCHANGED <<inbound, appScript, apos, pv, cstate, sTok, rTok, sendQ, slpc, scur, queued, count, rdpc,
                   rdcur, recvQc, rcurm, stpc, stTo, stWho, sreply, stopped>>
RL_Exit ==
    /\ \/ rlpc \in {"waitTok", "waitMsg"} /\ (stopped \/ slpc = "exit")
       \/ rlpc = "leaving"
       \/ rlpc = "error" /\ errPending # "recv"
    /\ EvExit(Me, "recv") /\ rlpc' = "exit"
    /\ UNCHANGED <<inbound, appScript, apos, pv, cstate, sTok, rTok, sendQ, slpc, scur, queued, count, rdpc,
                   rdcur, recvQc, rcurm, stpc, stTo, stWho, sreply, rreply, stopped, errPending>>

-----------------------------------------------------------------------------
(* SendError = push to ErrorChan (Error event), then Stop (Stop event);      *)
(* nothing if the protocol is already stopping                               *)
SE_Report ==
    /\ errPending \in {"send", "recv", "read"}
    /\ IF stopped
         THEN errPending' = "none" /\ UNCHANGED ovars
         ELSE EvError(Me) /\ errPending' = "stop-" \o errPending
    /\ UNCHANGED <<inbound, appScript, apos, pv, cstate, sTok, rTok, sendQ, slpc, scur, queued, count, rdpc,
                   rdcur, recvQc, rlpc, rcurm, stpc, stTo, stWho, sreply, rreply, stopped>>
SE_Stop ==
    /\ errPending \in {"stop-send", "stop-recv", "stop-read"}
    /\ IF stopped THEN UNCHANGED ovars ELSE EvStop(Me)
    /\ stopped' = TRUE /\ errPending' = "none"
    /\ UNCHANGED <<inbound, appScript, apos, pv, cstate, sTok, rTok, sendQ, slpc, scur, queued, count, rdpc,
                   rdcur, recvQc, rlpc, rcurm, stpc, stTo, stWho, sreply, rreply>>

-----------------------------------------------------------------------------
(* the conforming peer: the protocol's reference automaton on the other side of the wire *)
PeerRead ==
    /\ PeerMode = "conforming" /\ outWire # <<>> /\ AgencyC(pstate) = Me
    /\ Targets(pstate, Head(outWire)) # {}
    /\ pstate' = CHOOSE t \in Targets(pstate, Head(outWire)) : TRUE
    /\ outWire' = Tail(outWire) /\ pchunks' = 0
    /\ UNCHANGED <<ovars, inbound, appScript, apos, batch, cstate, sTok, rTok, sendQ, slpc, scur, queued, count,
                   rdpc, rdcur, recvQc, rlpc, rcurm, stpc, stTo, stWho, sreply, rreply, stopped, errPending>>
PeerAnswer ==
    /\ PeerMode = "conforming" /\ AgencyC(pstate) = Peer(Me) /\ Len(inbound) < 2
    /\ \E i \in DOMAIN StateMapC.trans :
         /\ StateMapC.trans[i].f = pstate
         /\ (StateMapC.trans[i].t = pstate) => pchunks < MaxChunks  \* bounded streaming per request
         /\ inbound' = Append(inbound, StateMapC.trans[i].m)
         /\ pstate' = StateMapC.trans[i].t
         /\ pchunks' = IF StateMapC.trans[i].t = pstate THEN pchunks + 1 ELSE 0
    /\ UNCHANGED <<ovars, appScript, apos, batch, outWire, cstate, sTok, rTok, sendQ, slpc, scur, queued, count,
                   rdpc, rdcur, recvQc, rlpc, rcurm, stpc, stTo, stWho, sreply, rreply, stopped, errPending>>

Next ==
    \/ PeerRead \/ PeerAnswer
    \/ ST_Init \/ ST_RequestSend \/ ST_RequestRecv \/ ST_Set \/ ST_Exit
    \/ Enqueue
    \/ SL_TakeTok \/ SL_QueuedDone \/ SL_Dequeue \/ SL_FirstDone \/ SL_Flush \/ SL_Refused \/ SL_Exit
    \/ RD_Segment \/ RD_Admit \/ RD_Enqueue \/ RD_DecodeError \/ RD_Exit
    \/ RL_TakeTok \/ RL_TakeMsg \/ RL_Handle \/ RL_Release \/ RL_Failed \/ RL_Exit
    \/ SE_Report \/ SE_Stop

Spec == Init /\ [][Next]_vars /\ WF_vars(Next)

-----------------------------------------------------------------------------
\* the design only produces event sequences the observer accepts (C11, C12 rules of EngineObs)
Refines == ObsOK
\* tokens: never both, and a token is only ever set for the side that has agency
TokensSane == ~(sTok /\ rTok)
\* a handler runs only for a message whose receive transition was accepted while the peer had agency
HandlingImpliesAccepted == rlpc = "handling" => cur[Me].phase = "handling"
\* after an error the protocol stops and every loop exits
\* C12, conforming use: a conforming (possibly pipelined) application against a conforming peer never
\* produces an error on either side, and the peer never sees a message it does not permit
ConformingNeverFails ==
    PeerMode = "conforming" =>
        /\ errCount[Me] = 0 /\ ~stopped
        /\ (outWire # <<>> /\ AgencyC(pstate) = Me) => Targets(pstate, Head(outWire)) # {}
\* ... and the whole conversation gets through: everything queued is eventually read by the peer and
\* every answer is handled
ConversationCompletes ==
    PeerMode = "conforming" =>
        <>[](apos > Len(appScript) /\ sendQ = <<>> /\ outWire = <<>> /\ batch = <<>> /\ queued = <<>>
             /\ inbound = <<>> /\ recvQc = <<>> /\ rdpc = "idle" /\ rlpc \in {"waitTok", "waitMsg"})
ErrorLeadsToShutdown == (errCount[Me] > 0) ~> (exits[Me] = {"send", "read", "recv", "state"})
=============================================================================
