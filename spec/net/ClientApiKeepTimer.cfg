\* C15: a stateLoop that keeps the timer that has fired (it stops and drains it again when it is told to stop, and
\* waits for ever for a tick that does not come). TLC has to reject it: StateLoopEnds fails in the cases whose
\* state timeout fires
CONSTANTS
  MaxLen = 1
  ApiFilter = {"localtxmonitor.HasTx", "blockfetch.GetBlockRange", "peersharing.GetPeers"}
  TmoOnly = {}
  Design = "keeptimer"
  Emit = FALSE
SPECIFICATION Spec
INVARIANTS TypeOK TimerSound TimeoutEndsSilence StateLoopEnds
