--------------------------- MODULE KeepAliveTimer ---------------------------
(***************************************************************************)
(* C15 (part 3) - the keep-alive client's timer chain                      *)
(* (protocol/keepalive/client.go: Start, sendKeepAlive, startTimer and the *)
(* clean-up goroutine) over the shutdown of the engine and the connection. *)
(*                                                                         *)
(*   Start            Protocol.Start; go cleanup; sendKeepAlive()          *)
(*   sendKeepAlive    SendMessage(KeepAlive); on error SendError; then     *)
(*                    startTimer() - ALWAYS, whatever SendMessage said     *)
(*   startTimer       lock; stop the old timer; timer = AfterFunc(Period,  *)
(*                    sendKeepAlive); unlock                               *)
(*   cleanup          <-DoneChan; lock; stop the current timer; unlock     *)
(*                                                                         *)
(* The chain is one "tick" at a time: chk (enqueueMessage's first select), *)
(* enq (its second select: queue or abort), err (SendError), arm           *)
(* (startTimer).  Time is free: an armed timer may fire at any moment      *)
(* (bounded by MaxTicks so that TLC terminates).  The obligation of C15:   *)
(* nothing started for the connection remains after Close - a timer that   *)
(* is armed after the clean-up goroutine has gone is never stopped by      *)
(* anybody and re-arms itself for ever (every Period a goroutine runs      *)
(* sendKeepAlive into a dead protocol and the Client, its Protocol and the *)
(* muxer stay reachable).                                                  *)
(*                                                                         *)
(* design "extracted": startTimer as it is.  design "repaired":            *)
(* startTimer does not arm once DoneChan is closed (checked under the      *)
(* timer mutex, which the clean-up goroutine takes too).  Both designs are *)
(* cases of one run: the PROPERTIES speak about the repaired one, the      *)
(* emitted terminal observations are those of the extracted one.           *)
(*                                                                         *)
(* The environment: a script of <= MaxLen steps over                       *)
(*   resp     the peer answers the keep-alive that is on the wire          *)
(*   badresp  the peer answers with another cookie (handler error)         *)
(*   stop     the user calls Client.Stop() (= Protocol.Stop)               *)
(*   close    the peer closes the connection                               *)
(* then Close() by the user, who drains ErrorChan afterwards.              *)
(*   hold = "tick": the schedule in which the first timer-fired tick is    *)
(*     descheduled inside enqueueMessage (between its two selects) until   *)
(*     the protocol is done and the clean-up goroutine has run             *)
(*   late: WithDelayProtocolStart - the user starts the client after the   *)
(*     connection has already ended (Protocol.Start cannot register)       *)
(***************************************************************************)
EXTENDS Integers, Sequences, FiniteSets, TLC, Json, IOUtils, CSV, SequencesExt

CONSTANTS MaxLen, MaxTicks, Designs, Emit, Holds, Late

Steps == {"resp", "badresp", "stop", "close"}

RECURSIVE Playable(_, _, _, _)
\* A reply needs a keep-alive on the wire: before Stop the chain sends one after every reply; after Stop nothing is sent
\* any more, so a reply can only answer the first keep-alive (a reply to a protocol that is no longer registered).
\* Nothing follows a step that ends the connection for sure.
Playable(s, i, stops, reps) ==
    IF i > Len(s) THEN TRUE
    ELSE CASE s[i] = "close"   -> i = Len(s)
           [] s[i] = "badresp" -> (stops = 0 \/ reps = 0) /\ (i = Len(s) \/ (i + 1 = Len(s) /\ s[i + 1] = "close"))
           [] s[i] = "stop"    -> stops = 0 /\ Playable(s, i + 1, 1, reps)
           [] OTHER            -> (stops = 0 \/ reps = 0) /\ Playable(s, i + 1, stops, reps + 1)
Scripts == {s \in UNION {[1..n -> Steps] : n \in 0..MaxLen} : Playable(s, 1, 0, 0)}
Replies(s) == Cardinality({i \in 1..Len(s) : s[i] \in {"resp", "badresp"}})
\* while the first timer-fired tick is held no second keep-alive reaches the wire: at most one reply can be played
CaseSpace == {x \in {[s |-> s, hold |-> h, late |-> FALSE, design |-> d] : s \in Scripts, h \in Holds, d \in Designs} :
                  x.hold = "tick" => (Replies(x.s) <= 1 /\ (Replies(x.s) = 1 => x.s[1] \in {"resp", "badresp"}))}
             \cup (IF Late THEN {[s |-> <<>>, hold |-> "free", late |-> TRUE, design |-> d] : d \in Designs} ELSE {})

VARIABLES c,
          tm,                 \* what c.timer refers to: "nil", "armed", "fired", "stopped"
          tk, nt, first,      \* the tick: "none", "chk", "enq", "err", "arm"; ticks started; the tick is Start's own call
          q, out, ag, seen,   \* keep-alives in the send queue; on the wire unanswered; agency "cli" / "srv"; the first one reached the wire
          pi, wire, eof,      \* peer: next step; replies written and not yet read by the muxer; peer closed
          inbox, reg,         \* replies handed to the protocol; registered with the muxer
          stopped, mux, g, done,
          perr, merr, fP, fM, sh, closeSig, connClosed, errClosed,
          uc, drain, stopret  \* user: Close "no" / "in" / "ret"; reads ErrorChan; Stop() returned

connV == <<perr, merr, fP, fM, sh, closeSig, connClosed, errClosed>>
vars == <<c, tm, tk, nt, first, q, out, ag, seen, pi, wire, eof, inbox, reg, stopped, mux, g, done, connV, uc, drain, stopret>>

S == c.s
\* design "extracted": startTimer refuses to arm after DoneChan iff the source of the tree under test does so
\* (c15_table.json keepalive.arm_checks_done, read off protocol/keepalive/client.go by `c15 extract`)
Table == JsonDeserialize("c15_table.json")
Repaired == c.design = "repaired" \/ (c.design = "extracted" /\ Table.keepalive.arm_checks_done)    \* ("unguarded": never)
GNames == {"recv", "send", "closer", "cleanup"}
Down == stopped \/ done \/ mux = "down" \/ ~g["recv"] \/ ~g["send"]
ReadAlive == ~(stopped \/ mux = "down" \/ ~g["send"]) /\ ~c.late
StateAlive == ~(stopped \/ done)

Init ==
    /\ c \in CaseSpace
    /\ tm = "nil" /\ tk = "chk" /\ nt = 0 /\ first = TRUE
    /\ q = 0 /\ out = 0 /\ ag = "cli" /\ seen = FALSE
    /\ pi = 1 /\ wire = <<>> /\ eof = c.late
    /\ inbox = <<>> /\ reg = ~c.late
    /\ stopped = FALSE /\ mux = (IF c.late THEN "down" ELSE "up")
    \* late: Protocol.Start registers nothing, starts nothing and (fix 37b4c70) closes DoneChan itself
    /\ g = [n \in GNames |-> IF n = "cleanup" THEN TRUE ELSE ~c.late]
    /\ done = c.late
    /\ perr = FALSE /\ merr = FALSE
    \* late: the muxer's error has been forwarded and the connection has shut itself down already
    /\ fP = (IF c.late THEN "exit" ELSE "wait") /\ fM = (IF c.late THEN "exit" ELSE "wait")
    /\ sh = (IF c.late THEN "exit" ELSE "wait")
    /\ closeSig = c.late /\ connClosed = c.late /\ errClosed = c.late
    /\ uc = "no" /\ drain = TRUE /\ stopret = FALSE     \* the user reads ErrorChan all the time (the adverse order is ClientApi.tla's)

--------------------------------------------------------------------------
(* the tick: sendKeepAlive *)

CleanupGone == ~g["cleanup"]
\* hold = "tick": the first timer-fired tick stays between the two selects of enqueueMessage until the clean-up has run
Held == c.hold = "tick" /\ ~first /\ nt = 1 /\ tk = "enq" /\ ~CleanupGone

TickFrame == UNCHANGED <<c, seen, pi, wire, eof, inbox, reg, mux, g, done, merr, fP, fM, sh, closeSig, connClosed, errClosed, uc, drain, stopret>>

TChk ==
    /\ tk = "chk"
    /\ tk' = IF Down THEN "err" ELSE "enq"
    /\ UNCHANGED <<tm, nt, first, q, out, ag, stopped, perr>> /\ TickFrame
TEnq ==
    /\ tk = "enq" /\ ~Held
    /\ \/ q' = q + 1 /\ tk' = "arm"                 \* queued (the queue has room; if sendLoop has gone nobody reads it)
       \/ Down /\ tk' = "err" /\ UNCHANGED q        \* aborted by a shutdown signal (the select picks any ready case)
    /\ UNCHANGED <<tm, nt, first, out, ag, stopped, perr>> /\ TickFrame
\* SendError: nothing once stopChan or DoneChan is closed; else the error goes to the connection and the protocol stops
TErr ==
    /\ tk = "err"
    /\ IF stopped \/ done THEN UNCHANGED <<stopped, perr, reg>>
       ELSE stopped' = TRUE /\ perr' = TRUE /\ reg' = FALSE
    /\ tk' = "arm"
    /\ UNCHANGED <<c, seen, tm, nt, first, q, out, ag, pi, wire, eof, inbox, mux, g, done, merr, fP, fM, sh, closeSig, connClosed, errClosed, uc, drain, stopret>>
\* startTimer (under the timer mutex)
TArm ==
    /\ tk = "arm"
    /\ tm' = IF Repaired /\ done THEN (IF tm = "armed" THEN "stopped" ELSE tm) ELSE "armed"
    /\ tk' = "none" /\ first' = FALSE
    /\ UNCHANGED <<nt, q, out, ag, stopped, perr>> /\ TickFrame
\* the period elapses.  Once the clean-up goroutine has gone an armed timer is immortal: the chain is not followed further
Fire ==
    /\ tm = "armed" /\ tk = "none" /\ nt < MaxTicks /\ ~CleanupGone
    /\ tm' = "fired" /\ tk' = "chk" /\ nt' = nt + 1
    /\ UNCHANGED <<first, q, out, ag, stopped, perr>> /\ TickFrame
Tick == TChk \/ TEnq \/ TErr \/ TArm

--------------------------------------------------------------------------
(* the engine *)

EngFrame == UNCHANGED <<c, tm, tk, nt, first, pi, wire, eof, mux, merr, fP, fM, sh, closeSig, connClosed, errClosed, uc, drain, stopret>>
Exit(n) == g' = [g EXCEPT ![n] = FALSE]

SLSend ==
    /\ g["send"] /\ ~stopped /\ g["recv"] /\ ag = "cli" /\ q > 0
    /\ q' = q - 1 /\ out' = out + 1 /\ ag' = "srv" /\ seen' = TRUE
    /\ UNCHANGED <<inbox, reg, stopped, g, done, perr>> /\ EngFrame
\* recvLoop takes a reply; the handler only compares the cookie (no push, no callback)
RLTake ==
    /\ g["recv"] /\ ~stopped /\ ag = "srv" /\ inbox # <<>>
    /\ inbox' = Tail(inbox)
    /\ IF Head(inbox) = "ok" THEN ag' = "cli" /\ UNCHANGED <<stopped, perr, reg>>
       ELSE stopped' = TRUE /\ perr' = TRUE /\ reg' = FALSE /\ UNCHANGED ag
    /\ UNCHANGED <<q, out, g, done, seen>> /\ EngFrame
RLExit == g["recv"] /\ (stopped \/ mux = "down" \/ ~g["send"]) /\ Exit("recv") /\ UNCHANGED <<q, out, ag, seen, inbox, reg, stopped, done, perr>> /\ EngFrame
SLExit == g["send"] /\ (stopped \/ ~g["recv"]) /\ Exit("send") /\ UNCHANGED <<q, out, ag, seen, inbox, reg, stopped, done, perr>> /\ EngFrame
Closer == g["closer"] /\ ~g["recv"] /\ ~g["send"] /\ Exit("closer") /\ done' = TRUE /\ UNCHANGED <<q, out, ag, seen, inbox, reg, stopped, perr>> /\ EngFrame
\* the clean-up goroutine: stops whatever timer is current (under the timer mutex) and goes
Cleanup ==
    /\ g["cleanup"] /\ done                   \* TArm and this step are atomic: both run under the timer mutex
    /\ Exit("cleanup")
    /\ tm' = IF tm = "armed" THEN "stopped" ELSE tm
    /\ UNCHANGED <<c, tk, nt, first, q, out, ag, seen, pi, wire, eof, inbox, reg, stopped, mux, done, connV, uc, drain, stopret>>
Engine == SLSend \/ RLTake \/ RLExit \/ SLExit \/ Closer \/ Cleanup

--------------------------------------------------------------------------
(* the connection *)

ConnFrame == UNCHANGED <<c, tm, tk, nt, first, q, out, ag, seen, pi, eof, stopped, g, done, uc, drain, stopret>>
\* muxer.readLoop: a segment for a protocol that is not registered, or EOF, ends the muxer
MuxRead ==
    /\ mux = "up"
    /\ \/ /\ wire # <<>> /\ wire' = Tail(wire)
          /\ IF reg THEN inbox' = (IF ReadAlive THEN Append(inbox, Head(wire)) ELSE inbox) /\ UNCHANGED <<mux, merr>>
             ELSE mux' = "down" /\ merr' = TRUE /\ UNCHANGED inbox
       \/ /\ wire = <<>> /\ eof /\ mux' = "down" /\ merr' = TRUE /\ UNCHANGED <<wire, inbox>>
    /\ UNCHANGED <<reg, perr, fP, fM, sh, closeSig, connClosed, errClosed>> /\ ConnFrame
\* The two error forwarders and the shutdown goroutine are followed step by step in ClientApi.tla; what they come to is
\* all that matters here: the first error, or Close(), makes the connection shut down (muxer.Stop, connClosedChan),
\* and ErrorChan is closed once the forwarders have delivered (the user reads ErrorChan after Close has returned).
Shutdown ==
    /\ \/ sh = "wait" /\ (closeSig \/ perr \/ merr) /\ sh' = "wg" /\ mux' = "down" /\ connClosed' = TRUE
          /\ fP' = "exit" /\ fM' = "exit" /\ UNCHANGED errClosed
       \/ sh = "wg" /\ drain /\ sh' = "exit" /\ errClosed' = TRUE /\ UNCHANGED <<mux, connClosed, fP, fM>>
    /\ UNCHANGED <<wire, inbox, reg, perr, merr, closeSig>> /\ ConnFrame
Connection == MuxRead \/ Shutdown

Library == Tick \/ Fire \/ Engine \/ Connection

--------------------------------------------------------------------------
(* the peer and the user *)

EnvFrame == UNCHANGED <<c, tm, tk, nt, first, q, ag, seen, inbox, mux, g, done, perr, merr, fP, fM, sh, connClosed, errClosed>>
\* hold = "tick": the environment waits until the tick is at the gate
\* and in every case until the first keep-alive has reached the peer (the driver waits for it before it plays anything)
GateReady == /\ c.late \/ seen
             /\ c.hold = "tick" => (nt >= 1 /\ (tk = "enq" \/ CleanupGone))
\* the user's Stop and Close may come at any moment (the driver aims at a moment of rest, but cannot be sure of it)

Env ==
    /\ pi <= Len(S) /\ GateReady
    /\ LET x == S[pi] IN
       \/ /\ x \in {"resp", "badresp"} /\ out > 0 /\ ~eof
          /\ wire' = Append(wire, IF x = "resp" THEN "ok" ELSE "bad")
          /\ out' = out - 1
          /\ UNCHANGED <<eof, stopped, reg, stopret, closeSig>>
       \/ /\ x = "stop"
          /\ stopped' = TRUE /\ reg' = FALSE /\ stopret' = TRUE
          /\ UNCHANGED <<wire, out, eof, closeSig>>
       \/ /\ x = "close" /\ eof' = TRUE /\ UNCHANGED <<wire, out, stopped, reg, stopret, closeSig>>
    /\ pi' = pi + 1
    /\ UNCHANGED <<uc, drain>> /\ EnvFrame

PeerDone == pi > Len(S)
UserClose ==
    /\ uc = "no" /\ PeerDone /\ GateReady
    /\ uc' = "in" /\ closeSig' = TRUE
    /\ UNCHANGED <<pi, wire, out, eof, stopped, reg, stopret, drain>> /\ EnvFrame
UserCloseRet ==
    /\ uc = "in" /\ connClosed
    /\ uc' = "ret" /\ drain' = TRUE
    /\ UNCHANGED <<pi, wire, out, eof, stopped, reg, stopret, closeSig>> /\ EnvFrame
User == UserClose \/ UserCloseRet

Next == Library \/ Env \/ User

Spec == Init /\ [][Next]_vars
        /\ WF_vars(Tick) /\ WF_vars(Fire) /\ WF_vars(Env) /\ WF_vars(User)
        /\ WF_vars(SLSend) /\ WF_vars(RLTake \/ RLExit) /\ WF_vars(SLExit) /\ WF_vars(Closer) /\ WF_vars(Cleanup)
        /\ WF_vars(MuxRead) /\ WF_vars(Shutdown)

--------------------------------------------------------------------------
(* properties *)

TypeOK ==
    /\ tm \in {"nil", "armed", "fired", "stopped"} /\ tk \in {"none", "chk", "enq", "err", "arm"}
    /\ seen \in BOOLEAN /\ nt \in 0..MaxTicks /\ q \in 0..(MaxTicks + 1) /\ out \in 0..1 /\ ag \in {"cli", "srv"}
    /\ mux \in {"up", "down"} /\ uc \in {"no", "in", "ret"}
    /\ fP \in {"wait", "send", "closing", "exit"} /\ fM \in {"wait", "send", "closing", "exit"} /\ sh \in {"wait", "wg", "exit"}

\* one keep-alive at a time goes to the wire, and never after the protocol was stopped
WireAfterStop == stopped => ~ENABLED SLSend
\* DoneChan closes only after both loops have gone
DoneAfterLoops == done => (~g["recv"] /\ ~g["send"])
\* the clean-up goroutine leaves only after DoneChan
CleanAfterDone == CleanupGone => done
\* the property: no timer survives the clean-up goroutine (repaired design; an emitted observation on the extracted one)
NoImmortalTimerAny == ~(CleanupGone /\ tm = "armed")
NoImmortalTimer == Repaired => NoImmortalTimerAny

Alive == {n \in GNames : g[n]} \cup (IF ReadAlive THEN {"read"} ELSE {}) \cup (IF StateAlive /\ ~c.late THEN {"state"} ELSE {})
         \cup (IF fP # "exit" THEN {"fwdProto"} ELSE {}) \cup (IF fM # "exit" THEN {"fwdMuxer"} ELSE {})
         \cup (IF sh # "exit" THEN {"shutdown"} ELSE {})
Leaked == CleanupGone /\ (tm = "armed" \/ tk # "none")
Terminal == ~ENABLED Next

CloseCompletes == (uc # "no") ~> (uc = "ret" /\ errClosed /\ Alive = {})
TimerQuiesces == (Repaired /\ uc # "no") ~> [](CleanupGone /\ tm # "armed" /\ tk = "none")
ScriptPlayed == <>(PeerDone /\ uc # "no")
\* The behaviour graph of a case is finite and acyclic (Fire is bounded, everything else only moves forward), so under
\* weak fairness the three statements above hold for a case iff they hold in all its terminal states: the quick tier
\* checks this invariant, the thorough tier the temporal formulas as well.
TerminalGood == (Terminal /\ Repaired) => (PeerDone /\ uc = "ret" /\ errClosed /\ Alive = {} /\ ~Leaked /\ tm # "armed")

--------------------------------------------------------------------------
CaseRow(x) == [kind |-> "timer", script |-> x.s, hold |-> x.hold, late |-> x.late]
ASSUME Emit => ndJsonSerialize("timer_cases.ndjson", SetToSeq({CaseRow(x) : x \in {y \in CaseSpace : y.design = "extracted"}}))

Write(row) == CSVWrite("%1$s", <<ToJson(row)>>, "timer_outcomes.ndjson")
EmitOutcome ==
    (Emit /\ Terminal /\ c.design = "extracted") =>
        Write([script |-> S, hold |-> c.hold, late |-> c.late,
               leak |-> (tm = "armed"), closeret |-> uc = "ret", errclosed |-> errClosed,
               alive |-> SetToSeq(Alive), stopret |-> stopret, played |-> pi - 1, ticks |-> nt])
==============================================================================
