\* C25 reply form: every sequential program of 4 calls over the whole alphabet plus opaque replies, both kinds of client
CONSTANTS
  G = 1
  N = 4
  Ops = {"acq1", "acq2", "rel", "qa", "qb", "qc", "qx"}
  Mutex = TRUE
  AutoAcquire = TRUE
  RelRule = FALSE
  Hist = TRUE
  OnOpaque = {"raw", "fail"}
  DupOpaque = FALSE
SPECIFICATION Spec
INVARIANTS TypeOK OwnAnswer MutexExcl QueryInSession OutShape RelLegal ErrOnlyWhenDead ErrSuffix OpaqueOutcome EmitRow
