\* C25 reply form, simulation: 3 goroutines x 2 calls, opaque replies among acquire / release / queries, both kinds of client (-simulate)
CONSTANTS
  G = 3
  N = 2
  Ops = {"acq1", "rel", "qa", "qx"}
  Mutex = TRUE
  AutoAcquire = TRUE
  RelRule = TRUE
  Hist = TRUE
  OnOpaque = {"raw", "fail"}
  DupOpaque = FALSE
SPECIFICATION Spec
INVARIANTS TypeOK OwnAnswer MutexExcl QueryInSession OutShape RelLegal ErrOnlyWhenDead ErrSuffix OpaqueOutcome EmitRow
