------------------------------ MODULE Handshake ------------------------------
(* C18 / C19 -- the handshake mini-protocol as a decision automaton.          *)
(*                                                                            *)
(* Versions are the numbers 1..W, ordered like the real version numbers they  *)
(* stand for (the replay maps them monotonically onto windows of the          *)
(* node-to-node, node-to-client and DMQ tables: selection only compares).     *)
(* A version table is a function 1..W -> {0} \cup Magics: 0 = version not in  *)
(* the table, otherwise the network magic of that version's data (per         *)
(* version, so that "the magic of the SELECTED version decides" is            *)
(* distinguishable from "some magic matches").                                *)
(*                                                                            *)
(*   k    format threshold: versions >= k use data format "B" (carries the    *)
(*        query flag), versions < k format "A" (does not); k = W+1: none      *)
(*        does.  k = 0 (honest runs of a client that does not ask): the case  *)
(*        does not constrain the formats.                                     *)
(*   qf   the initiator's query flag (it reaches the responder only through   *)
(*        a proposed version >= k).                                           *)
(*   fl   diffusion / peer-sharing flags of both sides and the responder's    *)
(*        own query flag: they travel inside the version data and must not    *)
(*        influence anything (EchoData).                                      *)
(*                                                                            *)
(* Responder = "honest"   : the specified responder (C18).                    *)
(*   query asked                      -> QueryReply(responder's table)        *)
(*   no common version                -> Refuse(VersionMismatch, ascending Vs)*)
(*   v = max(Vc \cap Vs), magics of v differ -> Refuse(Refused, v)            *)
(*   otherwise                        -> Accept(v, responder's data of v)     *)
(* Responder = "adversary": any reply at all (C19), including accepts of      *)
(*   unproposed / unknown (W+1) / foreign-table (W+2, format "X") versions    *)
(*   with data of any format, junk, and any magic.                            *)
(*                                                                            *)
(* ClientDesign = "fixed" is the design the property states: an accept is     *)
(* taken only if the version was proposed, the data has that version's        *)
(* format and carries the magic proposed for it.  "legacy" is what            *)
(* handleAcceptVersion did when this check was written (any version with a    *)
(* decoder, magic never compared): kept so that TLC reproduces the            *)
(* counterexample (HandshakeAdvLegacy.cfg must FAIL ClientSafe).              *)
(*                                                                            *)
(* What the initiator PROPOSED is what its ProposeVersions message held, not   *)
(* what it was configured with: snt is the set of versions on the wire, a     *)
(* subset of the configured table cli (their data as configured).  The honest *)
(* runs of C18 have snt = Dom(cli) ("the proposal is the table" is C18's      *)
(* statement); for C19 every subset is a case (SentSpace), and every decision *)
(* about a reply is taken on snt: a configured version that was not sent is   *)
(* as unproposed as one that was never configured (SentDecides).              *)
(* ClientDesign = "configured" is the design that checks an accept against    *)
(* the configured table whatever was sent: HandshakeAdvConfigured.cfg must    *)
(* FAIL ClientSafe.                                                           *)
(*                                                                            *)
(* A case is c = [cli, snt, srv, k, qf, fl]; every decision is an operator of *)
(* the case (and of the message), the run below applies them step by step and *)
(* the invariants are evaluated on its states.  Every run (case + reply +     *)
(* expected result of both endpoints) is written to rows.ndjson once; the Go  *)
(* drivers replay the rows on the real code.                                  *)
EXTENDS Integers, Sequences, FiniteSets, SequencesExt, FiniteSetsExt, Json, TLC

CONSTANTS W,              \* window size
          CliMagics,      \* magics the initiator's table may use
          SrvMagics,      \* magics the responder's table may use
          CliPerVersion,  \* TRUE: the initiator's magic may differ from version to version
          SrvPerVersion,  \* same for the responder
          MaxSize,        \* tables have at most MaxSize versions
          QCases,         \* admissible <<k, qf>> pairs
          FlagSpace,      \* admissible flag records
          FlagsInModel,   \* TRUE: the replay takes the flags from the row; FALSE: it draws them (seeded)
          Responder,      \* "honest" | "adversary"
          ClientDesign,   \* "fixed" | "legacy" | "configured"
          SentSpace       \* which sets of versions the initiator may have put on the wire:
                          \* "configured" (exactly its table) | "subsets" (any subset of it) | "proper" (any but the whole)

VARIABLES c,           \* the case
          cpc, spc,    \* "propose" | "confirm" | "done"
          net,         \* the last message put on the wire
          cres, sres   \* what each endpoint reports when it is done

vars == <<c, cpc, spc, net, cres, sres>>

Vers     == 1..W
Unknown  == W + 1          \* a version number nobody has a decoder for
Foreign  == W + 2          \* a version of another table: has a decoder (format "X"), can never be proposed here
NoTab    == [v \in Vers |-> 0]
Dom(t)   == {v \in Vers : t[v] # 0}
Uniform(t) == \A a \in Dom(t), b \in Dom(t) : t[a] = t[b]
Tables(M, per) == {t \in [Vers -> {0} \cup M] : Cardinality(Dom(t)) <= MaxSize /\ (per \/ Uniform(t))}
Asc(S)   == SortSeq(SetToSeq(S), LAMBDA a, b : a < b)

\* values for the CONSTANTS (substituted in the .cfg files)
NoFlags  == [cd |-> FALSE, cp |-> FALSE, sd |-> FALSE, sp |-> FALSE, sq |-> FALSE]
OnlyNoFlags == {NoFlags}
AllFlags == [cd : BOOLEAN, cp : BOOLEAN, sd : BOOLEAN, sp : BOOLEAN, sq : BOOLEAN]
HonestQ  == {<<0, FALSE>>} \cup {<<t, TRUE>> : t \in 1..(W + 1)}
NoQ      == {<<0, FALSE>>}
AdvQ     == (1..(W + 1)) \X BOOLEAN

\* the sets of versions an initiator configured with table t may have sent
SentSets(t) == CASE SentSpace = "configured" -> {Dom(t)}
                 [] SentSpace = "subsets"    -> SUBSET Dom(t)
                 [] SentSpace = "proper"     -> (SUBSET Dom(t)) \ {Dom(t)}
\* the specified initiator proposes its table: the honest runs (C18) do not vary what is sent
ASSUME SentSpace \in {"configured", "subsets", "proper"} /\ (Responder = "honest" => SentSpace = "configured")

Cases == UNION {{[cli |-> a, snt |-> s, srv |-> b, k |-> q[1], qf |-> q[2], fl |-> f] :
                   s \in SentSets(a),
                   b \in (IF Responder = "honest" THEN Tables(SrvMagics, SrvPerVersion) ELSE {NoTab}),
                   q \in QCases, f \in FlagSpace} :
                a \in Tables(CliMagics, CliPerVersion)}

\* the table in the ProposeVersions message
Wire(x) == [v \in Vers |-> IF v \in x.snt THEN x.cli[v] ELSE 0]

Format(x, v) == IF v = Foreign THEN "X" ELSE IF v = Unknown THEN "none"
                ELSE IF x.k # 0 /\ v >= x.k THEN "B" ELSE "A"
Known(v)     == v \in Vers \/ v = Foreign

NoData == [format |-> "none", magic |-> 0, d |-> FALSE, p |-> FALSE, q |-> FALSE]
Msg(t, v, reason, vs, tab, data) == [t |-> t, v |-> v, reason |-> reason, vs |-> vs, tab |-> tab, data |-> data]
NoMsg == Msg("none", 0, "", <<>>, NoTab, NoData)
Res(kind, v, vs, tab, data) == [kind |-> kind, v |-> v, vs |-> vs, tab |-> tab, data |-> data]
NoRes == Res("none", 0, <<>>, NoTab, NoData)

\* the version data each side puts into its table for version v
CliData(x, v) == [format |-> Format(x, v), magic |-> x.cli[v], d |-> x.fl.cd, p |-> x.fl.cp,
                  q |-> (x.qf /\ x.k # 0 /\ v >= x.k)]
SrvData(x, v) == [format |-> Format(x, v), magic |-> x.srv[v], d |-> x.fl.sd, p |-> x.fl.sp, q |-> x.fl.sq]

\* the query flag reaches the responder iff some proposed version carries it
Asked(x)  == x.qf /\ x.k # 0 /\ \E v \in x.snt : v >= x.k
Common(x) == x.snt \cap Dom(x.srv)
Best(x)   == Max(Common(x))

--------------------------------------------------------------------------
(* the responder *)

HonestReply(x) ==
    IF Asked(x) THEN Msg("queryreply", 0, "", <<>>, x.srv, NoData)
    ELSE IF Common(x) = {} THEN Msg("refuse", 0, "mismatch", Asc(Dom(x.srv)), NoTab, NoData)
    ELSE IF x.cli[Best(x)] # x.srv[Best(x)] THEN Msg("refuse", Best(x), "refused", <<>>, NoTab, NoData)
    ELSE Msg("accept", Best(x), "", <<>>, NoTab, SrvData(x, Best(x)))

\* what the honest responder reports: the selected version with the initiator's data, or nothing
HonestSres(x, m) == IF m.t = "accept" THEN Res("ok", m.v, <<>>, NoTab, CliData(x, m.v)) ELSE NoRes

AdvData == {[format |-> f, magic |-> m, d |-> FALSE, p |-> FALSE, q |-> FALSE] : f \in {"A", "B", "X"}, m \in CliMagics}
           \cup {[NoData EXCEPT !.format = "junk"],   \* a well-formed CBOR item that is no version data of any format
                 [NoData EXCEPT !.format = "bad"]}    \* bytes that are not CBOR at all
FullTab == [v \in Vers |-> CHOOSE m \in CliMagics : TRUE]
AdvReplies ==
    {Msg("accept", v, "", <<>>, NoTab, dt) : v \in 1..(W + 2), dt \in AdvData}
    \cup {Msg("refuse", 0, "mismatch", vs, NoTab, NoData) : vs \in {<<>>, Asc(Vers)}}
    \cup {Msg("refuse", v, r, <<>>, NoTab, NoData) : v \in {1, W + 1}, r \in {"refused", "decodeerror"}}
    \cup {Msg("queryreply", 0, "", <<>>, t, NoData) : t \in {NoTab, FullTab}}

Replies(x) == IF Responder = "honest" THEN {HonestReply(x)} ELSE AdvReplies

--------------------------------------------------------------------------
(* the initiator *)

WellFormed(x, dt, v) == Known(v) /\ dt.format = Format(x, v)
AcceptOk(x, m) ==
    CASE ClientDesign = "fixed" ->
            /\ m.v \in x.snt                  \* proposed = on the wire
            /\ WellFormed(x, m.data, m.v)
            /\ m.data.magic = x.cli[m.v]
      [] ClientDesign = "configured" ->      \* defective: looks the version up in its configuration, whatever it sent
            /\ m.v \in Dom(x.cli)
            /\ WellFormed(x, m.data, m.v)
            /\ m.data.magic = x.cli[m.v]
      [] ClientDesign = "legacy" -> WellFormed(x, m.data, m.v)   \* the decoder of m.v accepts the data

\* why an accept must not be taken (for the keys of the replay's reports)
Why(x, m) ==
    IF m.t # "accept" THEN {}
    ELSE (IF ~Known(m.v) THEN {"unknown"} ELSE {})
         \cup (IF Known(m.v) /\ m.v \notin Dom(x.cli) THEN {"unproposed"} ELSE {})
         \cup (IF m.v \in Dom(x.cli) /\ m.v \notin x.snt THEN {"unsent"} ELSE {})   \* configured, but not on the wire
         \cup (IF Known(m.v) /\ m.data.format # Format(x, m.v) THEN {"format"} ELSE {})
         \cup (IF m.v \in Dom(x.cli) /\ m.data.format \in {"A", "B", "X"} /\ m.data.magic # x.cli[m.v]
               THEN {"magic"} ELSE {})

ClientResult(x, m) ==
    CASE m.t = "accept"     -> IF AcceptOk(x, m) THEN Res("ok", m.v, <<>>, NoTab, m.data)
                               ELSE Res("error", 0, <<>>, NoTab, NoData)
      [] m.t = "refuse"     -> Res(m.reason, m.v, m.vs, NoTab, NoData)      \* the refusal is reported as it came
      [] m.t = "queryreply" -> Res("query", 0, <<>>, m.tab, NoData)         \* the table, and no version selected

--------------------------------------------------------------------------
(* the run *)

Init == /\ c \in Cases
        /\ cpc = "propose" /\ spc = "propose"
        /\ net = NoMsg /\ cres = NoRes /\ sres = NoRes

ClientPropose == /\ cpc = "propose"
                 /\ cpc' = "confirm"
                 /\ net' = Msg("propose", 0, "", <<>>, Wire(c), NoData)
                 /\ UNCHANGED <<c, spc, cres, sres>>

ServerReply == /\ spc = "propose" /\ net.t = "propose"
               /\ \E m \in Replies(c) :
                     /\ net' = m
                     /\ sres' = IF Responder = "honest" THEN HonestSres(c, m) ELSE NoRes
               /\ spc' = "done"
               /\ UNCHANGED <<c, cpc, cres>>

ClientHandle == /\ cpc = "confirm" /\ spc = "done"
                /\ cres' = ClientResult(c, net)
                /\ cpc' = "done"
                /\ UNCHANGED <<c, spc, net, sres>>

Terminal == cpc = "done" /\ spc = "done"

Next == ClientPropose \/ ServerReply \/ ClientHandle \/ (Terminal /\ UNCHANGED vars)

--------------------------------------------------------------------------
(* C18: invariants of honest runs (stated on terminal states) *)

HT == Responder = "honest" /\ Terminal

\* both finish with a version, or neither does; the same one
Agreement == HT =>
    /\ (cres.kind = "ok") <=> (sres.kind = "ok")
    /\ cres.kind = "ok" => cres.v = sres.v

\* ... and it is the highest common one, whose magics match
BestCommon == (HT /\ cres.kind = "ok") =>
    /\ cres.v \in Common(c)
    /\ \A u \in Common(c) : u <= cres.v
    /\ c.cli[cres.v] = c.srv[cres.v]

\* they do finish with it whenever it exists (no query): selection does not give up
Selects == (HT /\ ~Asked(c) /\ Common(c) # {} /\ c.cli[Best(c)] = c.srv[Best(c)]) => cres.kind = "ok"

\* otherwise the responder refuses and the initiator reports that refusal
RefusalReported == (HT /\ ~Asked(c) /\ (Common(c) = {} \/ c.cli[Best(c)] # c.srv[Best(c)])) =>
    /\ sres.kind = "none"
    /\ IF Common(c) = {} THEN cres.kind = "mismatch" ELSE cres.kind = "refused" /\ cres.v = Best(c)

\* a lower common version with matching magics does not rescue a handshake whose best version is refused
NoFallback == (HT /\ ~Asked(c) /\ Common(c) # {} /\ c.cli[Best(c)] # c.srv[Best(c)]) => cres.kind # "ok"

\* a version-mismatch refusal lists exactly the responder's versions, ascending
MismatchAscending == (HT /\ cres.kind = "mismatch") =>
    /\ ToSet(cres.vs) = Dom(c.srv)
    /\ Len(cres.vs) = Cardinality(Dom(c.srv))
    /\ \A i \in 1..(Len(cres.vs) - 1) : cres.vs[i] < cres.vs[i + 1]

\* a query returns the responder's table and selects nothing, on either side; nothing else is a query result
QueryNeverSelects == HT =>
    /\ Asked(c) => (cres.kind = "query" /\ cres.tab = c.srv /\ cres.v = 0 /\ sres.kind = "none")
    /\ cres.kind = "query" => Asked(c)

\* each side ends up with the other side's data of the selected version; flags only travel
EchoData == (HT /\ cres.kind = "ok") =>
    /\ cres.data = SrvData(c, cres.v)
    /\ sres.data = CliData(c, sres.v)
    /\ cres.data.magic = sres.data.magic

\* the outcome is a function of the tables and of whether the query reached the responder
FlagsIrrelevant == HT =>
    LET x == [c EXCEPT !.fl = NoFlags]
        y == ClientResult(x, HonestReply(x))
    IN cres.kind = y.kind /\ cres.v = y.v /\ cres.vs = y.vs /\ cres.tab = y.tab

--------------------------------------------------------------------------
(* C19: whatever the responder says *)

ClientSafe == (cres.kind = "ok") =>
    /\ cres.v \in c.snt                       \* a version it proposed: one that was in its ProposeVersions message
    /\ WellFormed(c, cres.data, cres.v)
    /\ cres.data.magic = c.cli[cres.v]

\* the repaired initiator still takes every acceptance the honest responder could have sent
ClientComplete == (Terminal /\ net.t = "accept" /\ net.v \in c.snt
                   /\ net.data.format = Format(c, net.v) /\ net.data.magic = c.cli[net.v]) => cres.kind = "ok"

\* a refusal or a query reply never selects a version
OnlyAcceptSelects == (Terminal /\ net.t # "accept") => cres.kind # "ok"

\* what is on the wire is a part of the configured table, with the configured data
SentOfConfigured ==
    /\ c.snt \subseteq Dom(c.cli)
    /\ net.t = "propose" => (Dom(net.tab) = c.snt /\ \A v \in c.snt : net.tab[v] = c.cli[v])

\* an accept of a version that was not on the wire is a failure, however good its data and whatever the configuration holds
UnsentNeverSettles == (Terminal /\ net.t = "accept" /\ net.v \notin c.snt) => cres.kind = "error"

\* the verdict is a function of what was sent: the initiator configured with exactly the sent part decides the same
SentDecides == Terminal => cres = ClientResult([c EXCEPT !.cli = Wire(c)], net)

\* only an acceptance is judged against the proposal: refusals and query replies are reported the same whatever was sent
SentOnlyJudgesAccepts == (Terminal /\ net.t # "accept") => cres = ClientResult([c EXCEPT !.snt = Dom(c.cli)], net)

TypeOK == /\ cpc \in {"propose", "confirm", "done"} /\ spc \in {"propose", "done"}
          /\ cres.kind \in {"none", "ok", "error", "mismatch", "refused", "decodeerror", "query"}
          /\ sres.kind \in {"none", "ok"}
          /\ (cres.kind # "none") <=> (cpc = "done")

--------------------------------------------------------------------------
(* emission: one compact row per run (flags as <<cd, cp, sd, sp, sq>>, messages *)
(* and results without their filler fields)                                   *)

RowOf(x, m) ==
    LET cr == ClientResult(x, m)
        sr == IF Responder = "honest" THEN HonestSres(x, m) ELSE NoRes
    IN [mode |-> Responder, cli |-> x.cli, snt |-> x.snt, srv |-> x.srv, k |-> x.k, qf |-> x.qf,
        fl |-> <<x.fl.cd, x.fl.cp, x.fl.sd, x.fl.sp, x.fl.sq>>, flmodel |-> FlagsInModel, asked |-> Asked(x),
        reply |-> [t |-> m.t, v |-> m.v, reason |-> m.reason, vs |-> m.vs, tab |-> m.tab,
                   format |-> m.data.format, magic |-> m.data.magic],
        why |-> Why(x, m),
        cres |-> [kind |-> cr.kind, v |-> cr.v, vs |-> cr.vs, tab |-> cr.tab],
        sres |-> [kind |-> sr.kind, v |-> sr.v]]

Runs == IF Responder = "honest" THEN {<<x, HonestReply(x)>> : x \in Cases} ELSE Cases \X AdvReplies
\* the defective designs are only model-checked (they must fail), never replayed
EmitRows == IF ClientDesign # "fixed" THEN TRUE
            ELSE LET s == SetToSeq(Runs)
                 IN ndJsonSerialize("rows.ndjson", [i \in 1..Len(s) |-> RowOf(s[i][1], s[i][2])])
ASSUME EmitRows
==============================================================================
