\* the block pipeline (Config.Pipeline): roll-forwards are applied by the pipeline, the roll-backward
\* callback waits for the drain; limits 0..2, histories up to 3, a pipeline of 2 blocks, Stop at any moment.
\* Emits the histories up to length 4 as plans with pipe = TRUE.
CONSTANTS
  Limits = {0, 1, 2}
  Default = 3
  MaxHist = 3
  WithStop = TRUE
  Bug = "none"
  QCap = 5
  StopFix = FALSE
  EmitMax = 4
  Pipes = {TRUE}
  PCap = 2
SPECIFICATION Spec
INVARIANTS Safe Strict0 TokensFit Locks Counter TermStop TermDelivered PipeView DrainedAtRollback
CHECK_DEADLOCK FALSE
