\* C46 thorough: every history of exactly 3 calls (no VIEW) from every
\* verifier / insecure configuration with no or all pools registered;
\* single-fault messages, counters 0..1, pool administration calls, every replay of a
\* presented message
CONSTANTS
  Pools = {"p1", "p2"}
  Counters = {0, 1}
  Faults <- SingleFaults
  AdminOps <- PoolAdmin
  InitRegs <- ExtremeRegs
  Mode = "hist"
  MaxLen = 3
  Chains = 0
  Replays <- AllReplays
INIT Init
NEXT Next
INVARIANTS TypeOK OnlyAuthentic NoVerifierRejects RealNotBypassed RejectKeepsState Complete Monotone CacheIsLastAccepted ReplayRejected ReplayAsFresh ReplayWellFormed KnownIsPresented ReplaySourced FloorIsOfColdKey ProbesTellFloor CounterFloorSurvivesChurn EmitHist
