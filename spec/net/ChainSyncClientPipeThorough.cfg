\* the block pipeline, thorough: limits 0..3, histories up to 5, a pipeline of 2 blocks, Stop at any moment.
\* Emits the histories up to length 6 as plans with pipe = TRUE.
CONSTANTS
  Limits = {0, 1, 2, 3}
  Default = 4
  MaxHist = 5
  WithStop = TRUE
  Bug = "none"
  QCap = 5
  StopFix = FALSE
  EmitMax = 6
  Pipes = {TRUE}
  PCap = 2
SPECIFICATION Spec
INVARIANTS Safe Strict0 TokensFit Locks Counter TermStop TermDelivered PipeView DrainedAtRollback
CHECK_DEADLOCK FALSE
