\* C25 exhaustive: 2 goroutines x 2 calls across acquire / release / queries (LSQ, tx-monitor)
CONSTANTS
  G = 2
  N = 2
  Ops = {"acq1", "rel", "qa", "qb"}
  Mutex = TRUE
  AutoAcquire = TRUE
  RelRule = TRUE
  Hist = FALSE
SPECIFICATION Spec
INVARIANTS TypeOK OwnAnswer MutexExcl QueryInSession OutShape RelLegal EmitRow
PROPERTIES Termination
