------------------------------ MODULE MuxerApi ------------------------------
(***************************************************************************)
(* The muxer's life cycle as its users see it (muxer/muxer.go): the start  *)
(* gate (StartOnce lets the read loop take ONE segment, Start opens it for *)
(* good; both are non-blocking sends on a one-slot channel, so a second    *)
(* call is dropped while the first is still unconsumed), registration and  *)
(* unregistration, the diffusion mode, Stop, the peer closing.             *)
(*                                                                         *)
(* This is the sequential meaning of the goroutines of Muxer.tla: after    *)
(* every API call or peer write the read loop runs as far as it can        *)
(* (Pump).  TLC enumerates every history of at most MaxOps operations and  *)
(* emits, for each, what must be observable after every operation          *)
(* (segments delivered per receiver, whether the muxer has stopped and     *)
(* with which first error, whether RegisterProtocol returned channels);    *)
(* harness/cmd/muxapi replays them on a real muxer.                        *)
(*                                                                         *)
(* Beyond the listed properties (DESIGN II.9): the clauses of C09 (right    *)
(* receiver, zero length / unregistered protocol / wrong direction end the  *)
(* connection with an error) are part of it, the gate and the life cycle    *)
(* are not, so disagreements here are reported as observations, except the  *)
(* C09 clauses.                                                             *)
(***************************************************************************)
EXTENDS Integers, Sequences, FiniteSets, TLC, Json, SequencesExt

CONSTANTS MaxOps

Keys == {"2i", "2r", "5r"}           \* <<protocol 2, initiator>>, <<2, responder>>, <<5, responder>>
\* inbound segments: for a registered or registrable receiver, for protocol 9 (never registered), zero length
SegKinds == {"2i", "2r", "5r", "9r", "zero"}
KeyOf(seg) == IF seg = "zero" THEN "2r" ELSE seg
IsResp(seg) == seg = "2i"

Ops == {[op |-> "Start"], [op |-> "StartOnce"], [op |-> "Stop"], [op |-> "PeerClose"]}
       \cup {[op |-> "Reg", k |-> k] : k \in {"2r", "5r"}}
       \cup {[op |-> "Unreg", k |-> k] : k \in {"2r"}}
       \cup {[op |-> "Seg", s |-> s] : s \in SegKinds}
       \cup {[op |-> "Mode", m |-> m] : m \in {"I", "R"}}

S0 == [tok |-> "none", started |-> FALSE, armed |-> FALSE, inq |-> <<>>, reg |-> {"2i", "2r"},
       deliv |-> [k \in Keys |-> 0], done |-> FALSE, err |-> "none", mode |-> "IR",
       peerClosed |-> FALSE, lastReg |-> "na", lost |-> 0]

Offence(s, seg) ==
    IF seg = "zero" THEN "zero-length"
    ELSE IF s.mode = "I" /\ ~IsResp(seg) THEN "mode"
    ELSE IF s.mode = "R" /\ IsResp(seg) THEN "mode"
    ELSE IF KeyOf(seg) \notin s.reg THEN "unknown protocol"
    ELSE "none"

Halt(s, e) == [s EXCEPT !.done = TRUE, !.err = IF s.err = "none" THEN e ELSE s.err, !.reg = {}, !.armed = FALSE]

\* the read loop runs as far as it can
RECURSIVE Pump(_)
Pump(s) ==
    IF s.done THEN s
    ELSE IF ~s.armed THEN
        IF s.started THEN Pump([s EXCEPT !.armed = TRUE])
        ELSE IF s.tok # "none" THEN Pump([s EXCEPT !.started = (s.tok = "full"), !.tok = "none", !.armed = TRUE])
        ELSE s
    ELSE IF s.inq # <<>> THEN
        LET seg == Head(s.inq) off == Offence(s, seg) s1 == [s EXCEPT !.inq = Tail(s.inq), !.armed = FALSE] IN
        IF off # "none" THEN Halt(s1, off)
        ELSE Pump([s1 EXCEPT !.deliv[KeyOf(seg)] = @ + 1])
    ELSE IF s.peerClosed THEN Halt(s, "closed")
    ELSE s

Apply(s, o) ==
    LET s0 == [s EXCEPT !.lastReg = "na"] IN
    CASE o.op = "Start"     -> Pump(IF s0.tok = "none" THEN [s0 EXCEPT !.tok = "full"] ELSE [s0 EXCEPT !.lost = @ + 1])
      [] o.op = "StartOnce" -> Pump(IF s0.tok = "none" THEN [s0 EXCEPT !.tok = "once"] ELSE [s0 EXCEPT !.lost = @ + 1])
      [] o.op = "Stop"      -> Halt(s0, "none")
      [] o.op = "PeerClose" -> Pump([s0 EXCEPT !.peerClosed = TRUE])
      [] o.op = "Reg"       -> IF s0.done THEN [s0 EXCEPT !.lastReg = "nil"]
                               ELSE [s0 EXCEPT !.reg = @ \cup {o.k}, !.lastReg = "ok"]
      [] o.op = "Unreg"     -> [s0 EXCEPT !.reg = @ \ {o.k}]
      [] o.op = "Seg"       -> IF s0.peerClosed THEN s0 ELSE Pump([s0 EXCEPT !.inq = Append(@, o.s)])
      [] o.op = "Mode"      -> [s0 EXCEPT !.mode = o.m]

VARIABLES hist, st, trail
vars == <<hist, st, trail>>

Obs(s) == [deliv |-> [k \in Keys |-> s.deliv[k]], done |-> s.done, err |-> s.err, lastReg |-> s.lastReg]

Init == hist = <<>> /\ st = S0 /\ trail = <<>>
Next == /\ Len(hist) < MaxOps
        /\ \E o \in Ops :
              /\ ~(o.op = "Seg" /\ st.peerClosed)         \* a closed peer writes nothing
              /\ ~(o.op = "PeerClose" /\ st.peerClosed)
              /\ LET s2 == Apply(st, o) IN
                   /\ hist' = Append(hist, o) /\ st' = s2 /\ trail' = Append(trail, Obs(s2))

-----------------------------------------------------------------------------
\* meta-properties of the sequential meaning
TypeOK == st.tok \in {"none", "once", "full"} /\ st.err \in {"none", "zero-length", "mode", "unknown protocol", "closed"}
\* nothing is delivered before the gate was opened at least once
GateHolds == (\A i \in DOMAIN hist : hist[i].op \notin {"Start", "StartOnce"}) => \A k \in Keys : st.deliv[k] = 0
\* each StartOnce admits at most one segment: delivered + 1 >= consumed-by-error bounded by gates while never fully started
OncePerToken ==
    ~st.started /\ (\A i \in DOMAIN hist : hist[i].op # "Start")
        => st.deliv["2i"] + st.deliv["2r"] + st.deliv["5r"]
              <= Cardinality({i \in DOMAIN hist : hist[i].op = "StartOnce"})
\* an error stops the muxer, and the first error is kept
ErrorStops == st.err # "none" => st.done
\* after the muxer has stopped nothing more is delivered and registration is refused
StoppedIsFinal == \A i \in DOMAIN trail : \A j \in DOMAIN trail :
                     (i < j /\ trail[i].done) => (trail[j].deliv = trail[i].deliv /\ trail[j].done /\ trail[j].err = trail[i].err)
RegRefusedWhenStopped == \A i \in DOMAIN hist : (hist[i].op = "Reg" /\ i > 1 /\ trail[i - 1].done) => trail[i].lastReg = "nil"

\* every maximal history is emitted with its predicted observations
Emit == Len(hist) = MaxOps =>
          PrintT(<<"BEHAVIOUR", ToJson([ops |-> hist, obs |-> trail])>>)
=============================================================================
