\* C25 peersharing.Client.GetPeers as read (no call mutex, one result channel): OwnAnswer must be violated (F-C25)
CONSTANTS
  G = 2
  N = 1
  Ops = {"qa"}
  Mutex = FALSE
  AutoAcquire = FALSE
  RelRule = FALSE
  Hist = FALSE
  OnOpaque = {"raw"}
  DupOpaque = FALSE
SPECIFICATION Spec
INVARIANTS TypeOK OwnAnswer MutexExcl QueryInSession OutShape RelLegal ErrOnlyWhenDead ErrSuffix OpaqueOutcome EmitRow

