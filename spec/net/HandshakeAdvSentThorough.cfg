\* C19 thorough, the dimension "what was sent": every proper subset of every table with per-version magics, 4-version window
CONSTANTS
  W = 4
  CliMagics = {1, 2}
  SrvMagics = {1}
  CliPerVersion = TRUE
  SrvPerVersion = FALSE
  MaxSize = 4
  QCases <- AdvQ
  FlagSpace <- OnlyNoFlags
  FlagsInModel = FALSE
  Responder = "adversary"
  ClientDesign = "fixed"
  SentSpace = "proper"
INIT Init
NEXT Next
INVARIANTS TypeOK ClientSafe ClientComplete OnlyAcceptSelects SentOfConfigured UnsentNeverSettles SentDecides SentOnlyJudgesAccepts
