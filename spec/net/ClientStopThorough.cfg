\* C15 thorough: Stop() of all eight clients, every scenario, the temporal statements
CONSTANTS
  Clients = {"chainsync", "blockfetch", "txsubmission", "localtxmonitor", "localtxsubmission", "localstatequery", "keepalive", "peersharing"}
  Scenarios = {"blocked", "twice", "conc", "afterclose", "handler"}
  Ends = {"userclose", "peerclose"}
  Emit = TRUE
SPECIFICATION Spec
INVARIANTS TypeOK MutexOwners DoneAfterHandler CloseAfterDone TerminalGood EmitOutcome
PROPERTIES StopsAndCallsReturn CloseCompletes ScenarioPlayed
