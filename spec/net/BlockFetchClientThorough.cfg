\* C23 thorough: batches of up to 3 blocks over 3 block identities, all eight callback configurations
CONSTANTS
  Points = {1, 2, 3}
  MaxBlocks = 3
  HashCheck = TRUE
  Collect = TRUE
  FollowUps = {"none", "block", "range"}
  Configs = {"none", "bf", "raw", "bf+raw", "bdf", "bf+bdf", "raw+bdf", "bf+raw+bdf"}
  Emit = TRUE
SPECIFICATION Spec
INVARIANTS TypeOK GetBlockSound GetBlockExact RangeOrder RangeReturn BusyLock BatchDoneFuncIffConfigured ReleasedAtBatchDone BlockCallbackPresent EmitOutcome
PROPERTIES Termination RangeCompletes EveryRequestSent
