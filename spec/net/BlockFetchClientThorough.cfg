\* C23 thorough: batches of up to 3 blocks over 3 block identities
CONSTANTS
  Points = {1, 2, 3}
  MaxBlocks = 3
  HashCheck = TRUE
  Collect = TRUE
  FollowUps = {"none", "block", "range"}
  Emit = TRUE
SPECIFICATION Spec
INVARIANTS TypeOK GetBlockSound GetBlockExact RangeOrder RangeReturn BusyLock EmitOutcome
PROPERTIES Termination RangeCompletes
