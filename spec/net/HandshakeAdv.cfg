\* C19 quick: the repaired initiator against every reply of the adversarial responder, 3-version window
CONSTANTS
  W = 3
  CliMagics = {1, 2}
  SrvMagics = {1}
  CliPerVersion = TRUE
  SrvPerVersion = FALSE
  MaxSize = 3
  QCases <- AdvQ
  FlagSpace <- OnlyNoFlags
  FlagsInModel = FALSE
  Responder = "adversary"
  ClientDesign = "fixed"
  SentSpace = "configured"
INIT Init
NEXT Next
INVARIANTS TypeOK ClientSafe ClientComplete OnlyAcceptSelects SentOfConfigured UnsentNeverSettles SentDecides SentOnlyJudgesAccepts
