\* C25 reply form: every sequential program of 3 calls with opaque replies (qx) among acquire / release / queries, for a client that hands an opaque reply over raw and for one that fails the connection
CONSTANTS
  G = 1
  N = 3
  Ops = {"acq1", "rel", "qa", "qb", "qx"}
  Mutex = TRUE
  AutoAcquire = TRUE
  RelRule = FALSE
  Hist = TRUE
  OnOpaque = {"raw", "fail"}
  DupOpaque = FALSE
SPECIFICATION Spec
INVARIANTS TypeOK OwnAnswer MutexExcl QueryInSession OutShape RelLegal ErrOnlyWhenDead ErrSuffix OpaqueOutcome EmitRow
