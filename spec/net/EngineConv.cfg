CONSTANTS
  SegMax = 65535
  MaxBatch = 20
  Me = "client"
  StateMapC <- Vproto
  MsgTypes = {0, 2, 4}
  MaxPeer = 0
  MaxApp = 3
  PeerMode = "conforming"
  Variant = "asis"
SPECIFICATION Spec
CHECK_DEADLOCK FALSE
INVARIANTS Refines HandlingImpliesAccepted ConformingNeverFails
PROPERTIES ConversationCompletes
