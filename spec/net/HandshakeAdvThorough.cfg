\* C19 thorough: 4-version window
CONSTANTS
  W = 4
  CliMagics = {1, 2}
  SrvMagics = {1}
  CliPerVersion = TRUE
  SrvPerVersion = FALSE
  MaxSize = 4
  QCases <- AdvQ
  FlagSpace <- OnlyNoFlags
  FlagsInModel = FALSE
  Responder = "adversary"
  ClientDesign = "fixed"
INIT Init
NEXT Next
INVARIANTS TypeOK ClientSafe ClientComplete OnlyAcceptSelects
