------------------------------ MODULE ClientApi ------------------------------
(***************************************************************************)
(* C15 - No call hangs and nothing leaks, whatever the peer does.          *)
(*                                                                         *)
(* A generic model of the blocking API layer of gouroboros                 *)
(* (protocol/<name>/client.go, txsubmission/server.go) over the shutdown   *)
(* of the mini-protocol engine (protocol/protocol.go) and of the           *)
(* connection (connection.go).  It is instantiated once per API call from  *)
(* the table c15_table.json: the hand-written structure of the call        *)
(* (spec/net/ClientApiTable.json) with the attributes that decide the      *)
(* property filled in from the source of the tree under test (go/ast):     *)
(*                                                                         *)
(*   mutex      the call takes the client's busy mutex                     *)
(*   stage.done the wait of the stage selects on DoneChan as well          *)
(*   closed     result channels closed by the cleanup goroutine on done    *)
(*   push.sel   the handler's send is a select with DoneChan               *)
(*   push.buf   the channel is buffered (the send cannot block)            *)
(*   conn.waits            Connection.shutdown waits for the forwarders    *)
(*                         before it closes ErrorChan                      *)
(*   engine.startfail_done Protocol.Start closes DoneChan when it cannot   *)
(*                         register with the muxer                         *)
(*                                                                         *)
(* Goroutines (one action group each, weak fairness on every one):         *)
(*   caller     Lock -> enqueue request -> wait on the stage's channels    *)
(*              [and DoneChan] -> next stage / return                      *)
(*   recvLoop   takes the next message when the server has agency; a       *)
(*              message the state does not permit is a protocol error      *)
(*              (SendError = push to the connection, then Stop); else the  *)
(*              state moves on and the HANDLER RUNS INSIDE recvLoop: its   *)
(*              pushes are rendezvous with the caller unless buffered      *)
(*   sendLoop   exits on stopChan or after recvLoop; readLoop, stateLoop    *)
(*              are alive until their exit condition (not interleaved)     *)
(*   closer     closes DoneChan after recvLoop AND sendLoop have exited    *)
(*   cleanup    on DoneChan closes the result channels (if the client has  *)
(*              one); watcher: releases a held busy lock on DoneChan       *)
(*   restart    a handler that stops the instance and starts a new one     *)
(*              (tx-submission server on Done): if the muxer is already    *)
(*              down, Protocol.Start registers nothing and starts nothing; *)
(*              unless it closes DoneChan itself the new instance's        *)
(*              cleanup goroutine waits for ever ("stillborn")             *)
(*   connection the two error forwarders, the shutdown goroutine           *)
(*              (muxer.Stop, close connClosedChan, waitGroup.Wait, close   *)
(*              ErrorChan), Close()                                        *)
(* The modelled fact that decides most cases: DoneChan closes only after   *)
(* recvLoop has exited, recvLoop cannot exit while its handler is blocked, *)
(* so a select on DoneChan inside a handler can never fire (HPushDone has  *)
(* no reachable state) and a handler blocked on a channel nobody reads is  *)
(* never released by shutdown.                                             *)
(*                                                                         *)
(* The environment: a peer script of at most MaxLen steps over             *)
(*   ok       the correct reply to the outstanding request                 *)
(*   w1, w2   each reply the state permits but the call did not ask for    *)
(*   forbid   a well-formed message the state does not permit              *)
(*   garbage  malformed bytes                                              *)
(*   surplus  one more copy of the reply just sent                         *)
(*   trunc    a truncated segment / message, then nothing                  *)
(*   stall    the peer stops reading and writing                           *)
(*   muxerr   a segment the muxer rejects                                  *)
(*   close    the peer closes the connection                               *)
(*   tmo      the peer stays silent until the state timeout of the state   *)
(*            the protocol is waiting in fires (see "state timeouts")      *)
(* (the empty script and every script that ends without close is silence), *)
(* and the user of the library: Close() once the peer has played its       *)
(* script and the call has returned or the library has come to rest, then  *)
(* draining ErrorChan, then one more call of the same API.                 *)
(*                                                                         *)
(* State timeouts.  Silence has two outcomes.  Either somebody closes the  *)
(* connection (the scripts without tmo: the state timeouts are out of the  *)
(* way), or the silence lasts longer than the timeout of the state the     *)
(* mini-protocol waits in (protocol.StateMapEntry.Timeout, set per         *)
(* protocol through the public options: blockfetch.WithBatchStartTimeout / *)
(* WithBlockTimeout, chainsync.WithIntersectTimeout / WithBlockTimeout,    *)
(* localstatequery / localtxmonitor acquire and query timeouts,            *)
(* localtxsubmission / peersharing WithTimeout; tx-submission has fixed    *)
(* ones).  stage.timed says that the state entered with the stage's        *)
(* request (or, for a stage without request, with the reply before it) has *)
(* such a timeout; reply.untimed that the state a "stay" reply leads to    *)
(* has none (chain-sync AwaitReply: MustReply's timeout is not an option). *)
(* stateLoop arms a timer when such a state is entered, disarms it when    *)
(* the state is left, and when the timer fires (TimeoutFires, an action of *)
(* the engine, enabled once the script has come to its tmo step) it        *)
(* reports the error to the connection and stops the protocol, like any    *)
(* other protocol error - and it must forget the fired timer: Design =     *)
(* "keeptimer" is the stateLoop that does not and then waits for ever for  *)
(* a second tick when it is told to stop (TLC has to reject it).  In a tmo *)
(* case the user closes only when nothing moves in the library any more,   *)
(* so the timeout is what ends the silence.                                *)
(*                                                                         *)
(* TLC explores every interleaving of every (API, script) case; the        *)
(* behaviour graph of a case is finite and acyclic, so under weak fairness *)
(* every behaviour ends in a state without successor, and the liveness     *)
(* statements                                                              *)
(*     ConnEnded  ~> CallReturned                                          *)
(*     CloseCalled ~> CloseReturned /\ ErrorChanClosed /\ NoGoroutines     *)
(* hold for a case iff they hold in all its terminal states.  Every        *)
(* terminal state is emitted (outcomes.ndjson): the prediction of a case   *)
(* is the set of its terminal observations.  Design = "repaired" forces    *)
(* every wait to be released by DoneChan: the design for which the         *)
(* PROPERTIES are checked; Design = "extracted" is the code as it is.      *)
(***************************************************************************)
EXTENDS Integers, Sequences, FiniteSets, TLC, Json, IOUtils, CSV, SequencesExt

CONSTANTS MaxLen,     \* longest peer script
          ApiFilter,  \* set of API names to explore; {} = every row of the table
          TmoOnly,    \* API names of which only the scripts that end in tmo are explored (quick tier)
          Design,     \* "extracted" | "repaired" | "keeptimer" (extracted + stateLoop keeps a fired timer)
          Emit        \* write cases.ndjson / outcomes.ndjson

Table == JsonDeserialize("c15_table.json")
Conn  == Table.conn            \* [waits |-> BOOLEAN]: shutdown waits for the forwarders before closing ErrorChan
ApiIdx == {i \in 1..Len(Table.apis) : ApiFilter = {} \/ Table.apis[i].name \in ApiFilter}

SetOf(s) == {s[i] : i \in 1..Len(s)}

--------------------------------------------------------------------------
(* peer scripts *)

Answering == {"ok", "w1", "w2", "forbid", "garbage", "trunc"}
Final     == {"trunc", "stall", "muxerr", "close", "tmo"}
Steps     == {"ok", "w1", "w2", "forbid", "garbage", "surplus"} \cup Final
WIdx      == [ok |-> 1, w1 |-> 2, w2 |-> 3]

NStages(A) == Len(A.stages)
\* the peer's stage after it has sent reply j of stage k
NextPk(A, k, j) ==
    LET e == A.stages[k].replies[j].eff IN
    IF e = "stay" THEN k ELSE IF e = "ends" THEN NStages(A) + 1 ELSE k + 1

\* the state the protocol waits in while the peer is at stage k has a state timeout that an option scales
\* (u: a "stay" reply of this stage has led to a state without one)
TimedStage(A, k, u) == k <= NStages(A) /\ A.stages[k].timed /\ ~u

\* every step of s from i on can be played when the peer is at stage k (k = N+1: no request will come any more)
RECURSIVE Playable(_, _, _, _, _)
Playable(A, s, i, k, u) ==
    IF i > Len(s) THEN TRUE
    ELSE LET x == s[i] N == NStages(A) IN
         CASE x \in {"ok", "w1", "w2"} ->
                  /\ k <= N
                  /\ WIdx[x] <= Len(A.stages[k].replies)
                  /\ LET k2 == NextPk(A, k, WIdx[x]) IN
                     Playable(A, s, i + 1, k2, k2 = k /\ (u \/ A.stages[k].replies[WIdx[x]].untimed))
           [] x \in {"forbid", "garbage"} ->
                  /\ k <= N
                  /\ (i = Len(s) \/ (i + 1 = Len(s) /\ s[i + 1] = "close"))
           [] x = "surplus" -> i > 1 /\ s[i - 1] = "ok" /\ Playable(A, s, i + 1, k, u)
           \* a truncated message, then nothing - until somebody closes, or until the state timeout fires
           [] x = "trunc"   -> k <= N /\ (i = Len(s) \/ (i + 1 = Len(s) /\ s[i + 1] = "tmo" /\ TimedStage(A, k, u)))
           [] x = "tmo"     -> i = Len(s) /\ TimedStage(A, k, u)
           [] OTHER         -> i = Len(s)       \* stall, muxerr, close

Scripts(A) == {s \in UNION {[1..n -> Steps] : n \in 0..MaxLen} : Playable(A, s, 1, 1, FALSE)}
EndsInTmo(s) == Len(s) > 0 /\ s[Len(s)] = "tmo"
CaseSpace == UNION {{[a |-> i, s |-> s] : s \in {t \in Scripts(Table.apis[i]) : Table.apis[i].name \in TmoOnly => EndsInTmo(t)}}
                    : i \in ApiIdx}

--------------------------------------------------------------------------
VARIABLES c,                 \* the case
          cpc, ck, rv,       \* call 1: pc, stage, result ("", "ok", "err")
          c2,                \* call 2 (after Close returned): "idle", "send" (mutex taken), "ret"
          mtx,               \* busy mutex: 0 free, 1 call 1, 2 call 2, 3 kept for the watcher
          ps, ag, sent,      \* protocol stage, agency ("cli" / "srv"), highest stage whose request went out
          timer,             \* stateLoop's state timer: "off", "armed" (the state waited in is timed), "fired"
          pi, pk, eof, last, \* peer: next step, stage, connection closed / broken by the peer, last reply written
          inbox, bad,        \* decoded messages waiting for recvLoop; malformed bytes waiting for readLoop
          hk, hj, hi,        \* handler: stage and reply it handles (hk = 0: not in a handler), next push
          buf,               \* buffered channels: channel -> effect of the value it holds ("" = empty)
          stopped, mux,      \* stopChan closed; muxer "up" / "down" (muxer doneChan closed)
          g,                 \* goroutine -> alive
          done, cleaned,     \* DoneChan closed; cleanup has closed the result channels
          perr, merr,        \* error waiting in protoErrorChan / muxer ErrorChan
          fP, fM, sh,        \* forwarders ("wait", "send", "closing", "exit"); shutdown goroutine ("wait", "wg", "exit")
          closeSig, connClosed, errClosed, unsafeClose,
          uc, drain,         \* user: Close() "no" / "in" / "ret"; drains ErrorChan
          inst2              \* the instance a handler restarts the protocol with (tx-submission Done): "none", "running",
                             \* "stillborn" (Protocol.Start could not register: nothing runs, DoneChan never closes), "gone"

callV  == <<cpc, ck, rv>>
protoV == <<ps, ag, sent, timer>>
peerV  == <<pi, pk, eof, last>>
handV  == <<hk, hj, hi>>
connV  == <<perr, merr, fP, fM, sh, closeSig, connClosed, errClosed, unsafeClose>>
userV  == <<uc, drain, c2>>
vars == <<c, callV, mtx, g, protoV, peerV, inbox, bad, handV, buf, stopped, mux, done, cleaned, connV, userV, inst2>>

A == Table.apis[c.a]
N == NStages(A)
\* the case is one in which the silence lasts until a state timeout fires; the silence has begun
EndsTmo == EndsInTmo(c.s)
Late == EndsTmo /\ pi > Len(c.s)
St(k) == A.stages[k]
Rep(k, j) == St(k).replies[j]
RepIdx(k) == 1..Len(St(k).replies)
Repaired == Design = "repaired"
KeepTimer == Design = "keeptimer"
StageDone(k) == Repaired \/ St(k).done
Closed == SetOf(A.closed)
GNames == {"recv", "send", "closer", "cleanup", "watcher"}
AllChans == UNION {SetOf(St(k).wait) : k \in 1..N}
            \cup UNION {UNION {{Rep(k, j).push[i].ch : i \in 1..Len(Rep(k, j).push)} : j \in RepIdx(k)} : k \in 1..N}

\* one of the shutdown signals enqueueMessage looks at is set
Down == stopped \/ done \/ mux = "down" \/ ~g["recv"] \/ ~g["send"]

\* readLoop exits on stopChan / muxerDoneChan / sendDoneChan, stateLoop on stopChan / DoneChan.  Whether they are still
\* running decides nothing else: whenever readLoop may exit nothing is delivered any more (sendLoop only exits after
\* stopChan or after recvLoop, which only exits after stopChan or muxerDoneChan), and whenever stateLoop may exit recvLoop
\* takes no message any more.  So their exits are not interleaved as actions; they are alive exactly until their condition.
\* A stateLoop that still holds the timer that has fired (Design = "keeptimer") stops and drains it on its way out:
\* Stop() says "already fired", nothing is left to drain, and it waits for a tick that never comes.
ReadAlive == ~(stopped \/ mux = "down" \/ ~g["send"])
StateAlive == (KeepTimer /\ timer = "fired") \/ ~(stopped \/ done)
\* stateLoop is in its loop (not on its way out): it takes transitions and the timer's tick
StateLoops == ~(stopped \/ done)

Init ==
    /\ c \in CaseSpace
    /\ cpc = "lock" /\ ck = 1 /\ rv = "" /\ c2 = "idle" /\ mtx = 0
    /\ ps = 0 /\ ag = "cli" /\ sent = 0 /\ timer = "off"
    /\ pi = 1 /\ pk = 1 /\ eof = FALSE /\ last = ""
    /\ inbox = <<>> /\ bad = FALSE
    /\ hk = 0 /\ hj = 0 /\ hi = 0
    /\ buf = [ch \in AllChans |-> ""]
    /\ stopped = FALSE /\ mux = "up"
    /\ g = [n \in GNames |-> IF n = "cleanup" THEN A.cleanup ELSE n # "watcher"]
    /\ done = FALSE /\ cleaned = FALSE /\ perr = FALSE /\ merr = FALSE
    /\ fP = "wait" /\ fM = "wait" /\ sh = "wait"
    /\ closeSig = FALSE /\ connClosed = FALSE /\ errClosed = FALSE /\ unsafeClose = FALSE
    /\ uc = "no" /\ drain = FALSE /\ inst2 = "none"

--------------------------------------------------------------------------
(* call 1 *)

Unlocked == IF mtx = 1 THEN 0 ELSE mtx

\* the call leaves stage k with a value: next stage, or return
Advance(k) ==
    IF k < N
    THEN IF St(k + 1).bg
         THEN \* the call returns here; what follows runs behind its back
              /\ ck' = k + 1
              /\ IF St(k + 1).req # ""
                 THEN cpc' = "sendbg" /\ UNCHANGED <<rv, mtx, g>>
                 ELSE /\ cpc' = "ret" /\ rv' = "ok"
                      /\ IF A.hold /\ mtx = 1
                         THEN mtx' = 3 /\ g' = [g EXCEPT !["watcher"] = TRUE]
                         ELSE mtx' = Unlocked /\ UNCHANGED g
         ELSE /\ ck' = k + 1 /\ UNCHANGED <<rv, mtx, g>>
              /\ cpc' = IF St(k + 1).req # "" THEN "send" ELSE "wait"
    ELSE /\ cpc' = "ret" /\ rv' = "ok" /\ mtx' = Unlocked /\ UNCHANGED <<ck, g>>

Return(r) == cpc' = "ret" /\ rv' = r /\ mtx' = Unlocked /\ UNCHANGED <<ck, g>>

React(eff) ==
    CASE eff = "adv"  -> Advance(ck)
      [] eff = "ends" -> Return("err")
      [] OTHER        -> UNCHANGED <<callV, mtx, g>>

C1Lock ==
    /\ cpc = "lock"
    /\ IF A.mutex THEN mtx = 0 /\ mtx' = 1 ELSE UNCHANGED mtx
    /\ cpc' = "send"
    /\ UNCHANGED <<inst2, c, ck, rv, g, protoV, peerV, inbox, bad, handV, buf, stopped, mux, done, cleaned, connV, userV>>

\* enqueueMessage: refused when a shutdown signal is visible; else queued, and put on the wire by sendLoop,
\* which moves the protocol state to the stage's state (server agency)
C1Send ==
    /\ cpc \in {"send", "sendbg"}
    /\ IF Down
       THEN Return("err") /\ UNCHANGED protoV
       ELSE /\ sent' = ck /\ ps' = ck /\ ag' = "srv"
            /\ timer' = IF St(ck).timed THEN "armed" ELSE "off"       \* setState: the old timer is stopped, a new one armed
            /\ IF cpc = "send" THEN cpc' = "wait" /\ UNCHANGED <<ck, rv, mtx, g>>
               ELSE Return("ok")
    /\ UNCHANGED <<inst2, c, peerV, inbox, bad, handV, buf, stopped, mux, done, cleaned, connV, userV>>

\* rendezvous: the handler's current push is an unbuffered send on a channel the call is waiting on
C1Rendezvous ==
    /\ cpc = "wait" /\ hk # 0 /\ hi <= Len(Rep(hk, hj).push)
    /\ LET p == Rep(hk, hj).push[hi] IN
        /\ ~p.buf /\ p.ch \in SetOf(St(ck).wait)
        /\ hi' = hi + 1
        /\ React(p.eff)
    /\ UNCHANGED <<inst2, c, protoV, peerV, inbox, bad, hk, hj, buf, stopped, mux, done, cleaned, connV, userV>>

C1Buffered ==
    /\ cpc = "wait"
    /\ \E ch \in SetOf(St(ck).wait) :
        /\ buf[ch] # ""
        /\ buf' = [buf EXCEPT ![ch] = ""]
        /\ React(buf[ch])
    /\ UNCHANGED <<inst2, c, protoV, peerV, inbox, bad, handV, stopped, mux, done, cleaned, connV, userV>>

\* released by shutdown: a waited channel was closed by the cleanup goroutine, or the wait selects on DoneChan
C1Released ==
    /\ cpc = "wait"
    /\ \/ cleaned /\ (SetOf(St(ck).wait) \cap Closed) # {}
       \/ done /\ StageDone(ck)
    /\ Return("err")
    /\ UNCHANGED <<inst2, c, protoV, peerV, inbox, bad, handV, buf, stopped, mux, done, cleaned, connV, userV>>

Caller == C1Lock \/ C1Send \/ C1Rendezvous \/ C1Buffered \/ C1Released

--------------------------------------------------------------------------
(* the engine *)

\* SendError: non-blocking push to the connection's protoErrorChan (unless already stopping), then Stop
RaiseError == stopped' = TRUE /\ perr' = (perr \/ ~stopped)
NoError == UNCHANGED <<stopped, perr>>
ConnRest == UNCHANGED <<merr, fP, fM, sh, closeSig, connClosed, errClosed, unsafeClose>>

Permitted(k, name) == {j \in RepIdx(k) : Rep(k, j).name = name}

\* recvLoop has the ready token (server agency) and takes the next message
RLTake ==
    /\ g["recv"] /\ hk = 0 /\ ~stopped /\ ag = "srv" /\ inbox # <<>>
    /\ inbox' = Tail(inbox)
    /\ LET m == Head(inbox) js == Permitted(ps, m) IN
       IF js = {}
       THEN /\ RaiseError /\ UNCHANGED <<handV, protoV>>
       ELSE LET j == CHOOSE x \in js : TRUE
                e == Rep(ps, j).eff IN
            /\ hk' = ps /\ hj' = j /\ hi' = 1
            /\ NoError /\ UNCHANGED sent
            /\ IF e = "stay"
               THEN /\ UNCHANGED <<ps, ag>>
                    /\ timer' = IF timer = "armed" /\ ~Rep(ps, j).untimed THEN "armed" ELSE "off"
               ELSE IF e = "adv" /\ ps < N /\ St(ps + 1).req = ""
                    THEN ps' = ps + 1 /\ ag' = "srv" /\ timer' = (IF St(ps + 1).timed THEN "armed" ELSE "off")
                    ELSE ag' = "cli" /\ timer' = "off" /\ UNCHANGED ps
    /\ ConnRest
    /\ UNCHANGED <<inst2, c, callV, mtx, g, peerV, bad, buf, mux, done, cleaned, userV>>

\* a buffered push completes at once
HPushBuf ==
    /\ hk # 0 /\ hi <= Len(Rep(hk, hj).push)
    /\ Rep(hk, hj).push[hi].buf
    /\ buf' = [buf EXCEPT ![Rep(hk, hj).push[hi].ch] = Rep(hk, hj).push[hi].eff]
    /\ hi' = hi + 1
    /\ UNCHANGED <<inst2, c, callV, mtx, g, protoV, peerV, inbox, bad, hk, hj, stopped, mux, done, cleaned, connV, userV>>

\* select { case ch <- v: case <-DoneChan() }: the second case (never enabled: done => recvLoop exited => no handler)
HPushDone ==
    /\ hk # 0 /\ hi <= Len(Rep(hk, hj).push)
    /\ Rep(hk, hj).push[hi].sel /\ done
    /\ hi' = hi + 1
    /\ UNCHANGED <<inst2, c, callV, mtx, g, protoV, peerV, inbox, bad, hk, hj, buf, stopped, mux, done, cleaned, connV, userV>>

\* the handler returns.  A reply marked restart (tx-submission Done) stops this instance and starts a new one from
\* inside the handler: Protocol.Start registers with the muxer, and if the muxer is already shutting down it reports an
\* error and returns without starting anything - then nothing will ever close the new instance's DoneChan, unless
\* Start does so itself (Table.engine.startfail_done, read off protocol.go)
HReturn ==
    /\ hk # 0 /\ hi > Len(Rep(hk, hj).push)
    /\ hk' = 0 /\ hj' = 0 /\ hi' = 0
    /\ IF Rep(hk, hj).unlock /\ mtx = 3 THEN mtx' = 0 ELSE UNCHANGED mtx
    /\ IF Rep(hk, hj).restart
       THEN /\ stopped' = TRUE
            /\ inst2' = IF mux = "up" THEN "running"
                         ELSE IF Repaired \/ Table.engine.startfail_done THEN "gone" ELSE "stillborn"
       ELSE UNCHANGED <<stopped, inst2>>
    /\ UNCHANGED <<c, callV, g, protoV, peerV, inbox, bad, buf, mux, done, cleaned, connV, userV>>

\* the restarted instance lives until the muxer goes down (its loops, closer and cleanup exit like the first one's)
Inst2Exit ==
    /\ inst2 = "running" /\ mux = "down"
    /\ inst2' = "gone"
    /\ UNCHANGED <<c, callV, mtx, g, protoV, peerV, inbox, bad, handV, buf, stopped, mux, done, cleaned, connV, userV>>

\* stateLoop: the timer of the state the protocol waits in fires - the silence of a script that ends in tmo lasts that
\* long.  SendError (push to the connection, Stop), and the fired timer is forgotten.
TimeoutFires ==
    /\ timer = "armed" /\ Late /\ StateLoops
    /\ timer' = "fired" /\ RaiseError /\ ConnRest
    /\ UNCHANGED <<inst2, c, callV, mtx, g, ps, ag, sent, peerV, inbox, bad, handV, buf, mux, done, cleaned, userV>>

\* readLoop: malformed bytes are a decode error whoever has agency
RDError ==
    /\ bad /\ ReadAlive
    /\ bad' = FALSE /\ RaiseError /\ ConnRest
    /\ UNCHANGED <<inst2, c, callV, mtx, g, protoV, peerV, inbox, handV, buf, mux, done, cleaned, userV>>

Exit(n) == g' = [g EXCEPT ![n] = FALSE]
EngineFrame == UNCHANGED <<inst2, c, callV, protoV, peerV, inbox, bad, handV, buf, stopped, mux, connV, userV>>

\* recvLoop leaves its loop only between two messages: never while its handler runs
RLExit == g["recv"] /\ hk = 0 /\ (stopped \/ mux = "down" \/ ~g["send"]) /\ Exit("recv") /\ UNCHANGED <<mtx, done, cleaned>> /\ EngineFrame
SLExit == g["send"] /\ (stopped \/ ~g["recv"]) /\ Exit("send") /\ UNCHANGED <<mtx, done, cleaned>> /\ EngineFrame
Closer == g["closer"] /\ ~g["recv"] /\ ~g["send"] /\ Exit("closer") /\ done' = TRUE /\ UNCHANGED <<mtx, cleaned>> /\ EngineFrame
Cleanup == g["cleanup"] /\ done /\ Exit("cleanup") /\ cleaned' = TRUE /\ UNCHANGED <<mtx, done>> /\ EngineFrame
Watcher == g["watcher"] /\ (done \/ mtx # 3) /\ Exit("watcher") /\ mtx' = (IF mtx = 3 THEN 0 ELSE mtx)
           /\ UNCHANGED <<done, cleaned>> /\ EngineFrame

RecvLoop == RLTake \/ HPushBuf \/ HPushDone \/ HReturn \/ RLExit
Engine == RecvLoop \/ RDError \/ TimeoutFires \/ SLExit \/ Closer \/ Cleanup \/ Watcher \/ Inst2Exit

--------------------------------------------------------------------------
(* the connection *)

ConnFrame == UNCHANGED <<inst2, c, callV, mtx, g, protoV, peerV, inbox, bad, handV, buf, stopped, done, cleaned, userV>>

\* muxer.readLoop meets EOF / a segment it rejects: sendError, Stop
MuxEof ==
    /\ eof /\ mux = "up"
    /\ mux' = "down" /\ merr' = TRUE
    /\ UNCHANGED <<perr, fP, fM, sh, closeSig, connClosed, errClosed, unsafeClose>> /\ ConnFrame

\* a forwarder: select { doneChan; error } -> errorChan <- err -> Close()
FwdP ==
    /\ \/ fP = "wait" /\ perr /\ fP' = "send" /\ perr' = FALSE /\ UNCHANGED <<closeSig, unsafeClose>>
       \/ fP = "wait" /\ closeSig /\ fP' = "exit" /\ UNCHANGED <<perr, closeSig, unsafeClose>>
       \/ fP = "send" /\ drain /\ fP' = "closing" /\ closeSig' = TRUE /\ unsafeClose' = (unsafeClose \/ errClosed) /\ UNCHANGED perr
       \/ fP = "closing" /\ connClosed /\ fP' = "exit" /\ UNCHANGED <<perr, closeSig, unsafeClose>>
    /\ UNCHANGED <<mux, merr, fM, sh, connClosed, errClosed>> /\ ConnFrame
FwdM ==
    /\ \/ fM = "wait" /\ merr /\ fM' = "send" /\ merr' = FALSE /\ UNCHANGED <<closeSig, unsafeClose>>
       \/ fM = "wait" /\ closeSig /\ fM' = "exit" /\ UNCHANGED <<merr, closeSig, unsafeClose>>
       \/ fM = "send" /\ drain /\ fM' = "closing" /\ closeSig' = TRUE /\ unsafeClose' = (unsafeClose \/ errClosed) /\ UNCHANGED merr
       \/ fM = "closing" /\ connClosed /\ fM' = "exit" /\ UNCHANGED <<merr, closeSig, unsafeClose>>
    /\ UNCHANGED <<mux, perr, fP, sh, connClosed, errClosed>> /\ ConnFrame

\* shutdown(): muxer.Stop, close(connClosedChan), [waitGroup.Wait], close(errorChan)
Shutdown ==
    /\ \/ /\ sh = "wait" /\ closeSig
          /\ sh' = "wg" /\ mux' = "down" /\ connClosed' = TRUE /\ UNCHANGED errClosed
       \/ /\ sh = "wg" /\ ((Repaired \/ Conn.waits) => (fP = "exit" /\ fM = "exit"))
          /\ sh' = "exit" /\ errClosed' = TRUE /\ UNCHANGED <<mux, connClosed>>
    /\ UNCHANGED <<perr, merr, fP, fM, closeSig, unsafeClose>> /\ ConnFrame

Connection == MuxEof \/ FwdP \/ FwdM \/ Shutdown

Library == Caller \/ Engine \/ Connection

--------------------------------------------------------------------------
(* the peer *)

S == c.s
\* what the peer writes reaches the engine only while the muxer and readLoop are up
Delivering == ReadAlive
\* the request of stage k (if it has one) is on the wire
Asked(k) == k <= N /\ (St(k).req = "" \/ sent >= k)

Peer ==
    /\ pi <= Len(S) /\ ~eof
    /\ LET x == S[pi] IN
       \/ /\ x \in {"ok", "w1", "w2"} /\ Asked(pk)
          /\ inbox' = IF Delivering THEN Append(inbox, Rep(pk, WIdx[x]).name) ELSE inbox
          /\ last' = Rep(pk, WIdx[x]).name
          /\ pk' = NextPk(A, pk, WIdx[x]) /\ UNCHANGED <<bad, eof>>
       \/ /\ x = "forbid" /\ Asked(pk)
          /\ inbox' = IF Delivering THEN Append(inbox, "!" \o St(pk).forbid) ELSE inbox
          /\ pk' = N + 1 /\ UNCHANGED <<bad, eof, last>>
       \/ /\ x = "garbage" /\ Asked(pk)
          /\ bad' = (bad \/ Delivering) /\ pk' = N + 1 /\ UNCHANGED <<inbox, eof, last>>
       \/ /\ x = "surplus"
          /\ inbox' = IF Delivering THEN Append(inbox, last) ELSE inbox
          /\ UNCHANGED <<pk, bad, eof, last>>
       \/ /\ x = "trunc" /\ Asked(pk) /\ UNCHANGED <<inbox, pk, bad, eof, last>>
       \/ /\ x = "stall" /\ UNCHANGED <<inbox, pk, bad, eof, last>>
       \/ /\ x = "tmo" /\ Asked(pk) /\ UNCHANGED <<inbox, pk, bad, eof, last>>      \* from here on TimeoutFires is enabled
       \/ /\ x \in {"close", "muxerr"} /\ eof' = TRUE /\ UNCHANGED <<inbox, pk, bad, last>>
    /\ pi' = pi + 1
    /\ UNCHANGED <<inst2, c, callV, mtx, g, protoV, handV, buf, stopped, mux, done, cleaned, connV, userV>>

--------------------------------------------------------------------------
(* the user of the connection *)

PeerDone == pi > Len(S)
UserFrame == UNCHANGED <<inst2, c, callV, g, protoV, peerV, inbox, bad, handV, buf, stopped, mux, done, cleaned,
                         perr, merr, fP, fM, sh, connClosed, errClosed, unsafeClose>>

\* Close() once the script is played and the call has returned or nothing moves in the library any more
\* (a script that ends in tmo: only then - the user does not end the silence, the timeout does)
UserClose ==
    /\ uc = "no" /\ PeerDone /\ ((cpc = "ret" /\ ~EndsTmo) \/ ~ENABLED Library)
    /\ uc' = "in" /\ closeSig' = TRUE
    /\ UNCHANGED <<c2, mtx, drain>> /\ UserFrame
UserCloseRet ==
    /\ uc = "in" /\ connClosed
    /\ uc' = "ret" /\ drain' = TRUE          \* the user reads ErrorChan from now on
    /\ UNCHANGED <<c2, mtx, closeSig>> /\ UserFrame

\* one more call of the same API on the closed connection
Call2 ==
    /\ uc = "ret"
    /\ \/ c2 = "idle" /\ (IF A.mutex THEN mtx = 0 /\ mtx' = 2 ELSE UNCHANGED mtx) /\ c2' = "send"
       \/ c2 = "send" /\ Down /\ c2' = "ret" /\ mtx' = (IF mtx = 2 THEN 0 ELSE mtx)
    /\ UNCHANGED <<uc, closeSig, drain>> /\ UserFrame

User == UserClose \/ UserCloseRet \/ Call2

Next == Library \/ Peer \/ User

Spec == Init /\ [][Next]_vars
        /\ WF_vars(Caller) /\ WF_vars(Peer) /\ WF_vars(User)
        /\ WF_vars(RecvLoop)                        \* recvLoop and the handler inside it
        /\ WF_vars(SLExit) /\ WF_vars(RDError) /\ WF_vars(TimeoutFires)
        /\ WF_vars(Closer) /\ WF_vars(Cleanup) /\ WF_vars(Watcher) /\ WF_vars(Inst2Exit)
        /\ WF_vars(MuxEof) /\ WF_vars(FwdP) /\ WF_vars(FwdM) /\ WF_vars(Shutdown)

--------------------------------------------------------------------------
(* properties *)

TypeOK ==
    /\ cpc \in {"lock", "send", "sendbg", "wait", "ret"} /\ ck \in 1..N /\ rv \in {"", "ok", "err"}
    /\ c2 \in {"idle", "send", "ret"} /\ mtx \in 0..3
    /\ ps \in 0..N /\ ag \in {"cli", "srv"} /\ sent \in 0..N /\ timer \in {"off", "armed", "fired"}
    /\ pi \in 1..(Len(S) + 1) /\ pk \in 1..(N + 1)
    /\ hk \in 0..N /\ (hk # 0 => hj \in RepIdx(hk))
    /\ mux \in {"up", "down"} /\ uc \in {"no", "in", "ret"}
    /\ fP \in {"wait", "send", "closing", "exit"} /\ fM \in {"wait", "send", "closing", "exit"}
    /\ sh \in {"wait", "wg", "exit"} /\ inst2 \in {"none", "running", "stillborn", "gone"}

\* the fact the whole property hangs on: DoneChan is never closed while a handler runs
DoneAfterHandler == done => (hk = 0 /\ ~g["recv"] /\ ~g["send"])
\* result channels are closed only after DoneChan, so a handler never sends on a closed channel
CleanAfterDone == cleaned => done
\* ErrorChan is not closed under a forwarder that still has an error to deliver (send on closed channel)
ErrorChanSafe == ~unsafeClose /\ (errClosed => (fP # "send" /\ fM # "send"))
MutexOwner == (mtx = 1 => cpc # "ret") /\ (mtx = 2 => c2 = "send")
\* a timer is armed only while the protocol waits for the peer in a timed state; one that has fired has stopped the
\* protocol, and fires only in the cases that say so
TimerSound == /\ (timer = "armed" => (ag = "srv" /\ ps \in 1..N /\ St(ps).timed))
              /\ (timer = "fired" => (stopped /\ EndsTmo))

ConnEnded == mux = "down"
CallReturned == cpc = "ret"
CloseCalled == uc # "no"
CloseReturned == uc = "ret"
Alive == {n \in GNames : g[n]} \cup (IF ReadAlive THEN {"read"} ELSE {}) \cup (IF StateAlive THEN {"state"} ELSE {}) \cup (IF fP # "exit" THEN {"fwdProto"} ELSE {}) \cup (IF fM # "exit" THEN {"fwdMuxer"} ELSE {})
               \cup (IF sh # "exit" THEN {"shutdown"} ELSE {})
               \cup (IF inst2 = "running" THEN {"recv", "send", "read", "state", "closer", "cleanup"} ELSE {})
               \cup (IF inst2 = "stillborn" THEN {"cleanup"} ELSE {})
NoGoroutines == Alive = {}

Terminal == ~ENABLED Next
\* silence that lasts beyond the state timeout ends the protocol (by the timeout, or by an error that came first)
TimeoutEndsSilence == (Terminal /\ EndsTmo) => stopped
\* the stateLoop does not outlive the connection - in particular not because of a timer it still holds
\* (Design = "keeptimer" violates this in every case whose timeout fires: ClientApiKeepTimer.cfg, TLC has to reject it)
StateLoopEnds == Terminal => ~StateAlive

\* liveness, as the property states it
CallReturns == ConnEnded ~> CallReturned
CloseCompletes == CloseCalled ~> (CloseReturned /\ errClosed /\ NoGoroutines)
SecondCallReturns == CloseReturned ~> (c2 = "ret")
\* the user always gets to close: every behaviour plays the whole script and closes
ScriptPlayed == <>(PeerDone /\ CloseCalled)
\* once the silence of a tmo case has begun the protocol stops, whatever the call is doing
SilenceTimesOut == Late ~> stopped

--------------------------------------------------------------------------
(* emission: every case once, and the observation of every terminal state *)

CaseRow(x) == [api |-> Table.apis[x.a].name, script |-> x.s]
ASSUME Emit => ndJsonSerialize("cases.ndjson", SetToSeq({CaseRow(x) : x \in CaseSpace}))

Write(row) == CSVWrite("%1$s", <<ToJson(row)>>, "outcomes.ndjson")
EmitOutcome ==
    (Emit /\ Terminal) =>
        Write([api |-> A.name, script |-> S,
               ret |-> cpc = "ret", rv |-> rv, ret2 |-> c2 = "ret",
               closeret |-> uc = "ret", errclosed |-> errClosed, safe |-> ~unsafeClose,
               alive |-> SetToSeq(Alive), played |-> pi - 1, tmo |-> timer = "fired",
               blocked |-> IF hk = 0 THEN "" ELSE Rep(hk, hj).handler])
==============================================================================
