\* C46 quick: every history of exactly 3 calls on one pool (no VIEW) from every
\* verifier / insecure / registration configuration; single-fault messages
CONSTANTS
  Pools = {"p1"}
  Counters = {0, 1}
  Faults <- SingleFaults
  AdminOps <- PoolAdmin
  InitRegs <- AllRegs
  Mode = "hist"
  MaxLen = 3
  Chains = 0
  Replays <- NoReplays
INIT Init
NEXT Next
INVARIANTS TypeOK OnlyAuthentic NoVerifierRejects RealNotBypassed RejectKeepsState Complete Monotone CacheIsLastAccepted KnownIsPresented FloorIsOfColdKey ProbesTellFloor CounterFloorSurvivesChurn EmitHist
