\* the code as read, F-C23a: GetBlock does not compare the hash -> GetBlockSound must be violated
CONSTANTS
  Points = {1, 2}
  MaxBlocks = 2
  HashCheck = FALSE
  Collect = TRUE
  FollowUps = {"none"}
  Configs = {"bf+bdf"}
  Emit = FALSE
SPECIFICATION Spec
INVARIANTS TypeOK GetBlockSound
