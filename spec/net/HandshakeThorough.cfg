\* C18 thorough: every pair of subsets of the 5-version window, initiator's magic per version
CONSTANTS
  W = 5
  CliMagics = {1, 2}
  SrvMagics = {1}
  CliPerVersion = TRUE
  SrvPerVersion = FALSE
  MaxSize = 5
  QCases <- HonestQ
  FlagSpace <- OnlyNoFlags
  FlagsInModel = FALSE
  Responder = "honest"
  ClientDesign = "fixed"
  SentSpace = "configured"
INIT Init
NEXT Next
INVARIANTS TypeOK Agreement BestCommon Selects RefusalReported NoFallback MismatchAscending QueryNeverSelects EchoData FlagsIrrelevant ClientSafe
