CONSTANTS
  Protos = {1, 2}
  MaxIn = 2
  Mode = "I"
  RCap = 1
  NOut = 1
  Design = "fixed"
SPECIFICATION Spec
CHECK_DEADLOCK FALSE
INVARIANTS RoutedRight InOrder NothingAfterError NoSilentExit ZeroLengthIsError WireOrder
