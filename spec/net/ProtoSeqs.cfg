CONSTANT Mode = "seq"
CONSTANT MaxLen = 3
INIT Init
NEXT Next
INVARIANT SeqInv
CHECK_DEADLOCK FALSE
