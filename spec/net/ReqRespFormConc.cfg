\* C25 reply form, exhaustive: 2 goroutines x 2 calls, plain and opaque replies, both kinds of client, with termination
CONSTANTS
  G = 2
  N = 2
  Ops = {"qa", "qx"}
  Mutex = TRUE
  AutoAcquire = FALSE
  RelRule = FALSE
  Hist = FALSE
  OnOpaque = {"raw", "fail"}
  DupOpaque = FALSE
SPECIFICATION Spec
INVARIANTS TypeOK OwnAnswer MutexExcl QueryInSession OutShape RelLegal ErrOnlyWhenDead ErrSuffix OpaqueOutcome EmitRow
PROPERTIES Termination
