\* C46 quick/thorough: transition cover of the authenticator automaton
\* (2 pools x counters 0..2 x 8 validity triples x all admin calls)
CONSTANTS
  Pools = {"p1", "p2"}
  Counters = {0, 1, 2}
  Faults <- AllFaults
  AdminOps <- AllAdmin
  InitRegs <- AllRegs
  Mode = "cover"
  MaxLen = 0
  Chains = 0
  Replays <- NoReplays
INIT Init
NEXT Next
VIEW View
CONSTRAINT EmitStep
INVARIANTS TypeOK OnlyAuthentic NoVerifierRejects RealNotBypassed RejectKeepsState Complete Monotone CacheIsLastAccepted KnownIsPresented FloorIsOfColdKey ProbesTellFloor CounterFloorSurvivesChurn EmitFan
