CONSTANT Mode = "prod"
CONSTANT MaxLen = 0
INIT Init
NEXT Next
INVARIANT Equivalent
CHECK_DEADLOCK FALSE
