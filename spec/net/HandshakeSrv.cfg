\* C18 quick: 4-version window, every pair of subsets, the responder's magic varies per version (initiator uniform), no query
\* (whether a query is asked does not depend on the responder; HandshakeSrvThorough.cfg has all of them)
CONSTANTS
  W = 4
  CliMagics = {1}
  SrvMagics = {1, 2}
  CliPerVersion = FALSE
  SrvPerVersion = TRUE
  MaxSize = 4
  QCases <- NoQ
  FlagSpace <- OnlyNoFlags
  FlagsInModel = FALSE
  Responder = "honest"
  ClientDesign = "fixed"
  SentSpace = "configured"
INIT Init
NEXT Next
INVARIANTS TypeOK Agreement BestCommon Selects RefusalReported NoFallback MismatchAscending QueryNeverSelects EchoData FlagsIrrelevant ClientSafe
