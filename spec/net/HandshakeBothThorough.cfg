\* C18 thorough: 4-version window, magics per version on both sides
CONSTANTS
  W = 4
  CliMagics = {1, 2}
  SrvMagics = {1, 2}
  CliPerVersion = TRUE
  SrvPerVersion = TRUE
  MaxSize = 4
  QCases <- HonestQ
  FlagSpace <- OnlyNoFlags
  FlagsInModel = FALSE
  Responder = "honest"
  ClientDesign = "fixed"
  SentSpace = "configured"
INIT Init
NEXT Next
INVARIANTS TypeOK Agreement BestCommon Selects RefusalReported NoFallback MismatchAscending QueryNeverSelects EchoData FlagsIrrelevant ClientSafe
