------------------------------ MODULE MuxTrace ------------------------------
(* Trace validation of the muxer against MuxObs (see EngineTrace for the idiom) *)
EXTENDS MuxObs, Json, IOUtils

Trace == ndJsonDeserialize(IOEnv.VERIF_TRACE)
VARIABLES l, skip, rejects
tvars == <<mvars, l, skip, rejects>>

TraceInit == l = 1 /\ skip = FALSE /\ rejects = <<>> /\ MInitVals(Trace[1].s1, Trace[1].s2)

Step(e) ==
    CASE e.ev = "Reg"      -> MReg(e.mx, e.pid, e.role)
      [] e.ev = "Unreg"    -> MUnreg(e.mx, e.pid, e.role)
      [] e.ev = "Send"     -> MSend(e.mx, e, FALSE)
      [] e.ev = "RawSend"  -> MSend(e.mx, e, TRUE)
      [] e.ev = "RecvHdr"  -> MRecvHdr(e.mx, e)
      [] e.ev = "Recv"     -> MRecv(e.mx, e)
      [] e.ev = "Route"    -> MRoute(e.mx, e)
      [] e.ev = "Deliver"  -> MDeliver(e.mx, e)
      [] e.ev = "Drop"     -> MDrop(e.mx, e)
      [] e.ev = "Consume"  -> MConsume(e.mx, e)
      [] e.ev = "Err"      -> MErrEv(e.mx, e)
      [] e.ev = "StopCall" -> MStopCall(e.mx)
      [] e.ev = "Exit"     -> MExit(e.mx)
      [] e.ev = "Wire"     -> MWire(e.mx, e)
      [] e.ev = "End"      -> MEnd(e.mx, e.s1, e.len)
      [] OTHER             -> MFail("unknown event " \o e.ev)

TraceNext ==
    /\ l <= Len(Trace)
    /\ l' = l + 1
    /\ LET e == Trace[l] IN
         IF e.ev = "Reset" THEN MReset(e.s1, e.s2) /\ skip' = FALSE /\ UNCHANGED rejects
         ELSE IF skip THEN UNCHANGED <<mvars, skip, rejects>>
         ELSE /\ Step(e)
              /\ skip' = (mErr' # "none")
              /\ rejects' = IF mErr' # "none" THEN Append(rejects, <<l, mErr'>>) ELSE rejects

TraceSpec == TraceInit /\ [][TraceNext]_tvars
Report == (l = Len(Trace) + 1) => PrintT(<<"REJECTS", ToJson(rejects)>>)
AllConsumed == TLCGet("stats").diameter = Len(Trace) + 1
=============================================================================
