\* C24 thorough: histories of 3 blocking calls with req = Limit whose replies hit the limit (1, Limit, Limit+1 ids or Done)
CONSTANTS
  Limit = 3
  Reqs <- LimitReq
  Replies <- BigRepliesT
  Blockings <- OnlyBlocking
  TxNs = {}
  Mode = "hist"
  MaxLen = 3
  Chains = 0
INIT Init
NEXT Next
INVARIANTS TypeOK AckedLeReceived AckWithinOutstanding OutstandingExact WireInRange RefusedLocally PerCall DoneOnlyFromBlocking OutRejectsOverLimit EmitHist
