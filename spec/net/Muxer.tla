------------------------------- MODULE Muxer -------------------------------
(***************************************************************************)
(* The segment muxer (muxer/muxer.go), receive and send side of one end.   *)
(*                                                                         *)
(* Receive side: readLoop reads a segment (header + payload, io.ReadFull   *)
(* hides how the stream is fragmented), rejects zero-length payloads,      *)
(* applies the diffusion-mode direction check, looks the receiver up under *)
(* the map lock (Route) and - after RELEASING that lock - takes the        *)
(* receiver's own lock and hands the segment over (Deliver).  An           *)
(* UnregisterProtocol can slip in between Route and Deliver; the receiver  *)
(* channel is then nil.                                                    *)
(*   Design = "fixed"  : that case is reported like any segment for an     *)
(*                       unregistered protocol (error, muxer stops)        *)
(*   Design = "legacy" : readLoop returns silently: no error, muxer not    *)
(*                       stopped, connection dead (the code before the     *)
(*                       `fix:` commit; kept to reproduce F-C09)           *)
(* Send side: one goroutine per registered protocol takes segments from    *)
(* its sender channel and writes header+payload in ONE conn.Write under    *)
(* sendMutex.                                                              *)
(***************************************************************************)
EXTENDS Integers, Sequences, FiniteSets, TLC, SequencesExt

CONSTANTS
    Protos,      \* protocol ids that may be registered
    MaxIn,       \* the peer's byte stream: every sequence of at most MaxIn segments
    Mode,        \* "I" | "R" | "IR" : diffusion mode after the handshake
    RCap,        \* capacity of a receiver channel (10)
    NOut,        \* segments each local sender writes
    Design       \* "fixed" | "legacy"

Roles == {"init", "resp"}
Keys  == Protos \X Roles
\* a response segment goes to the local initiator, a request to the local responder
RoleFor(seg) == IF seg.resp THEN "init" ELSE "resp"

SegKinds == [pid : Protos \cup {99}, resp : BOOLEAN, len : {0, 1}]   \* 99: never registered
Streams  == UNION {[1..n -> SegKinds] : n \in 0..MaxIn}

VARIABLES
    Inbound,    \* the peer's byte stream as a sequence of segments [pid, resp, len] (fixed at Init)
    reg,        \* set of registered receivers (open channels)
    rq,         \* [Keys -> Seq(segment)] receiver channels
    pos,        \* next inbound segment
    rpc,        \* readLoop: "read" | "route" | "deliver" | "exit"
    rcur,       \* segment in hand
    errs,       \* errors pushed to ErrorChan
    stopped,    \* doneChan closed
    delivered,  \* history: <<key, inbound index>>
    sent,       \* [Keys -> number of segments the sender goroutine wrote]
    outWire     \* the outbound byte stream as a sequence of <<key, n>> (one Write each)

vars == <<Inbound, reg, rq, pos, rpc, rcur, errs, stopped, delivered, sent, outWire>>

Init ==
    /\ Inbound \in Streams
    /\ reg = Keys /\ rq = [k \in Keys |-> <<>>]
    /\ pos = 1 /\ rpc = "read" /\ rcur = [pid |-> 0, resp |-> FALSE, len |-> 0]
    /\ errs = <<>> /\ stopped = FALSE /\ delivered = <<>>
    /\ sent = [k \in Keys |-> 0] /\ outWire = <<>>

Fail(kind) == /\ errs' = Append(errs, kind) /\ stopped' = TRUE /\ rpc' = "exit"

\* header + payload read; zero length and wrong direction are protocol errors
Read ==
    /\ rpc = "read" /\ ~stopped /\ pos <= Len(Inbound)
    /\ LET seg == Inbound[pos] IN
         /\ pos' = pos + 1 /\ rcur' = seg
         /\ IF seg.len = 0 THEN Fail("zero-length")
            ELSE IF Mode = "I" /\ ~seg.resp THEN Fail("request on initiator-only")
            ELSE IF Mode = "R" /\ seg.resp THEN Fail("response on responder-only")
            ELSE rpc' = "route" /\ UNCHANGED <<errs, stopped>>
    /\ UNCHANGED <<Inbound, reg, rq, delivered, sent, outWire>>

\* the peer closed the connection
ReadEof ==
    /\ rpc = "read" /\ ~stopped /\ pos > Len(Inbound)
    /\ Fail("connection closed")
    /\ UNCHANGED <<Inbound, reg, rq, pos, rcur, delivered, sent, outWire>>

\* receiver looked up under protocolReceiversMutex
Route ==
    /\ rpc = "route"
    /\ IF <<rcur.pid, RoleFor(rcur)>> \in reg
         THEN rpc' = "deliver" /\ UNCHANGED <<errs, stopped>>
         ELSE Fail("unknown protocol")
    /\ UNCHANGED <<Inbound, reg, rq, pos, rcur, delivered, sent, outWire>>

\* hand-over under the receiver's own lock
Deliver ==
    /\ rpc = "deliver"
    /\ LET k == <<rcur.pid, RoleFor(rcur)>> IN
         IF k \notin reg
           THEN \* unregistered between Route and Deliver: channel is nil
                IF Design = "fixed"
                  THEN Fail("unknown protocol") /\ UNCHANGED <<rq, delivered>>
                  ELSE rpc' = "exit" /\ UNCHANGED <<errs, stopped, rq, delivered>>
         ELSE IF stopped
           THEN rpc' = "exit" /\ UNCHANGED <<errs, stopped, rq, delivered>>
         ELSE /\ Len(rq[k]) < RCap
              /\ rq' = [rq EXCEPT ![k] = Append(@, rcur)]
              /\ delivered' = Append(delivered, <<k, pos - 1>>)
              /\ rpc' = "read" /\ UNCHANGED <<errs, stopped>>
    /\ UNCHANGED <<Inbound, reg, pos, rcur, sent, outWire>>

\* the protocol consumes from its channel / unregisters (Protocol.Stop)
Consume(k) ==
    /\ rq[k] # <<>> /\ rq' = [rq EXCEPT ![k] = Tail(@)]
    /\ UNCHANGED <<Inbound, reg, pos, rpc, rcur, errs, stopped, delivered, sent, outWire>>
Unregister(k) ==
    /\ k \in reg
    /\ ~(rpc = "deliver" /\ <<rcur.pid, RoleFor(rcur)>> = k /\ Len(rq[k]) = RCap)  \* blocked on the receiver's lock
    /\ reg' = reg \ {k}
    /\ UNCHANGED <<Inbound, rq, pos, rpc, rcur, errs, stopped, delivered, sent, outWire>>

\* sender goroutine: one Write per segment under sendMutex
SenderWrite(k) ==
    /\ ~stopped /\ sent[k] < NOut
    /\ sent' = [sent EXCEPT ![k] = @ + 1]
    /\ outWire' = Append(outWire, <<k, sent[k] + 1>>)
    /\ UNCHANGED <<Inbound, reg, rq, pos, rpc, rcur, errs, stopped, delivered>>

Next == Read \/ ReadEof \/ Route \/ Deliver
        \/ \E k \in Keys : Consume(k) \/ Unregister(k) \/ SenderWrite(k)

Spec == Init /\ [][Next]_vars /\ WF_vars(Read \/ ReadEof \/ Route \/ Deliver)
             /\ \A k \in Keys : WF_vars(Consume(k))

-----------------------------------------------------------------------------
\* C09: segments reach only the receiver registered for (protocol, direction), in order
RoutedRight ==
    \A i \in DOMAIN delivered :
        LET k == delivered[i][1] seg == Inbound[delivered[i][2]] IN
        k = <<seg.pid, RoleFor(seg)>>
InOrder == \A i, j \in DOMAIN delivered : i < j => delivered[i][2] < delivered[j][2]
NothingAfterError == \* nothing is delivered once an error was raised
    errs # <<>> => \A i \in DOMAIN delivered : delivered[i][2] < pos
\* C09: the read loop ends only by reporting an error and stopping the muxer
\* (zero length, unknown/unregistered protocol, wrong direction, closed connection)
NoSilentExit == rpc = "exit" => stopped
ZeroLengthIsError ==
    \A i \in 1..(pos - 1) : Inbound[i].len = 0 => (errs # <<>> /\ stopped)
\* per-sender order on the wire
WireOrder == \A i, j \in DOMAIN outWire :
                (i < j /\ outWire[i][1] = outWire[j][1]) => outWire[i][2] < outWire[j][2]
\* liveness: the read loop always ends up stopped (the peer's stream is finite)
EventuallyStopped == <>(rpc = "exit")
=============================================================================
