--------------------------- MODULE BlockFetchClient ---------------------------
(* C23  Block-fetch returns the blocks that were asked for.

   Implementation-shaped model of protocol/blockfetch/client.go:

     caller goroutine   GetBlock / GetBlockRange: acquireBusy, SendMessage,
                        wait on startBatchResultChan, (GetBlock) blockChan and
                        batchDoneChan, each time also on DoneChan;
     recvLoop           takes one message at a time and runs the handler INSIDE
                        the loop: handleStartBatch / handleNoBlocks / handleBlock /
                        handleBatchDone; a handler that sends on an unbuffered
                        result channel is a rendezvous with the caller;
     busy lock          acquireBusy / releaseBusy(token) / releaseCurrentBusy and
                        the releaseBusyOnProtocolDone watcher of a started range;
     shutdown           DoneChan closes only after recvLoop has left its loop, and
                        recvLoop cannot leave while a handler is blocked.

   The server is a script: for every request it plays one response shape
   (NoBlocks, or StartBatch . Block* . BatchDone), optionally followed by closing
   the connection.  A case is (first call, shape, close, follow-up call); the
   follow-up is a well-served request for the OTHER point and shows that the busy
   lock and the protocol state were given back.

   The client's CONFIGURATION is a dimension of the case: which of the optional
   callbacks BlockFunc ("bf"), BlockRawFunc ("raw") and BatchDoneFunc ("bdf") are
   set.  The callbacks only RECEIVE: the protocol work of a handler - and above
   all giving the busy lock back at BatchDone / NoBlocks / failure - does not
   depend on them.  comp[k] counts the BatchDone messages handled for call k
   whatever is configured; bd[k] counts the BatchDoneFunc invocations and is
   comp[k] if a BatchDoneFunc is set and 0 otherwise (BatchDoneFuncIffConfigured);
   the lock is free as soon as comp[k] = 1 (ReleasedAtBatchDone), so that the
   follow-up request of every two-request history is sent (EveryRequestSent).
   deliv[k] is what "the block callback" received: BlockFunc or BlockRawFunc,
   with both set the property does not say which one (the driver accepts either,
   each must see the served order).  Without any block callback the property is
   silent about a range batch that carries blocks: those cases are not in the
   case space (range requests answered NoBlocks / StartBatch.BatchDone and
   GetBlock requests are).

   The specification is written for the REPAIRED design (DESIGN 7):
     HashCheck = TRUE   GetBlock compares the block's hash with the point's hash;
     Collect   = TRUE   GetBlock keeps receiving blocks until BatchDone and then
                        fails unless exactly one block was served.
   The behaviour of the code as read is kept under HashCheck = FALSE (F-C23a) and
   Collect = FALSE (F-C23b/c: wait for one block, then for BatchDone); the two
   *AsCode*.cfg files reproduce the counterexamples in TLC. *)
EXTENDS Integers, Sequences, FiniteSets, TLC, Json, IOUtils, CSV, SequencesExt

CONSTANTS Points,      \* abstract block identities (hash classes), e.g. {1, 2}
          MaxBlocks,   \* longest batch
          HashCheck, Collect,
          FollowUps,   \* subset of {"none", "block", "range"}
          Configs,     \* subset of AllConfigs: the callback configurations of the client
          Emit         \* write cases.ndjson / outcomes.ndjson

None == [t |-> "none", b |-> 0]
Msg(t) == [t |-> t, b |-> 0]
Blk(b) == [t |-> "B", b |-> b]

Batches == UNION {[1..k -> Points] : k \in 0..MaxBlocks}
Shapes == {[nob |-> TRUE, blocks |-> <<>>]} \cup {[nob |-> FALSE, blocks |-> s] : s \in Batches}

\* callback configurations: which of BlockFunc / BlockRawFunc / BatchDoneFunc are set
AllConfigs == {"none", "bf", "raw", "bf+raw", "bdf", "bf+bdf", "raw+bdf", "bf+raw+bdf"}
ASSUME Configs \subseteq AllConfigs /\ Configs # {}
HasBF(k) == k \in {"bf", "bf+raw", "bf+bdf", "bf+raw+bdf"}
HasRaw(k) == k \in {"raw", "bf+raw", "raw+bdf", "bf+raw+bdf"}
HasBDF(k) == k \in {"bdf", "bf+bdf", "raw+bdf", "bf+raw+bdf"}
HasBlockCb(k) == HasBF(k) \/ HasRaw(k)

\* some range request of the case is served at least one block
RangeGetsBlock(x) ==
    \/ x.mode = "range" /\ ~x.shape.nob /\ x.shape.blocks # <<>>
    \/ x.follow = "range"

CaseSpace ==
    {x \in [mode : {"block", "range"}, p : Points, shape : Shapes, close : BOOLEAN, follow : FollowUps,
            cfg : Configs] :
        /\ x.close => x.follow = "none"
        /\ RangeGetsBlock(x) => HasBlockCb(x.cfg)}

Other(p) == CHOOSE q \in Points : q # p

CallsOf(x) ==
    <<[mode |-> x.mode, p |-> x.p, shape |-> x.shape]>>
    \o (IF x.follow = "none" THEN <<>>
        ELSE <<[mode |-> x.follow, p |-> Other(x.p),
                shape |-> [nob |-> FALSE, blocks |-> <<Other(x.p)>>]]>>)

ScriptOf(call) ==
    IF call.shape.nob THEN <<Msg("NB")>>
    ELSE <<Msg("SB")>> \o [i \in 1..Len(call.shape.blocks) |-> Blk(call.shape.blocks[i])] \o <<Msg("BD")>>

VARIABLES
    c,       \* the case (constant along a behaviour)
    n,       \* index of the caller's current / next call
    cpc,     \* caller: idle, send, waitStart, collect | waitBlock, waitDone
    busy,    \* 0 = free, else the token (= call index) that holds the busy lock
    owner,   \* last token handed out (blockUseCallback was set by that call)
    wire,    \* server messages not yet taken by recvLoop
    srv,     \* requests answered by the server
    hd,      \* message whose handler is running inside recvLoop (None = between messages)
    conn,    \* "open" | "closed"
    recv,    \* recvLoop still running
    done,    \* DoneChan closed
    cnt, first,  \* GetBlock: blocks received in this call, the first of them
    res,     \* results of the returned calls
    deliv,   \* per call: blocks handed to the block callback (BlockFunc / BlockRawFunc)
    bd,      \* per call: BatchDoneFunc invocations
    comp     \* per call: BatchDone messages handled (configuration-independent)
vars == <<c, n, cpc, busy, owner, wire, srv, hd, conn, recv, done, cnt, first, res, deliv, bd, comp>>

Calls == CallsOf(c)
NCalls == Len(Calls)
Cur == Calls[n]
Own == Calls[owner]

Err == [ret |-> "err", b |-> 0]
Nil == [ret |-> "nil", b |-> 0]
Ok(b) == [ret |-> "ok", b |-> b]

Init ==
    /\ c \in CaseSpace
    /\ n = 1 /\ cpc = "idle" /\ busy = 0 /\ owner = 0
    /\ wire = <<>> /\ srv = 0 /\ hd = None /\ conn = "open" /\ recv = TRUE /\ done = FALSE
    /\ cnt = 0 /\ first = 0 /\ res = <<>>
    /\ deliv = [i \in 1..2 |-> <<>>] /\ bd = [i \in 1..2 |-> 0] /\ comp = [i \in 1..2 |-> 0]

\* the caller leaves its call with result r; release = releaseBusy(token)
Return(r, release) ==
    /\ res' = Append(res, r)
    /\ n' = n + 1
    /\ cpc' = "idle"
    /\ busy' = IF release /\ busy = n THEN 0 ELSE busy

--------------------------------------------------------------------------
(* caller *)

Acquire ==                                   \* acquireBusy(): blocks while the lock is held
    /\ cpc = "idle" /\ n <= NCalls /\ busy = 0
    /\ busy' = n /\ owner' = n /\ cpc' = "send" /\ cnt' = 0 /\ first' = 0
    /\ UNCHANGED <<c, n, wire, srv, hd, conn, recv, done, res, deliv, bd, comp>>

Send ==                                      \* SendMessage(RequestRange)
    /\ cpc = "send"
    /\ IF done
       THEN Return(Err, TRUE) /\ UNCHANGED <<wire, srv>>
       ELSE /\ cpc' = "waitStart"
            /\ IF conn = "open"
               THEN wire' = wire \o ScriptOf(Cur) /\ srv' = srv + 1
               ELSE UNCHANGED <<wire, srv>>
            /\ UNCHANGED <<n, busy, res>>
    /\ UNCHANGED <<c, owner, hd, conn, recv, done, cnt, first, deliv, bd, comp>>

CallerSeesDone ==                            \* every wait also selects on DoneChan
    /\ done /\ cpc \in {"waitStart", "collect", "waitBlock", "waitDone"}
    /\ Return(Err, TRUE)
    /\ UNCHANGED <<c, owner, wire, srv, hd, conn, recv, done, cnt, first, deliv, bd, comp>>

Watcher ==                                   \* releaseBusyOnProtocolDone of a started range
    /\ done /\ busy # 0 /\ busy < n /\ Calls[busy].mode = "range"
    /\ busy' = 0
    /\ UNCHANGED <<c, n, cpc, owner, wire, srv, hd, conn, recv, done, cnt, first, res, deliv, bd, comp>>

--------------------------------------------------------------------------
(* recvLoop and the handlers *)

Take ==
    /\ recv /\ hd = None /\ wire # <<>>
    /\ hd' = Head(wire) /\ wire' = Tail(wire)
    /\ UNCHANGED <<c, n, cpc, busy, owner, srv, conn, recv, done, cnt, first, res, deliv, bd, comp>>

HStartBatch ==                               \* startBatchResultChan <- nil
    /\ hd.t = "SB" /\ cpc = "waitStart"
    /\ hd' = None
    /\ IF Cur.mode = "block"
       THEN /\ cpc' = (IF Collect THEN "collect" ELSE "waitBlock")
            /\ UNCHANGED <<n, busy, res>>
       ELSE Return(Nil, FALSE)               \* GetBlockRange returns, the batch goes on
    /\ UNCHANGED <<c, owner, wire, srv, conn, recv, done, cnt, first, deliv, bd, comp>>

HNoBlocks ==                                 \* startBatchResultChan <- "block(s) not found"
    /\ hd.t = "NB" /\ cpc = "waitStart"
    /\ hd' = None
    /\ Return(Err, TRUE)
    /\ UNCHANGED <<c, owner, wire, srv, conn, recv, done, cnt, first, deliv, bd, comp>>

HBlockCallback ==                            \* range mode: BlockRawFunc / BlockFunc (block)
    /\ hd.t = "B" /\ Own.mode = "range"
    /\ HasBlockCb(c.cfg)                      \* (cases without one never get here, see CaseSpace)
    /\ deliv' = [deliv EXCEPT ![owner] = Append(@, hd.b)]
    /\ hd' = None
    /\ UNCHANGED <<c, n, cpc, busy, owner, wire, srv, conn, recv, done, cnt, first, res, bd, comp>>

HBlockChan ==                                \* GetBlock mode: blockChan <- block
    /\ hd.t = "B" /\ Own.mode = "block"
    /\ cpc = (IF Collect THEN "collect" ELSE "waitBlock")
    /\ cnt' = cnt + 1
    /\ first' = IF cnt = 0 THEN hd.b ELSE first
    /\ cpc' = IF Collect THEN cpc ELSE "waitDone"
    /\ hd' = None
    /\ UNCHANGED <<c, n, busy, owner, wire, srv, conn, recv, done, res, deliv, bd, comp>>

HBatchDoneCallback ==                        \* range mode: BatchDoneFunc if there is one; releaseCurrentBusy anyway
    /\ hd.t = "BD" /\ Own.mode = "range"
    /\ bd' = IF HasBDF(c.cfg) THEN [bd EXCEPT ![owner] = @ + 1] ELSE bd
    /\ comp' = [comp EXCEPT ![owner] = @ + 1]
    /\ busy' = 0
    /\ hd' = None
    /\ UNCHANGED <<c, n, cpc, owner, wire, srv, conn, recv, done, cnt, first, res, deliv>>

BlockResult ==
    IF cnt = 1 /\ (~HashCheck \/ first = Cur.p) THEN Ok(first) ELSE Err

HBatchDoneChan ==                            \* GetBlock mode: batchDoneChan <- {}
    /\ hd.t = "BD" /\ Own.mode = "block"
    /\ cpc = (IF Collect THEN "collect" ELSE "waitDone")
    /\ hd' = None
    /\ Return(BlockResult, TRUE)
    /\ comp' = [comp EXCEPT ![owner] = @ + 1]
    /\ UNCHANGED <<c, owner, wire, srv, conn, recv, done, cnt, first, deliv, bd>>

--------------------------------------------------------------------------
(* the peer closes; shutdown of the engine *)

Close ==                                     \* after the (only) script has been written
    /\ c.close /\ conn = "open" /\ srv >= 1
    /\ conn' = "closed"
    /\ UNCHANGED <<c, n, cpc, busy, owner, wire, srv, hd, recv, done, cnt, first, res, deliv, bd, comp>>

RecvExit ==                                  \* only between two messages; then DoneChan closes
    /\ conn = "closed" /\ recv /\ hd = None
    /\ recv' = FALSE /\ done' = TRUE /\ wire' = <<>>
    /\ UNCHANGED <<c, n, cpc, busy, owner, srv, hd, conn, cnt, first, res, deliv, bd, comp>>

Next ==
    \/ Acquire \/ Send \/ CallerSeesDone \/ Watcher
    \/ Take \/ HStartBatch \/ HNoBlocks \/ HBlockCallback \/ HBlockChan
    \/ HBatchDoneCallback \/ HBatchDoneChan
    \/ Close \/ RecvExit

Spec == Init /\ [][Next]_vars /\ WF_vars(Next)

--------------------------------------------------------------------------
(* properties *)

Terminal ==
    /\ n > NCalls /\ cpc = "idle" /\ hd = None /\ wire = <<>>
    /\ (c.close => ~recv)
    /\ busy = 0

IsPrefixOf(s, t) == Len(s) <= Len(t) /\ \A i \in 1..Len(s) : s[i] = t[i]

TypeOK ==
    /\ n \in 1..3 /\ busy \in 0..2 /\ owner \in 0..2 /\ cnt \in 0..MaxBlocks
    /\ \A k \in 1..2 : comp[k] \in 0..1 /\ bd[k] \in 0..1
    /\ cpc \in {"idle", "send", "waitStart", "collect", "waitBlock", "waitDone"}
    /\ Len(res) = n - 1

\* a single-block request returns a block only if exactly that block was served
GetBlockSound ==
    \A i \in 1..Len(res) :
        (Calls[i].mode = "block" /\ res[i].ret = "ok") =>
            /\ ~Calls[i].shape.nob
            /\ Calls[i].shape.blocks = <<Calls[i].p>>
            /\ res[i].b = Calls[i].p

\* without a close the outcome is determined: the block iff it was the only one served
GetBlockExact ==
    ~c.close =>
        \A i \in 1..Len(res) :
            Calls[i].mode = "block" =>
                (res[i].ret = "ok" <=> (~Calls[i].shape.nob /\ Calls[i].shape.blocks = <<Calls[i].p>>))

\* a range request delivers the served blocks in the served order, then completes once
RangeOrder ==
    \A k \in 1..2 :
        IF k <= NCalls /\ Calls[k].mode = "range"
        THEN /\ IsPrefixOf(deliv[k], Calls[k].shape.blocks)
             /\ comp[k] <= 1 /\ bd[k] <= comp[k]
             /\ (comp[k] = 1 => deliv[k] = Calls[k].shape.blocks)
        ELSE deliv[k] = <<>> /\ bd[k] = 0

RangeReturn ==
    \A i \in 1..Len(res) :
        Calls[i].mode = "range" =>
            /\ res[i].ret \in {"nil", "err"}
            /\ (res[i].ret = "err" => (Calls[i].shape.nob \/ c.close))
            /\ (res[i].ret = "nil" => ~Calls[i].shape.nob)

\* busy-lock ownership: held by the running call, or by a started range whose batch is not done
BusyLock ==
    /\ (busy # 0 => busy = owner)
    /\ (cpc # "idle" => busy = n)
    /\ (busy # 0 /\ busy < n =>
            /\ Calls[busy].mode = "range" /\ res[busy].ret = "nil" /\ comp[busy] = 0)

\* the configuration dimension: the callbacks receive, they do not steer.
\* BatchDoneFunc is invoked exactly for the completed range batches of a client that has one ...
BatchDoneFuncIffConfigured ==
    \A k \in 1..2 :
        bd[k] = IF k <= NCalls /\ Calls[k].mode = "range" /\ HasBDF(c.cfg) THEN comp[k] ELSE 0
\* ... and the busy lock of call k is given back once its BatchDone has been handled, whatever is configured
ReleasedAtBatchDone ==
    \A k \in 1..2 : comp[k] = 1 => busy # k
\* a range request that is served blocks runs on a client with a block callback (shape of the case space)
BlockCallbackPresent ==
    \A k \in 1..2 : deliv[k] # <<>> => HasBlockCb(c.cfg)

\* liveness: every call returns and the conversation winds down with the lock free
Termination == <>Terminal
RangeCompletes ==
    <>(~c.close => \A k \in 1..NCalls : (Calls[k].mode = "range" /\ ~Calls[k].shape.nob) => comp[k] = 1)
\* a request issued after a completed (or refused) batch is eventually sent: the lock came back
EveryRequestSent == <>(~c.close => srv = NCalls)

--------------------------------------------------------------------------
(* emission: every case once, and the outcome of every terminal state *)

ShapeName(sh) == IF sh.nob THEN <<"NB">> ELSE <<"SB">> \o [i \in 1..Len(sh.blocks) |-> sh.blocks[i]] \o <<"BD">>
CaseRow(x) == [mode |-> x.mode, p |-> x.p, nob |-> x.shape.nob, blocks |-> x.shape.blocks,
               close |-> x.close, follow |-> x.follow, fp |-> Other(x.p),
               cfg |-> x.cfg, bf |-> HasBF(x.cfg), raw |-> HasRaw(x.cfg), bdf |-> HasBDF(x.cfg)]

ASSUME Emit => ndJsonSerialize("cases.ndjson", SetToSeq({CaseRow(x) : x \in CaseSpace}))

Write(row) == CSVWrite("%1$s", <<ToJson(row)>>, "outcomes.ndjson")
EmitOutcome ==
    (Emit /\ Terminal) =>
        Write([case |-> CaseRow(c), res |-> res,
               deliv |-> [k \in 1..NCalls |-> deliv[k]], bd |-> [k \in 1..NCalls |-> bd[k]]])
==============================================================================
