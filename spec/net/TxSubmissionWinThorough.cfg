\* C24 thorough: every history of 6 calls, fixed legal req, answers stop/0/Limit-1
CONSTANTS
  Limit = 3
  Reqs <- OneReq
  Replies <- TinyReplies
  Blockings <- BOOLEAN
  TxNs = {1}
  Mode = "hist"
  MaxLen = 6
  Chains = 0
INIT Init
NEXT Next
INVARIANTS TypeOK AckedLeReceived AckWithinOutstanding OutstandingExact WireInRange RefusedLocally PerCall DoneOnlyFromBlocking OutRejectsOverLimit EmitHist
