\* C46 quick/thorough: transition cover of the automaton WITH the replay dimension on one pool:
\* `known` is part of the state (2 x 4 x 2 x 2 x 8 = 256 states), so every replay (5 kinds x its
\* sources) is tried from every combination of counter cache / presented messages / verifier /
\* insecure / registration, behind the shortest history that leads there
CONSTANTS
  Pools = {"p1"}
  Counters = {0, 1, 2}
  Faults <- AllFaults
  AdminOps <- AllAdmin
  InitRegs <- AllRegs
  Mode = "cover"
  MaxLen = 0
  Chains = 0
  Replays <- AllReplays
INIT Init
NEXT Next
VIEW View
CONSTRAINT EmitStep
INVARIANTS TypeOK OnlyAuthentic NoVerifierRejects RealNotBypassed RejectKeepsState Complete Monotone CacheIsLastAccepted ReplayRejected ReplayAsFresh ReplayWellFormed KnownIsPresented ReplaySourced FloorIsOfColdKey ProbesTellFloor CounterFloorSurvivesChurn EmitFan
