\* C15: the liveness statements on the table as extracted (TLC reports the first call that can hang, if any)
CONSTANTS
  MaxLen = 2
  ApiFilter = {}
  TmoOnly = {}
  Design = "extracted"
  Emit = FALSE
SPECIFICATION Spec
INVARIANTS TypeOK ErrorChanSafe TimerSound TimeoutEndsSilence
PROPERTIES CallReturns SecondCallReturns CloseCompletes
