\* C19 self-test of the dimension "what was sent": the initiator that checks an accept against its configured table
\* although it sent only a part of it must FAIL ClientSafe
CONSTANTS
  W = 2
  CliMagics = {1, 2}
  SrvMagics = {1}
  CliPerVersion = TRUE
  SrvPerVersion = FALSE
  MaxSize = 2
  QCases <- AdvQ
  FlagSpace <- OnlyNoFlags
  FlagsInModel = FALSE
  Responder = "adversary"
  ClientDesign = "configured"
  SentSpace = "subsets"
INIT Init
NEXT Next
INVARIANTS TypeOK SentOfConfigured ClientSafe
