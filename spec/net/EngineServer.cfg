CONSTANTS
  SegMax = 65535
  MaxBatch = 20
  Me = "server"
  StateMapC <- Vproto
  MsgTypes = {0, 1, 2, 3, 4}
  MaxPeer = 2
  MaxApp = 1
  PeerMode = "adversarial"
  Variant = "asis"
SPECIFICATION Spec
CHECK_DEADLOCK FALSE
INVARIANTS Refines HandlingImpliesAccepted
