\* C25 exhaustive: 3 goroutines x 2 calls on a client without sessions (peer-sharing as repaired, local-tx-submission)
CONSTANTS
  G = 3
  N = 2
  Ops = {"qa"}
  Mutex = TRUE
  AutoAcquire = FALSE
  RelRule = FALSE
  Hist = FALSE
SPECIFICATION Spec
INVARIANTS TypeOK OwnAnswer MutexExcl QueryInSession OutShape RelLegal EmitRow
PROPERTIES Termination
