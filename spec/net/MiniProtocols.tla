--------------------------- MODULE MiniProtocols ---------------------------
(* C16 -- mini-protocol state machines match the network specification      *)
(*                                                                          *)
(* REFERENCE AUTOMATA.  This module is an independent encoding of the       *)
(* typed-protocol state machines of the Ouroboros network specification     *)
(* (chapter "Mini Protocols"; transcribed in DESIGN.md Appendix D), written *)
(* from the specification text and NOT from the Go state maps:              *)
(*   handshake, chain-sync (node-to-node and node-to-client), block-fetch,  *)
(*   tx-submission2, keep-alive, peer-sharing, local-tx-submission,         *)
(*   local-state-query, local-tx-monitor (three distinct Busy states).      *)
(* The six newer protocols (CIP-0164 Leios: leios-fetch, leios-notify,      *)
(* leios-votes; CIP-0137 DMQ: local-message-submission,                     *)
(* local-message-notification, message-submission V1 and V2) are not in the *)
(* network specification; their automata are written from the state tables *)
(* of the package READMEs of the repository (lower independence), and every *)
(* automaton of this module is checked against the generic typed-protocol   *)
(* well-formedness rules below (WellFormed).                                *)
(*                                                                          *)
(* A label is a message name, extended by "/<payload bit>" where the        *)
(* successor state depends on the payload (RequestTxIds/blocking,           *)
(* Acquire/point, VotesRequestNext/2 ...).                                   *)
EXTENDS Integers, Sequences, FiniteSets, TLC

C == "client"
S == "server"
N == "none"

(* An automaton: init state, agency per state, transitions <<from, label,   *)
(* to>>, and `also`: labels of the protocol's alphabet that no state        *)
(* permits (with the side that could send them).                            *)
Auto(init, agency, trans) == [init |-> init, agency |-> agency, trans |-> trans, also |-> {}]

-----------------------------------------------------------------------------
(* Ouroboros network specification                                          *)

Handshake ==
  Auto("Propose",
       ("Propose" :> C) @@ ("Confirm" :> S) @@ ("Done" :> N),
       { <<"Propose", "ProposeVersions", "Confirm">>,
         <<"Confirm", "AcceptVersion",   "Done">>,
         <<"Confirm", "Refuse",          "Done">>,
         <<"Confirm", "QueryReply",      "Done">> })

ChainSync ==
  Auto("Idle",
       ("Idle" :> C) @@ ("CanAwait" :> S) @@ ("MustReply" :> S) @@ ("Intersect" :> S) @@ ("Done" :> N),
       { <<"Idle",      "RequestNext",       "CanAwait">>,
         <<"Idle",      "FindIntersect",     "Intersect">>,
         <<"Idle",      "Done",              "Done">>,
         <<"CanAwait",  "AwaitReply",        "MustReply">>,
         <<"CanAwait",  "RollForward",       "Idle">>,
         <<"CanAwait",  "RollBackward",      "Idle">>,
         <<"MustReply", "RollForward",       "Idle">>,
         <<"MustReply", "RollBackward",      "Idle">>,
         <<"Intersect", "IntersectFound",    "Idle">>,
         <<"Intersect", "IntersectNotFound", "Idle">> })

BlockFetch ==
  Auto("Idle",
       ("Idle" :> C) @@ ("Busy" :> S) @@ ("Streaming" :> S) @@ ("Done" :> N),
       { <<"Idle",      "RequestRange", "Busy">>,
         <<"Idle",      "ClientDone",   "Done">>,
         <<"Busy",      "StartBatch",   "Streaming">>,
         <<"Busy",      "NoBlocks",     "Idle">>,
         <<"Streaming", "Block",        "Streaming">>,
         <<"Streaming", "BatchDone",    "Idle">> })

TxSubmission2 ==
  Auto("Init",
       ("Init" :> C) @@ ("Idle" :> S) @@ ("TxIdsBlocking" :> C) @@ ("TxIdsNonBlocking" :> C) @@
       ("Txs" :> C) @@ ("Done" :> N),
       { <<"Init",             "Init",                      "Idle">>,
         <<"Idle",             "RequestTxIds/blocking",     "TxIdsBlocking">>,
         <<"Idle",             "RequestTxIds/non-blocking", "TxIdsNonBlocking">>,
         <<"Idle",             "RequestTxs",                "Txs">>,
         <<"TxIdsBlocking",    "ReplyTxIds",                "Idle">>,
         <<"TxIdsBlocking",    "Done",                      "Done">>,
         <<"TxIdsNonBlocking", "ReplyTxIds",                "Idle">>,
         <<"Txs",              "ReplyTxs",                  "Idle">> })

KeepAlive ==
  Auto("Client",
       ("Client" :> C) @@ ("Server" :> S) @@ ("Done" :> N),
       { <<"Client", "KeepAlive",         "Server">>,
         <<"Client", "Done",              "Done">>,
         <<"Server", "KeepAliveResponse", "Client">> })

PeerSharing ==
  Auto("Idle",
       ("Idle" :> C) @@ ("Busy" :> S) @@ ("Done" :> N),
       { <<"Idle", "ShareRequest", "Busy">>,
         <<"Idle", "Done",         "Done">>,
         <<"Busy", "SharePeers",   "Idle">> })

LocalTxSubmission ==
  Auto("Idle",
       ("Idle" :> C) @@ ("Busy" :> S) @@ ("Done" :> N),
       { <<"Idle", "SubmitTx", "Busy">>,
         <<"Idle", "Done",     "Done">>,
         <<"Busy", "AcceptTx", "Idle">>,
         <<"Busy", "RejectTx", "Idle">> })

AcquireTargets == {"point", "volatile", "immutable"}

LocalStateQuery ==
  Auto("Idle",
       ("Idle" :> C) @@ ("Acquiring" :> S) @@ ("Acquired" :> C) @@ ("Querying" :> S) @@ ("Done" :> N),
       { <<"Idle", "Acquire/" \o t, "Acquiring">> : t \in AcquireTargets } \cup
       { <<"Acquired", "ReAcquire/" \o t, "Acquiring">> : t \in AcquireTargets } \cup
       { <<"Idle",      "Done",     "Done">>,
         <<"Acquiring", "Acquired", "Acquired">>,
         <<"Acquiring", "Failure",  "Idle">>,
         <<"Acquired",  "Query",    "Querying">>,
         <<"Acquired",  "Release",  "Idle">>,
         <<"Querying",  "Result",   "Acquired">> })

(* The specification gives every request its own busy state, so that a     *)
(* reply is permitted only in response to the request kind it answers.      *)
LocalTxMonitor ==
  Auto("Idle",
       ("Idle" :> C) @@ ("Acquiring" :> S) @@ ("Acquired" :> C) @@
       ("BusyNextTx" :> S) @@ ("BusyHasTx" :> S) @@ ("BusyGetSizes" :> S) @@ ("Done" :> N),
       { <<"Idle",         "Acquire",       "Acquiring">>,
         <<"Idle",         "Done",          "Done">>,
         <<"Acquiring",    "Acquired",      "Acquired">>,
         <<"Acquired",     "Acquire",       "Acquiring">>,     \* MsgAwaitAcquire: same encoding as MsgAcquire
         <<"Acquired",     "Release",       "Idle">>,
         <<"Acquired",     "NextTx",        "BusyNextTx">>,
         <<"Acquired",     "HasTx",         "BusyHasTx">>,
         <<"Acquired",     "GetSizes",      "BusyGetSizes">>,
         <<"BusyNextTx",   "ReplyNextTx",   "Acquired">>,
         <<"BusyHasTx",    "ReplyHasTx",    "Acquired">>,
         <<"BusyGetSizes", "ReplyGetSizes", "Acquired">> })

-----------------------------------------------------------------------------
(* CIP-0164 (Leios) and CIP-0137 (DMQ), as restated by the package READMEs  *)

LeiosFetch ==
  Auto("Idle",
       ("Idle" :> C) @@ ("Block" :> S) @@ ("BlockTxs" :> S) @@ ("Votes" :> S) @@ ("BlockRange" :> S) @@
       ("Done" :> N),
       { <<"Idle",       "BlockRequest",           "Block">>,
         <<"Idle",       "BlockTxsRequest",        "BlockTxs">>,
         <<"Idle",       "VotesRequest",           "Votes">>,
         <<"Idle",       "BlockRangeRequest",      "BlockRange">>,
         <<"Idle",       "Done",                   "Done">>,
         <<"Block",      "Block",                  "Idle">>,
         <<"Block",      "NoBlock",                "Idle">>,
         <<"BlockTxs",   "BlockTxs",               "Idle">>,
         <<"BlockTxs",   "NoBlockTxs",             "Idle">>,
         <<"Votes",      "Votes",                  "Idle">>,
         <<"BlockRange", "NextBlockAndTxsInRange", "BlockRange">>,
         <<"BlockRange", "LastBlockAndTxsInRange", "Idle">> })

LeiosNotify ==
  Auto("Idle",
       ("Idle" :> C) @@ ("Busy" :> S) @@ ("Done" :> N),
       { <<"Idle", "NotificationRequestNext", "Busy">>,
         <<"Idle", "Done",                    "Done">>,
         <<"Busy", "BlockAnnouncement",       "Idle">>,
         <<"Busy", "BlockOffer",              "Idle">>,
         <<"Busy", "BlockTxsOffer",           "Idle">>,
         <<"Busy", "VotesOffer",              "Idle">> })

(* Idle --VotesRequestNext(n)--> Busy(tokens = n); Busy(t) --Vote--> Busy(t-1) for t > 1, Idle for t = 1. *)
(* The counter is bounded to n <= MaxVotes here; a request for 0 votes is not permitted.                  *)
MaxVotes == 3
Num(n) == CASE n = 0 -> "0" [] n = 1 -> "1" [] n = 2 -> "2" [] n = 3 -> "3"
LeiosVotes ==
  [ init   |-> "Idle",
    agency |-> ("Idle" :> C) @@ ("Done" :> N) @@ [b \in {"Busy" \o Num(n) : n \in 1..MaxVotes} |-> S],
    trans  |-> { <<"Idle", "VotesRequestNext/" \o Num(n), "Busy" \o Num(n)>> : n \in 1..MaxVotes } \cup
               { <<"Busy" \o Num(n), "Vote", "Busy" \o Num(n - 1)>> : n \in 2..MaxVotes } \cup
               { <<"Busy1", "Vote", "Idle">>, <<"Idle", "Done", "Done">> },
    also   |-> { <<"VotesRequestNext/0", C>> } ]

LocalMessageSubmission ==
  Auto("Idle",
       ("Idle" :> C) @@ ("Busy" :> S) @@ ("Done" :> N),
       { <<"Idle", "SubmitMessage", "Busy">>,
         <<"Idle", "Done",          "Done">>,
         <<"Busy", "AcceptMessage", "Idle">>,
         <<"Busy", "RejectMessage", "Idle">> })

LocalMessageNotification ==
  Auto("Idle",
       ("Idle" :> C) @@ ("BusyNonBlocking" :> S) @@ ("BusyBlocking" :> S) @@ ("Done" :> N),
       { <<"Idle",            "RequestMessages/non-blocking", "BusyNonBlocking">>,
         <<"Idle",            "RequestMessages/blocking",     "BusyBlocking">>,
         <<"Idle",            "ClientDone",                   "Done">>,
         <<"BusyNonBlocking", "ReplyMessagesNonBlocking",     "Idle">>,
         <<"BusyBlocking",    "ReplyMessagesBlocking",        "Idle">> })

(* message-submission.  The README prints one table that is the union of    *)
(* the two protocol versions (Done listed from Idle, MessageIdsBlocking and *)
(* MessageIdsNonBlocking, "Client <-> Server"); read literally it violates  *)
(* the typed-protocol rule that a label is sent by one side only.  The two  *)
(* versions are therefore separated as CIP-0137 defines them: V1 has the    *)
(* shape of tx-submission2 ("similar design to TxSubmission": Init state,   *)
(* the client may end the protocol only instead of a blocking reply); V2    *)
(* has no Init state and only the server may end the protocol, from Idle.   *)
MessageSubmissionCore ==
  { <<"Idle",                  "RequestMessageIds/blocking",     "MessageIdsBlocking">>,
    <<"Idle",                  "RequestMessageIds/non-blocking", "MessageIdsNonBlocking">>,
    <<"Idle",                  "RequestMessages",                "Messages">>,
    <<"MessageIdsBlocking",    "ReplyMessageIds",                "Idle">>,
    <<"MessageIdsNonBlocking", "ReplyMessageIds",                "Idle">>,
    <<"Messages",              "ReplyMessages",                  "Idle">> }
MessageSubmissionAgency ==
  ("Idle" :> S) @@ ("MessageIdsBlocking" :> C) @@ ("MessageIdsNonBlocking" :> C) @@ ("Messages" :> C) @@
  ("Done" :> N)

MessageSubmissionV1 ==
  [ init   |-> "Init",
    agency |-> ("Init" :> C) @@ MessageSubmissionAgency,
    trans  |-> MessageSubmissionCore \cup
               { <<"Init", "Init", "Idle">>, <<"MessageIdsBlocking", "Done", "Done">> },
    also   |-> {} ]

MessageSubmissionV2 ==
  [ init   |-> "Idle",
    agency |-> MessageSubmissionAgency,
    trans  |-> MessageSubmissionCore \cup { <<"Idle", "Done", "Done">> },
    also   |-> { <<"Init", C>> } ]

-----------------------------------------------------------------------------
Ref ==
  ("handshake/ntn"              :> Handshake) @@
  ("handshake/ntc"              :> Handshake) @@
  ("chain-sync/ntn"             :> ChainSync) @@
  ("chain-sync/ntc"             :> ChainSync) @@
  ("block-fetch"                :> BlockFetch) @@
  ("tx-submission"              :> TxSubmission2) @@
  ("keep-alive"                 :> KeepAlive) @@
  ("peer-sharing"               :> PeerSharing) @@
  ("local-tx-submission"        :> LocalTxSubmission) @@
  ("local-state-query"          :> LocalStateQuery) @@
  ("local-tx-monitor"           :> LocalTxMonitor) @@
  ("leios-fetch"                :> LeiosFetch) @@
  ("leios-notify"               :> LeiosNotify) @@
  ("leios-votes"                :> LeiosVotes) @@
  ("local-message-submission"   :> LocalMessageSubmission) @@
  ("local-message-notification" :> LocalMessageNotification) @@
  ("message-submission/v1"      :> MessageSubmissionV1) @@
  ("message-submission/v2"      :> MessageSubmissionV2)

Protos == DOMAIN Ref

-----------------------------------------------------------------------------
(* Generic operators on automata                                            *)
States(a)     == DOMAIN a.agency
From(a, s)    == {t \in a.trans : t[1] = s}
Enabled(a, s) == {t[2] : t \in From(a, s)}
Succ(a, s, l) == (CHOOSE t \in From(a, s) : t[2] = l)[3]
Labels(a)     == {t[2] : t \in a.trans} \cup {x[1] : x \in a.also}
Terminal(a, s) == a.agency[s] = N
(* the side that sends a label (unique by WellFormed) *)
Side(a, l) == IF \E t \in a.trans : t[2] = l
              THEN a.agency[(CHOOSE t \in a.trans : t[2] = l)[1]]
              ELSE (CHOOSE x \in a.also : x[1] = l)[2]

RECURSIVE Forward(_, _)
Forward(a, X) == LET Y == X \cup {t[3] : t \in {u \in a.trans : u[1] \in X}}
                 IN IF Y = X THEN X ELSE Forward(a, Y)
RECURSIVE Backward(_, _)
Backward(a, X) == LET Y == X \cup {t[1] : t \in {u \in a.trans : u[3] \in X}}
                  IN IF Y = X THEN X ELSE Backward(a, Y)

(* Typed-protocol well-formedness *)
WfTyped(a)        == /\ a.init \in States(a)
                     /\ \A s \in States(a) : a.agency[s] \in {C, S, N}
                     /\ \A t \in a.trans : t[1] \in States(a) /\ t[3] \in States(a)
                     /\ \A x \in a.also : x[2] \in {C, S} /\ ~ \E t \in a.trans : t[2] = x[1]
WfDeterministic(a) == \A t, u \in a.trans : (t[1] = u[1] /\ t[2] = u[2]) => t[3] = u[3]
WfTerminal(a)     == /\ \A s \in States(a) : Terminal(a, s) <=> From(a, s) = {}
                     /\ \E s \in States(a) : Terminal(a, s)
                     /\ ~ Terminal(a, a.init)
WfReachable(a)    == Forward(a, {a.init}) = States(a)
WfCoReachable(a)  == Backward(a, {s \in States(a) : Terminal(a, s)}) = States(a)
WfOneSide(a)      == \A t, u \in a.trans : t[2] = u[2] => a.agency[t[1]] = a.agency[u[1]]
WellFormed(a) == /\ WfTyped(a) /\ WfDeterministic(a) /\ WfTerminal(a)
                 /\ WfReachable(a) /\ WfCoReachable(a) /\ WfOneSide(a)

-----------------------------------------------------------------------------
(* TLC: walk every reference automaton (MiniProtocols.cfg); the rules are   *)
(* evaluated in every state of every automaton.                             *)
VARIABLES p,    \* protocol name
          s     \* state of the reference automaton

RefInit == p \in Protos /\ s = Ref[p].init
RefNext == \E t \in From(Ref[p], s) : s' = t[3] /\ UNCHANGED p

RefWellFormed ==
  /\ WellFormed(Ref[p])
  /\ s \in States(Ref[p])
  \* local restatement at the visited state: agency decides who may move
  /\ \A l \in Enabled(Ref[p], s) : Side(Ref[p], l) = Ref[p].agency[s]
  /\ Terminal(Ref[p], s) <=> Enabled(Ref[p], s) = {}
  \* a request kind has its own answer (the rule F-C16 is about): in local-tx-monitor
  \* no state permits two different replies
  /\ p = "local-tx-monitor" =>
       Cardinality(Enabled(Ref[p], s) \cap {"ReplyNextTx", "ReplyHasTx", "ReplyGetSizes"}) <= 1

(* node-to-node and node-to-client share their automaton *)
ASSUME Ref["handshake/ntn"] = Ref["handshake/ntc"] /\ Ref["chain-sync/ntn"] = Ref["chain-sync/ntc"]
=============================================================================
