\* C25 every sequential program of 5 calls
CONSTANTS
  G = 1
  N = 5
  Ops = {"acq1", "acq2", "rel", "qa", "qb", "qc"}
  Mutex = TRUE
  AutoAcquire = TRUE
  RelRule = FALSE
  Hist = TRUE
SPECIFICATION Spec
INVARIANTS TypeOK OwnAnswer MutexExcl QueryInSession OutShape RelLegal EmitRow

