------------------------------ MODULE MCEngine ------------------------------
(* Model-checking instance of Engine.tla: the vproto state map               *)
(*   Idle(client): Req(0)->Busy, Data(2)->Idle, Done(4)->Done                *)
(*   Busy(server): Resp(1)->Idle, Chunk(3)->Busy      Done(nobody)           *)
EXTENDS Engine

Vproto == [init |-> "Idle",
           agency |-> [Idle |-> "client", Busy |-> "server", Done |-> "none"],
           trans |-> << [f |-> "Idle", m |-> 0, t |-> "Busy", c |-> FALSE],
                        [f |-> "Idle", m |-> 2, t |-> "Idle", c |-> FALSE],
                        [f |-> "Idle", m |-> 4, t |-> "Done", c |-> FALSE],
                        [f |-> "Busy", m |-> 1, t |-> "Idle", c |-> FALSE],
                        [f |-> "Busy", m |-> 3, t |-> "Busy", c |-> FALSE] >>,
           limit |-> [Idle |-> 0, Busy |-> 0, Done |-> 0],
           timeout |-> [Idle |-> 0, Busy |-> 0, Done |-> 0]]

\* reachability probes (expected to be VIOLATED: they show the model is not vacuous)
ProbeHandled  == handled[Me] = 0
ProbeError    == errCount[Me] = 0
ProbePipeline == Len(queued) < 1
ProbeSegOut2  == ~(slpc = "collect" /\ count = 2)
=============================================================================
