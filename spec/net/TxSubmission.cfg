\* C24 quick: every history of 2 calls over the full request alphabet (req -1..Limit+1, answers stop/0..Limit-1)
CONSTANTS
  Limit = 3
  Reqs <- AllReqs
  Replies <- SmallReplies
  Blockings <- BOOLEAN
  TxNs = {0, 2}
  Mode = "hist"
  MaxLen = 2
  Chains = 0
INIT Init
NEXT Next
INVARIANTS TypeOK AckedLeReceived AckWithinOutstanding OutstandingExact WireInRange RefusedLocally PerCall DoneOnlyFromBlocking OutRejectsOverLimit EmitHist
