\* C18 quick+thorough: 2-version window, every pair of uniform-magic tables, every combination of the five flags
CONSTANTS
  W = 2
  CliMagics = {1, 2}
  SrvMagics = {1, 2}
  CliPerVersion = FALSE
  SrvPerVersion = FALSE
  MaxSize = 2
  QCases <- HonestQ
  FlagSpace <- AllFlags
  FlagsInModel = TRUE
  Responder = "honest"
  ClientDesign = "fixed"
  SentSpace = "configured"
INIT Init
NEXT Next
INVARIANTS TypeOK Agreement BestCommon Selects RefusalReported NoFallback MismatchAscending QueryNeverSelects EchoData FlagsIrrelevant ClientSafe
