----------------------------- MODULE DmqAuth -----------------------------
(* C46 -- the DMQ message authenticator (CIP-0137) with symbolic crypto.    *)
(*                                                                          *)
(* A message is (pool, idOk, certOk, kesOk, ctr): the issuing pool (= its   *)
(* cold key), whether the id is the hash of the payload, whether the        *)
(* operational certificate is signed by the message's cold key, whether     *)
(* the KES signature over the payload verifies, and the certificate         *)
(* counter.  State: registered pools, per-pool counter cache (-1 = no       *)
(* entry), KES verifier none/real, insecure flag.                           *)
(*                                                                          *)
(*   Verify accepts iff idOk /\ certOk /\ (kesOk with a real verifier, or    *)
(*   insecure mode with none) /\ pool registered /\ ctr >= cache[pool];       *)
(*   the cache changes only on acceptance.                                  *)
(*                                                                          *)
(* Provenance of a fault (the replay dimension).  A component that is not   *)
(* genuine is either made up for this message (rep = "") or REPLAYED: taken *)
(* verbatim from a fully genuine message of the same pool that has already  *)
(* been presented to this authenticator (src = its counter), while what the *)
(* component covers differs:                                                *)
(*   "id"          the id of the earlier message on another payload         *)
(*   "kes"         the KES signature of the earlier message (same key, same *)
(*                 evolution) on another payload                            *)
(*   "cert:kesvk"  the cold signature of the earlier certificate, but the   *)
(*   "cert:issue"  certificate's KES verification key / issue number / KES  *)
(*   "cert:period" period is another one (for "cert:kesvk" the KES          *)
(*                 signature verifies under the swapped-in key)             *)
(* A replayed message is genuine in its other two components.  The          *)
(* environment variable `known` records which genuine messages have been    *)
(* presented (accepted or not): only those can be replayed from.  Whatever  *)
(* the authenticator remembers of the earlier message, the replayed         *)
(* component is not valid for this message: the verdict is that of the same *)
(* message with a made-up fault (ReplayAsFresh) -- reject, nothing changes  *)
(* (ReplayRejected), except the KES replay where no KES signature is        *)
(* checked at all (no verifier, insecure mode).                             *)
(*                                                                          *)
(* Registration churn (the churn dimension).  The authenticator's state is  *)
(* changed from outside in the middle of a history: Reg(p) / Unreg(p) (the  *)
(* active pool set follows the stake distribution), the verifier being set, *)
(* insecure mode being switched.  The op-cert counter floor cache[p] is a   *)
(* property of the COLD KEY p, not of its registration: no such call        *)
(* touches any floor (FloorIsOfColdKey); only an accepted message of p and  *)
(* the explicit eviction of p's entry do.  Hence a pool that drops out of   *)
(* the registered set and comes back still has its floor: a message with a  *)
(* counter below one accepted before the churn is rejected                  *)
(* (CounterFloorSurvivesChurn).  All but `registered` of the state is       *)
(* hidden (seen only through later verdicts), so in cover mode every        *)
(* state-changing transition is followed by PROBES of the state it leads    *)
(* to: the messages with a good id and certificate (KES good or bad, every  *)
(* pool and counter) that leave that state unchanged; their verdicts tell   *)
(* floor, verifier and insecure flag apart (ProbesTellFloor).               *)
(*                                                                          *)
(* Behaviours for the replay on the real authenticator go to rows.ndjson:   *)
(*   cover mode (VIEW hides the history): a "hist" row per generated        *)
(*     state-changing transition (shortest access history + that step +     *)
(*     the probes of the state reached) and                                 *)
(*     a "fan" row per distinct state (every call that leaves it unchanged);*)
(*   hist mode: every history of exactly MaxLen calls (no VIEW); with       *)
(*     Faults = GenuineOnly and AdminOps = PoolAdmin these are the churn     *)
(*     histories: genuine messages interleaved with Reg / Unreg / Evict;    *)
(*   chain mode: per initial configuration Chains pseudo-random histories   *)
(*     of MaxLen calls (every state has one successor, drawn by a small     *)
(*     linear congruential generator seeded from the environment variable   *)
(*     VERIF_SEED and the chain number, so a run is reproducible).          *)
EXTENDS Integers, Sequences, FiniteSets, SequencesExt, IOUtils, Json, CSV, TLC

CONSTANTS Pools,      \* pools (cold keys)
          Counters,   \* certificate counters (a small ordered set; mapped monotonically onto uint64)
          Faults,     \* validity triples <<idOk, certOk, kesOk>> of generated messages
          AdminOps,   \* subset of {"register","unregister","evict","setverifier","setinsecure"}
          InitRegs,   \* initial registration sets
          Mode,       \* "cover" | "hist" | "chain"
          MaxLen,     \* hist / chain mode: length of the emitted histories
          Chains,     \* chain mode: number of random histories
          Replays     \* replayed components that are generated ({} = none; `known` is then not tracked)

VARIABLES registered, cache, verifier, insecure,
          init,   \* the configuration the authenticator was constructed with
          run,    \* chain mode: number of the random history (else 0)
          rnd,    \* chain mode: generator state (else 0)
          h,      \* history of calls with the expected result of each
          known   \* environment: per pool the counters of the fully genuine messages presented so far

vars == <<registered, cache, verifier, insecure, init, run, rnd, h, known>>
View == <<registered, cache, verifier, insecure, known>>

NoCtr == -1

\* values for the CONSTANTS (substituted in the .cfg files)
AllFaults    == BOOLEAN \X BOOLEAN \X BOOLEAN
SingleFaults == {<<TRUE, TRUE, TRUE>>, <<FALSE, TRUE, TRUE>>, <<TRUE, FALSE, TRUE>>, <<TRUE, TRUE, FALSE>>}
GenuineOnly  == {<<TRUE, TRUE, TRUE>>}
AllRegs      == SUBSET Pools
ExtremeRegs  == {{}, Pools}
AllAdmin     == {"register", "unregister", "evict", "setverifier", "setinsecure"}
PoolAdmin    == {"register", "unregister", "evict"}
CertReplays  == {"cert:kesvk", "cert:issue", "cert:period"}
AllReplays   == {"id", "kes"} \cup CertReplays
NoReplays    == {}

\* x -> 75 x + 74 mod 65537 (full period, stays inside TLC's 32-bit integers)
Lcg(x) == (x * 75 + 74) % 65537
InitNo(reg, ver, ins) == Cardinality(reg) * 4 + (IF ver = "real" THEN 2 ELSE 0) + (IF ins THEN 1 ELSE 0)

Call(op, pool, id, cert, kes, ctr, flag) ==
    [op |-> op, pool |-> pool, id |-> id, cert |-> cert, kes |-> kes, ctr |-> ctr, flag |-> flag,
     rep |-> "", src |-> NoCtr]
Admin(op, pool, flag) == Call(op, pool, TRUE, TRUE, TRUE, 0, flag)

VerifyCalls == {Call("verify", p, f[1], f[2], f[3], c, FALSE) : p \in Pools, f \in Faults, c \in Counters}
AdminCalls ==
    {Admin(op, p, FALSE) : op \in AdminOps \cap {"register", "unregister", "evict"}, p \in Pools}
    \cup (IF "setverifier" \in AdminOps /\ verifier = "none" THEN {Admin("setverifier", "", FALSE)} ELSE {})
    \cup (IF "setinsecure" \in AdminOps THEN {Admin("setinsecure", "", b) : b \in BOOLEAN} ELSE {})
\* a message that replays component r of the genuine message (p, s) presented earlier; only the issue-number
\* splice claims another counter than its source
ReplayCall(p, r, c, s) ==
    [op |-> "verify", pool |-> p, id |-> r # "id", cert |-> r \notin CertReplays, kes |-> r # "kes", ctr |-> c,
     flag |-> FALSE, rep |-> r, src |-> s]
ReplaysFrom(p, s) ==
    {ReplayCall(p, r, s, s) : r \in Replays \ {"cert:issue"}}
    \cup {ReplayCall(p, r, c, s) : r \in Replays \cap {"cert:issue"}, c \in Counters \ {s}}
ReplayCalls == UNION {UNION {ReplaysFrom(p, s) : s \in known[p]} : p \in Pools}
Calls == VerifyCalls \cup ReplayCalls \cup AdminCalls

Genuine(c) == c.op = "verify" /\ c.id /\ c.cert /\ c.kes

KesPass(m) == IF verifier = "real" THEN m.kes ELSE insecure
Accept(m) == /\ m.id
             /\ m.cert
             /\ KesPass(m)
             /\ m.pool \in registered
             /\ (cache[m.pool] = NoCtr \/ m.ctr >= cache[m.pool])

\* what has been presented (the authenticator's verdict does not matter for that)
Presented(c) == IF Replays # {} /\ Genuine(c) THEN [known EXCEPT ![c.pool] = @ \cup {c.ctr}] ELSE known

Same(ok) == [ok |-> ok, registered |-> registered, cache |-> cache, verifier |-> verifier, insecure |-> insecure,
             known |-> known]

Outcome(c) ==
    CASE c.op = "verify" ->
            IF Accept(c) THEN [Same(TRUE) EXCEPT !.cache = [cache EXCEPT ![c.pool] = c.ctr], !.known = Presented(c)]
                         ELSE [Same(FALSE) EXCEPT !.known = Presented(c)]
      [] c.op = "register"    -> [Same(TRUE) EXCEPT !.registered = registered \cup {c.pool}]
      [] c.op = "unregister"  -> [Same(TRUE) EXCEPT !.registered = registered \ {c.pool}]
      [] c.op = "evict"       -> [Same(TRUE) EXCEPT !.cache = [cache EXCEPT ![c.pool] = NoCtr]]
      [] c.op = "setverifier" -> [Same(TRUE) EXCEPT !.verifier = "real"]
      [] c.op = "setinsecure" -> [Same(TRUE) EXCEPT !.insecure = c.flag]

\* the authenticator's state changes / the state (with the environment's part) changes
AuthMutates(o) == \/ o.registered # registered \/ o.cache # cache
                  \/ o.verifier # verifier \/ o.insecure # insecure
Mutates(o) == AuthMutates(o) \/ o.known # known

\* what the replay compares: accept/reject and the registration observable
\* (IsSPOPoolRegistered); the cache is observable only through later verdicts
Exp(o) == [ok |-> o.ok, reg |-> o.registered, mut |-> Mutates(o)]
Entry(c) == [c |-> c, e |-> Exp(Outcome(c))]

Init == /\ registered \in InitRegs
        /\ cache = [p \in Pools |-> NoCtr]
        /\ verifier \in {"none", "real"}
        /\ insecure \in BOOLEAN
        /\ init = [registered |-> registered, verifier |-> verifier, insecure |-> insecure]
        /\ run \in (IF Mode = "chain" THEN 1..Chains ELSE {0})
        /\ rnd = IF Mode = "chain"
                 THEN Lcg((atoi(IOEnv.VERIF_SEED) * 7919 + run * 271 + InitNo(registered, verifier, insecure) * 31337) % 65537)
                 ELSE 0
        /\ h = <<>>
        /\ known = [p \in Pools |-> {}]

Step(c) == LET o == Outcome(c) IN
           /\ registered' = o.registered /\ cache' = o.cache
           /\ verifier' = o.verifier /\ insecure' = o.insecure /\ known' = o.known
           /\ h' = Append(h, [c |-> c, e |-> Exp(o)])
           /\ UNCHANGED <<init, run>>

\* chain mode: the call drawn in this state
Drawn == LET cs == SetToSeq(Calls) IN cs[1 + ((rnd \div 7) % Len(cs))]

Next == /\ (Mode # "cover" => Len(h) < MaxLen)
        /\ IF Mode = "chain" THEN Step(Drawn) /\ rnd' = Lcg(rnd)
                             ELSE (\E c \in Calls : Step(c)) /\ UNCHANGED rnd

--------------------------------------------------------------------------
(* invariants *)

TypeOK == /\ registered \subseteq Pools
          /\ cache \in [Pools -> Counters \cup {NoCtr}]
          /\ verifier \in {"none", "real"} /\ insecure \in BOOLEAN
          /\ known \in [Pools -> SUBSET Counters]

\* accepted only when fully authenticated and registered
OnlyAuthentic ==
    \A c \in VerifyCalls \cup ReplayCalls : Outcome(c).ok =>
        /\ c.id /\ c.cert /\ c.pool \in registered
        /\ (c.kes \/ (verifier = "none" /\ insecure))

\* without a KES verifier everything is rejected unless insecure mode is on
NoVerifierRejects ==
    (verifier = "none" /\ ~insecure) => \A c \in VerifyCalls \cup ReplayCalls : ~Outcome(c).ok

\* a real verifier is never bypassed by the insecure flag
RealNotBypassed ==
    verifier = "real" => \A c \in VerifyCalls \cup ReplayCalls : Outcome(c).ok => c.kes

\* a rejected message never changes the state; an accepted one changes the cache entry of its pool only
RejectKeepsState ==
    \A c \in VerifyCalls \cup ReplayCalls :
        LET o == Outcome(c) IN
        IF o.ok THEN /\ o.registered = registered /\ o.verifier = verifier /\ o.insecure = insecure
                     /\ \A p \in Pools \ {c.pool} : o.cache[p] = cache[p]
                     /\ o.cache[c.pool] = c.ctr
        ELSE ~AuthMutates(o)

\* the replay dimension: a component taken from a genuine message presented earlier does not authenticate
\* another message, whatever became of the earlier one (accepted and cached, or rejected): reject, no change.
\* (Only exception, by the statement: without a verifier in insecure mode no KES signature is looked at, a
\* replayed one included.)
Unchecked(c) == c.rep = "kes" /\ verifier = "none" /\ insecure
ReplayRejected ==
    \A c \in ReplayCalls : LET o == Outcome(c) IN ~Unchecked(c) => (~o.ok /\ ~Mutates(o))

\* where a fault comes from makes no difference: same outcome as the message with that component made up
ReplayAsFresh ==
    \A c \in ReplayCalls : Outcome(c) = Outcome([c EXCEPT !.rep = "", !.src = NoCtr])

\* a replay changes exactly one component and has a presented source
ReplayWellFormed ==
    \A c \in ReplayCalls :
        /\ Cardinality({x \in {<<"id", c.id>>, <<"cert", c.cert>>, <<"kes", c.kes>>} : ~x[2]}) = 1
        /\ c.src \in known[c.pool]
        /\ (c.rep \in {"id", "kes", "cert:kesvk", "cert:period"} => c.ctr = c.src)
        /\ (c.rep = "cert:issue" => c.ctr # c.src)

\* `known` is what the history presented: the counters of the fully genuine messages of each pool
KnownIsPresented ==
    \A p \in Pools :
        known[p] = IF Replays = {} THEN {}
                   ELSE {h[i].c.ctr : i \in {i \in 1..Len(h) : Genuine(h[i].c) /\ h[i].c.pool = p}}

\* along the history: every replay was preceded by the genuine message it copies from, and none but an
\* (unchecked) KES replay was accepted
SourcedAt(j) ==
    h[j].c.rep # "" =>
        /\ (h[j].e.ok => h[j].c.rep = "kes")
        /\ \E i \in 1..(j - 1) : Genuine(h[i].c) /\ h[i].c.pool = h[j].c.pool /\ h[i].c.ctr = h[j].c.src
ReplaySourced == \A j \in 1..Len(h) : SourcedAt(j)
\* the same, for the last call only (every prefix of a history is a state too)
ReplaySourcedLast == Len(h) > 0 => SourcedAt(Len(h))

\* a fully valid message of a registered pool whose counter is not below the cache is accepted
Complete ==
    \A c \in VerifyCalls :
        (c.id /\ c.cert /\ KesPass(c) /\ c.pool \in registered
         /\ (cache[c.pool] = NoCtr \/ c.ctr >= cache[c.pool])) => Outcome(c).ok

\* along the history: accepted counters of a pool never decrease unless its cache entry was evicted in between
Accepted(i) == h[i].c.op = "verify" /\ h[i].e.ok
Monotone ==
    \A i \in 1..Len(h), j \in 1..Len(h) :
        (i < j /\ Accepted(i) /\ Accepted(j) /\ h[i].c.pool = h[j].c.pool
         /\ ~\E k \in (i + 1)..(j - 1) : h[k].c.op = "evict" /\ h[k].c.pool = h[i].c.pool)
        => h[i].c.ctr <= h[j].c.ctr

\* the same, for the last call only (every prefix of a history is a state too)
MonotoneLast ==
    LET j == Len(h) IN
    (j > 0 /\ Accepted(j)) =>
        \A i \in 1..(j - 1) :
            (Accepted(i) /\ h[i].c.pool = h[j].c.pool
             /\ ~\E k \in (i + 1)..(j - 1) : h[k].c.op = "evict" /\ h[k].c.pool = h[i].c.pool)
            => h[i].c.ctr <= h[j].c.ctr

\* the churn dimension, per state: the counter floors belong to the cold keys.  No call from outside but the
\* eviction of p's entry changes any floor, and that one changes p's only; registration calls change the
\* registration of their pool only, the verifier / insecure calls neither
FloorIsOfColdKey ==
    \A c \in AdminCalls :
        LET o == Outcome(c) IN
        /\ \A p \in Pools : (c.op = "evict" /\ c.pool = p) \/ o.cache[p] = cache[p]
        /\ \A p \in Pools : (c.op \in {"register", "unregister"} /\ c.pool = p) \/ (p \in o.registered <=> p \in registered)
        /\ (c.op \in {"register", "unregister", "evict"} => o.verifier = verifier /\ o.insecure = insecure)

\* the churn dimension, along the history: a message of pool p whose counter is below one accepted earlier for p
\* is rejected however often p was unregistered and registered again in between (and whatever happened to other
\* pools, the verifier or the insecure flag); only the eviction of p's entry lifts the floor
EvictOf(k, p) == h[k].c.op = "evict" /\ h[k].c.pool = p
FloorAt(i, j) ==
    (/\ i < j /\ Accepted(i) /\ h[j].c.op = "verify" /\ h[j].c.pool = h[i].c.pool
     /\ h[j].c.ctr < h[i].c.ctr
     /\ ~\E k \in (i + 1)..(j - 1) : EvictOf(k, h[i].c.pool))
    => ~h[j].e.ok
CounterFloorSurvivesChurn == \A i \in 1..Len(h), j \in 1..Len(h) : FloorAt(i, j)
\* the same, for the last call only (every prefix of a history is a state too)
CounterFloorSurvivesChurnLast == \A i \in 1..Len(h) : FloorAt(i, Len(h))
\* the history has what the churn dimension is about: accepted / Unreg(p) / Reg(p) / a lower counter of p
ChurnShape ==
    \E i \in 1..Len(h) : Accepted(i) /\ LET p == h[i].c.pool IN
        \E u \in (i + 1)..Len(h) : (h[u].c.op = "unregister" /\ h[u].c.pool = p) /\
            \E r \in (u + 1)..Len(h) : (h[r].c.op = "register" /\ h[r].c.pool = p) /\
                \E j \in (r + 1)..Len(h) :
                    /\ Genuine(h[j].c) /\ h[j].c.pool = p /\ h[j].c.ctr < h[i].c.ctr
                    /\ ~\E k \in (i + 1)..(j - 1) : EvictOf(k, p) \/ (Accepted(k) /\ h[k].c.pool = p)

\* the probes of a state: messages with a good id and certificate that leave the authenticator unchanged
ProbeCalls == {c \in VerifyCalls : c.id /\ c.cert /\ ~AuthMutates(Outcome(c))}
\* they tell the hidden state apart: for a registered pool with a floor f > the least counter, the genuine
\* message just below f is a probe and rejected, the one at f is a probe and accepted (with a verifier or in
\* insecure mode)
ProbesTellFloor ==
    \A p \in registered :
        (cache[p] # NoCtr /\ <<TRUE, TRUE, TRUE>> \in Faults) =>
            LET at == Call("verify", p, TRUE, TRUE, TRUE, cache[p], FALSE) IN
            /\ at \in ProbeCalls
            /\ Outcome(at).ok = (verifier = "real" \/ insecure)
            /\ \A c \in Counters : c < cache[p] =>
                   LET below == Call("verify", p, TRUE, TRUE, TRUE, c, FALSE) IN
                   below \in ProbeCalls /\ ~Outcome(below).ok

\* the cache holds the last accepted counter since the last eviction
CacheIsLastAccepted ==
    \A p \in Pools :
        LET idx == {i \in 1..Len(h) : (Accepted(i) \/ h[i].c.op = "evict") /\ h[i].c.pool = p} IN
        IF idx = {} THEN cache[p] = NoCtr
        ELSE LET last == CHOOSE i \in idx : \A k \in idx : k <= i IN
             cache[p] = IF h[last].c.op = "evict" THEN NoCtr ELSE h[last].c.ctr

--------------------------------------------------------------------------
(* emission of behaviours *)

File == "rows.ndjson"
Write(row) == CSVWrite("%1$s", <<ToJson(row)>>, File)

\* (a state constraint: evaluated in the state the transition leads to, so the probes are that state's)
EmitStep ==
    (Mode = "cover" /\ Len(h) > 0 /\ h[Len(h)].e.mut)
        => Write([kind |-> "hist", init |-> init, steps |-> h, probe |-> {Entry(c) : c \in ProbeCalls}])

FanOf == LET es == {Entry(c) : c \in Calls} IN {x \in es : ~x.e.mut}
EmitFan ==
    Mode = "cover" => Write([kind |-> "fan", init |-> init, steps |-> h, fan |-> FanOf])

\* (churn: the spec's mark that the history has the shape the churn dimension is about; the check counts them)
EmitHist == (Mode # "cover" /\ Len(h) = MaxLen) => Write([kind |-> "hist", init |-> init, steps |-> h, churn |-> ChurnShape])
==========================================================================
