CONSTANT Mode = "seq"
CONSTANT MaxLen = 5
INIT Init
NEXT Next
INVARIANT SeqInv
CHECK_DEADLOCK FALSE
