\* C15: without the recvDoneChan case in sendLoop's hand-off something is left for ever: TLC has to object
CONSTANTS
  Cap = 2
  Segs = 5
  MaxRead = 1
  Whos = {"msg"}
  Designs = {"norecv"}
  Emit = FALSE
SPECIFICATION Spec
INVARIANTS TypeOK NothingLeft
