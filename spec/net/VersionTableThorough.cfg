INIT Init
NEXT Next
INVARIANT TablesConsistent
