---------------------------- MODULE VersionTable ----------------------------
(* C20 -- the supported-version tables are internally consistent             *)
(*                                                                          *)
(* TB binding: T is what the running Go code reports about itself           *)
(* (harness/cmd/c20 dump): the four version lists (Cardano node-to-client,  *)
(* Cardano node-to-node, DMQ node-to-client, DMQ node-to-node),             *)
(* GetProtocolVersion(v) for every v in 0..65535 that has an entry, and the *)
(* version maps generated for every (magic, diffusion, peer sharing, query).*)
(* The REFERENCE below is written from the Ouroboros network specification  *)
(* (handshake mini-protocol CDDL, NodeToNodeVersion / NodeToClientVersion)  *)
(* and the property text, never from those tables.  One TLC state per table *)
(* entry; the INVARIANT is "no law is violated by this entry".              *)
(*                                                                          *)
(* RP binding: the module emits the enumeration for the codec clause        *)
(* (every listed version x magic x flags, with the flags that version's     *)
(* data format carries); the Go driver encodes the generated version data   *)
(* and decodes it with that version's own decoder.                          *)
EXTENDS Integers, Sequences, FiniteSets, Json, TLC, SequencesExt

T == JsonDeserialize("version_tables.json")

-----------------------------------------------------------------------------
(* REFERENCE                                                                *)
NTC == 1  NTN == 2  DMQNTC == 3  DMQNTN == 4
Tables == 1..4

Bit(v, n) == (v \div (2 ^ n)) % 2 = 1

(* Version-number classes.  Node-to-client versions travel with bit 15 set  *)
(* (nodeToClientVersionBit); node-to-node versions are plain small numbers. *)
(* DMQ node-to-client versions carry bit 12 instead (dmq-node), DMQ         *)
(* node-to-node versions are plain (CIP-0137).                              *)
ClassOk(t, v) ==
    CASE t = NTC    -> Bit(v, 15)
      [] t = NTN    -> ~Bit(v, 15) /\ ~Bit(v, 12)
      [] t = DMQNTC -> Bit(v, 12) /\ ~Bit(v, 15)
      [] t = DMQNTN -> ~Bit(v, 15) /\ ~Bit(v, 12)

Low(t, v) == IF t = NTC THEN v - 32768 ELSE IF t = DMQNTC THEN v - 4096 ELSE v

(* Which parameters the version data of a version carries besides the magic *)
(* (handshake CDDL):                                                        *)
(*   node-to-node   v7..v10 : [magic, initiatorOnlyDiffusionMode]           *)
(*                  v11..   : [magic, diffusionMode, peerSharing, query]    *)
(*   node-to-client v9..v14 : magic          v15.. : [magic, query]         *)
(*   DMQ node-to-client     : [magic, query]                                *)
(*   DMQ node-to-node       : [magic, diffusionMode, peerSharing, query]    *)
Carried(t, v) ==
    CASE t = NTC    -> IF Low(t, v) >= 15 THEN {"q"} ELSE {}
      [] t = NTN    -> IF v >= 11 THEN {"d", "p", "q"} ELSE {"d"}
      [] t = DMQNTC -> {"q"}
      [] t = DMQNTN -> {"d", "p", "q"}

(* Era sequence of the version flags (Byron is always on).                  *)
Eras == <<"Shelley", "Allegra", "Mary", "Alonzo", "Babbage", "Conway", "Dijkstra">>
NE == Len(Eras)
(* "This version enables at least era number n": NodeToNodeV_7 and          *)
(* NodeToClientV_9 enabled Alonzo (4), NodeToNodeV_9 / NodeToClientV_13     *)
(* Babbage (5), NodeToNodeV_13 (at the latest) / NodeToClientV_16 Conway    *)
(* (6).  The DMQ tables enable no Cardano era.                              *)
EraFloor(t, v) ==
    CASE t = NTN -> IF v >= 13 THEN 6 ELSE IF v >= 9 THEN 5 ELSE IF v >= 7 THEN 4 ELSE 0
      [] t = NTC -> IF Low(t, v) >= 16 THEN 6 ELSE IF Low(t, v) >= 13 THEN 5
                    ELSE IF Low(t, v) >= 9 THEN 4 ELSE 0
      [] OTHER   -> 0

-----------------------------------------------------------------------------
(* The dumped tables                                                        *)
List(t) == T.lists[t]
KnownOf(v) == {i \in DOMAIN T.known : T.known[i].v = v}
Known(v) == T.known[CHOOSE i \in KnownOf(v) : TRUE]
InList(t, v) == \E j \in DOMAIN List(t) : List(t)[j] = v
NEnabled(r) == Cardinality({i \in 1..NE : r.eras[i]})

Law(name, ok) == IF ok THEN {} ELSE {name}

(* a list entry: class, order, disjointness from the other lists, decoder   *)
ListLaws(t, j) ==
    LET v == List(t)[j] IN
    Law("class", ClassOk(t, v)) \cup
    Law("ascending", j > 1 => List(t)[j - 1] < v) \cup
    Law("disjoint", \A u \in Tables \ {t} : ~InList(u, v)) \cup
    Law("has_decoder", KnownOf(v) # {} /\ (KnownOf(v) # {} => Known(v).dec))

(* the era flags of a listed version                                        *)
VerLaws(t, j) ==
    LET v == List(t)[j] IN
    IF KnownOf(v) = {} THEN {}           \* reported by has_decoder
    ELSE LET r == Known(v) IN
        Law("era_prefix", \A a, b \in 1..NE : (a < b /\ r.eras[b]) => r.eras[a]) \cup
        Law("era_monotone",
            (j > 1 /\ KnownOf(List(t)[j - 1]) # {}) =>
                \A a \in 1..NE : Known(List(t)[j - 1]).eras[a] => r.eras[a]) \cup
        Law("era_floor", NEnabled(r) >= EraFloor(t, v))

(* GetProtocolVersion knows no version outside the four lists               *)
StrayLaws(i) == Law("stray_version", \E t \in Tables : InList(t, T.known[i].v))

(* a generated version map has exactly the listed versions as keys          *)
KeysLaws(i) ==
    LET g == T.genkeys[i] IN
    Law("map_keys", Range(g.keys) = Range(List(g.t)) /\ Len(g.keys) = Len(List(g.t)))

(* generated version data answers the requested values wherever the         *)
(* version's data format carries them                                       *)
GenLaws(i) ==
    LET g == T.genrows[i]
        c == Carried(g.t, g.v)
        m == T.magics[g.mi + 1] IN
    Law("generated", ~g.nil) \cup
    Law("magic", g.nil \/ (g.hi = m[1] /\ g.lo = m[2])) \cup
    Law("diffusion", (~g.nil /\ "d" \in c) => g.gd = g.d) \cup
    Law("peer_sharing", (~g.nil /\ "p" \in c) => g.gp = g.p) \cup
    Law("query", (~g.nil /\ "q" \in c) => g.gq = g.q)

-----------------------------------------------------------------------------
(* Case space: c = [k, a, b]                                                *)
Cases ==
    {x \in [k : {"list", "ver"}, a : Tables, b : 1..64] : x.b \in DOMAIN List(x.a)} \cup
    {[k |-> "stray", a |-> 0, b |-> i] : i \in DOMAIN T.known} \cup
    {[k |-> "keys", a |-> 0, b |-> i] : i \in DOMAIN T.genkeys} \cup
    {[k |-> "gen", a |-> 0, b |-> i] : i \in DOMAIN T.genrows}

Violations(x) ==
    CASE x.k = "list"  -> ListLaws(x.a, x.b)
      [] x.k = "ver"   -> VerLaws(x.a, x.b)
      [] x.k = "stray" -> StrayLaws(x.b)
      [] x.k = "keys"  -> KeysLaws(x.b)
      [] x.k = "gen"   -> GenLaws(x.b)

VARIABLE c
Init == c \in Cases
Next == UNCHANGED c

TablesConsistent == Violations(c) = {}

\* well-formedness of the dump itself (a failure here is a harness problem)
DumpShape ==
    /\ Len(T.lists) = 4
    /\ \A t \in Tables : Len(List(t)) <= 64
    /\ \A i \in DOMAIN T.known : Len(T.known[i].eras) = NE
    /\ \A i \in DOMAIN T.genrows : T.genrows[i].mi + 1 \in DOMAIN T.magics
ASSUME DumpShape

-----------------------------------------------------------------------------
(* Output 1: the verdict of every law on every table entry                  *)
Verdict(x) == [k |-> x.k, a |-> x.a, b |-> x.b, viol |-> SetToSeq(Violations(x))]
ASSUME ndJsonSerialize("verdicts.ndjson", SetToSeq({Verdict(x) : x \in Cases}))

(* Output 2 (codec replay): the enumeration of the property's quantifier    *)
BOOL3 == {<<d, p, q>> : d \in BOOLEAN, p \in BOOLEAN, q \in BOOLEAN}
Row(t, v, mi, f) == [t |-> t, v |-> v, mi |-> mi, d |-> f[1], p |-> f[2], q |-> f[3],
                     carried |-> SetToSeq(Carried(t, v))]
Listed == {y \in Tables \X (1..64) : y[2] \in DOMAIN List(y[1])}
ASSUME ndJsonSerialize("cases20.ndjson",
          SetToSeq({Row(y[1], List(y[1])[y[2]], mi, f) :
                      y \in Listed, mi \in 0..(Len(T.magics) - 1), f \in BOOL3}))
=============================================================================
