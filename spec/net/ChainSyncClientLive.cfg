\* liveness as temporal properties (Stop ~> returned; without Stop the whole history is delivered)
\* on a smaller bound; the larger configurations check the same on the terminal states
CONSTANTS
  Limits = {0, 1, 2}
  Default = 3
  MaxHist = 2
  WithStop = TRUE
  Bug = "none"
  QCap = 5
  StopFix = FALSE
  EmitMax = 0
  Pipes = {FALSE}
  PCap = 1
SPECIFICATION Spec
INVARIANTS Safe
PROPERTIES StopLive Delivery
CHECK_DEADLOCK FALSE
