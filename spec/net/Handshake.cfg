\* C18 quick: 4-version window, every pair of subsets, the initiator's magic varies per version (responder uniform)
CONSTANTS
  W = 4
  CliMagics = {1, 2}
  SrvMagics = {1}
  CliPerVersion = TRUE
  SrvPerVersion = FALSE
  MaxSize = 4
  QCases <- HonestQ
  FlagSpace <- OnlyNoFlags
  FlagsInModel = FALSE
  Responder = "honest"
  ClientDesign = "fixed"
  SentSpace = "configured"
INIT Init
NEXT Next
INVARIANTS TypeOK Agreement BestCommon Selects RefusalReported NoFallback MismatchAscending QueryNeverSelects EchoData FlagsIrrelevant ClientSafe
