\* C18 thorough: every pair of subsets of the 5-version window, responder's magic per version
CONSTANTS
  W = 5
  CliMagics = {1}
  SrvMagics = {1, 2}
  CliPerVersion = FALSE
  SrvPerVersion = TRUE
  MaxSize = 5
  QCases <- HonestQ
  FlagSpace <- OnlyNoFlags
  FlagsInModel = FALSE
  Responder = "honest"
  ClientDesign = "fixed"
  SentSpace = "configured"
INIT Init
NEXT Next
INVARIANTS TypeOK Agreement BestCommon Selects RefusalReported NoFallback MismatchAscending QueryNeverSelects EchoData FlagsIrrelevant ClientSafe
