--------------------------- MODULE TxSubmission ---------------------------
(* C24 -- the tx-submission acknowledgement window.                         *)
(*                                                                          *)
(* Inbound side (the library's Server): it asks the outbound side for       *)
(* transaction ids with RequestTxIds(blocking, req) and for bodies with     *)
(* RequestTxs.  A RequestTxIds message carries (blocking, ack, req): ack is *)
(* the number of previously received ids it acknowledges, req the number of *)
(* new ids it asks for.  State of one conversation:                         *)
(*   received  ids received so far,                                         *)
(*   acked     ids acknowledged so far (sum of the ack fields sent),        *)
(*   ackNext   what the next request will acknowledge.                      *)
(* RequestTxIds sends ack = ackNext; a reply with k ids sets ackNext' = k   *)
(* (replaced, not accumulated).  A call whose req is outside 0..Limit, or   *)
(* that would have to send an ack outside 0..Limit, is refused locally:     *)
(* nothing is sent and nothing changes.                                     *)
(*                                                                          *)
(* Outbound side (the library's Client): it refuses a request whose ack or  *)
(* req exceeds Limit without showing it to the application; otherwise the   *)
(* application answers with k ids or with "stop".  "stop" becomes the Done  *)
(* message only when the request was blocking; for a non-blocking request   *)
(* it is an error and nothing is sent.  After Done the inbound side starts  *)
(* a fresh conversation (received = acked = ackNext = 0).                   *)
(*                                                                          *)
(* Limit stands for 65535: the rules only compare counts with the limit and *)
(* copy them, so the driver maps 0..Limit+1 monotonically onto              *)
(* 0, 1, .., 65535, 65536 (and -1 onto negative ints).                      *)
(*                                                                          *)
(* Behaviours for the replay go to rows.ndjson:                             *)
(*   Mode "hist":  every call history of MaxLen calls (or ending earlier in *)
(*                 an abort) -- real Server against real Client;            *)
(*   Mode "chain": Chains pseudo-random histories of MaxLen calls (linear   *)
(*                 congruential generator seeded from VERIF_SEED);          *)
(*   Mode "out":   every single request (blocking, ack, req) a raw inbound  *)
(*                 peer can put on the wire, with every application answer  *)
(*                 -- real Client against a raw peer.                       *)
EXTENDS Integers, Sequences, FiniteSets, SequencesExt, IOUtils, Json, CSV, TLC

CONSTANTS Limit,      \* largest legal ack / req (stands for 65535)
          Reqs,       \* req arguments offered to RequestTxIds (may contain -1 and Limit+1)
          Replies,    \* application answers: -1 = stop, k >= 0 = k ids (may contain Limit+1)
          Blockings,  \* subset of BOOLEAN
          TxNs,       \* sizes of RequestTxs calls
          Mode,       \* "hist" | "chain" | "out"
          MaxLen,     \* length of the emitted histories
          Chains      \* chain mode: number of random histories

VARIABLES received, acked, ackNext,
          alive,   \* FALSE once the conversation was aborted by an error
          conv,    \* number of conversations completed by Done (the inbound side restarts)
          run,     \* chain mode: number of the random history (else 0)
          rnd,     \* chain mode: generator state (else 0)
          h        \* history of calls with the expected observation of each

vars == <<received, acked, ackNext, alive, conv, run, rnd, h>>

Stop == -1

\* values for the CONSTANTS (substituted in the .cfg files)
AllReqs      == (-1)..(Limit + 1)
LegalReqs    == 0..Limit
SmallReplies == (-1)..(Limit - 1)
AllReplies   == (-1)..(Limit + 1)
BigReplies   == {1, Limit, Limit + 1}
BigRepliesT  == {Stop, 1, Limit, Limit + 1}
EdgeReqs     == {0, Limit}
OneReq       == {Limit - 1}
LimitReq     == {Limit}
WinReplies   == {Stop, 0, 1, Limit - 1}
TinyReplies  == {Stop, 0, Limit - 1}
OnlyNonBlocking == {FALSE}
OnlyBlocking    == {TRUE}

\* x -> 75 x + 74 mod 65537 (full period, stays inside TLC's 32-bit integers)
Lcg(x) == (x * 75 + 74) % 65537

InRange(x) == x >= 0 /\ x <= Limit

--------------------------------------------------------------------------
(* the outbound side's decision for one request on the wire *)

OutAccepts(ack, req) == InRange(ack) /\ InRange(req)

\* what the outbound side does with the application's answer to an accepted request
OutAnswer(blocking, ans) ==
    IF ans # Stop THEN "ids"
    ELSE IF blocking THEN "done" ELSE "error"

--------------------------------------------------------------------------
(* the inbound side: API calls and their outcome *)

Call(op, blocking, req, ans, n) == [op |-> op, blocking |-> blocking, req |-> req, ans |-> ans, n |-> n]

\* refused locally: nothing is sent
Refused(req) == ~InRange(req) \/ ~InRange(ackNext)

\* the answer of the application is irrelevant (0) for a call that never reaches it
IdsCalls == {Call("ids", b, r, IF Refused(r) THEN 0 ELSE a, 0) :
                b \in Blockings, r \in Reqs, a \in Replies}
TxsCalls == {Call("txs", FALSE, 0, 0, n) : n \in TxNs}
Calls    == IdsCalls \cup TxsCalls

\* expected observation of a call + successor state
Obs(res, wire, ack, req, done, n) == [res |-> res, wire |-> wire, ack |-> ack, req |-> req, done |-> done, n |-> n]
Same(o) == [e |-> o, received |-> received, acked |-> acked, ackNext |-> ackNext, alive |-> TRUE, conv |-> conv]

Outcome(c) ==
    IF c.op = "txs" THEN Same(Obs("txs", FALSE, -1, -1, FALSE, c.n))
    ELSE IF Refused(c.req) THEN Same(Obs("refused", FALSE, -1, -1, FALSE, 0))
    ELSE LET ack == ackNext IN
         IF ~OutAccepts(ack, c.req) THEN   \* (unreachable: see WireInRange)
            [Same(Obs("aborted", TRUE, ack, c.req, FALSE, 0)) EXCEPT !.alive = FALSE]
         ELSE CASE OutAnswer(c.blocking, c.ans) = "ids" ->
                    [Same(Obs("ids", TRUE, ack, c.req, FALSE, c.ans))
                        EXCEPT !.received = received + c.ans, !.acked = acked + ack, !.ackNext = c.ans]
                [] OutAnswer(c.blocking, c.ans) = "done" ->
                    [Same(Obs("stopped", TRUE, ack, c.req, TRUE, 0))
                        EXCEPT !.received = 0, !.acked = 0, !.ackNext = 0, !.conv = conv + 1]
                [] OTHER ->
                    [Same(Obs("aborted", TRUE, ack, c.req, FALSE, 0))
                        EXCEPT !.acked = acked + ack, !.alive = FALSE]

--------------------------------------------------------------------------
(* the outbound side alone, against any inbound peer: one request *)

OutCases == [blocking : BOOLEAN, ack : 0..(Limit + 1), req : 0..(Limit + 1), ans : {Stop, 0, 1, 2}]

\* cb: the application sees the request (with exactly these values);
\* reply: what goes back on the wire; err: the protocol instance reports an error
OutVerdict(x) ==
    IF ~OutAccepts(x.ack, x.req) THEN [cb |-> FALSE, reply |-> "none", err |-> TRUE, n |-> 0]
    ELSE CASE OutAnswer(x.blocking, x.ans) = "ids"  -> [cb |-> TRUE, reply |-> "ids", err |-> FALSE, n |-> x.ans]
           [] OutAnswer(x.blocking, x.ans) = "done" -> [cb |-> TRUE, reply |-> "done", err |-> FALSE, n |-> 0]
           [] OTHER                                 -> [cb |-> TRUE, reply |-> "none", err |-> TRUE, n |-> 0]

--------------------------------------------------------------------------

Init == /\ received = 0 /\ acked = 0 /\ ackNext = 0
        /\ alive = TRUE /\ conv = 0
        /\ run \in (IF Mode = "chain" THEN 1..Chains ELSE {0})
        /\ rnd = IF Mode = "chain"
                 THEN Lcg((atoi(IOEnv.VERIF_SEED) * 7919 + run * 271) % 65537)
                 ELSE 0
        /\ h = <<>>

Step(c) == LET o == Outcome(c) IN
           /\ received' = o.received /\ acked' = o.acked /\ ackNext' = o.ackNext
           /\ alive' = o.alive /\ conv' = o.conv
           /\ h' = Append(h, [c |-> c, e |-> o.e])
           /\ UNCHANGED run

OutStep(x) == /\ h' = Append(h, [c |-> x, e |-> OutVerdict(x)])
              /\ UNCHANGED <<received, acked, ackNext, alive, conv, run>>

\* chain mode: the call drawn in this state
Drawn == LET cs == SetToSeq(Calls) IN cs[1 + ((rnd \div 7) % Len(cs))]

Next == /\ Len(h) < MaxLen
        /\ alive
        /\ CASE Mode = "chain" -> Step(Drawn) /\ rnd' = Lcg(rnd)
             [] Mode = "out"   -> (\E x \in OutCases : OutStep(x)) /\ UNCHANGED rnd
             [] OTHER          -> (\E c \in Calls : Step(c)) /\ UNCHANGED rnd

--------------------------------------------------------------------------
(* invariants *)

Pair == Mode # "out"

TypeOK == /\ received \in Nat /\ acked \in Nat /\ ackNext \in Nat
          /\ alive \in BOOLEAN /\ conv \in Nat

\* never more acknowledged than received
AckedLeReceived == acked <= received

\* what the next request would acknowledge has been received and not yet acknowledged
AckWithinOutstanding == alive => ackNext <= received - acked

\* design lemma: the inbound side acknowledges exactly the previous reply
OutstandingExact == alive => received - acked = ackNext

\* every request that reached the wire carries counts within 0..Limit
WireInRange ==
    Pair => \A i \in 1..Len(h) : h[i].e.wire => InRange(h[i].e.ack) /\ InRange(h[i].e.req)

\* a call with an out-of-range req never reaches the wire
RefusedLocally ==
    Pair => \A i \in 1..Len(h) :
        (h[i].c.op = "ids" /\ ~InRange(h[i].c.req)) => (~h[i].e.wire /\ h[i].e.res = "refused")

\* every enabled call in this state: refused ones leave the state alone, the others send ack = ackNext
PerCall ==
    (Pair /\ alive) => \A c \in IdsCalls :
        LET o == Outcome(c) IN
        IF Refused(c.req)
        THEN ~o.e.wire /\ o.received = received /\ o.acked = acked /\ o.ackNext = ackNext /\ o.alive
        ELSE o.e.wire /\ o.e.ack = ackNext /\ o.e.req = c.req /\ o.e.ack <= received - acked

\* Done is only ever the answer to a blocking request
DoneOnlyFromBlocking ==
    IF Pair THEN \A i \in 1..Len(h) : h[i].e.done => (h[i].c.op = "ids" /\ h[i].c.blocking /\ h[i].c.ans = Stop)
    ELSE \A i \in 1..Len(h) : h[i].e.reply = "done" => (h[i].c.blocking /\ h[i].c.ans = Stop)

\* the outbound side shows the application in-range requests only, and answers nothing to the others
OutRejectsOverLimit ==
    ~Pair => \A i \in 1..Len(h) :
        /\ h[i].e.cb <=> (h[i].c.ack <= Limit /\ h[i].c.req <= Limit)
        /\ ~h[i].e.cb => (h[i].e.reply = "none" /\ h[i].e.err)

--------------------------------------------------------------------------
(* emission of behaviours *)

File == "rows.ndjson"
Write(row) == CSVWrite("%1$s", <<ToJson(row)>>, File)

EmitHist ==
    (Len(h) > 0 /\ (Len(h) = MaxLen \/ ~alive))
        => Write([kind |-> IF Pair THEN "hist" ELSE "out", limit |-> Limit, steps |-> h])
==========================================================================
