\* C15 thorough: scripts of up to 3 steps (up to three restarts), every timing, both designs, the temporal statements
CONSTANTS
  MaxLen = 3
  MaxGen = 4
  Protos = {"chainsync", "blockfetch", "txsubmission"}
  Times = {"free", "early", "mid", "late"}
  FreeAll = TRUE
  Designs = {"extracted", "repaired"}
  Emit = TRUE
SPECIFICATION Spec
INVARIANTS TypeOK RegisteredRuns OneLive DoneAfterLoops CleanAfterDone GenBound TerminalGood RestGood EmitOutcome
