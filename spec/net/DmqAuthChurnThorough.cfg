\* C46 thorough: the churn dimension. Every history of exactly 5 calls on one pool (no VIEW) made
\* of genuine messages (counters 0..2) and Reg / Unreg / Evict of the pool, from every verifier /
\* insecure / registration configuration: 8 x 6^5 histories
CONSTANTS
  Pools = {"p1"}
  Counters = {0, 1, 2}
  Faults <- GenuineOnly
  AdminOps <- PoolAdmin
  InitRegs <- AllRegs
  Mode = "hist"
  MaxLen = 5
  Chains = 0
  Replays <- NoReplays
INIT Init
NEXT Next
INVARIANTS TypeOK OnlyAuthentic RejectKeepsState Complete Monotone CacheIsLastAccepted FloorIsOfColdKey CounterFloorSurvivesChurn ProbesTellFloor KnownIsPresented EmitHist
