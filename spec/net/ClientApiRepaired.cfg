\* C15: the design in which every wait is released by DoneChan; the property's liveness statements hold
CONSTANTS
  MaxLen = 2
  ApiFilter = {"localtxsubmission.SubmitTx", "localtxmonitor.HasTx", "localstatequery.GetCurrentEra", "chainsync.Sync",
               "blockfetch.GetBlock", "blockfetch.GetBlockRange", "peersharing.GetPeers", "txsubmission.RequestTxIdsBlocking"}
  TmoOnly = {}
  Design = "repaired"
  Emit = FALSE
SPECIFICATION Spec
INVARIANTS TypeOK DoneAfterHandler CleanAfterDone MutexOwner ErrorChanSafe TimerSound TimeoutEndsSilence StateLoopEnds
PROPERTIES CallReturns CloseCompletes SecondCallReturns ScriptPlayed SilenceTimesOut
