--------------------------- MODULE ChainSyncTrace ---------------------------
(* Trace validation for C21: every trace recorded from the real chain-sync   *)
(* client (harness/cmd/c21: engine `verif` events of both endpoints plus the  *)
(* driver's events, one recorder, one mutex) is replayed line by line        *)
(* through the observer of ChainSyncObs.tla - the same operators the model    *)
(* ChainSyncClient.tla is checked against.  Several traces are concatenated; *)
(* each starts with a Reset line that carries the configured pipeline limit  *)
(* (a), chainsync.DefaultPipelineLimit of the code under test (b) and whether *)
(* a block pipeline is configured (mt = 1: the CbBegin/CbEnd lines of kind F *)
(* then come from the pipeline's ApplyFunc).                                 *)
(* A rejected line ends the judgement of its trace only (rule recorded, rest *)
(* skipped), so one TLC run judges every trace of the file.                  *)
(*                                                                           *)
(* Lines:  ep, ev, mt, a, s1, h                                              *)
(*   client Deq mt=0 -> Req        client Deq mt=7 -> DoneW                  *)
(*   client Handle mt in 1..3 -> Handle     server Handle mt=7 -> SrvDone    *)
(*   SrvSend s1=kind a=tip h=payload        CbBegin s1=kind a=tip h=payload  *)
(*   CbEnd, StopCall, StopRet a=1 on error, PeerErr s2=text, CliErr, End s1=mode *)
(*   engine Error / TransErr: protocol error at that endpoint                *)
EXTENDS ChainSyncObs, Json, IOUtils

Trace == ndJsonDeserialize(IOEnv.VERIF_TRACE)

VARIABLES o,      \* the observer
          l,      \* next line
          skip,   \* the current trace was rejected: ignore its remaining lines
          errs    \* verdicts so far: <<line number, rule>>
tvars == <<o, l, skip, errs>>

TraceInit == /\ l = 1 /\ skip = FALSE /\ errs = <<>>
             /\ o = ObsNew(Trace[1].a, Trace[1].b, Trace[1].mt = 1)

Step(e) ==
    CASE e.ev = "Deq" /\ e.ep = "client" /\ e.mt = 0 -> ObsReq(o)
      [] e.ev = "Deq" /\ e.ep = "client" /\ e.mt = 7 -> ObsDoneW(o)
      [] e.ev = "Handle" /\ e.ep = "client" /\ e.mt \in {1, 2, 3} -> ObsHandle(o, e.mt)
      [] e.ev = "Handle" /\ e.ep = "server" /\ e.mt = 7 -> ObsSrvDone(o)
      [] e.ev = "SrvSend"  -> ObsSrvSend(o, e.s1, e.a, e.h)
      [] e.ev = "CbBegin"  -> ObsCbBegin(o, e.s1, e.a, e.h)
      [] e.ev = "CbEnd"    -> ObsCbEnd(o)
      [] e.ev = "StopCall" -> ObsStopCall(o)
      [] e.ev = "StopRet"  -> ObsStopRet(o, e.a = 1)
      [] e.ev \in {"Error", "TransErr"} /\ e.ep = "server" -> ObsPeerErr(o)
      [] e.ev \in {"Error", "TransErr"} /\ e.ep = "client" -> ObsCliErr(o)
      [] e.ev = "PeerErr"  -> IF e.s2 = "could not register protocol with muxer" /\ o.srvDone
                              THEN ObsPeerRestartErr(o) ELSE ObsPeerErr(o)
      [] e.ev = "CliErr"   -> ObsCliErr(o)
      [] e.ev = "End"      -> ObsEnd(o, e.s1)
      [] OTHER             -> o

\* the configured-0 case (finding F-C21z) is reported once per trace, at its End line,
\* without ending the judgement of the trace
StrictRule == "Z: outstanding requests exceeded max(configured limit, 1)"

TraceNext ==
    /\ l <= Len(Trace)
    /\ l' = l + 1
    /\ LET e == Trace[l] IN
         IF e.ev = "Reset"
           THEN o' = ObsNew(e.a, e.b, e.mt = 1) /\ skip' = FALSE /\ UNCHANGED errs
         ELSE IF skip
           THEN UNCHANGED <<o, skip, errs>>
         ELSE /\ o' = Step(e)
              /\ skip' = ~ObsOK(o')
              /\ errs' = IF ~ObsOK(o') THEN Append(errs, <<l, o'.err>>)
                         ELSE IF e.ev = "End" /\ o'.strict THEN Append(errs, <<l, StrictRule>>)
                         ELSE errs

TraceSpec == TraceInit /\ [][TraceNext]_tvars

\* reported once, when every line has been consumed
Report == (l = Len(Trace) + 1) => PrintT(<<"REJECTS", ToJson(errs)>>)
\* all lines consumed (checked as a postcondition on the search depth)
AllConsumed == TLCGet("stats").diameter = Len(Trace) + 1
=============================================================================
