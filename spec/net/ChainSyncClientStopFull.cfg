\* finding F-C21-stopfull: send queue smaller than the pipelined batch, Stop() as coded.
\* TLC is EXPECTED to report that TermStop is violated (Stop never returns).
CONSTANTS
  Limits = {3}
  Default = 4
  MaxHist = 2
  WithStop = TRUE
  Bug = "none"
  QCap = 2
  StopFix = FALSE
  EmitMax = 0
  Pipes = {FALSE}
  PCap = 1
SPECIFICATION Spec
INVARIANTS Safe TermStop
CHECK_DEADLOCK FALSE
