CONSTANTS
  MaxScript = 4
  MaxOps = 3
INIT Init
NEXT Next
INVARIANTS HandledBounded ErrorCutsOff PrefixMonotone
