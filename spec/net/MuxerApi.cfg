CONSTANTS
  MaxOps = 4
INIT Init
NEXT Next
INVARIANTS TypeOK GateHolds OncePerToken ErrorStops StoppedIsFinal RegRefusedWhenStopped Emit
