\* C46 quick: the churn dimension. Every history of exactly 4 calls on one pool (no VIEW) made of
\* genuine messages (counters 0..1) and Reg / Unreg / Evict of the pool, from every verifier /
\* insecure / registration configuration: 8 x 5^4 histories, among them accept / Unreg / Reg /
\* lower counter
CONSTANTS
  Pools = {"p1"}
  Counters = {0, 1}
  Faults <- GenuineOnly
  AdminOps <- PoolAdmin
  InitRegs <- AllRegs
  Mode = "hist"
  MaxLen = 4
  Chains = 0
  Replays <- NoReplays
INIT Init
NEXT Next
INVARIANTS TypeOK OnlyAuthentic RejectKeepsState Complete Monotone CacheIsLastAccepted FloorIsOfColdKey CounterFloorSurvivesChurn ProbesTellFloor KnownIsPresented EmitHist
