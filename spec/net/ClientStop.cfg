\* C15 quick: Stop() of four clients (one per kind of Stop), every scenario
CONSTANTS
  Clients = {"chainsync", "txsubmission", "localtxsubmission", "keepalive", "peersharing"}
  Scenarios = {"blocked", "twice", "conc", "afterclose", "handler"}
  Ends = {"userclose", "peerclose"}
  Emit = TRUE
SPECIFICATION Spec
INVARIANTS TypeOK MutexOwners DoneAfterHandler CloseAfterDone TerminalGood EmitOutcome
