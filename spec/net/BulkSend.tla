------------------------------ MODULE BulkSend ------------------------------
(***************************************************************************)
(* C15 (part 4) - the connection ends while the LOCAL endpoint still has a *)
(* large reply to send (protocol/protocol.go sendLoop: the hand-off of a   *)
(* segment to the muxer; muxer/muxer.go: the per-protocol sender goroutine *)
(* and its bounded channel).                                               *)
(*                                                                         *)
(*   sendLoop   cuts the queued message(s) into segments and hands each    *)
(*              one to the muxer:                                          *)
(*                  select { stopChan; recvDoneChan; muxerSendChan <- seg }*)
(*   sender     (muxer) takes a segment from the channel (capacity Cap),   *)
(*              writes it to the connection - the write blocks while the   *)
(*              peer does not read - and leaves on the muxer's doneChan or *)
(*              on a failed write                                          *)
(*   recvLoop   leaves on muxerDoneChan (nobody calls Protocol.Stop when   *)
(*              the connection ends: stopChan stays open) - unless its     *)
(*              handler is still inside enqueueMessage (a stream of        *)
(*              messages that filled the send queue), which the same       *)
(*              signals release                                            *)
(*   DoneChan   closes after both loops; clean-up goroutine after that     *)
(*                                                                         *)
(* The peer: reads k segments of the reply, stops reading, and closes (or  *)
(* stays silent: then the user's Close ends the connection).  Segs > Cap+1 *)
(* segments are pending, so sendLoop is blocked in the hand-off when the   *)
(* connection ends.  who: "msg" = one large message (tx-submission client  *)
(* ReplyTxs, local-state-query server Result), "stream" = many messages    *)
(* from inside a handler (block-fetch server RequestRange callback), which *)
(* may itself be blocked in enqueueMessage.                                *)
(*                                                                         *)
(* design "code": the hand-off selects on recvDoneChan as well; "norecv":  *)
(* it does not (sendLoop then waits for ever for room in a channel nobody  *)
(* reads) - TLC must reject that one.                                      *)
(***************************************************************************)
EXTENDS Integers, Sequences, FiniteSets, TLC, Json, IOUtils, CSV, SequencesExt

CONSTANTS Cap, Segs, MaxRead, Whos, Designs, Emit

CaseSpace == [who : Whos, reads : 0..MaxRead, close : BOOLEAN, design : Designs]

VARIABLES c,
          left, mq, wr,       \* segments not yet handed over; segments in the muxer's channel; sender "idle" / "writing" / "exit"
          sl, hk,             \* sendLoop "handoff" / "idle" / "exit"; handler "none" / "enq" (blocked in enqueueMessage)
          g, done, mux, connClosed,
          nread, eof,         \* segments the peer has read; the peer has closed
          sh, closeSig, errClosed, uc

vars == <<c, left, mq, wr, sl, hk, g, done, mux, connClosed, nread, eof, sh, closeSig, errClosed, uc>>

GNames == {"recv", "closer", "cleanup"}
HasRecvDone == c.design = "code"

Init ==
    /\ c \in CaseSpace
    /\ left = Segs /\ mq = 0 /\ wr = "idle" /\ sl = "handoff"
    /\ hk = (IF c.who = "stream" THEN "enq" ELSE "none")
    /\ g = [n \in GNames |-> TRUE] /\ done = FALSE /\ mux = "up" /\ connClosed = FALSE
    /\ nread = 0 /\ eof = FALSE
    /\ sh = "wait" /\ closeSig = FALSE /\ errClosed = FALSE /\ uc = "no"

Frame(vs) == UNCHANGED vs

\* sendLoop: the hand-off, or one of the shutdown cases of its select
SLHandoff ==
    /\ sl = "handoff"
    /\ \/ /\ mq < Cap /\ wr # "exit" /\ mq' = mq + 1 /\ left' = left - 1
          /\ sl' = (IF left = 1 THEN "idle" ELSE "handoff")
       \/ /\ HasRecvDone /\ ~g["recv"] /\ sl' = "exit" /\ UNCHANGED <<mq, left>>
    /\ UNCHANGED <<c, wr, hk, g, done, mux, connClosed, nread, eof, sh, closeSig, errClosed, uc>>
\* between two batches sendLoop waits with recvDoneChan in its select
SLIdleExit ==
    /\ sl = "idle" /\ ~g["recv"] /\ sl' = "exit"
    /\ UNCHANGED <<c, left, mq, wr, hk, g, done, mux, connClosed, nread, eof, sh, closeSig, errClosed, uc>>
\* the handler's enqueueMessage: room in the send queue (sendLoop took a message) or a shutdown signal
HEnqReleased ==
    /\ hk = "enq" /\ (mux = "down" \/ sl = "exit" \/ left <= 1)
    /\ hk' = "none"
    /\ UNCHANGED <<c, left, mq, wr, sl, g, done, mux, connClosed, nread, eof, sh, closeSig, errClosed, uc>>

\* the muxer's sender goroutine
Sender ==
    /\ \/ wr = "idle" /\ mq > 0 /\ mux = "up" /\ mq' = mq - 1 /\ wr' = "writing"
       \/ wr = "idle" /\ mux = "down" /\ wr' = "exit" /\ UNCHANGED mq
       \/ wr = "writing" /\ connClosed /\ wr' = "exit" /\ UNCHANGED mq        \* the write fails
    /\ UNCHANGED <<c, left, sl, hk, g, done, mux, connClosed, nread, eof, sh, closeSig, errClosed, uc>>

Exit(n) == g' = [g EXCEPT ![n] = FALSE]
RLExit == g["recv"] /\ hk = "none" /\ (mux = "down" \/ sl = "exit") /\ Exit("recv")
          /\ UNCHANGED <<c, left, mq, wr, sl, hk, done, mux, connClosed, nread, eof, sh, closeSig, errClosed, uc>>
Closer == g["closer"] /\ ~g["recv"] /\ sl = "exit" /\ Exit("closer") /\ done' = TRUE
          /\ UNCHANGED <<c, left, mq, wr, sl, hk, mux, connClosed, nread, eof, sh, closeSig, errClosed, uc>>
Cleanup == g["cleanup"] /\ done /\ Exit("cleanup")
           /\ UNCHANGED <<c, left, mq, wr, sl, hk, done, mux, connClosed, nread, eof, sh, closeSig, errClosed, uc>>

\* the muxer: EOF ends it; its clean-up closes the connection (which fails a blocked write)
MuxEof == mux = "up" /\ eof /\ mux' = "down"
          /\ UNCHANGED <<c, left, mq, wr, sl, hk, g, done, connClosed, nread, eof, sh, closeSig, errClosed, uc>>
MuxCloseConn == mux = "down" /\ ~connClosed /\ connClosed' = TRUE
                /\ UNCHANGED <<c, left, mq, wr, sl, hk, g, done, mux, nread, eof, sh, closeSig, errClosed, uc>>
Shutdown ==
    /\ \/ sh = "wait" /\ (closeSig \/ mux = "down") /\ sh' = "wg" /\ mux' = "down" /\ UNCHANGED errClosed
       \/ sh = "wg" /\ sh' = "exit" /\ errClosed' = TRUE /\ UNCHANGED mux
    /\ UNCHANGED <<c, left, mq, wr, sl, hk, g, done, connClosed, nread, eof, closeSig, uc>>

Library == SLHandoff \/ SLIdleExit \/ HEnqReleased \/ Sender \/ RLExit \/ Closer \/ Cleanup \/ MuxEof \/ MuxCloseConn \/ Shutdown

\* the peer reads a segment that is being written; then it stops; then it closes (or not)
PeerRead ==
    /\ nread < c.reads /\ wr = "writing" /\ ~eof
    /\ nread' = nread + 1 /\ wr' = "idle"
    /\ UNCHANGED <<c, left, mq, sl, hk, g, done, mux, connClosed, eof, sh, closeSig, errClosed, uc>>
PeerClose ==
    /\ c.close /\ nread = c.reads /\ ~eof /\ ~ENABLED Library
    /\ eof' = TRUE
    /\ UNCHANGED <<c, left, mq, wr, sl, hk, g, done, mux, connClosed, nread, sh, closeSig, errClosed, uc>>
PeerDone == nread = c.reads /\ (c.close => eof)
UserClose ==
    /\ uc = "no" /\ PeerDone /\ ~ENABLED Library
    /\ uc' = "in" /\ closeSig' = TRUE
    /\ UNCHANGED <<c, left, mq, wr, sl, hk, g, done, mux, connClosed, nread, eof, sh, errClosed>>
UserCloseRet ==
    /\ uc = "in" /\ sh # "wait" /\ uc' = "ret"
    /\ UNCHANGED <<c, left, mq, wr, sl, hk, g, done, mux, connClosed, nread, eof, sh, closeSig, errClosed>>

Next == Library \/ PeerRead \/ PeerClose \/ UserClose \/ UserCloseRet
Spec == Init /\ [][Next]_vars /\ WF_vars(SLHandoff) /\ WF_vars(SLIdleExit) /\ WF_vars(HEnqReleased) /\ WF_vars(Sender)
        /\ WF_vars(RLExit) /\ WF_vars(Closer) /\ WF_vars(Cleanup) /\ WF_vars(MuxEof) /\ WF_vars(MuxCloseConn) /\ WF_vars(Shutdown)
        /\ WF_vars(PeerRead) /\ WF_vars(PeerClose) /\ WF_vars(UserClose) /\ WF_vars(UserCloseRet)

TypeOK == /\ left \in 0..Segs /\ mq \in 0..Cap /\ wr \in {"idle", "writing", "exit"} /\ sl \in {"handoff", "idle", "exit"}
          /\ hk \in {"none", "enq"} /\ mux \in {"up", "down"} /\ sh \in {"wait", "wg", "exit"} /\ uc \in {"no", "in", "ret"}
\* the situation the family is about is reached: sendLoop blocked in the hand-off on a full channel behind a blocked write
Blocked == sl = "handoff" /\ mq = Cap /\ wr = "writing"
ReachesBlocked == (c.reads < Segs - Cap - 1) => <>Blocked
DoneAfterLoops == done => (~g["recv"] /\ sl = "exit" /\ hk = "none")
Alive == {n \in GNames : g[n]} \cup (IF sl # "exit" THEN {"send"} ELSE {}) \cup (IF ~done THEN {"state"} ELSE {})
         \cup (IF wr # "exit" THEN {"muxer:sender"} ELSE {}) \cup (IF sh # "exit" THEN {"shutdown"} ELSE {})
Terminal == ~ENABLED Next
CloseCompletes == (uc # "no") ~> (uc = "ret" /\ errClosed /\ Alive = {})
EndsWithConnection == (mux = "down") ~> (done /\ ~g["cleanup"])
TerminalGood == (Terminal /\ c.design = "code") => (uc = "ret" /\ errClosed /\ Alive = {})
\* for the defective-design config: what must NOT hold without the recvDoneChan case
NothingLeft == Terminal => Alive = {}

CaseRow(x) == [kind |-> "bulk", who |-> x.who, reads |-> x.reads, close |-> x.close]
ASSUME Emit => ndJsonSerialize("bulk_cases.ndjson", SetToSeq({CaseRow(x) : x \in {y \in CaseSpace : y.design = "code"}}))
Write(row) == CSVWrite("%1$s", <<ToJson(row)>>, "bulk_outcomes.ndjson")
EmitOutcome ==
    (Emit /\ Terminal /\ c.design = "code") =>
        Write([who |-> c.who, reads |-> c.reads, close |-> c.close, at |-> "end",
               alive |-> SetToSeq(Alive), closeret |-> uc = "ret", errclosed |-> errClosed])
==============================================================================
