\* C46 thorough: 8000 random histories of 24 calls (replays among the calls drawn)
CONSTANTS
  Pools = {"p1", "p2"}
  Counters = {0, 1, 2}
  Faults <- AllFaults
  AdminOps <- AllAdmin
  InitRegs <- AllRegs
  Mode = "chain"
  MaxLen = 24
  Chains = 500
  Replays <- AllReplays
INIT Init
NEXT Next
INVARIANTS TypeOK MonotoneLast CacheIsLastAccepted KnownIsPresented ReplaySourcedLast CounterFloorSurvivesChurnLast EmitHist
