\* C19 self-test: the legacy initiator (any version with a decoder, magic ignored) must FAIL ClientSafe
CONSTANTS
  W = 2
  CliMagics = {1, 2}
  SrvMagics = {1}
  CliPerVersion = TRUE
  SrvPerVersion = FALSE
  MaxSize = 2
  QCases <- AdvQ
  FlagSpace <- OnlyNoFlags
  FlagsInModel = FALSE
  Responder = "adversary"
  ClientDesign = "legacy"
  SentSpace = "configured"
INIT Init
NEXT Next
INVARIANTS TypeOK ClientSafe
