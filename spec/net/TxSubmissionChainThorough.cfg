\* C24 thorough: 1500 seeded pseudo-random histories of 16 calls
CONSTANTS
  Limit = 3
  Reqs <- AllReqs
  Replies <- SmallReplies
  Blockings <- BOOLEAN
  TxNs = {0, 1, 2}
  Mode = "chain"
  MaxLen = 16
  Chains = 1500
INIT Init
NEXT Next
INVARIANTS TypeOK AckedLeReceived AckWithinOutstanding OutstandingExact WireInRange RefusedLocally PerCall DoneOnlyFromBlocking OutRejectsOverLimit EmitHist
