\* C15 thorough: every call of the table, scripts of up to 3 steps, the table as extracted from the tree under test
CONSTANTS
  MaxLen = 3
  ApiFilter = {}
  TmoOnly = {}
  Design = "extracted"
  Emit = TRUE
SPECIFICATION Spec
INVARIANTS TypeOK DoneAfterHandler CleanAfterDone MutexOwner TimerSound TimeoutEndsSilence EmitOutcome
