\* C46: 16 x Chains random histories of 24 calls (seed: VERIF_SEED), replays of presented
\* messages among the calls drawn; the per-state laws are checked by DmqAuth.cfg and
\* DmqAuthReplay.cfg on all their states, here the history laws
CONSTANTS
  Pools = {"p1", "p2"}
  Counters = {0, 1, 2}
  Faults <- AllFaults
  AdminOps <- AllAdmin
  InitRegs <- AllRegs
  Mode = "chain"
  MaxLen = 24
  Chains = 40
  Replays <- AllReplays
INIT Init
NEXT Next
INVARIANTS TypeOK MonotoneLast CacheIsLastAccepted KnownIsPresented ReplaySourcedLast CounterFloorSurvivesChurnLast EmitHist
