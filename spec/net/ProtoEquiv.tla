----------------------------- MODULE ProtoEquiv -----------------------------
(* C16 -- mini-protocol state machines match the network specification      *)
(*                                                                          *)
(* Mode "prod" (TB binding).  impl_automata.json is what the running Go     *)
(* code says about itself (harness/cmd/c16 dump): for every protocol and    *)
(* mode, the state map, initial state and state context the REAL client and *)
(* server objects are configured with (and the package's exported StateMap  *)
(* variable), unfolded from the initial state by evaluating every           *)
(* transition -- MatchFuncs included -- on representative messages built    *)
(* with the package constructors.  TLC explores the PRODUCT of each dumped  *)
(* automaton with the reference automaton of MiniProtocols.tla; in every    *)
(* reachable product state agency must be equal, exactly the same labels    *)
(* enabled, terminal iff terminal.  Finite automata, so this decides        *)
(* language equivalence for message sequences of any length.  A violated    *)
(* invariant here is a disagreement between the code's own tables and the   *)
(* reference (bin/check exit 1), not a specification error.                 *)
(*                                                                          *)
(* Mode "seq" (RP binding).  Every label sequence of length <= MaxLen over  *)
(* the reference automaton is a state (history variable h); each one is     *)
(* emitted extended by every label of the protocol's alphabet with the      *)
(* reference verdict of that last step:                                     *)
(*   accept  the label is permitted in the state the sequence leads to      *)
(*   reject  not permitted, and its sender holds agency there               *)
(*   held    its sender does not hold agency there (or the state is         *)
(*           terminal): an endpoint must neither act on it nor send it      *)
EXTENDS MiniProtocols, Json, SequencesExt

CONSTANTS Mode,     \* "prod" | "seq"
          MaxLen    \* seq: length bound of the common prefix

VARIABLES k,        \* prod: index of the implementation automaton (seq: 0)
          i,        \* prod: state of the implementation automaton (seq: "-")
          h         \* seq: the label sequence so far (prod: << >>)

vars == <<p, s, k, i, h>>

-----------------------------------------------------------------------------
(* The dumped implementation automata                                       *)
T     == JsonDeserialize("impl_automata.json")
Autos == T.autos           \* sequence of [proto, src, init, states: <<[n, a]>>, trans: <<[f, l, t]>>]
Rng(q) == {q[j] : j \in DOMAIN q}

IStates(n)     == {x.n : x \in Rng(Autos[n].states)}
IAgency(n, q)  == (CHOOSE x \in Rng(Autos[n].states) : x.n = q).a
IFrom(n, q)    == {y \in Rng(Autos[n].trans) : y.f = q}
IEnabled(n, q) == {y.l : y \in IFrom(n, q)}
ISucc(n, q, l) == (CHOOSE y \in IFrom(n, q) : y.l = l).t

(* what is wrong in one product state: a set of law names *)
Disagreements(n, r, q) ==
  LET a  == Ref[Autos[n].proto]
      ia == IAgency(n, q)
      ra == a.agency[r]
  IN (IF ia # ra THEN {"agency:impl=" \o ia \o ":ref=" \o ra} ELSE {}) \cup
     (IF (ia = N) # (ra = N) THEN {"terminal"} ELSE {}) \cup
     {"label=" \o l \o ":extra"   : l \in IEnabled(n, q) \ Enabled(a, r)} \cup
     {"label=" \o l \o ":missing" : l \in Enabled(a, r) \ IEnabled(n, q)}

SameAgency        == IAgency(k, i) = Ref[p].agency[s]
SameTerminal      == (IAgency(k, i) = N) <=> Terminal(Ref[p], s)
SameEnabledLabels == IEnabled(k, i) = Enabled(Ref[p], s)
Equivalent == Mode = "prod" => (SameAgency /\ SameTerminal /\ SameEnabledLabels)

ProdInit == /\ k \in DOMAIN Autos
            /\ p = Autos[k].proto
            /\ s = Ref[p].init
            /\ i = Autos[k].init
            /\ h = << >>
ProdNext == \E l \in Enabled(Ref[p], s) \cap IEnabled(k, i) :
              /\ s' = Succ(Ref[p], s, l)
              /\ i' = ISucc(k, i, l)
              /\ UNCHANGED <<p, k, h>>

(* the same product as a value, for the verdict rows *)
RECURSIVE ProdReach(_, _)
ProdReach(n, X) ==
  LET a == Ref[Autos[n].proto]
      Y == X \cup UNION { { <<Succ(a, x[1], l), ISucc(n, x[2], l)>> :
                              l \in Enabled(a, x[1]) \cap IEnabled(n, x[2]) } : x \in X }
  IN IF Y = X THEN X ELSE ProdReach(n, Y)

VerdictRows ==
  UNION { { [idx |-> n, proto |-> Autos[n].proto, src |-> Autos[n].src, ref |-> x[1], state |-> x[2],
             viol |-> SetToSeq(Disagreements(n, x[1], x[2]))] :
            x \in ProdReach(n, { <<Ref[Autos[n].proto].init, Autos[n].init>> }) } : n \in DOMAIN Autos }

ASSUME Mode = "prod" => \A n \in DOMAIN Autos : Autos[n].proto \in Protos /\ Autos[n].init \in IStates(n)
ASSUME Mode = "prod" => ndJsonSerialize("verdicts.ndjson", SetToSeq(VerdictRows))

-----------------------------------------------------------------------------
(* Sequences over the reference automaton                                   *)
Verdict(a, r, d) == IF d \in Enabled(a, r) THEN "accept"
                    ELSE IF Side(a, d) = a.agency[r] THEN "reject" ELSE "held"

RECURSIVE Run(_, _, _)
Run(a, r, w) == IF w = << >> THEN r
                ELSE IF Head(w) \in Enabled(a, r) THEN Run(a, Succ(a, r, Head(w)), Tail(w)) ELSE "(stuck)"

SeqInit == p \in Protos /\ s = Ref[p].init /\ h = << >> /\ k = 0 /\ i = "-"
SeqNext == /\ Len(h) < MaxLen
           /\ \E t \in From(Ref[p], s) : h' = Append(h, t[2]) /\ s' = t[3]
           /\ UNCHANGED <<p, k, i>>

SeqInv == Mode = "seq" =>
  /\ Run(Ref[p], Ref[p].init, h) = s                      \* a sequence determines its state
  /\ \A d \in Labels(Ref[p]) :
       /\ Verdict(Ref[p], s, d) = "accept" <=> Run(Ref[p], Ref[p].init, Append(h, d)) # "(stuck)"
       /\ Terminal(Ref[p], s) => Verdict(Ref[p], s, d) = "held"
       /\ Verdict(Ref[p], s, d) = "reject" => Side(Ref[p], d) = Ref[p].agency[s]

(* all <<sequence, state>> with |sequence| <= n *)
RECURSIVE Paths(_, _)
Paths(a, n) ==
  IF n = 0 THEN { << << >>, a.init >> }
  ELSE LET P == Paths(a, n - 1)
           L == {x \in P : Len(x[1]) = n - 1}
       IN P \cup UNION { { <<Append(x[1], t[2]), t[3]>> : t \in From(a, x[2]) } : x \in L }

CaseRows(q) ==
  LET a == Ref[q]
  IN { [proto |-> q, seq |-> x[1], at |-> x[2], dev |-> d, expect |-> Verdict(a, x[2], d)] :
       x \in Paths(a, MaxLen), d \in Labels(a) }

LabelRows == UNION { { [proto |-> q, label |-> l, side |-> Side(Ref[q], l)] : l \in Labels(Ref[q]) } : q \in Protos }

(* every transition of every reference automaton is the last step of an emitted "accept" row *)
CoversEveryTransition ==
  \A q \in Protos : \A t \in Ref[q].trans : \E x \in Paths(Ref[q], MaxLen) : x[2] = t[1]

ASSUME Mode = "seq" => CoversEveryTransition
ASSUME Mode = "seq" => ndJsonSerialize("labels16.ndjson", SetToSeq(LabelRows))
ASSUME Mode = "seq" => ndJsonSerialize("cases16.ndjson", SetToSeq(UNION {CaseRows(q) : q \in Protos}))

Init == IF Mode = "prod" THEN ProdInit ELSE SeqInit
Next == IF Mode = "prod" THEN ProdNext ELSE SeqNext
=============================================================================
