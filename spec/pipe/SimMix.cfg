CONSTANTS
  NB = 5
  NSub = 3
  D = 3
  V = 0
  Cap = 2
  MayExpire = {2, 4}
  Design = "fixed"
  WithStop = FALSE
  WithDrain = TRUE
  Quals = {"good", "derr"}
  Scenario = "any"
  MaxPend = 1
INIT Init
NEXT SimNext
CHECK_DEADLOCK FALSE
INVARIANTS EmitInv
