------------------------------ MODULE Pipeline ------------------------------
(***************************************************************************)
(* The three-stage block pipeline of gouroboros (pipeline/*.go):           *)
(*   Submit -> submitChan -> decode workers -> decodedChan                 *)
(*          [-> validate workers -> validatedChan] -> apply runner -> results*)
(*                                                                         *)
(* The grain of the specification is the grain of the `verif` gates in the *)
(* code: one action = the code a goroutine runs from one gate to its next  *)
(* gate (Appendix B of DESIGN.md).  That is what lets a TLC behaviour be   *)
(* forced, step by step, on the real pipeline (harness/cmd/pipe) and what  *)
(* lets a recorded gate trace be validated against this module.            *)
(*                                                                         *)
(* Design = "fixed"  : sequence numbers are taken under a submit token and *)
(*                     only consumed by a successful send; PendingCount =  *)
(*                     submitted - completed.                              *)
(* Design = "legacy" : the code before the two `fix:` commits (sequence    *)
(*                     number allocated before the blocking send;          *)
(*                     PendingCount = channel lengths + apply buffer).     *)
(*                     Kept so that the C43/C44 counterexamples stay       *)
(*                     reproducible (cfg PipelineLegacy*.cfg).             *)
(***************************************************************************)
EXTENDS Integers, Sequences, FiniteSets, TLC, SequencesExt, FiniteSetsExt

CONSTANTS
    NB,         \* number of Submit calls; block ids are 1..NB
    NSub,       \* number of submitter goroutines; block b is submitted by ((b-1) % NSub)+1
    D, V,       \* decode workers (>= 1), validate workers (0 = no validate stage)
    Cap,        \* capacity of every inter-stage channel (PrefetchBufferSize)
    MayExpire,  \* blocks whose Submit context may expire
    Design,     \* "fixed" | "legacy"
    WithStop,   \* a Stop() call may happen
    WithDrain,  \* a WaitForDrain() call may happen
    Quals       \* block fates explored: subset of {"good","derr","verr"}

ASSUME /\ NB \in Nat /\ NSub \in 1..NB /\ D \in 1..4 /\ V \in 0..4 /\ Cap \in 1..8
       /\ MayExpire \subseteq 1..NB /\ Design \in {"fixed", "legacy"}

Blocks  == 1..NB
Owner(b) == ((b - 1) % NSub) + 1
NS      == IF V > 0 THEN 2 ELSE 1             \* number of worker stages
WIds    == {<<1, k>> : k \in 1..D} \cup {<<2, k>> : k \in 1..V}
Fixed   == Design = "fixed"

VARIABLES
    quality,   \* [Blocks -> {"good","derr","verr"}]  fate of the block, fixed at Init
    spc,       \* [Blocks -> submit program counter / outcome]
    seqOf,     \* [Blocks -> sequence number given to the block, -1 before]
    seqCtr,    \* sequenceCounter
    token,     \* holder of the submit token (0 = free)            [fixed]
    subCnt,    \* submittedCount                                   [fixed]
    compCnt,   \* completedCount                                   [fixed]
    ch,        \* [0..NS -> Seq(Blocks)]: submitChan, decodedChan, validatedChan
    closed,    \* [0..NS -> BOOLEAN]
    wpc, wit,  \* worker pc / held block, indexed by <<stage, k>>
    status,    \* [Blocks -> {"raw","dec","derr","val","verr","skip"}] what the stages recorded
    apc, acur, aproc, pend, nextSeq, inFlight,   \* apply runner + ApplyStage
    applied,   \* history: blocks handed to ApplyFunc, in call order
    results,   \* history: blocks sent on the results stream
    finished,  \* set of blocks the apply stage is done with (applied or skipped)
    cancelled, stopped, stopPc,
    drainPc, drainSnap, drainRead, drainVal,
    hist       \* the behaviour as a sequence of action labels (for replay; hidden by VIEW)

vars == <<quality, spc, seqOf, seqCtr, token, subCnt, compCnt, ch, closed, wpc, wit,
          status, apc, acur, aproc, pend, nextSeq, inFlight, applied, results, finished,
          cancelled, stopped, stopPc, drainPc, drainSnap, drainRead, drainVal, hist>>

view == <<quality, spc, seqOf, seqCtr, token, subCnt, compCnt, ch, closed, wpc, wit,
          status, apc, acur, aproc, pend, nextSeq, inFlight, applied, results, finished,
          cancelled, stopped, stopPc, drainPc, drainSnap, drainRead, drainVal>>

Qualities == IF V > 0 THEN Quals ELSE Quals \ {"verr"}

Init ==
    /\ quality \in [Blocks -> Qualities]
    /\ spc = [b \in Blocks |-> "wait"]
    /\ seqOf = [b \in Blocks |-> -1]
    /\ seqCtr = 0 /\ token = 0 /\ subCnt = 0 /\ compCnt = 0
    /\ ch = [i \in 0..NS |-> <<>>]
    /\ closed = [i \in 0..NS |-> FALSE]
    /\ wpc = [w \in WIds |-> "idle"]
    /\ wit = [w \in WIds |-> 0]
    /\ status = [b \in Blocks |-> "raw"]
    /\ apc = "idle" /\ acur = 0 /\ aproc = <<>> /\ pend = {} /\ nextSeq = 0 /\ inFlight = 0
    /\ applied = <<>> /\ results = <<>> /\ finished = {}
    /\ cancelled = FALSE /\ stopped = FALSE /\ stopPc = "none"
    /\ drainPc = "none" /\ drainSnap = {} /\ drainRead = 0 /\ drainVal = -1
    /\ hist = <<>>

H(r) == hist' = Append(hist, r)

SubTerminal(b) == spc[b] \in {"ok", "expired", "stopped"}
HoldsRLock(b)  == spc[b] \in {"begin", "waitTok", "send"}

-----------------------------------------------------------------------------
(* Submit                                                                  *)

\* gate sub.begin is reached after RLock and the stopped check
SubBegin(b) ==
    /\ spc[b] = "wait"
    /\ \A c \in Blocks : (c < b /\ Owner(c) = Owner(b)) => SubTerminal(c)
    /\ stopPc # "locking"            \* a pending write lock blocks new readers
    /\ spc' = [spc EXCEPT ![b] = IF stopped THEN "stopped" ELSE "begin"]
    /\ H([a |-> "SubBegin", b |-> b, out |-> IF stopped THEN "stopped" ELSE "gate"])
    /\ UNCHANGED <<quality, seqOf, seqCtr, token, subCnt, compCnt, ch, closed, wpc, wit, status,
                   apc, acur, aproc, pend, nextSeq, inFlight, applied, results, finished,
                   cancelled, stopped, stopPc, drainPc, drainSnap, drainRead, drainVal>>

\* from gate sub.begin to gate sub.send: the sequence number is fixed
SubAlloc(b) ==
    /\ spc[b] = "begin"
    /\ IF Fixed
         THEN /\ token = 0
              /\ token' = b /\ subCnt' = subCnt + 1 /\ UNCHANGED seqCtr
         ELSE /\ seqCtr' = seqCtr + 1 /\ UNCHANGED <<token, subCnt>>
    /\ seqOf' = [seqOf EXCEPT ![b] = seqCtr]
    /\ spc' = [spc EXCEPT ![b] = "send"]
    /\ H([a |-> "SubAlloc", b |-> b, seq |-> seqCtr])
    /\ UNCHANGED <<quality, compCnt, ch, closed, wpc, wit, status,
                   apc, acur, aproc, pend, nextSeq, inFlight, applied, results, finished,
                   cancelled, stopped, stopPc, drainPc, drainSnap, drainRead, drainVal>>

\* [fixed] waiting for the token, the caller's context expires / the pipeline stops
SubAllocFail(b, why) ==
    /\ Fixed /\ spc[b] = "begin"
    /\ \/ why = "expired" /\ b \in MayExpire
       \/ why = "stopped" /\ cancelled
    /\ spc' = [spc EXCEPT ![b] = why]
    /\ H([a |-> "SubAllocFail", b |-> b, out |-> why, forced |-> token # 0])
    /\ UNCHANGED <<quality, seqOf, seqCtr, token, subCnt, compCnt, ch, closed, wpc, wit, status,
                   apc, acur, aproc, pend, nextSeq, inFlight, applied, results, finished,
                   cancelled, stopped, stopPc, drainPc, drainSnap, drainRead, drainVal>>

\* [fixed] gate sub.begin -> the submitter blocks in the select on the submit token, which another
\* submitter holds (at most one waiter is modelled: with several, Go chooses the next holder at random)
Waiters == {b \in Blocks : spc[b] = "waitTok"}
SubGo(b) ==
    /\ Fixed /\ spc[b] = "begin" /\ token # 0 /\ Waiters = {}
    /\ spc' = [spc EXCEPT ![b] = "waitTok"]
    /\ H([a |-> "SubGo", b |-> b])
    /\ UNCHANGED <<quality, seqOf, seqCtr, token, subCnt, compCnt, ch, closed, wpc, wit, status,
                   apc, acur, aproc, pend, nextSeq, inFlight, applied, results, finished,
                   cancelled, stopped, stopPc, drainPc, drainSnap, drainRead, drainVal>>

\* the waiting submitter's own context expires / the pipeline stops (forced: the token is busy)
SubWaitFail(b, why) ==
    /\ spc[b] = "waitTok"
    /\ \/ why = "expired" /\ b \in MayExpire
       \/ why = "stopped" /\ cancelled
    /\ spc' = [spc EXCEPT ![b] = why]
    /\ H([a |-> "SubWaitFail", b |-> b, out |-> why, forced |-> TRUE])
    /\ UNCHANGED <<quality, seqOf, seqCtr, token, subCnt, compCnt, ch, closed, wpc, wit, status,
                   apc, acur, aproc, pend, nextSeq, inFlight, applied, results, finished,
                   cancelled, stopped, stopPc, drainPc, drainSnap, drainRead, drainVal>>

\* releasing the token wakes the waiter, which takes the token, the NEXT sequence number (read
\* after the release) and reaches gate sub.send
Wake == IF Waiters = {} THEN 0 ELSE CHOOSE w \in Waiters : TRUE

SubSend(b) ==
    /\ spc[b] = "send"
    /\ Len(ch[0]) < Cap
    /\ ch' = [ch EXCEPT ![0] = Append(@, b)]
    /\ LET w == IF Fixed THEN Wake ELSE 0
           nseq == IF Fixed THEN seqCtr + 1 ELSE seqCtr IN
         /\ seqCtr' = nseq
         /\ spc' = [spc EXCEPT ![b] = "ok", ![IF w = 0 THEN b ELSE w] = IF w = 0 THEN "ok" ELSE "send"]
         /\ seqOf' = IF w = 0 THEN seqOf ELSE [seqOf EXCEPT ![w] = nseq]
         /\ token' = IF Fixed THEN w ELSE token
         /\ subCnt' = IF w = 0 THEN subCnt ELSE subCnt + 1
         /\ H([a |-> "SubSend", b |-> b, forced |-> ~cancelled, wake |-> w, wseq |-> nseq])
    /\ UNCHANGED <<quality, compCnt, closed, wpc, wit, status,
                   apc, acur, aproc, pend, nextSeq, inFlight, applied, results, finished,
                   cancelled, stopped, stopPc, drainPc, drainSnap, drainRead, drainVal>>

\* the blocking select ends with the caller's context (why = "expired") or the
\* pipeline's (why = "stopped"); Go may choose these whenever they are ready,
\* the outcome is forced only when the channel is full
SubFail(b, why) ==
    /\ spc[b] = "send"
    /\ \/ why = "expired" /\ b \in MayExpire
       \/ why = "stopped" /\ cancelled
    /\ LET w == IF Fixed THEN Wake ELSE 0 IN
         /\ spc' = [spc EXCEPT ![b] = why, ![IF w = 0 THEN b ELSE w] = IF w = 0 THEN why ELSE "send"]
         /\ seqOf' = IF w = 0 THEN seqOf ELSE [seqOf EXCEPT ![w] = seqCtr]
         /\ token' = IF Fixed THEN w ELSE token
         /\ subCnt' = IF Fixed /\ w = 0 THEN subCnt - 1 ELSE subCnt
         /\ H([a |-> "SubFail", b |-> b, out |-> why, forced |-> (Len(ch[0]) = Cap /\ (w = 0 \/ ~cancelled)),
               wake |-> w, wseq |-> seqCtr])
    /\ UNCHANGED <<quality, seqCtr, compCnt, ch, closed, wpc, wit, status,
                   apc, acur, aproc, pend, nextSeq, inFlight, applied, results, finished,
                   cancelled, stopped, stopPc, drainPc, drainSnap, drainRead, drainVal>>

-----------------------------------------------------------------------------
(* Stage workers (StageWorkerPool.worker)                                  *)

\* what stage s records on block b (Process); a cancelled context makes
\* Process return before touching the item
Processed(s, b) ==
    IF cancelled THEN status[b]
    ELSE IF s = 1 THEN (IF quality[b] = "derr" THEN "derr" ELSE "dec")
    ELSE IF status[b] # "dec" THEN status[b]           \* validation skips undecoded items
    ELSE IF quality[b] = "verr" THEN "verr" ELSE "val"

\* gate w.idle -> receive -> Process -> gate w.emit
WTake(s, k) ==
    /\ wpc[<<s, k>>] = "idle"
    /\ ch[s - 1] # <<>>
    /\ LET b == Head(ch[s - 1]) IN
         /\ wit' = [wit EXCEPT ![<<s, k>>] = b]
         /\ status' = [status EXCEPT ![b] = Processed(s, b)]
         /\ H([a |-> "WTake", s |-> s, b |-> b, forced |-> ~cancelled])
    /\ ch' = [ch EXCEPT ![s - 1] = Tail(@)]
    /\ wpc' = [wpc EXCEPT ![<<s, k>>] = "have"]
    /\ UNCHANGED <<quality, spc, seqOf, seqCtr, token, subCnt, compCnt, closed,
                   apc, acur, aproc, pend, nextSeq, inFlight, applied, results, finished,
                   cancelled, stopped, stopPc, drainPc, drainSnap, drainRead, drainVal>>

\* gate w.emit -> (error report) -> send downstream -> gate w.idle
WEmit(s, k) ==
    /\ wpc[<<s, k>>] = "have"
    /\ Len(ch[s]) < Cap
    /\ ch' = [ch EXCEPT ![s] = Append(@, wit[<<s, k>>])]
    /\ wpc' = [wpc EXCEPT ![<<s, k>>] = "idle"]
    /\ wit' = [wit EXCEPT ![<<s, k>>] = 0]
    /\ H([a |-> "WEmit", s |-> s, b |-> wit[<<s, k>>], forced |-> ~cancelled])
    /\ UNCHANGED <<quality, spc, seqOf, seqCtr, token, subCnt, compCnt, closed, status,
                   apc, acur, aproc, pend, nextSeq, inFlight, applied, results, finished,
                   cancelled, stopped, stopPc, drainPc, drainSnap, drainRead, drainVal>>

\* a worker that holds a block sees the cancelled context in one of its selects
WDrop(s, k) ==
    /\ wpc[<<s, k>>] = "have" /\ cancelled
    /\ wpc' = [wpc EXCEPT ![<<s, k>>] = "exit"]
    /\ wit' = [wit EXCEPT ![<<s, k>>] = 0]
    /\ H([a |-> "WDrop", s |-> s, b |-> wit[<<s, k>>], forced |-> Len(ch[s]) = Cap])
    /\ UNCHANGED <<quality, spc, seqOf, seqCtr, token, subCnt, compCnt, ch, closed, status,
                   apc, acur, aproc, pend, nextSeq, inFlight, applied, results, finished,
                   cancelled, stopped, stopPc, drainPc, drainSnap, drainRead, drainVal>>

WExit(s, k) ==
    /\ wpc[<<s, k>>] = "idle"
    /\ cancelled \/ (closed[s - 1] /\ ch[s - 1] = <<>>)
    /\ wpc' = [wpc EXCEPT ![<<s, k>>] = "exit"]
    /\ H([a |-> "WExit", s |-> s, forced |-> ch[s - 1] = <<>>])
    /\ UNCHANGED <<quality, spc, seqOf, seqCtr, token, subCnt, compCnt, ch, closed, wit, status,
                   apc, acur, aproc, pend, nextSeq, inFlight, applied, results, finished,
                   cancelled, stopped, stopPc, drainPc, drainSnap, drainRead, drainVal>>

-----------------------------------------------------------------------------
(* Apply stage (ApplyStageRunner.run + ApplyStage.ProcessWithStatus)        *)

Applicable(b) == ~cancelled /\ status[b] = (IF V > 0 THEN "val" ELSE "dec")

\* The runner works through the block it was given and then through the
\* consecutive buffered ones, until it reaches a block it has to apply (gate
\* apply.call, inside ApplyFunc) or the chain ends (gate a.done).
RECURSIVE Consider(_, _, _, _, _), Chain(_, _, _, _)
Consider(b, ns, pd, proc, fin) ==
    IF Applicable(b)
      THEN [pc |-> "applying", cur |-> b, ns |-> ns, pd |-> pd, proc |-> proc, fin |-> fin]
      ELSE Chain(ns, pd, Append(proc, b), fin \cup {b})
Chain(ns, pd, proc, fin) ==
    IF ~cancelled /\ \E p \in pd : seqOf[p] = ns
      THEN LET p == CHOOSE q \in pd : seqOf[q] = ns
           IN Consider(p, ns + 1, pd \ {p}, proc, fin)
      ELSE [pc |-> "done", cur |-> 0, ns |-> ns, pd |-> pd, proc |-> proc, fin |-> fin]

SetApply(r) ==
    /\ apc' = r.pc /\ acur' = r.cur /\ nextSeq' = r.ns /\ pend' = r.pd
    /\ aproc' = r.proc /\ finished' = r.fin
    /\ inFlight' = IF r.pc = "applying" THEN 1 ELSE 0
    /\ compCnt' = IF Fixed /\ r.pc = "done" THEN compCnt + Len(r.proc) ELSE compCnt

\* gate a.idle -> receive -> gate a.took
ATake ==
    /\ apc = "idle" /\ ch[NS] # <<>>
    /\ acur' = Head(ch[NS])
    /\ ch' = [ch EXCEPT ![NS] = Tail(@)]
    /\ apc' = "took"
    /\ H([a |-> "ATake", b |-> Head(ch[NS]), forced |-> ~cancelled])
    /\ UNCHANGED <<quality, spc, seqOf, seqCtr, token, subCnt, compCnt, closed, wpc, wit, status,
                   aproc, pend, nextSeq, inFlight, applied, results, finished,
                   cancelled, stopped, stopPc, drainPc, drainSnap, drainRead, drainVal>>

\* gate a.took -> ProcessWithStatus ...
AProc ==
    /\ apc = "took"
    /\ IF cancelled
         THEN \* ProcessWithStatus returns ctx.Err(); the error send races with ctx.Done
              /\ \E nxt \in {"idle", "exit"} : apc' = nxt
              /\ acur' = 0
              /\ H([a |-> "AProc", b |-> acur, out |-> "cancelled", forced |-> FALSE])
              /\ UNCHANGED <<aproc, pend, nextSeq, inFlight, finished, compCnt>>
         ELSE IF seqOf[acur] # nextSeq
           THEN /\ pend' = pend \cup {acur}
                /\ apc' = "idle" /\ acur' = 0
                /\ H([a |-> "AProc", b |-> acur, out |-> "buffer", forced |-> TRUE])
                /\ UNCHANGED <<aproc, nextSeq, inFlight, finished, compCnt>>
           ELSE LET r == Consider(acur, nextSeq + 1, pend, <<>>, finished) IN
                /\ SetApply(r)
                /\ H([a |-> "AProc", b |-> acur, out |-> r.pc, nxt |-> r.cur, forced |-> TRUE])
    /\ UNCHANGED <<quality, spc, seqOf, seqCtr, token, subCnt, ch, closed, wpc, wit, status,
                   applied, results, cancelled, stopped, stopPc,
                   drainPc, drainSnap, drainRead, drainVal>>

\* gate apply.call (inside ApplyFunc) -> return -> buffered chain -> next gate
AApplyEnd ==
    /\ apc = "applying"
    /\ applied' = Append(applied, acur)
    /\ LET r == Chain(nextSeq, pend, Append(aproc, acur), finished \cup {acur}) IN
         /\ SetApply(r)
         /\ H([a |-> "AApplyEnd", b |-> acur, out |-> r.pc, nxt |-> r.cur, forced |-> ~cancelled])
    /\ UNCHANGED <<quality, spc, seqOf, seqCtr, token, subCnt, ch, closed, wpc, wit, status,
                   results, cancelled, stopped, stopPc, drainPc, drainSnap, drainRead, drainVal>>

\* gate a.done -> forward every processed item -> gate a.idle
\* (the application keeps reading Results() and Errors(), so these sends do
\*  not block; after cancellation each send races with ctx.Done)
AFwd ==
    /\ apc = "done"
    /\ IF cancelled
         THEN \E keep \in SUBSET (1..Len(aproc)) :
                results' = results \o SelectSeq([i \in 1..Len(aproc) |-> IF i \in keep THEN aproc[i] ELSE 0],
                                                LAMBDA x : x # 0)
         ELSE results' = results \o aproc
    /\ aproc' = <<>> /\ apc' = "idle"
    /\ H([a |-> "AFwd", n |-> Len(aproc), forced |-> ~cancelled])
    /\ UNCHANGED <<quality, spc, seqOf, seqCtr, token, subCnt, compCnt, ch, closed, wpc, wit, status,
                   acur, pend, nextSeq, inFlight, applied, finished,
                   cancelled, stopped, stopPc, drainPc, drainSnap, drainRead, drainVal>>

AExit ==
    /\ apc = "idle"
    /\ cancelled \/ (closed[NS] /\ ch[NS] = <<>>)
    /\ apc' = "exit"
    /\ H([a |-> "AExit", forced |-> ch[NS] = <<>>])
    /\ UNCHANGED <<quality, spc, seqOf, seqCtr, token, subCnt, compCnt, ch, closed, wpc, wit, status,
                   acur, aproc, pend, nextSeq, inFlight, applied, results, finished,
                   cancelled, stopped, stopPc, drainPc, drainSnap, drainRead, drainVal>>

-----------------------------------------------------------------------------
(* Stop()                                                                   *)

StopCancel ==
    /\ WithStop /\ stopPc = "none"
    /\ cancelled' = TRUE /\ stopPc' = "locking"
    /\ H([a |-> "StopCancel"])
    /\ UNCHANGED <<quality, spc, seqOf, seqCtr, token, subCnt, compCnt, ch, closed, wpc, wit, status,
                   apc, acur, aproc, pend, nextSeq, inFlight, applied, results, finished,
                   stopped, drainPc, drainSnap, drainRead, drainVal>>

StopLock ==
    /\ stopPc = "locking"
    /\ \A b \in Blocks : ~HoldsRLock(b)
    /\ stopped' = TRUE
    /\ closed' = [closed EXCEPT ![0] = TRUE]
    /\ stopPc' = "wait1"
    /\ H([a |-> "StopLock"])
    /\ UNCHANGED <<quality, spc, seqOf, seqCtr, token, subCnt, compCnt, ch, wpc, wit, status,
                   apc, acur, aproc, pend, nextSeq, inFlight, applied, results, finished,
                   cancelled, drainPc, drainSnap, drainRead, drainVal>>

\* pool.Stop() returns when every worker of the stage has exited; the stage's
\* output channel is closed next
StopStage(s) ==
    /\ stopPc = IF s = 1 THEN "wait1" ELSE "wait2"
    /\ \A w \in WIds : w[1] = s => wpc[w] = "exit"
    /\ closed' = [closed EXCEPT ![s] = TRUE]
    /\ stopPc' = IF s < NS THEN "wait2" ELSE "waitA"
    /\ H([a |-> "StopStage", s |-> s])
    /\ UNCHANGED <<quality, spc, seqOf, seqCtr, token, subCnt, compCnt, ch, wpc, wit, status,
                   apc, acur, aproc, pend, nextSeq, inFlight, applied, results, finished,
                   cancelled, stopped, drainPc, drainSnap, drainRead, drainVal>>

StopApply ==
    /\ stopPc = "waitA" /\ apc = "exit"
    /\ stopPc' = "done"
    /\ H([a |-> "StopApply"])
    /\ UNCHANGED <<quality, spc, seqOf, seqCtr, token, subCnt, compCnt, ch, closed, wpc, wit, status,
                   apc, acur, aproc, pend, nextSeq, inFlight, applied, results, finished,
                   cancelled, stopped, drainPc, drainSnap, drainRead, drainVal>>

-----------------------------------------------------------------------------
(* WaitForDrain() / PendingCount()                                          *)

SumLen == LET RECURSIVE S(_)
              S(i) == IF i < 0 THEN 0 ELSE Len(ch[i]) + S(i - 1)
          IN S(NS)

DrainBegin ==
    /\ WithDrain /\ drainPc = "none"
    /\ drainSnap' = {b \in Blocks : spc[b] = "ok"}
    /\ drainPc' = "poll"
    /\ H([a |-> "DrainBegin"])
    /\ UNCHANGED <<quality, spc, seqOf, seqCtr, token, subCnt, compCnt, ch, closed, wpc, wit, status,
                   apc, acur, aproc, pend, nextSeq, inFlight, applied, results, finished,
                   cancelled, stopped, stopPc, drainRead, drainVal>>

\* gate wfd.poll -> PendingCount reads its first operand -> gate pc.mid
DrainRead1 ==
    /\ drainPc = "poll"
    /\ drainRead' = IF Fixed THEN subCnt ELSE SumLen
    /\ drainPc' = "mid"
    /\ H([a |-> "DrainRead1", v |-> IF Fixed THEN subCnt ELSE SumLen])
    /\ UNCHANGED <<quality, spc, seqOf, seqCtr, token, subCnt, compCnt, ch, closed, wpc, wit, status,
                   apc, acur, aproc, pend, nextSeq, inFlight, applied, results, finished,
                   cancelled, stopped, stopPc, drainSnap, drainVal>>

\* gate pc.mid -> second operand -> WaitForDrain returns nil iff the count is 0
DrainRead2 ==
    /\ drainPc = "mid"
    /\ LET v == IF Fixed THEN Max({0, drainRead - compCnt})
                         ELSE drainRead + Cardinality(pend) + inFlight IN
         /\ drainVal' = v
         /\ drainPc' = IF v = 0 THEN "ret" ELSE "poll"
         /\ H([a |-> "DrainRead2", v |-> v])
    /\ UNCHANGED <<quality, spc, seqOf, seqCtr, token, subCnt, compCnt, ch, closed, wpc, wit, status,
                   apc, acur, aproc, pend, nextSeq, inFlight, applied, results, finished,
                   cancelled, stopped, stopPc, drainSnap, drainRead>>

-----------------------------------------------------------------------------
Progress ==   \* the steps the Go runtime will eventually schedule
    \/ \E b \in Blocks : SubAlloc(b) \/ SubGo(b) \/ SubSend(b) \/ SubFail(b, "stopped") \/ SubAllocFail(b, "stopped")
                           \/ SubWaitFail(b, "stopped")
    \/ \E w \in WIds : WTake(w[1], w[2]) \/ WEmit(w[1], w[2]) \/ WExit(w[1], w[2]) \/ WDrop(w[1], w[2])
    \/ ATake \/ AProc \/ AApplyEnd \/ AFwd \/ AExit
    \/ StopLock \/ \E s \in 1..NS : StopStage(s)
    \/ StopApply
    \/ DrainRead1 \/ DrainRead2

Env ==        \* what the application and the clock may or may not do
    \/ \E b \in Blocks : SubBegin(b) \/ SubFail(b, "expired") \/ SubAllocFail(b, "expired") \/ SubWaitFail(b, "expired")
    \/ StopCancel \/ DrainBegin

Next == Progress \/ Env

\* per-goroutine weak fairness (the Go scheduler starves nobody)
Fairness ==
    /\ \A b \in Blocks : WF_vars(SubBegin(b) \/ SubAlloc(b) \/ SubGo(b) \/ SubSend(b) \/ SubFail(b, "stopped")
                                  \/ SubAllocFail(b, "stopped") \/ SubWaitFail(b, "stopped"))
    /\ \A w \in WIds : WF_vars(WTake(w[1], w[2]) \/ WEmit(w[1], w[2]) \/ WExit(w[1], w[2])
                                \/ WDrop(w[1], w[2]))
    /\ WF_vars(ATake \/ AProc \/ AApplyEnd \/ AFwd \/ AExit)
    /\ WF_vars(StopLock \/ StopApply \/ \E s \in 1..NS : StopStage(s))
    /\ WF_vars(DrainRead1 \/ DrainRead2)

Spec == Init /\ [][Next]_vars /\ Fairness

-----------------------------------------------------------------------------
(* Properties                                                               *)

Rng(s) == {s[i] : i \in DOMAIN s}
NoDup(s) == \A i, j \in DOMAIN s : i # j => s[i] # s[j]

TypeOK ==
    /\ spc \in [Blocks -> {"wait", "begin", "waitTok", "send", "ok", "expired", "stopped"}]
    /\ \A i \in 0..NS : Len(ch[i]) <= Cap
    /\ inFlight \in 0..1
    /\ Fixed => compCnt <= subCnt

\* C42: applied = good, successfully submitted blocks, in sequence order, once
AppliedInOrder ==
    /\ NoDup(applied)
    /\ \A i \in DOMAIN applied :
         /\ quality[applied[i]] = "good"
         /\ spc[applied[i]] = "ok"
         /\ \A j \in DOMAIN applied : i < j => seqOf[applied[i]] < seqOf[applied[j]]
\* every good block with a smaller sequence number was applied before
AppliedNoSkip ==
    \A i \in DOMAIN applied : \A c \in Blocks :
        (spc[c] = "ok" /\ quality[c] = "good" /\ seqOf[c] < seqOf[applied[i]])
            => \E j \in 1..i : applied[j] = c
ResultsAtMostOnce == NoDup(results) /\ \A i \in DOMAIN results : spc[results[i]] = "ok"
ResultsInOrder ==
    \A i, j \in DOMAIN results : i < j => seqOf[results[i]] < seqOf[results[j]]

\* C42: no send on a closed channel can be pending (that would panic)
NoSendOnClosed ==
    /\ \A b \in Blocks : spc[b] = "send" => ~closed[0]
    /\ \A w \in WIds : wpc[w] = "have" => ~closed[w[1]]

StopDoneAllExited ==
    stopPc = "done" => /\ \A w \in WIds : wpc[w] = "exit"
                       /\ apc = "exit"
                       /\ \A b \in Blocks : ~HoldsRLock(b)

\* sequence numbers of successful submissions are dense        [fixed design]
DenseSeq ==
    Fixed => \A b \in Blocks : spc[b] = "ok" =>
                 \A n \in 0..(seqOf[b] - 1) : \E c \in Blocks : spc[c] = "ok" /\ seqOf[c] = n

\* C43: WaitForDrain returned nil  =>  everything submitted before it began is finished
DrainSound == drainPc = "ret" => drainSnap \subseteq finished

\* C42/C44 at quiescence: when nothing is cancelled and the pipeline cannot
\* move any more, every successfully submitted block has been through it
PipelineIdle ==
    /\ \A b \in Blocks : spc[b] \notin {"begin", "waitTok", "send"}
    /\ \A i \in 0..NS : ch[i] = <<>>
    /\ \A w \in WIds : wpc[w] = "idle"
    /\ apc = "idle"
OkBlocks == {b \in Blocks : spc[b] = "ok"}
QuiescentComplete ==
    (~cancelled /\ PipelineIdle) =>
        /\ Rng(results) = OkBlocks
        /\ Rng(applied) = {b \in OkBlocks : quality[b] = "good"}
        /\ pend = {}

\* C44 as liveness: a successful submission of a good block is eventually applied
\* (when the pipeline is not stopped)
OkEventuallyApplied ==
    \A b \in Blocks : (spc[b] = "ok" /\ quality[b] = "good") ~> (b \in Rng(applied) \/ cancelled)
OkEventuallyOnResults ==
    \A b \in Blocks : (spc[b] = "ok") ~> (b \in Rng(results) \/ cancelled)
\* C42: Stop ends every pipeline goroutine
StopTerminates == (stopPc = "locking") ~> (stopPc = "done")
\* C43 liveness side: draining terminates when the pipeline is left alone
DrainTerminates == (drainPc = "poll") ~> (drainPc = "ret" \/ cancelled)

=============================================================================
