CONSTANTS
  NB = 3
  NSub = 2
  D = 1
  V = 1
  Cap = 1
  MayExpire = {2}
  Design = "fixed"
  WithStop = TRUE
  WithDrain = FALSE
  Quals = {"good", "derr", "verr"}
SPECIFICATION Spec
VIEW view
CHECK_DEADLOCK FALSE
INVARIANTS TypeOK AppliedInOrder AppliedNoSkip ResultsAtMostOnce ResultsInOrder NoSendOnClosed StopDoneAllExited DenseSeq DrainSound QuiescentComplete
