---------------------------- MODULE PipelineObs ----------------------------
(* Observer specification of the block pipeline over the events of a         *)
(* FREE-RUNNING real pipeline (all goroutines truly concurrent, race         *)
(* detector on): the complement of the gate-forced replays of Pipeline.tla.  *)
(* Total event operators, first violated rule recorded in pErr (same idiom   *)
(* as EngineObs).  Events (one recorder mutex orders them):                  *)
(*   SubSeq(b, seq)   Submit has fixed block b's sequence number (gate point  *)
(*                    sub.send, logged before the channel send)              *)
(*   SubRet(b, out)   Submit returned: "ok" | "expired" | "stopped"          *)
(*   Took(s, b)       a stage worker holds block b (after Process)           *)
(*   ApplyCall(b) / ApplyRet(b)   ApplyFunc entered / about to return        *)
(*   Result(b)        the application received b on Results()                *)
(*   DrainBegin / DrainRet(out)   WaitForDrain called / returned             *)
(*   StopCall / StopRet          Stop called / returned                      *)
(*   End(n)           the driver closes the trace (n = goroutines left)      *)
EXTENDS Integers, Sequences, FiniteSets, TLC

VARIABLES good,      \* set of blocks that decode (fixed by the Reset line)
          seqOf,     \* block -> sequence number (function with growing domain)
          subOk,     \* blocks whose Submit returned nil
          subFail,   \* blocks whose Submit returned an error
          applying,  \* block currently inside ApplyFunc (0 = none)
          applied,   \* sequence of blocks whose ApplyFunc was called
          applyDone, \* blocks whose ApplyFunc returned
          results,   \* sequence of blocks received on Results()
          drainSnap, \* blocks with SubRet(ok) before DrainBegin (<<>> when no drain is in progress)
          draining, stopCalled, stopRet, pErr
pvars == <<good, seqOf, subOk, subFail, applying, applied, applyDone, results, drainSnap, draining,
           stopCalled, stopRet, pErr>>

PInitVals(g) ==
    /\ good = g /\ seqOf = <<>> /\ subOk = {} /\ subFail = {} /\ applying = 0 /\ applied = <<>>
    /\ applyDone = {} /\ results = <<>> /\ drainSnap = {} /\ draining = FALSE
    /\ stopCalled = FALSE /\ stopRet = FALSE /\ pErr = "none"
PReset(g) ==
    /\ good' = g /\ seqOf' = <<>> /\ subOk' = {} /\ subFail' = {} /\ applying' = 0 /\ applied' = <<>>
    /\ applyDone' = {} /\ results' = <<>> /\ drainSnap' = {} /\ draining' = FALSE
    /\ stopCalled' = FALSE /\ stopRet' = FALSE /\ pErr' = "none"

PFail(m) == pErr' = m /\ UNCHANGED <<good, seqOf, subOk, subFail, applying, applied, applyDone, results,
                                      drainSnap, draining, stopCalled, stopRet>>
Rng(s) == {s[i] : i \in DOMAIN s}
Seq0(b) == IF b \in DOMAIN seqOf THEN seqOf[b] ELSE -1

\* A failed submission gives its number back, and the next submitter may log its SubSeq before
\* the driver has logged the failed one's SubRet: sharing is judged when a submission SUCCEEDS.
EvSubSeq(b, seq) ==
    /\ seqOf' = [x \in DOMAIN seqOf \cup {b} |-> IF x = b THEN seq ELSE seqOf[x]]
    /\ UNCHANGED <<good, subOk, subFail, applying, applied, applyDone, results, drainSnap, draining,
                   stopCalled, stopRet, pErr>>

EvSubRet(b, out) ==
    IF out = "ok" /\ \E c \in subOk : c # b /\ Seq0(c) = Seq0(b)
        THEN PFail("C44 SubRet: two successful submissions share one sequence number")
    ELSE /\ subOk' = IF out = "ok" THEN subOk \cup {b} ELSE subOk
         /\ subFail' = IF out # "ok" THEN subFail \cup {b} ELSE subFail
         /\ UNCHANGED <<good, seqOf, applying, applied, applyDone, results, drainSnap, draining,
                        stopCalled, stopRet, pErr>>

EvApplyCall(b) ==
    IF applying # 0 THEN PFail("C42 ApplyCall: two apply calls at the same time")
    ELSE IF b \in Rng(applied) THEN PFail("C42 ApplyCall: block applied twice")
    ELSE IF b \notin good THEN PFail("C42 ApplyCall: a block that fails to decode was applied")
    ELSE IF \E i \in DOMAIN applied : Seq0(applied[i]) >= Seq0(b)
        THEN PFail("C42 ApplyCall: blocks applied out of submission order")
    ELSE IF b \in subFail THEN PFail("C42 ApplyCall: a block whose Submit failed was applied")
    ELSE IF draining = FALSE /\ b \in drainSnap
        THEN PFail("C43 ApplyCall: apply call for a block submitted before a drain that already returned")
    ELSE /\ applying' = b /\ applied' = Append(applied, b)
         /\ UNCHANGED <<good, seqOf, subOk, subFail, applyDone, results, drainSnap, draining,
                        stopCalled, stopRet, pErr>>

EvApplyRet(b) ==
    IF applying # b THEN PFail("C42 ApplyRet: not the block being applied")
    ELSE /\ applying' = 0 /\ applyDone' = applyDone \cup {b}
         /\ UNCHANGED <<good, seqOf, subOk, subFail, applied, results, drainSnap, draining,
                        stopCalled, stopRet, pErr>>

EvResult(b) ==
    IF b \in Rng(results) THEN PFail("C42 Result: block appears twice on the results stream")
    ELSE IF results # <<>> /\ Seq0(results[Len(results)]) >= Seq0(b)
        THEN PFail("C42 Result: results stream out of submission order")
    ELSE /\ results' = Append(results, b)
         /\ UNCHANGED <<good, seqOf, subOk, subFail, applying, applied, applyDone, drainSnap, draining,
                        stopCalled, stopRet, pErr>>

EvDrainBegin ==
    /\ drainSnap' = subOk /\ draining' = TRUE
    /\ UNCHANGED <<good, seqOf, subOk, subFail, applying, applied, applyDone, results,
                   stopCalled, stopRet, pErr>>

\* C43: WaitForDrain returned nil => every good block submitted before the wait began has been applied
EvDrainRet(out) ==
    IF out = "ok" /\ ~stopCalled /\ \E b \in drainSnap : b \in good /\ b \notin applyDone
        THEN PFail("C43 DrainRet: WaitForDrain returned nil while a block submitted before it began was not applied yet")
    ELSE /\ draining' = FALSE
         /\ drainSnap' = IF out = "ok" THEN drainSnap ELSE {}
         /\ UNCHANGED <<good, seqOf, subOk, subFail, applying, applied, applyDone, results,
                        stopCalled, stopRet, pErr>>

EvStopCall == /\ stopCalled' = TRUE
              /\ UNCHANGED <<good, seqOf, subOk, subFail, applying, applied, applyDone, results, drainSnap,
                             draining, stopRet, pErr>>
EvStopRet ==  /\ stopRet' = TRUE
              /\ UNCHANGED <<good, seqOf, subOk, subFail, applying, applied, applyDone, results, drainSnap,
                             draining, stopCalled, pErr>>

\* End(left, quiet): quiet = the driver let the pipeline come to rest before stopping it
EvEnd(left, quiet) ==
    IF ~stopRet THEN PFail("C42 End: Stop did not return")
    ELSE IF left > 0 THEN PFail("C42 End: pipeline goroutines remain after Stop")
    ELSE IF quiet /\ \E b \in subOk : b \in good /\ b \notin Rng(applied)
        THEN IF subFail # {} THEN PFail("C44 End: a successfully submitted block was never applied after another submission failed")
             ELSE PFail("C42 End: a successfully submitted good block was never applied")
    ELSE IF quiet /\ \E b \in subOk : b \notin Rng(results)
        THEN IF subFail # {} THEN PFail("C44 End: a successfully submitted block never reached the results stream after another submission failed")
             ELSE PFail("C42 End: a successfully submitted block never reached the results stream")
    ELSE UNCHANGED pvars
=============================================================================
