SPECIFICATION TraceSpec
INVARIANT Report
POSTCONDITION AllConsumed
CHECK_DEADLOCK FALSE
