CONSTANTS
  NB = 2
  NSub = 2
  D = 2
  V = 0
  Cap = 1
  MayExpire = {2}
  Design = "fixed"
  WithStop = TRUE
  WithDrain = TRUE
  Quals = {"good", "derr"}
SPECIFICATION Spec
VIEW view
CHECK_DEADLOCK FALSE
INVARIANTS TypeOK AppliedInOrder AppliedNoSkip ResultsAtMostOnce ResultsInOrder NoSendOnClosed StopDoneAllExited DenseSeq DrainSound QuiescentComplete
