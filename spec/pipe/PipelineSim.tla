---------------------------- MODULE PipelineSim ----------------------------
(* Behaviour generator for the gate-driven replay (harness/cmd/pipe).        *)
(* Run with  tlc -simulate num=N -depth K : every behaviour that reaches a   *)
(* state without successors is printed as one JSON line                      *)
(*   BEHAVIOUR {"cfg":..,"quality":..,"hist":[..],"final":{..}}              *)
(* SimNext drops the steps whose outcome Go's `select` would decide by coin  *)
(* toss while nothing is cancelled (an expiring context racing a possible    *)
(* send): those cannot be forced on the real code.                           *)
EXTENDS Pipeline, Json


SimNext ==
    /\ Next
    /\ LET e == Last(hist') IN
         ("forced" \in DOMAIN e /\ ~e.forced) => cancelled

\* scenario steering: Scenario is a constant string
CONSTANT Scenario,
         MaxPend    \* MaxPendingBlocks of the real pipeline: exceeding it is reported on Errors(), but
                    \* the block is still buffered (AProc out = "buffer"), never dropped
ScenarioOK ==
    CASE Scenario = "any"      -> TRUE
      [] Scenario = "nostop"   -> stopPc = "none"
      [] OTHER                 -> TRUE

Row == [cfg |-> [NB |-> NB, NSub |-> NSub, D |-> D, V |-> V, Cap |-> Cap, Design |-> Design, MaxPend |-> MaxPend],
        quality |-> quality,
        hist |-> hist,
        final |-> [spc |-> spc, applied |-> applied, results |-> results,
                   drainPc |-> drainPc, drainVal |-> drainVal, stopPc |-> stopPc,
                   cancelled |-> cancelled, seqOf |-> seqOf,
                   idleWorkers |-> Cardinality({w \in WIds : wpc[w] = "idle"}),
                   apc |-> apc, pend |-> Cardinality(pend)]]

Terminal == ~ENABLED SimNext

EmitInv == Terminal => PrintT(<<"BEHAVIOUR", ToJson(Row)>>)

SimSpec == Init /\ [][SimNext]_vars
=============================================================================
