CONSTANTS
  NB = 4
  NSub = 2
  D = 2
  V = 0
  Cap = 1
  MayExpire = {2, 3}
  Design = "fixed"
  WithStop = TRUE
  WithDrain = TRUE
  Quals = {"good", "derr"}
  Scenario = "any"
  MaxPend = 1
INIT Init
NEXT SimNext
CHECK_DEADLOCK FALSE
INVARIANTS EmitInv
