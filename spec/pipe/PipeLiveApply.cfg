CONSTANTS
  NB = 3
  NSub = 2
  D = 1
  V = 0
  Cap = 1
  MayExpire = {1, 2}
  Design = "fixed"
  WithStop = FALSE
  WithDrain = FALSE
  Quals = {"good", "derr"}
SPECIFICATION Spec
VIEW view
CHECK_DEADLOCK FALSE
PROPERTIES OkEventuallyApplied OkEventuallyOnResults
