--------------------------- MODULE PipelineTrace ---------------------------
(* Trace validation of free-running pipeline executions against PipelineObs. *)
EXTENDS PipelineObs, Json, IOUtils

Trace == ndJsonDeserialize(IOEnv.VERIF_TRACE)
VARIABLES l, skip, rejects
tvars == <<pvars, l, skip, rejects>>
SetOf(s) == {s[i] : i \in DOMAIN s}

TraceInit == l = 1 /\ skip = FALSE /\ rejects = <<>> /\ PInitVals(SetOf(Trace[1].good))

Step(e) ==
    CASE e.ev = "SubSeq"     -> EvSubSeq(e.b, e.n)
      [] e.ev = "SubRet"     -> EvSubRet(e.b, e.s)
      [] e.ev = "Took"       -> UNCHANGED pvars
      [] e.ev = "ApplyCall"  -> EvApplyCall(e.b)
      [] e.ev = "ApplyRet"   -> EvApplyRet(e.b)
      [] e.ev = "Result"     -> EvResult(e.b)
      [] e.ev = "DrainBegin" -> EvDrainBegin
      [] e.ev = "DrainRet"   -> EvDrainRet(e.s)
      [] e.ev = "StopCall"   -> EvStopCall
      [] e.ev = "StopRet"    -> EvStopRet
      [] e.ev = "End"        -> EvEnd(e.n, e.b = 1)
      [] OTHER               -> PFail("unknown event " \o e.ev)

TraceNext ==
    /\ l <= Len(Trace)
    /\ l' = l + 1
    /\ LET e == Trace[l] IN
         IF e.ev = "Reset" THEN PReset(SetOf(e.good)) /\ skip' = FALSE /\ UNCHANGED rejects
         ELSE IF skip THEN UNCHANGED <<pvars, skip, rejects>>
         ELSE /\ Step(e)
              /\ skip' = (pErr' # "none")
              /\ rejects' = IF pErr' # "none" THEN Append(rejects, <<l, pErr'>>) ELSE rejects

TraceSpec == TraceInit /\ [][TraceNext]_tvars
Report == (l = Len(Trace) + 1) => PrintT(<<"REJECTS", ToJson(rejects)>>)
AllConsumed == TLCGet("stats").diameter = Len(Trace) + 1
=============================================================================
