CONSTANTS
  NB = 5
  NSub = 2
  D = 2
  V = 0
  Cap = 1
  MayExpire = {1, 2, 3, 4}
  Design = "fixed"
  WithStop = FALSE
  WithDrain = FALSE
  Quals = {"good", "derr"}
  Scenario = "any"
  MaxPend = 1
INIT Init
NEXT SimNext
CHECK_DEADLOCK FALSE
INVARIANTS EmitInv
