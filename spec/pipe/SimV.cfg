CONSTANTS
  NB = 3
  NSub = 2
  D = 1
  V = 1
  Cap = 1
  MayExpire = {2}
  Design = "fixed"
  WithStop = TRUE
  WithDrain = TRUE
  Quals = {"derr", "verr"}
  Scenario = "any"
  MaxPend = 1
INIT Init
NEXT SimNext
CHECK_DEADLOCK FALSE
INVARIANTS EmitInv
