CONSTANTS
  NB = 4
  NSub = 2
  D = 2
  V = 0
  Cap = 1
  MayExpire = {}
  Design = "fixed"
  WithStop = FALSE
  WithDrain = TRUE
  Quals = {"good", "derr"}
  Scenario = "any"
  MaxPend = 1
INIT Init
NEXT SimNext
CHECK_DEADLOCK FALSE
INVARIANTS EmitInv
