CONSTANTS
  NB = 2
  NSub = 2
  D = 1
  V = 0
  Cap = 1
  MayExpire = {2}
  Design = "fixed"
  WithStop = TRUE
  WithDrain = FALSE
  Quals = {"good"}
SPECIFICATION Spec
VIEW view
CHECK_DEADLOCK FALSE
PROPERTIES StopTerminates
