CONSTANTS
  NB = 2
  NSub = 1
  D = 2
  V = 0
  Cap = 1
  MayExpire = {}
  Design = "fixed"
  WithStop = FALSE
  WithDrain = TRUE
  Quals = {"good"}
SPECIFICATION Spec
VIEW view
CHECK_DEADLOCK FALSE
PROPERTIES DrainTerminates
