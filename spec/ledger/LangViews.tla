---------------------------- MODULE LangViews ----------------------------
(* C31 — The script data hash binds redeemers, datums and cost models.       *)
(*                                                                           *)
(* Part 1: the language-views value of a set L of Plutus languages as an     *)
(* abstract CBOR token sequence:                                             *)
(*    map head |L|; entries in the length-then-lexicographic order of the    *)
(*    ENCODED keys; PlutusV1 (language 0): key = byte string holding the     *)
(*    encoding of 0, value = byte string holding an INDEFINITE list of the   *)
(*    cost-model parameters ("double bagging"); every later language l:      *)
(*    key = unsigned l, value = definite list of the parameters.             *)
(* Tokens:  <<"map", n>>  <<"uint", k>>  <<"array", n>>  <<"indef">>         *)
(*          <<"break">>  <<"param", l, i>> (i-th parameter of language l,    *)
(*          a CBOR integer)  <<"alt", l, i>> (the same parameter plus one)    *)
(*          <<"bstr", toks>> (byte string whose content is the encoding of   *)
(*          the token sequence toks).                                        *)
(* The conformance driver renders tokens to bytes with its own small writer  *)
(* and compares with common.EncodeLangViews.                                 *)
(*                                                                           *)
(* Part 2: the decision table of the script-data-hash rule.  Hashing is      *)
(* injective in the model: a hash IS the term (redeemer bytes, datum bytes,  *)
(* language views).  A transaction declares no hash, the right term, or one  *)
(* of a family of near-miss terms; the rule accepts iff                      *)
(*      (no redeemers /\ no datums /\ nothing declared)                      *)
(*   \/ ((redeemers \/ datums) /\ declared term = right term).               *)
(* The driver computes every term with the real Blake2b-256 over real bytes  *)
(* and executes the row on real Alonzo .. Dijkstra transactions.             *)
(*                                                                           *)
(* Part 3: the phase-2 flag.  Every transaction of these eras carries        *)
(* is_valid; false = its Plutus scripts fail, the block producer includes it *)
(* anyway and only its collateral is collected.  The script integrity hash   *)
(* is a phase-1 check of UTXOW: it is a precondition of BOTH branches of     *)
(* UTXOS, so the table of part 2 does not read the flag (FlagIrrelevant).    *)
(* The case space has the flag as the field p2 (TRUE = is_valid is false).   *)
EXTENDS Integers, Sequences, FiniteSets, Json, TLC, SequencesExt

CONSTANTS
    MaxLang,     \* languages 0..MaxLang (0 = PlutusV1, 1 = V2, 2 = V3, 3 = V4)
    Shapes,      \* cost-model shapes, see CostLen
    RuleShapes,  \* the shapes the rule rows are generated for (subset of Shapes)
    P2Shapes     \* the shapes the FLAGGED rule rows (is_valid = false) are generated for (subset of RuleShapes)

Langs == 0..MaxLang

\* number of parameters of language l under a shape
CostLen(shape, l) ==
    CASE shape = "empty" -> 0
      [] shape = "short" -> l + 1
      [] shape = "edge"  -> 23 + l            \* 23, 24, 25, 26: both sides of the one-byte list head
      [] shape = "real"  -> <<166, 175, 251, 251>>[l + 1]

---------------------------------------------------------------------------
(* A model of the encoding, only as far as the order of the keys needs it   *)

RECURSIVE EncSeq(_)
Enc(t) ==
    CASE t[1] = "uint" -> <<t[2]>>                                  \* t[2] < 24
      [] t[1] = "bstr" -> LET inner == EncSeq(t[2]) IN <<64 + Len(inner)>> \o inner   \* Len(inner) < 24
EncSeq(ts) == IF ts = <<>> THEN <<>> ELSE Enc(Head(ts)) \o EncSeq(Tail(ts))

KeyToken(l) == IF l = 0 THEN <<"bstr", << <<"uint", 0>> >> >> ELSE <<"uint", l>>
KeyBytes(l) == Enc(KeyToken(l))

RECURSIVE LexLess(_, _)
LexLess(a, b) ==             \* strict lexicographic order of byte sequences
    IF a = <<>> THEN b # <<>>
    ELSE IF b = <<>> THEN FALSE
    ELSE IF Head(a) # Head(b) THEN Head(a) < Head(b)
    ELSE LexLess(Tail(a), Tail(b))

ShortLex(a, b) == Len(a) < Len(b) \/ (Len(a) = Len(b) /\ LexLess(a, b))
KeyBefore(x, y) == ShortLex(KeyBytes(x), KeyBytes(y))

\* the order is a strict total order on the keys of all languages
ASSUME \A x \in Langs : ~KeyBefore(x, x)
ASSUME \A x, y \in Langs : x # y => (KeyBefore(x, y) <=> ~KeyBefore(y, x))
ASSUME \A x, y, z \in Langs : KeyBefore(x, y) /\ KeyBefore(y, z) => KeyBefore(x, z)

---------------------------------------------------------------------------
(* The language views                                                       *)

Variants == {"spec", "byNumber", "v1Single", "v1Definite", "laterIndef", "otherCost"}

Params(shape, l, alt) ==
    [i \in 1..CostLen(shape, l) |-> IF alt /\ i = 1 THEN <<"alt", l, i>> ELSE <<"param", l, i>>]

\* one map entry (key tokens followed by value tokens)
Entry(shape, l, v) ==
    LET ps == Params(shape, l, v = "otherCost") IN
    IF l = 0 THEN
        CASE v = "v1Single"   -> << <<"uint", 0>>, <<"indef">> >> \o ps \o << <<"break">> >>
          [] v = "v1Definite" -> << KeyToken(0), <<"bstr", << <<"array", Len(ps)>> >> \o ps>> >>
          [] OTHER            -> << KeyToken(0), <<"bstr", << <<"indef">> >> \o ps \o << <<"break">> >> >> >>
    ELSE
        IF v = "laterIndef" THEN << KeyToken(l), <<"indef">> >> \o ps \o << <<"break">> >>
        ELSE << KeyToken(l), <<"array", Len(ps)>> >> \o ps

Order(L, v) ==
    IF v = "byNumber" THEN SortSeq(SetToSeq(L), LAMBDA x, y : x < y)
    ELSE SortSeq(SetToSeq(L), KeyBefore)

RECURSIVE Concat(_)
Concat(ss) == IF ss = <<>> THEN <<>> ELSE Head(ss) \o Concat(Tail(ss))

View(L, shape, v) ==
    LET o == Order(L, v) IN
    << <<"map", Cardinality(L)>> >> \o Concat([i \in 1..Len(o) |-> Entry(shape, o[i], v)])

LangViews(L, shape) == View(L, shape, "spec")

---------------------------------------------------------------------------
(* The rule                                                                 *)

Eras == {"alonzo", "babbage", "conway", "dijkstra"}
EraLangs(e) ==
    CASE e = "alonzo"   -> {0}
      [] e = "babbage"  -> {0, 1}
      [] e = "conway"   -> {0, 1, 2}
      [] e = "dijkstra" -> {0, 1, 2, 3}

\* the datum field (witness-set key 4) of the transaction:
\*   absent                       no key 4
\*   emptyList / emptySet         key 4 present with an EMPTY collection: [] (0x80) or 258([]) (0xd9 0x0102 0x80)
\*   list / set                   key 4 with datums, as a plain list or as a tag-258 set
\* The ledger (Alonzo hashScriptIntegrity and its successors) hashes the original
\* datum bytes only when the collection is NON-EMPTY; a present-but-empty field
\* contributes nothing to the hash and does not by itself demand a hash.
DatFields == {"absent", "emptyList", "emptySet", "list", "set"}
Dat(c) == c.datf \in {"list", "set"}                 \* the transaction has datums
SetForm(fld) == fld \in {"emptySet", "set"}              \* tag-258 sets exist from Conway on

ErasOf(L, fld) == {e \in Eras : L \subseteq (EraLangs(e) \cap Langs) /\ (SetForm(fld) => e \in {"conway", "dijkstra"})}

\* How a transaction comes to be flagged is_valid = false (field p2 of a case):
\*   alonzo, babbage, conway   the third element of the transaction's envelope is false
\*   dijkstra                  the envelope cannot say so (three elements, or four with true only);
\*                             a transaction is flagged by being a member of its block's
\*                             invalid_transactions set, from which the block decoder sets the flag
\* In every era the flag is read by UTXOS only; all of UTXO / UTXOW - and so this rule - comes first.
FlagCarrier(e) == IF e = "dijkstra" THEN "blockSet" ELSE "envelope"

\* what a transaction can declare
Decls == {"absent", "right",
          "random",       \* 32 unrelated bytes
          "reencRed",     \* hash over the canonical re-encoding of the redeemers
          "reencDat",     \* hash over the canonical re-encoding of the datums
          "noDat",        \* datum bytes left out
          "emptyDat",     \* no datums, but the bytes of an empty collection hashed in their place: the
                          \* field's own bytes if key 4 is present and empty, else 0x80 ("emptyfield")
          "byNumber",     \* keys ordered by language number
          "v1Single",     \* PlutusV1 key and value not wrapped in byte strings
          "v1Definite",   \* PlutusV1 parameters as a definite list (still wrapped)
          "laterIndef",   \* later languages with an indefinite list
          "otherCost",    \* one cost-model parameter off by one
          "moreLangs",    \* the views of L plus one more language
          "fewerLangs"}   \* the views of L minus one language

NextLang(L) == IF Langs \ L = {} THEN -1 ELSE CHOOSE x \in Langs \ L : \A y \in Langs \ L : x <= y
FirstLang(L) == IF L = {} THEN -1 ELSE CHOOSE x \in L : \A y \in L : x <= y

Term(r, d, lv) == [red |-> r, dat |-> d, lv |-> lv]
Rand == Term("random", "random", <<>>)

Right(c) == Term(IF c.red THEN "orig" ELSE "empty", IF Dat(c) THEN "orig" ELSE "none", LangViews(c.L, c.shape))

\* the declared term as the fields the driver needs: redeemer bytes, datum
\* bytes, language set and variant of the views
DeclParts(c) ==
    LET r == IF c.red THEN "orig" ELSE "empty"
        d == IF Dat(c) THEN "orig" ELSE "none"
        P(rr, dd, LL, vv) == [red |-> rr, dat |-> dd, L |-> LL, v |-> vv]
    IN CASE c.decl = "reencRed"   -> P(IF c.red THEN "reenc" ELSE r, d, c.L, "spec")
         [] c.decl = "reencDat"   -> P(r, IF Dat(c) THEN "reenc" ELSE d, c.L, "spec")
         [] c.decl = "noDat"      -> P(r, "none", c.L, "spec")
         [] c.decl = "emptyDat"   -> P(r, IF Dat(c) THEN d ELSE "emptyfield", c.L, "spec")
         [] c.decl \in Variants   -> P(r, d, c.L, c.decl)
         [] c.decl = "moreLangs"  -> P(r, d, IF NextLang(c.L) < 0 THEN c.L ELSE c.L \cup {NextLang(c.L)}, "spec")
         [] c.decl = "fewerLangs" -> P(r, d, c.L \ {FirstLang(c.L)}, "spec")
         [] OTHER                 -> P(r, d, c.L, "spec")          \* right

Declared(c) ==
    IF c.decl = "random" THEN Rand
    ELSE LET p == DeclParts(c) IN Term(p.red, p.dat, View(p.L, c.shape, p.v))

HasScriptData(c) == c.red \/ Dat(c)

\* Accept and Reason are functions of (L, shape, red, datf, decl) alone: p2 is not read
Accept(c) ==
    IF ~HasScriptData(c) THEN c.decl = "absent"
    ELSE c.decl # "absent" /\ Declared(c) = Right(c)

Reason(c) ==
    IF Accept(c) THEN "ok"
    ELSE IF ~HasScriptData(c) THEN "extraneous"
    ELSE IF c.decl = "absent" THEN "missing" ELSE "mismatch"

---------------------------------------------------------------------------
(* The case space (one state per case)                                      *)

Case(L, shape, red, datf, decl, p2) == [L |-> L, shape |-> shape, red |-> red, datf |-> datf, decl |-> decl, p2 |-> p2]
Unflagged == { Case(L, s, r, d, k, FALSE) : L \in SUBSET Langs, s \in RuleShapes, r \in BOOLEAN, d \in DatFields, k \in Decls }
Flagged   == { Case(L, s, r, d, k, TRUE)  : L \in SUBSET Langs, s \in P2Shapes,   r \in BOOLEAN, d \in DatFields, k \in Decls }
CaseSpace == Unflagged \cup Flagged

ASSUME P2Shapes \subseteq RuleShapes /\ RuleShapes \subseteq Shapes

\* A flagged transaction without a redeemer is not a transaction a block can hold (is_valid =
\* false says that a script failed, and a script that ran has a redeemer): another rule rejects it
\* whatever this one says.  This rule's verdict on it is still the table's, but an implementation
\* that rejects it HERE although the table accepts admits nothing the ledger forbids: on such rows
\* only "the table rejects => the rule rejects" binds the code (Row.binding = "rejectOnly").
Admissible(c) == c.p2 => c.red

VARIABLE c
Init == c \in CaseSpace
Next == UNCHANGED c

AllCasesVisited == TLCGet("distinct") = Cardinality(CaseSpace)

---------------------------------------------------------------------------
(* Meta-properties, evaluated in every state                                *)

cv == LangViews(c.L, c.shape)

\* shape of the value: a map head with one entry per language, V1 last
ViewShape ==
    /\ cv[1] = <<"map", Cardinality(c.L)>>
    /\ LET o == Order(c.L, "spec") IN
          /\ Len(o) = Cardinality(c.L) /\ {o[i] : i \in 1..Len(o)} = c.L
          /\ \A i, j \in 1..Len(o) : i < j => KeyBefore(o[i], o[j])
          /\ (0 \in c.L => o[Len(o)] = 0)                       \* 0x41 0x00 is longer than 0x01..0x17
          /\ \A i, j \in 1..Len(o) : (i < j /\ o[j] # 0) => o[i] < o[j]

\* PlutusV1 is double-wrapped with an indefinite list, later languages are not
Wrapping ==
    /\ (0 \in c.L =>
          LET e == Entry(c.shape, 0, "spec") IN
             /\ Len(e) = 2 /\ e[1] = <<"bstr", << <<"uint", 0>> >> >>
             /\ e[2][1] = "bstr" /\ Head(e[2][2]) = <<"indef">> /\ e[2][2][Len(e[2][2])] = <<"break">>
             /\ Len(e[2][2]) = CostLen(c.shape, 0) + 2)
    /\ \A l \in c.L \ {0} :
          LET e == Entry(c.shape, l, "spec") IN
             /\ e[1] = <<"uint", l>> /\ e[2] = <<"array", CostLen(c.shape, l)>>
             /\ Len(e) = CostLen(c.shape, l) + 2

\* different language sets, and every near-miss variant that applies, give a
\* different value (so the "wrong" rows of the table are really wrong)
Distinct ==
    /\ \A M \in SUBSET Langs : M # c.L => LangViews(M, c.shape) # cv
    /\ (0 \in c.L /\ Cardinality(c.L) >= 2 <=> View(c.L, c.shape, "byNumber") # cv)
    /\ (0 \in c.L <=> View(c.L, c.shape, "v1Single") # cv)
    /\ (0 \in c.L <=> View(c.L, c.shape, "v1Definite") # cv)
    /\ (c.L \ {0} # {} <=> View(c.L, c.shape, "laterIndef") # cv)
    /\ ((\E l \in c.L : CostLen(c.shape, l) > 0) <=> View(c.L, c.shape, "otherCost") # cv)

\* shape of the decision table
RuleShape ==
    /\ (Accept(c) => (HasScriptData(c) <=> c.decl # "absent"))
    /\ (HasScriptData(c) /\ c.decl = "right" => Accept(c))
    /\ (c.decl = "absent" => (Accept(c) <=> ~HasScriptData(c)))
    /\ (c.decl = "random" => ~Accept(c))
    /\ (~HasScriptData(c) /\ c.decl # "absent" => Reason(c) = "extraneous")
    /\ (HasScriptData(c) /\ c.decl = "reencRed" => (Accept(c) <=> ~c.red))
    /\ (HasScriptData(c) /\ c.decl \in {"reencDat", "noDat"} => (Accept(c) <=> ~Dat(c)))
    /\ (HasScriptData(c) /\ c.decl = "emptyDat" => (Accept(c) <=> Dat(c)))
    \* a present-but-empty datum field behaves exactly like an absent one
    /\ Accept(c) = Accept([c EXCEPT !.datf = IF Dat(c) THEN c.datf ELSE "absent"])
    /\ (~Dat(c) => Right(c).dat = "none")
    /\ (HasScriptData(c) /\ c.decl = "moreLangs" => (Accept(c) <=> c.L = Langs))
    /\ (HasScriptData(c) /\ c.decl = "fewerLangs" => (Accept(c) <=> c.L = {}))
    /\ (HasScriptData(c) /\ c.decl \in Variants => (Accept(c) <=> View(c.L, c.shape, c.decl) = cv))

\* the phase-2 flag never changes the verdict, the reason, the right term or the declared term;
\* every flagged case has its unflagged twin in the case space (so the flagged rows are the
\* unflagged table again, and the twin is executed as well)
Twin(x) == [x EXCEPT !.p2 = ~x.p2]
FlagIrrelevant ==
    /\ Accept(c) = Accept(Twin(c))
    /\ Reason(c) = Reason(Twin(c))
    /\ Right(c) = Right(Twin(c))
    /\ Declared(c) = Declared(Twin(c))
    /\ (c.p2 => Twin(c) \in Unflagged)
    /\ (~c.p2 /\ c.shape \in P2Shapes => Twin(c) \in Flagged)
    \* flagged rows of both verdicts exist wherever the unflagged table has both, with and
    \* without redeemers: an implementation that skips the rule for flagged transactions
    \* (accept all) or refuses them all differs from the table on an admissible row
    /\ (c.p2 /\ c.red => \E k1, k2 \in Decls : Accept([c EXCEPT !.decl = k1]) /\ ~Accept([c EXCEPT !.decl = k2]))

---------------------------------------------------------------------------
SetSeq(S) == SortSeq(SetToSeq(S), LAMBDA x, y : x < y)

ViewRow(L, shape, variant) ==
    [L |-> SetSeq(L), shape |-> shape, variant |-> variant,
     lens |-> [l \in 1..(MaxLang + 1) |-> CostLen(shape, l - 1)],
     tokens |-> View(L, shape, variant)]

Row(x) ==
    LET p == DeclParts(x) IN
    [L |-> SetSeq(x.L), shape |-> x.shape, red |-> x.red, datf |-> x.datf, dat |-> Dat(x), decl |-> x.decl,
     declRed |-> p.red, declDat |-> p.dat, declL |-> SetSeq(p.L), declVariant |-> p.v,
     eras |-> ErasOf(x.L, x.datf), accept |-> Accept(x), reason |-> Reason(x),
     p2 |-> x.p2, binding |-> IF Admissible(x) THEN "both" ELSE "rejectOnly"]

Rows(S, F(_)) == LET q == SetToSeq(S) IN [i \in 1..Len(q) |-> F(q[i])]
ViewKeys == (SUBSET Langs) \X Shapes \X Variants
ASSUME ndJsonSerialize("views.ndjson", Rows(ViewKeys, LAMBDA k : ViewRow(k[1], k[2], k[3])))
ASSUME ndJsonSerialize("rules.ndjson", Rows(CaseSpace, Row))
ASSUME ndJsonSerialize("flag.ndjson", Rows(Eras, LAMBDA e : [era |-> e, carrier |-> FlagCarrier(e)]))
=============================================================================
