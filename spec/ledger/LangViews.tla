---------------------------- MODULE LangViews ----------------------------
(* C31 — The script data hash binds redeemers, datums and cost models.       *)
(*                                                                           *)
(* Part 1: the language-views value of a set L of Plutus languages as an     *)
(* abstract CBOR token sequence:                                             *)
(*    map head |L|; entries in the length-then-lexicographic order of the    *)
(*    ENCODED keys; PlutusV1 (language 0): key = byte string holding the     *)
(*    encoding of 0, value = byte string holding an INDEFINITE list of the   *)
(*    cost-model parameters ("double bagging"); every later language l:      *)
(*    key = unsigned l, value = definite list of the parameters.             *)
(* Tokens:  <<"map", n>>  <<"uint", k>>  <<"array", n>>  <<"indef">>         *)
(*          <<"break">>  <<"param", l, i>> (i-th parameter of language l,    *)
(*          a CBOR integer)  <<"alt", l, i>> (the same parameter plus one)    *)
(*          <<"bstr", toks>> (byte string whose content is the encoding of   *)
(*          the token sequence toks).                                        *)
(* The conformance driver renders tokens to bytes with its own small writer  *)
(* and compares with common.EncodeLangViews.                                 *)
(*                                                                           *)
(* Part 2: the decision table of the script-data-hash rule.  Hashing is      *)
(* injective in the model: a hash IS the term (redeemer bytes, datum bytes,  *)
(* language views).  A transaction declares no hash, the right term, or one  *)
(* of a family of near-miss terms; the rule accepts iff                      *)
(*      (no redeemers /\ no datums /\ nothing declared)                      *)
(*   \/ ((redeemers \/ datums) /\ declared term = right term).               *)
(* The driver computes every term with the real Blake2b-256 over real bytes  *)
(* and executes the row on real Alonzo .. Dijkstra transactions.             *)
(*                                                                           *)
(* Part 3: the phase-2 flag.  Every transaction of these eras carries        *)
(* is_valid; false = its Plutus scripts fail, the block producer includes it *)
(* anyway and only its collateral is collected.  The script integrity hash   *)
(* is a phase-1 check of UTXOW: it is a precondition of BOTH branches of     *)
(* UTXOS, so the table of part 2 does not read the flag (FlagIrrelevant).    *)
(* The case space has the flag as the field p2 (TRUE = is_valid is false).   *)
(*                                                                           *)
(* Part 4: the encoding shape of the script data.  The hash is over the      *)
(* ORIGINAL bytes of the redeemers and datums as they were on the wire,      *)
(* whatever their shape: minimal, with non-minimal integer / length heads,   *)
(* indefinite-length containers, map keys out of canonical order, or a       *)
(* redeemer map with a repeated key (decoded last-wins).  A decoder may      *)
(* normalise what it decodes; the rule may not: the hash of ANY re-encoding  *)
(* that differs from the original bytes is a mismatch, and the right hash    *)
(* is right for every shape (OriginalBytes).  Fields rs (redeemer shape)     *)
(* and denc (datum encoding); "any" = the driver picks a legal encoding and  *)
(* makes it non-canonical whenever the row's declared term re-encodes.       *)
EXTENDS Integers, Sequences, FiniteSets, Json, TLC, SequencesExt

CONSTANTS
    MaxLang,     \* languages 0..MaxLang (0 = PlutusV1, 1 = V2, 2 = V3, 3 = V4)
    Shapes,      \* cost-model shapes, see CostLen
    RuleShapes,  \* the shapes the rule rows are generated for (subset of Shapes)
    P2Shapes,    \* the shapes the FLAGGED rule rows (is_valid = false) are generated for (subset of RuleShapes)
    ShapedL,     \* the language sets (a set of subsets of Langs) ...
    ShapedShapes,\* ... cost-model shapes (subset of RuleShapes) ...
    ShapedP2     \* ... and flag values (subset of BOOLEAN) the rows with an EXPLICIT encoding shape are generated for

Langs == 0..MaxLang

\* number of parameters of language l under a shape
CostLen(shape, l) ==
    CASE shape = "empty" -> 0
      [] shape = "short" -> l + 1
      [] shape = "edge"  -> 23 + l            \* 23, 24, 25, 26: both sides of the one-byte list head
      [] shape = "real"  -> <<166, 175, 251, 251>>[l + 1]

---------------------------------------------------------------------------
(* A model of the encoding, only as far as the order of the keys needs it   *)

RECURSIVE EncSeq(_)
Enc(t) ==
    CASE t[1] = "uint" -> <<t[2]>>                                  \* t[2] < 24
      [] t[1] = "bstr" -> LET inner == EncSeq(t[2]) IN <<64 + Len(inner)>> \o inner   \* Len(inner) < 24
EncSeq(ts) == IF ts = <<>> THEN <<>> ELSE Enc(Head(ts)) \o EncSeq(Tail(ts))

KeyToken(l) == IF l = 0 THEN <<"bstr", << <<"uint", 0>> >> >> ELSE <<"uint", l>>
KeyBytes(l) == Enc(KeyToken(l))

RECURSIVE LexLess(_, _)
LexLess(a, b) ==             \* strict lexicographic order of byte sequences
    IF a = <<>> THEN b # <<>>
    ELSE IF b = <<>> THEN FALSE
    ELSE IF Head(a) # Head(b) THEN Head(a) < Head(b)
    ELSE LexLess(Tail(a), Tail(b))

ShortLex(a, b) == Len(a) < Len(b) \/ (Len(a) = Len(b) /\ LexLess(a, b))
KeyBefore(x, y) == ShortLex(KeyBytes(x), KeyBytes(y))

\* the order is a strict total order on the keys of all languages
ASSUME \A x \in Langs : ~KeyBefore(x, x)
ASSUME \A x, y \in Langs : x # y => (KeyBefore(x, y) <=> ~KeyBefore(y, x))
ASSUME \A x, y, z \in Langs : KeyBefore(x, y) /\ KeyBefore(y, z) => KeyBefore(x, z)

---------------------------------------------------------------------------
(* The language views                                                       *)

Variants == {"spec", "byNumber", "v1Single", "v1Definite", "laterIndef", "otherCost"}

Params(shape, l, alt) ==
    [i \in 1..CostLen(shape, l) |-> IF alt /\ i = 1 THEN <<"alt", l, i>> ELSE <<"param", l, i>>]

\* one map entry (key tokens followed by value tokens)
Entry(shape, l, v) ==
    LET ps == Params(shape, l, v = "otherCost") IN
    IF l = 0 THEN
        CASE v = "v1Single"   -> << <<"uint", 0>>, <<"indef">> >> \o ps \o << <<"break">> >>
          [] v = "v1Definite" -> << KeyToken(0), <<"bstr", << <<"array", Len(ps)>> >> \o ps>> >>
          [] OTHER            -> << KeyToken(0), <<"bstr", << <<"indef">> >> \o ps \o << <<"break">> >> >> >>
    ELSE
        IF v = "laterIndef" THEN << KeyToken(l), <<"indef">> >> \o ps \o << <<"break">> >>
        ELSE << KeyToken(l), <<"array", Len(ps)>> >> \o ps

Order(L, v) ==
    IF v = "byNumber" THEN SortSeq(SetToSeq(L), LAMBDA x, y : x < y)
    ELSE SortSeq(SetToSeq(L), KeyBefore)

RECURSIVE Concat(_)
Concat(ss) == IF ss = <<>> THEN <<>> ELSE Head(ss) \o Concat(Tail(ss))

View(L, shape, v) ==
    LET o == Order(L, v) IN
    << <<"map", Cardinality(L)>> >> \o Concat([i \in 1..Len(o) |-> Entry(shape, o[i], v)])

LangViews(L, shape) == View(L, shape, "spec")

---------------------------------------------------------------------------
(* The rule                                                                 *)

Eras == {"alonzo", "babbage", "conway", "dijkstra"}
EraLangs(e) ==
    CASE e = "alonzo"   -> {0}
      [] e = "babbage"  -> {0, 1}
      [] e = "conway"   -> {0, 1, 2}
      [] e = "dijkstra" -> {0, 1, 2, 3}

\* the datum field (witness-set key 4) of the transaction:
\*   absent                       no key 4
\*   emptyList / emptySet         key 4 present with an EMPTY collection: [] (0x80) or 258([]) (0xd9 0x0102 0x80)
\*   list / set                   key 4 with datums, as a plain list or as a tag-258 set
\* The ledger (Alonzo hashScriptIntegrity and its successors) hashes the original
\* datum bytes only when the collection is NON-EMPTY; a present-but-empty field
\* contributes nothing to the hash and does not by itself demand a hash.
DatFields == {"absent", "emptyList", "emptySet", "list", "set"}
Dat(c) == c.datf \in {"list", "set"}                 \* the transaction has datums
SetForm(fld) == fld \in {"emptySet", "set"}              \* tag-258 sets exist from Conway on

\* The encoding shape of the redeemers (witness-set key 5) as they are on the wire:
\*   form   list   [ [tag, index, data, ex_units], ... ]      Alonzo, Babbage, Conway (legacy)
\*          map    { [tag, index] => [data, ex_units], ... }  Conway, Dijkstra
\*   enc    canon      definite lengths, minimal heads, keys in order: re-encoding gives the same bytes
\*          wide       non-minimal integer / length heads
\*          indef      the outer container has indefinite length
\*          unordered  two entries, keys not in canonical order (map)
\*          dupKey     two entries with the SAME (tag, index) key (map); the Conway ledger decodes
\*                     the map last-wins and cardano-node accepts such transactions (they are on
\*                     chain); later decoders may refuse the map, so the shape is a Conway one
\* "any": not fixed by the case (see part 4).
AnyShape  == [form |-> "any", enc |-> "any"]
RedShapes == [form : {"list", "map"}, enc : {"canon", "wide", "indef"}] \cup [form : {"map"}, enc : {"unordered", "dupKey"}]
FormEras(f) == CASE f = "list" -> {"alonzo", "babbage", "conway"} [] f = "map" -> {"conway", "dijkstra"} [] OTHER -> Eras
EncEras(e)  == IF e = "dupKey" THEN {"conway"} ELSE Eras
\* the datums: canon (definite, minimal), wide (non-minimal heads), indef (indefinite-length list)
DatEncs == {"canon", "wide", "indef"}

\* re-encoding the decoded value canonically gives the original bytes back only for "canon"
RedCanon(c) == c.rs.enc = "canon"
DatCanon(c) == c.denc = "canon"

ErasOf(x) == {e \in Eras : /\ x.L \subseteq (EraLangs(e) \cap Langs)
                            /\ (SetForm(x.datf) => e \in {"conway", "dijkstra"})
                            /\ e \in FormEras(x.rs.form) \cap EncEras(x.rs.enc)}

\* How a transaction comes to be flagged is_valid = false (field p2 of a case):
\*   alonzo, babbage, conway   the third element of the transaction's envelope is false
\*   dijkstra                  the envelope cannot say so (three elements, or four with true only);
\*                             a transaction is flagged by being a member of its block's
\*                             invalid_transactions set, from which the block decoder sets the flag
\* In every era the flag is read by UTXOS only; all of UTXO / UTXOW - and so this rule - comes first.
FlagCarrier(e) == IF e = "dijkstra" THEN "blockSet" ELSE "envelope"

\* what a transaction can declare
Decls == {"absent", "right",
          "random",       \* 32 unrelated bytes
          "reencRed",     \* hash over the canonical re-encoding of the redeemers
          "reencDat",     \* hash over the canonical re-encoding of the datums
          "noDat",        \* datum bytes left out
          "emptyDat",     \* no datums, but the bytes of an empty collection hashed in their place: the
                          \* field's own bytes if key 4 is present and empty, else 0x80 ("emptyfield")
          "byNumber",     \* keys ordered by language number
          "v1Single",     \* PlutusV1 key and value not wrapped in byte strings
          "v1Definite",   \* PlutusV1 parameters as a definite list (still wrapped)
          "laterIndef",   \* later languages with an indefinite list
          "otherCost",    \* one cost-model parameter off by one
          "moreLangs",    \* the views of L plus one more language
          "fewerLangs"}   \* the views of L minus one language

NextLang(L) == IF Langs \ L = {} THEN -1 ELSE CHOOSE x \in Langs \ L : \A y \in Langs \ L : x <= y
FirstLang(L) == IF L = {} THEN -1 ELSE CHOOSE x \in L : \A y \in L : x <= y

Term(r, d, lv) == [red |-> r, dat |-> d, lv |-> lv]
Rand == Term("random", "random", <<>>)

Right(c) == Term(IF c.red THEN "orig" ELSE "empty", IF Dat(c) THEN "orig" ELSE "none", LangViews(c.L, c.shape))

\* the declared term as the fields the driver needs: redeemer bytes, datum
\* bytes, language set and variant of the views
DeclParts(c) ==
    LET r == IF c.red THEN "orig" ELSE "empty"
        d == IF Dat(c) THEN "orig" ELSE "none"
        P(rr, dd, LL, vv) == [red |-> rr, dat |-> dd, L |-> LL, v |-> vv]
    IN CASE c.decl = "reencRed"   -> P(IF c.red /\ ~RedCanon(c) THEN "reenc" ELSE r, d, c.L, "spec")
         [] c.decl = "reencDat"   -> P(r, IF Dat(c) /\ ~DatCanon(c) THEN "reenc" ELSE d, c.L, "spec")
         [] c.decl = "noDat"      -> P(r, "none", c.L, "spec")
         [] c.decl = "emptyDat"   -> P(r, IF Dat(c) THEN d ELSE "emptyfield", c.L, "spec")
         [] c.decl \in Variants   -> P(r, d, c.L, c.decl)
         [] c.decl = "moreLangs"  -> P(r, d, IF NextLang(c.L) < 0 THEN c.L ELSE c.L \cup {NextLang(c.L)}, "spec")
         [] c.decl = "fewerLangs" -> P(r, d, c.L \ {FirstLang(c.L)}, "spec")
         [] OTHER                 -> P(r, d, c.L, "spec")          \* right

Declared(c) ==
    IF c.decl = "random" THEN Rand
    ELSE LET p == DeclParts(c) IN Term(p.red, p.dat, View(p.L, c.shape, p.v))

HasScriptData(c) == c.red \/ Dat(c)

\* Accept and Reason do not read p2; they read the encoding shape only through "does re-encoding
\* give the same bytes" (RedCanon / DatCanon, in the two rows that declare the hash of a re-encoding)
Accept(c) ==
    IF ~HasScriptData(c) THEN c.decl = "absent"
    ELSE c.decl # "absent" /\ Declared(c) = Right(c)

Reason(c) ==
    IF Accept(c) THEN "ok"
    ELSE IF ~HasScriptData(c) THEN "extraneous"
    ELSE IF c.decl = "absent" THEN "missing" ELSE "mismatch"

---------------------------------------------------------------------------
(* The case space (one state per case)                                      *)

Case(L, shape, red, datf, decl, p2, rs, denc) ==
    [L |-> L, shape |-> shape, red |-> red, datf |-> datf, decl |-> decl, p2 |-> p2, rs |-> rs, denc |-> denc]
Base(L, s, r, d, k, p) == Case(L, s, r, d, k, p, AnyShape, "any")
Unflagged == { Base(L, s, r, d, k, FALSE) : L \in SUBSET Langs, s \in RuleShapes, r \in BOOLEAN, d \in DatFields, k \in Decls }
Flagged   == { Base(L, s, r, d, k, TRUE)  : L \in SUBSET Langs, s \in P2Shapes,   r \in BOOLEAN, d \in DatFields, k \in Decls }
\* explicit redeemer shapes (with and without datums), explicit datum encodings (with and without redeemers)
\* (only where some era has the languages, the form and the shape: V4 is Dijkstra's, a repeated key Conway's)
RedShaped == { x \in { Case(L, s, TRUE, d, k, p, rs, "any") :
                 L \in ShapedL, s \in ShapedShapes, d \in {"absent", "list"}, k \in Decls, p \in ShapedP2, rs \in RedShapes } :
               ErasOf(x) # {} }
DatShaped == { Case(L, s, r, d, k, p, AnyShape, de) :
                 L \in ShapedL, s \in ShapedShapes, r \in BOOLEAN, d \in {"list", "set"}, k \in Decls, p \in ShapedP2, de \in DatEncs }
CaseSpace == Unflagged \cup Flagged \cup RedShaped \cup DatShaped

IsBase(x) == x.rs = AnyShape /\ x.denc = "any"

ASSUME P2Shapes \subseteq RuleShapes /\ RuleShapes \subseteq Shapes
ASSUME ShapedL \subseteq SUBSET Langs /\ ShapedShapes \subseteq RuleShapes /\ ShapedP2 \subseteq BOOLEAN /\ FALSE \in ShapedP2

\* A flagged transaction without a redeemer is not a transaction a block can hold (is_valid =
\* false says that a script failed, and a script that ran has a redeemer): another rule rejects it
\* whatever this one says.  This rule's verdict on it is still the table's, but an implementation
\* that rejects it HERE although the table accepts admits nothing the ledger forbids: on such rows
\* only "the table rejects => the rule rejects" binds the code (Row.binding = "rejectOnly").
Admissible(c) == c.p2 => c.red

VARIABLE c
Init == c \in CaseSpace
Next == UNCHANGED c

AllCasesVisited == TLCGet("distinct") = Cardinality(CaseSpace)

---------------------------------------------------------------------------
(* Meta-properties, evaluated in every state                                *)

cv == LangViews(c.L, c.shape)

\* ViewShape, Wrapping and Distinct read (L, shape) only: they are evaluated in the one case of
\* every (L, shape) that has nothing else (every (L, shape) of the space has that case)
ViewRep == ~c.red /\ c.datf = "absent" /\ c.decl = "absent" /\ ~c.p2 /\ IsBase(c)
ASSUME \A x \in RedShaped \cup DatShaped \cup Flagged : Base(x.L, x.shape, FALSE, "absent", "absent", FALSE) \in Unflagged

\* shape of the value: a map head with one entry per language, V1 last
ViewShape == ViewRep =>
    /\ cv[1] = <<"map", Cardinality(c.L)>>
    /\ LET o == Order(c.L, "spec") IN
          /\ Len(o) = Cardinality(c.L) /\ {o[i] : i \in 1..Len(o)} = c.L
          /\ \A i, j \in 1..Len(o) : i < j => KeyBefore(o[i], o[j])
          /\ (0 \in c.L => o[Len(o)] = 0)                       \* 0x41 0x00 is longer than 0x01..0x17
          /\ \A i, j \in 1..Len(o) : (i < j /\ o[j] # 0) => o[i] < o[j]

\* PlutusV1 is double-wrapped with an indefinite list, later languages are not
Wrapping == ViewRep =>
    /\ (0 \in c.L =>
          LET e == Entry(c.shape, 0, "spec") IN
             /\ Len(e) = 2 /\ e[1] = <<"bstr", << <<"uint", 0>> >> >>
             /\ e[2][1] = "bstr" /\ Head(e[2][2]) = <<"indef">> /\ e[2][2][Len(e[2][2])] = <<"break">>
             /\ Len(e[2][2]) = CostLen(c.shape, 0) + 2)
    /\ \A l \in c.L \ {0} :
          LET e == Entry(c.shape, l, "spec") IN
             /\ e[1] = <<"uint", l>> /\ e[2] = <<"array", CostLen(c.shape, l)>>
             /\ Len(e) = CostLen(c.shape, l) + 2

\* different language sets, and every near-miss variant that applies, give a
\* different value (so the "wrong" rows of the table are really wrong)
Distinct == ViewRep =>
    /\ \A M \in SUBSET Langs : M # c.L => LangViews(M, c.shape) # cv
    /\ (0 \in c.L /\ Cardinality(c.L) >= 2 <=> View(c.L, c.shape, "byNumber") # cv)
    /\ (0 \in c.L <=> View(c.L, c.shape, "v1Single") # cv)
    /\ (0 \in c.L <=> View(c.L, c.shape, "v1Definite") # cv)
    /\ (c.L \ {0} # {} <=> View(c.L, c.shape, "laterIndef") # cv)
    /\ ((\E l \in c.L : CostLen(c.shape, l) > 0) <=> View(c.L, c.shape, "otherCost") # cv)

\* shape of the decision table
RuleShape ==
    LET a == Accept(c)          \* (LET: evaluated once)
        h == HasScriptData(c)
    IN
    /\ (a => (h <=> c.decl # "absent"))
    /\ (h /\ c.decl = "right" => a)
    /\ (c.decl = "absent" => (a <=> ~h))
    /\ (c.decl = "random" => ~a)
    /\ (~h /\ c.decl # "absent" => Reason(c) = "extraneous")
    /\ (h /\ c.decl = "reencRed" => (a <=> ~c.red \/ RedCanon(c)))
    /\ (h /\ c.decl = "reencDat" => (a <=> ~Dat(c) \/ DatCanon(c)))
    /\ (h /\ c.decl = "noDat" => (a <=> ~Dat(c)))
    /\ (h /\ c.decl = "emptyDat" => (a <=> Dat(c)))
    \* a present-but-empty datum field behaves exactly like an absent one
    /\ (~Dat(c) /\ c.datf # "absent" => a = Accept([c EXCEPT !.datf = "absent"]))
    /\ (~Dat(c) => Right(c).dat = "none")
    /\ (h /\ c.decl = "moreLangs" => (a <=> c.L = Langs))
    /\ (h /\ c.decl = "fewerLangs" => (a <=> c.L = {}))
    /\ (h /\ c.decl \in Variants => (a <=> View(c.L, c.shape, c.decl) = cv))

\* the phase-2 flag never changes the verdict, the reason, the right term or the declared term;
\* every flagged case has its unflagged twin in the case space (so the flagged rows are the
\* unflagged table again, and the twin is executed as well)
Twin(x) == [x EXCEPT !.p2 = ~x.p2]
FlagIrrelevant ==
    LET t == Twin(c) IN
    /\ Reason(c) = Reason(t)                  \* Accept(x) <=> Reason(x) = "ok": the verdict as well
    /\ Right(c) = Right(t)
    /\ Declared(c) = Declared(t)
    /\ (c.p2 => t \in CaseSpace)
    /\ (~c.p2 /\ IsBase(c) /\ c.shape \in P2Shapes => t \in Flagged)
    \* flagged rows a block can hold have both verdicts: an implementation that skips the rule for
    \* flagged transactions (accepts all) or refuses them all differs from the table on one of them
    /\ (c.p2 /\ c.red => Accept([c EXCEPT !.decl = "right"]) /\ ~Accept([c EXCEPT !.decl = "random"]))

\* the hash is over the original bytes whatever their shape: the right term never holds a
\* re-encoding, the right hash is accepted for every shape, the verdict reads the shape only in the
\* two rows that declare the hash of a re-encoding, and those are accepted exactly when
\* re-encoding changes nothing
Unshaped(x) == [x EXCEPT !.rs = AnyShape, !.denc = "any"]
OriginalBytes ==
    LET r == Right(c)
        u == Unshaped(c)
    IN
    /\ r.red = (IF c.red THEN "orig" ELSE "empty") /\ r.dat = (IF Dat(c) THEN "orig" ELSE "none")
    /\ (~IsBase(c) => /\ r = Right(u)
                      /\ (c.decl \notin {"reencRed", "reencDat"} => Reason(c) = Reason(u) /\ Declared(c) = Declared(u))
                      /\ ErasOf(c) # {})
    /\ (c.red /\ c.decl = "reencRed" => (Accept(c) <=> RedCanon(c)))
    /\ (Dat(c) /\ c.decl = "reencDat" => (Accept(c) <=> DatCanon(c)))
    /\ (~c.red => c.rs = AnyShape) /\ (~Dat(c) => c.denc = "any")

---------------------------------------------------------------------------
SetSeq(S) == SortSeq(SetToSeq(S), LAMBDA x, y : x < y)

ViewRow(L, shape, variant) ==
    [L |-> SetSeq(L), shape |-> shape, variant |-> variant,
     lens |-> [l \in 1..(MaxLang + 1) |-> CostLen(shape, l - 1)],
     tokens |-> View(L, shape, variant)]

Row(x) ==
    LET p == DeclParts(x) IN
    [L |-> SetSeq(x.L), shape |-> x.shape, red |-> x.red, datf |-> x.datf, dat |-> Dat(x), decl |-> x.decl,
     declRed |-> p.red, declDat |-> p.dat, declL |-> SetSeq(p.L), declVariant |-> p.v,
     eras |-> ErasOf(x), accept |-> Accept(x), reason |-> Reason(x),
     p2 |-> x.p2, binding |-> IF Admissible(x) THEN "both" ELSE "rejectOnly",
     rform |-> x.rs.form, renc |-> x.rs.enc, denc |-> x.denc]

Rows(S, F(_)) == LET q == SetToSeq(S) IN [i \in 1..Len(q) |-> F(q[i])]
ViewKeys == (SUBSET Langs) \X Shapes \X Variants
ASSUME ndJsonSerialize("views.ndjson", Rows(ViewKeys, LAMBDA k : ViewRow(k[1], k[2], k[3])))
ASSUME ndJsonSerialize("rules.ndjson", Rows(CaseSpace, Row))
ASSUME ndJsonSerialize("flag.ndjson", Rows(Eras, LAMBDA e : [era |-> e, carrier |-> FlagCarrier(e)]))
=============================================================================
