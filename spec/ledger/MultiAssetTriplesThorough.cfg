\* C06 MultiAssetTriplesThorough.cfg: keys 2+1, quantities -2..2, total maps, triples (1/97 emitted)
CONSTANT KeySet = "2+1"
CONSTANT QAbs = 2
CONSTANT Mode = "total"
CONSTANT Arity = 3
CONSTANT SampleMod = 97
INIT Init
NEXT Next
INVARIANT EqReflexive
INVARIANT NormIsEq
INVARIANT AddIdentity
INVARIANT AddInverse
INVARIANT DecEnc
INVARIANT EncCanonical
INVARIANT EqPointwise
INVARIANT EqSymmetric
INVARIANT EqUpToZeros
INVARIANT AddPointwise
INVARIANT AddCommutes
INVARIANT AddUpToZeros
INVARIANT AddCancels
INVARIANT EncInjective
INVARIANT EqTransitive
INVARIANT AddAssociates
INVARIANT AddCompatible
