CONSTANT MaxLang = 2
CONSTANT Shapes = {"empty", "short", "edge"}
CONSTANT RuleShapes = {"short", "edge"}
CONSTANT P2Shapes = {"short"}
CONSTANT ShapedL = {{0}}
CONSTANT ShapedShapes = {"short"}
CONSTANT ShapedP2 = {FALSE}
INIT Init
NEXT Next
INVARIANT ViewShape
INVARIANT Wrapping
INVARIANT Distinct
INVARIANT RuleShape
INVARIANT FlagIrrelevant
INVARIANT OriginalBytes
POSTCONDITION AllCasesVisited
