CONSTANT MaxLang = 2
CONSTANT Shapes = {"empty", "short", "edge"}
CONSTANT RuleShapes = {"short", "edge"}
CONSTANT P2Shapes = {"short"}
INIT Init
NEXT Next
INVARIANT ViewShape
INVARIANT Wrapping
INVARIANT Distinct
INVARIANT RuleShape
INVARIANT FlagIrrelevant
POSTCONDITION AllCasesVisited
