CONSTANT MaxLang = 2
CONSTANT Shapes = {"empty", "short", "edge"}
CONSTANT RuleShapes = {"short", "edge"}
INIT Init
NEXT Next
INVARIANT ViewShape
INVARIANT Wrapping
INVARIANT Distinct
INVARIANT RuleShape
POSTCONDITION AllCasesVisited
