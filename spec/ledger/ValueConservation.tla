------------------------- MODULE ValueConservation -------------------------
(* C27 — value is conserved by every accepted transaction.                   *)
(*                                                                           *)
(* Independent reference model of the UTXO rule's balance equation, written  *)
(* from the Cardano ledger specifications (Shelley spec "consumed/produced", *)
(* "totalDeposits", "keyRefunds"; Mary: values with a mint field; Conway:    *)
(* conwayConsumed / conwayProducedValue with DRep and proposal deposits and  *)
(* the treasury donation), NOT from the Go code:                             *)
(*                                                                           *)
(*   consumed = ubalance(txins <| utxo) + wbalance(txwdrls)                  *)
(*              + refunds(pp, certs) + mint                                  *)
(*   produced = ubalance(outs) + txfee + totalDeposits(pp, pools, certs)     *)
(*              + proposal deposits + treasury donation                      *)
(*   accept  <=>  consumed = produced   (coin and every asset separately)    *)
(*                                                                           *)
(* Values are small integers; the conformance driver replays every case on   *)
(* the real rule at several scales q -> q*M (sums are preserved).            *)
(*                                                                           *)
(* Stated simplification (DESIGN.md C27): a stake deregistration refunds the *)
(* current keyDeposit parameter and a DRep deregistration the current        *)
(* drepDeposit (no parameter change between registration and refund); the    *)
(* deposit carried by a Conway certificate / proposal is well formed, i.e.   *)
(* equal to the parameter (the DELEG/GOVCERT/GOV rules enforce that, not the *)
(* balance equation).                                                        *)
(*                                                                           *)
(* The phase-2 flag.  From Alonzo on a transaction carries is_valid; a       *)
(* transaction flagged is_valid = false (its Plutus scripts fail) is still   *)
(* put into a block and only its collateral is collected.  consumed =        *)
(* produced is a precondition of the UTXO rule that the ledger applies       *)
(* BEFORE it branches on the flag (only UTXOS reads it: Alonzo spec fig. 9,  *)
(* Babbage/Conway utxoTransition "validateValueNotConservedUTxO" is          *)
(* unconditional), so the verdict below never reads the field p2 and the     *)
(* flagged copy of every case carries the verdict of its unflagged twin      *)
(* (FlagIrrelevant, FlagTwin).                                               *)
EXTENDS Integers, Sequences, FiniteSets, SequencesExt, Json, TLC

CONSTANTS
    Eras,          \* subset of AllEras to enumerate
    Seed,          \* VERIF_SEED: selects the sample of the grid
    MaxCerts,      \* certificate multisets of size 0..MaxCerts
    PerBagLegacy,  \* sampled base transactions per certificate multiset (Shelley..Babbage)
    PerBagGov,     \* the same for Conway, Dijkstra
    FlagEvery      \* one base transaction in FlagEvery is also emitted flagged is_valid = false (1 = all)

AllEras == <<"shelley", "allegra", "mary", "alonzo", "babbage", "conway", "dijkstra">>
EraIdx(e) == CHOOSE i \in 1..Len(AllEras) : AllEras[i] = e

HasAssets(e) == e \notin {"shelley", "allegra"}          \* Mary onwards: multi-asset values, mint
HasGov(e)    == e \in {"conway", "dijkstra"}             \* Conway onwards: DReps, proposals, donation
\* Alonzo onwards: the transaction has the is_valid flag.  Alonzo, Babbage and Conway
\* carry it in the transaction's own encoding (4-element envelope).  A Dijkstra
\* transaction has a 3-element envelope that cannot say is_valid = false; there the
\* block lists the indices of its invalid transactions, and the rules see the flag of
\* a transaction taken from a block only.
HasFlag(e)    == e \in {"alonzo", "babbage", "conway", "dijkstra"}
FlagOnWire(e) == e \in {"alonzo", "babbage", "conway"}

----------------------------------------------------------------------------
(* Certificates.  A pool registration names pool "A" or "B" (not registered  *)
(* in the ledger state) or "old" (already registered).                       *)
(*                                                                           *)
(* The ledger state's pool table (field pools of a case) gives every pool a  *)
(* history: "unknown" (never registered, or retired and removed),            *)
(* "registered", or "retiring" = registered with a retirement announced for  *)
(* a later epoch.  A retiring pool stays in the registered set, and keeps    *)
(* its deposit, until that epoch boundary (Shelley spec, POOLREAP); a        *)
(* registration certificate for it is a re-registration that only cancels    *)
(* the retirement.  totalDeposits therefore asks one question about the pool *)
(* named by a registration certificate: is it in the registered set - its    *)
(* retirement status is not looked at (PoolHistory).                         *)
LegacyKinds == << "stake_reg", "stake_dereg", "stake_deleg",
                  "poolreg_newA", "poolreg_newB", "poolreg_old", "pool_retire",
                  "genesis_deleg" >>
GovKinds    == << "stake_reg", "stake_dereg", "stake_deleg",
                  "poolreg_newA", "poolreg_newB", "poolreg_old", "pool_retire",
                  "reg_dep", "dereg_dep", "vote_deleg",
                  "stake_reg_deleg", "vote_reg_deleg", "stake_vote_reg_deleg",
                  "drep_reg", "drep_dereg", "drep_update" >>
Kinds(e) == IF HasGov(e) THEN GovKinds ELSE LegacyKinds


\* every certificate that registers a stake credential takes a key deposit
KeyRegKinds   == {"stake_reg", "reg_dep", "stake_reg_deleg", "vote_reg_deleg", "stake_vote_reg_deleg"}
\* every certificate that deregisters one refunds it
KeyDeregKinds == {"stake_dereg", "dereg_dep"}
NewPoolKinds  == {"poolreg_newA", "poolreg_newB"}
PoolRegKinds  == NewPoolKinds \cup {"poolreg_old"}
PoolOf(k)     == CASE k = "poolreg_newA" -> "A" [] k = "poolreg_newB" -> "B" [] k = "poolreg_old" -> "old"
PoolStates    == {"unknown", "registered", "retiring"}
InRegisteredSet(st) == st \in {"registered", "retiring"}
\* kinds that move no deposit at all
NeutralKinds  == {"stake_deleg", "poolreg_old", "pool_retire", "genesis_deleg", "vote_deleg", "drep_update"}

Count(certs, K) == Cardinality({i \in DOMAIN certs : certs[i] \in K})

\* totalDeposits: key deposits per registering certificate; ONE pool deposit per
\* distinct pool id that is registered by the transaction and not yet registered
\* in the ledger state ("we don't pay a deposit on a pool that is already
\* registered or duplicated in the certs"); DRep deposits.
NewPools(t) == {q \in {PoolOf(k) : k \in Range(t.certs) \cap PoolRegKinds} : ~InRegisteredSet(t.pools[q])}
Deposits(t) ==
      t.pp.key  * Count(t.certs, KeyRegKinds)
    + t.pp.pool * Cardinality(NewPools(t))
    + t.pp.drep * Count(t.certs, {"drep_reg"})

\* refunds: key deposits of deregistered credentials, DRep deposits of
\* deregistered DReps.  A pool retirement refunds nothing in the transaction.
Refunds(pp, certs) ==
      pp.key  * Count(certs, KeyDeregKinds)
    + pp.drep * Count(certs, {"drep_dereg"})

RECURSIVE SumF(_, _, _)
SumF(s, f, i) == IF i > Len(s) THEN 0 ELSE s[i][f] + SumF(s, f, i + 1)
RECURSIVE SumS(_, _)
SumS(s, i) == IF i > Len(s) THEN 0 ELSE s[i] + SumS(s, i + 1)

ConsumedCoin(t)  == SumF(t.ins, "c", 1) + SumS(t.wds, 1) + Refunds(t.pp, t.certs)
\* two assets "a" and "b" (under one policy id): each is a component of its own
MintOf(t, x)        == IF x = "a" THEN t.mint ELSE t.mintb
ConsumedAsset(t, x) == IF HasAssets(t.era) THEN SumF(t.ins, x, 1) + MintOf(t, x) ELSE 0
ProducedCoin(t)  == SumF(t.outs, "c", 1) + t.fee + Deposits(t)
                    + (IF HasGov(t.era) THEN t.nprop * t.pp.gov + t.don ELSE 0)
ProducedAsset(t, x) == IF HasAssets(t.era) THEN SumF(t.outs, x, 1) ELSE 0

Accept(t) == /\ ConsumedCoin(t) = ProducedCoin(t)
             /\ ConsumedAsset(t, "a") = ProducedAsset(t, "a")
             /\ ConsumedAsset(t, "b") = ProducedAsset(t, "b")

\* what a validator that confuses the two assets would accept (NOT the rule): only
\* the sum over both assets balances.  Used to generate and to recognise the cases
\* that separate per-asset conservation from it.
MergedAccept(t) == /\ ConsumedCoin(t) = ProducedCoin(t)
                   /\ ConsumedAsset(t, "a") + ConsumedAsset(t, "b")
                        = ProducedAsset(t, "a") + ProducedAsset(t, "b")

----------------------------------------------------------------------------
(* The grid: values 0..3, 1..2 inputs, 0..2 outputs, 0..2 withdrawals, mint  *)
(* -3..3 of each of two assets under one policy, donation 0..3, 0..2 proposals, deposits 1..3, a       *)
(* certificate multiset of the era's kinds.  It is far too large to          *)
(* enumerate (> 10^10 per era), so for every certificate multiset PerBag     *)
(* base transactions are drawn with a hash of (Seed, era, multiset, j) and   *)
(* each is emitted in three variants: as drawn ("free"), balanced by one     *)
(* extra input/output ("bal") and balanced then knocked off by one unit in   *)
(* one term ("tweak").  The verdict of every variant is computed by Accept,  *)
(* never by construction; VariantSane cross-checks the two.                  *)
P1 == 32749
P2 == 32719
Sq1(x) == (x * x + 11) % P1
Sq2(x) == (x * x + 5) % P2
Absorb1(h, v) == Sq1(Sq1((h + 257 * v + 1) % P1))
Absorb2(h, v) == Sq2(Sq2((h + 263 * v + 3) % P2))
\* two hash lanes over the coordinates <<era, multiset, j>> ...
Lane1(e, b, j) == Absorb1(Absorb1(Absorb1(Seed % P1, e), b), j)
Lane2(e, b, j) == Absorb2(Absorb2(Absorb2((Seed + 7) % P2, e), b), j)
\* ... and the pseudo-random number in 0..n-1 drawn for field f from the lanes l = <<l1, l2>>
Rnd(l, f, n) == (Absorb1(l[1], f) + Absorb2(l[2], f)) % n

\* certificate multisets as non-decreasing sequences of kind indices
CertBags(nk) == { s \in UNION {[1..m -> 1..nk] : m \in 0..MaxCerts} :
                \A i \in 1..(Len(s) - 1) : s[i] <= s[i + 1] }
RECURSIVE BagId(_, _)
BagId(s, i) == IF i > Len(s) THEN 0 ELSE s[i] + 17 * BagId(s, i + 1)

Lanes(e, bag, j) == <<Lane1(EraIdx(e), BagId(bag, 1), j), Lane2(EraIdx(e), BagId(bag, 1), j)>>

\* the base transaction drawn for (era, multiset, j); l = Lanes(e, bag, j)
Base(e, bag, j, l) ==
    LET nIn   == 1 + Rnd(l, 1, 2)
        nOut  == Rnd(l, 2, 3)
        nWd   == Rnd(l, 4, 3)
        ast(f) == IF HasAssets(e) THEN Rnd(l, f, 4) ELSE 0
        \* the second asset is absent in half of the places
        bst(f) == IF HasAssets(e) /\ Rnd(l, f, 6) < 4 THEN Rnd(l, f, 6) ELSE 0
        mb     == Rnd(l, 75, 13)
    IN [ era   |-> e,
         bag   |-> bag,
         j     |-> j,
         var   |-> "free",
         p2    |-> FALSE,          \* is_valid = false?  (Accept never reads it)
         certs |-> [i \in 1..Len(bag) |-> Kinds(e)[bag[i]]],
         \* the pool table of the ledger state: the already registered pool has, in half
         \* of the base transactions, announced its retirement
         pools |-> [A |-> "unknown", B |-> "unknown",
                    old |-> IF Rnd(l, 73, 2) = 0 THEN "registered" ELSE "retiring"],
         pp    |-> [ key  |-> 1 + Rnd(l, 8, 3),
                     pool |-> 1 + Rnd(l, 9, 3),
                     drep |-> IF HasGov(e) THEN 1 + Rnd(l, 60, 3) ELSE 0,
                     gov  |-> IF HasGov(e) THEN 1 + Rnd(l, 61, 3) ELSE 0 ],
         ins   |-> [i \in 1..nIn  |-> [c |-> Rnd(l, 10 + i, 4), a |-> ast(20 + i), b |-> bst(80 + i)]],
         outs  |-> [i \in 1..nOut |-> [c |-> Rnd(l, 30 + i, 4), a |-> ast(40 + i), b |-> bst(90 + i)]],
         fee   |-> Rnd(l, 3, 4),
         wds   |-> [i \in 1..nWd |-> Rnd(l, 50 + i, 4)],
         mint  |-> IF HasAssets(e) THEN Rnd(l, 5, 7) - 3 ELSE 0,
         mintb |-> IF HasAssets(e) /\ mb < 7 THEN mb - 3 ELSE 0,
         don   |-> IF HasGov(e) THEN Rnd(l, 6, 4) ELSE 0,
         nprop |-> IF HasGov(e) THEN Rnd(l, 7, 3) ELSE 0 ]

Max2(a, b) == IF a >= b THEN a ELSE b

\* close the gap with one extra output and/or one extra input
Balanced(t) ==
    LET dc == ConsumedCoin(t) - ProducedCoin(t)
        da == ConsumedAsset(t, "a") - ProducedAsset(t, "a")
        db == ConsumedAsset(t, "b") - ProducedAsset(t, "b")
        so == [c |-> Max2(dc, 0), a |-> Max2(da, 0), b |-> Max2(db, 0)]
        si == [c |-> Max2(0 - dc, 0), a |-> Max2(0 - da, 0), b |-> Max2(0 - db, 0)]
    IN [t EXCEPT !.var  = "bal",
                 !.outs = IF so.c > 0 \/ so.a > 0 \/ so.b > 0 THEN Append(@, so) ELSE @,
                 !.ins  = IF si.c > 0 \/ si.a > 0 \/ si.b > 0 THEN Append(@, si) ELSE @]

\* one-unit perturbations of a single term; each unbalances a balanced transaction
Tweaks(e) == <<"fee", "in_coin", "wd", "out_coin">>
             \o (IF HasAssets(e) THEN <<"in_asset", "mint_up", "mint_down", "out_asset">> ELSE <<>>)
             \o (IF HasGov(e) THEN <<"donation", "proposal">> ELSE <<>>)
Tweak(t, w) ==
    LET u == [t EXCEPT !.var = "tweak_" \o w] IN
    CASE w = "fee"       -> [u EXCEPT !.fee = @ + 1]
      [] w = "in_coin"   -> [u EXCEPT !.ins[1].c = @ + 1]
      [] w = "in_asset"  -> [u EXCEPT !.ins[1].a = @ + 1]
      [] w = "wd"        -> [u EXCEPT !.wds = Append(@, 1)]
      [] w = "out_coin"  -> [u EXCEPT !.outs = Append(@, [c |-> 1, a |-> 0, b |-> 0])]
      [] w = "out_asset" -> [u EXCEPT !.outs = Append(@, [c |-> 0, a |-> 1, b |-> 0])]
      [] w = "mint_up"   -> [u EXCEPT !.mint = @ + 1]
      [] w = "mint_down" -> [u EXCEPT !.mint = @ - 1]
      [] w = "donation"  -> [u EXCEPT !.don = @ + 1]
      [] w = "proposal"  -> [u EXCEPT !.nprop = @ + 1]

\* a balanced transaction in which one unit changes its asset: asset "a" goes in (or
\* is minted) and asset "b" comes out, or the other way round.  Only the sum over
\* both assets balances, so the rule must reject it.
Merges == <<"a_to_b", "b_to_a", "mint_a_out_b", "mint_b_out_a">>
Merge(t, w) ==
    LET u    == [t EXCEPT !.var = "merge_" \o w]
        outA == [c |-> 0, a |-> 1, b |-> 0]
        outB == [c |-> 0, a |-> 0, b |-> 1]
    IN
    CASE w = "a_to_b"       -> [u EXCEPT !.ins[1].a = @ + 1, !.outs = Append(@, outB)]
      [] w = "b_to_a"       -> [u EXCEPT !.ins[1].b = @ + 1, !.outs = Append(@, outA)]
      [] w = "mint_a_out_b" -> [u EXCEPT !.mint = @ + 1, !.outs = Append(@, outB)]
      [] w = "mint_b_out_a" -> [u EXCEPT !.mintb = @ + 1, !.outs = Append(@, outA)]

PerBag(e) == IF HasGov(e) THEN PerBagGov ELSE PerBagLegacy

Variants(e, bag, j) ==
    LET l  == Lanes(e, bag, j)
        b  == Base(e, bag, j, l)
        bb == Balanced(b)
        tw == Tweaks(e)
        w  == tw[1 + Rnd(l, 70, Len(tw))]
    IN {b, bb, Tweak(bb, w)}
       \cup (IF HasAssets(e) THEN {Merge(bb, Merges[1 + Rnd(l, 71, Len(Merges))])} ELSE {})

\* The phase-2 flag is one more coordinate of the case space: the base transactions
\* picked by the hash (all of them when FlagEvery = 1) are emitted a second time, in
\* every variant, flagged is_valid = false.
Flag(t) == [t EXCEPT !.p2 = TRUE]
FlagPicked(e, bag, j) == HasFlag(e) /\ Rnd(Lanes(e, bag, j), 72, FlagEvery) = 0
WithFlag(e, bag, j) ==
    LET vs == Variants(e, bag, j)
    IN IF FlagPicked(e, bag, j) THEN vs \cup {Flag(t) : t \in vs} ELSE vs

Cases ==
    UNION { UNION { WithFlag(e, bag, j) : bag \in CertBags(Len(Kinds(e))), j \in 1..PerBag(e) } : e \in Eras }

----------------------------------------------------------------------------
VARIABLE c
Init == c \in Cases
Next == UNCHANGED c

(* Meta-properties of the transcription, evaluated for every case.           *)

\* the balanced variant is accepted, the knocked-off one is not
VariantSane ==
    /\ (c.var = "bal" => Accept(c))
    /\ (c.var \notin {"free", "bal"} => ~Accept(c))

\* per-asset conservation is strictly stronger than conservation of the asset total:
\* the "merge" variants balance only when the two assets are confused
PerAssetNotMerged ==
    /\ (Accept(c) => MergedAccept(c))
    /\ (c.var \in {"merge_" \o w : w \in Range(Merges)} => MergedAccept(c) /\ ~Accept(c))

\* adding the same amount q to both sides preserves the verdict (q varies with the case)
AddBothSides ==
    LET ok == Accept(c)
        q  == 1 + (c.j % 3)
    IN
    /\ ok <=> Accept([c EXCEPT !.fee = @ + q, !.ins[1].c = @ + q])
    /\ ok <=> Accept([c EXCEPT !.wds = Append(@, q), !.outs = Append(@, [c |-> q, a |-> 0, b |-> 0])])
    /\ HasAssets(c.era) =>
          /\ ok <=> Accept([c EXCEPT !.ins[1].a = @ + q, !.outs = Append(@, [c |-> 0, a |-> q, b |-> 0])])
          /\ ok <=> Accept([c EXCEPT !.mint = @ + q, !.outs = Append(@, [c |-> 0, a |-> q, b |-> 0])])
    /\ HasGov(c.era) =>
          ok <=> Accept([c EXCEPT !.don = @ + q, !.ins[1].c = @ + q])
    \* asset "b" balances on its own, and a surplus of "b" never pays for a deficit of "a"
    /\ HasAssets(c.era) =>
          /\ ok <=> Accept([c EXCEPT !.mintb = @ + q, !.outs = Append(@, [c |-> 0, a |-> 0, b |-> q])])
          /\ ok => ~Accept([c EXCEPT !.ins[1].a = @ + q, !.outs = Append(@, [c |-> 0, a |-> 0, b |-> q])])

\* adding an amount to one side only turns an accepted transaction into a rejected one
OneSideBreaks ==
    Accept(c) => /\ ~Accept([c EXCEPT !.fee = @ + 1])
                 /\ ~Accept([c EXCEPT !.ins[1].c = @ + 1])
                 /\ (HasAssets(c.era) => ~Accept([c EXCEPT !.mint = @ + 1]))
                 /\ (HasGov(c.era) => ~Accept([c EXCEPT !.don = @ + 1]))

Imbalance(t) == ConsumedCoin(t) - ProducedCoin(t)

\* certificates that move no deposit do not move the balance; registration and
\* deregistration of a credential cancel; a pool is paid for once.  (The three
\* variants of a base transaction share certificates and parameters, so the
\* "free" one speaks for all of them.)
CertAlgebra ==
    LET im == Imbalance(c)
        With(ks) == Imbalance([c EXCEPT !.certs = @ \o ks])
    IN
    c.var = "free" =>
    /\ \A kd \in NeutralKinds : With(<<kd>>) = im
    /\ With(<<"stake_reg", "stake_dereg">>) = im
    /\ With(<<"stake_reg">>) = im - c.pp.key
    /\ With(<<"stake_dereg">>) = im + c.pp.key
    /\ HasGov(c.era) =>
          /\ With(<<"drep_reg", "drep_dereg">>) = im
          /\ With(<<"reg_dep", "dereg_dep">>) = im
          /\ With(<<"drep_reg">>) = im - c.pp.drep
    /\ LET once == With(<<"poolreg_newA">>) IN
          /\ With(<<"poolreg_newA", "poolreg_newA">>) = once
          /\ once = im - (IF "poolreg_newA" \in Range(c.certs) THEN 0 ELSE c.pp.pool)
          /\ With(<<"poolreg_newA", "poolreg_newB">>)
                = once - (IF "poolreg_newB" \in Range(c.certs) THEN 0 ELSE c.pp.pool)

\* the history of the pool named by a registration certificate: only membership in the
\* registered set decides about the deposit, the announced retirement does not ...
PoolHistory ==
    LET other == [c EXCEPT !.pools.old = IF @ = "registered" THEN "retiring" ELSE "registered"]
        pc    == ProducedCoin(c)
    IN /\ Accept(other) <=> Accept(c)
       /\ ProducedCoin(other) = pc
       \* (the variants of a base transaction share certificates, parameters and pool
       \* table, so the "free" one speaks for all of them)
       /\ c.var = "free" =>
             \* ... and membership does: were the pool unknown, its registration would cost one deposit
             /\ ProducedCoin([c EXCEPT !.pools.old = "unknown"])
                   = pc + (IF "poolreg_old" \in Range(c.certs) THEN c.pp.pool ELSE 0)
             \* retiring and re-registering the pool in one transaction moves nothing either
             /\ Imbalance([c EXCEPT !.certs = @ \o <<"pool_retire", "poolreg_old">>]) = Imbalance(c)

\* nothing but a burn is negative; a transaction that burns more than it spends is never accepted
Signs ==
    /\ ConsumedCoin(c) >= 0 /\ ProducedCoin(c) >= 0
    /\ \A x \in {"a", "b"} : ProducedAsset(c, x) >= 0 /\ (ConsumedAsset(c, x) < 0 => ~Accept(c))

\* the phase-2 flag never changes the verdict, nor either side of the equation
FlagIrrelevant ==
    HasFlag(c.era) =>
        LET d == [c EXCEPT !.p2 = ~c.p2] IN
        /\ Accept(c) <=> Accept(d)
        /\ ConsumedCoin(c) = ConsumedCoin(d) /\ ProducedCoin(c) = ProducedCoin(d)

\* the flag is a coordinate of its own: every flagged case is the copy of an unflagged
\* case of the same run at the same coordinates (so each flagged verdict is paired with
\* the unflagged one on the same amounts) and only eras that have the flag are flagged;
\* FlagProduct below completes it to a bijection when FlagEvery = 1
FlagTwin ==
    c.p2 => /\ HasFlag(c.era)
            /\ [c EXCEPT !.p2 = FALSE] \in Variants(c.era, c.bag, c.j)

\* the generator respects the era's feature set and the grid bounds
EraShape ==
    /\ c.era \in Eras
    /\ c.p2 \in BOOLEAN /\ (c.p2 => HasFlag(c.era))
    /\ Range(c.certs) \subseteq Range(Kinds(c.era))
    /\ Len(c.certs) <= MaxCerts
    /\ Len(c.ins) \in 1..3 /\ Len(c.outs) \in 0..4 /\ Len(c.wds) \in 0..3
    /\ c.fee \in 0..4 /\ c.pp.key \in 1..3 /\ c.pp.pool \in 1..3
    /\ DOMAIN c.pools = {"A", "B", "old"} /\ \A q \in DOMAIN c.pools : c.pools[q] \in PoolStates
    /\ c.pools.A = "unknown" /\ c.pools.B = "unknown" /\ InRegisteredSet(c.pools.old)
    /\ (~HasAssets(c.era) =>
            /\ c.mint = 0 /\ c.mintb = 0
            /\ \A i \in DOMAIN c.ins : c.ins[i].a = 0 /\ c.ins[i].b = 0
            /\ \A i \in DOMAIN c.outs : c.outs[i].a = 0 /\ c.outs[i].b = 0)
    /\ (~HasGov(c.era) => c.don = 0 /\ c.nprop = 0 /\ c.pp.drep = 0 /\ c.pp.gov = 0)
    /\ (HasGov(c.era) => c.pp.drep \in 1..3 /\ c.pp.gov \in 1..3)

ASSUME KeyRegKinds \cup KeyDeregKinds \cup NewPoolKinds \cup NeutralKinds \cup {"drep_reg", "drep_dereg"}
         = Range(GovKinds) \cup Range(LegacyKinds)
ASSUME Range(LegacyKinds) \ {"genesis_deleg"} \subseteq Range(GovKinds)
ASSUME Len(GovKinds) < 17 /\ Eras \subseteq Range(AllEras)
ASSUME FlagEvery \in Nat \ {0}
\* with FlagEvery = 1 the case space of an era that has the flag is the full product
\* with {FALSE, TRUE} (as many flagged cases as unflagged ones; FlagTwin is the injection)
FlagProduct ==
    LET f == Cardinality({t \in Cases : t.p2})
        u == Cardinality({t \in Cases : ~t.p2 /\ HasFlag(t.era)})
    IN f <= u /\ (FlagEvery = 1 => f = u) /\ ((Eras \cap {e \in Range(AllEras) : HasFlag(e)}) # {} => f > 0)
ASSUME FlagProduct
ASSUME \A e \in Range(AllEras) : (FlagOnWire(e) => HasFlag(e)) /\ (HasFlag(e) => HasAssets(e))
ASSUME \A x \in 0..50 : Rnd(<<Lane1(x, 1, 2), Lane2(x, 1, 2)>>, x, 4) \in 0..3

Row(t) == [ era |-> t.era, bag |-> t.bag, j |-> t.j, var |-> t.var, certs |-> t.certs, pp |-> t.pp,
            pools |-> t.pools,                            \* the ledger state's pool table
            ins |-> t.ins, outs |-> t.outs, fee |-> t.fee, wds |-> t.wds, mint |-> t.mint, mintb |-> t.mintb,
            don |-> t.don, nprop |-> t.nprop,
            p2 |-> t.p2,                                  \* build the transaction with is_valid = false
            p2wire |-> t.p2 /\ FlagOnWire(t.era),         \* ... and the flag survives the transaction's encoding
            accept |-> Accept(t),
            cc |-> ConsumedCoin(t), pc |-> ProducedCoin(t),
            ca |-> ConsumedAsset(t, "a"), pa |-> ProducedAsset(t, "a"),
            cb |-> ConsumedAsset(t, "b"), pb |-> ProducedAsset(t, "b"),
            merged |-> MergedAccept(t) ]

ASSUME ndJsonSerialize("cases.ndjson", SetToSeq({Row(t) : t \in Cases}))
=============================================================================
