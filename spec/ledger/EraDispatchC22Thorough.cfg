CONSTANT Families = {"b2h", "h2b", "mapdom"}
CONSTANT MaxMajor = 255
INIT Init
NEXT Next
INVARIANT TablesConsistent
