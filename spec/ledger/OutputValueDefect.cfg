CONSTANT MaxQ = 3
CONSTANT TxOuts <- TxOutsDefect
CONSTANT TxMaxIns = 1
CONSTANT TxMaxOuts = 2
CONSTANT RangeChecked = FALSE
INIT Init
NEXT Next
INVARIANT NoForge
