CONSTANT Fees = {0, 1, 2, 3, 4, 5, 6, 7, 8, 9, 10}
CONSTANT Pcts = {0, 1, 33, 49, 50, 99, 100, 101, 150, 199, 200, 255}
CONSTANT MaxBal = 27
CONSTANT RetFees = {1, 3, 7, 10}
CONSTANT RetPcts = {50, 99, 150, 255}
CONSTANT RetAdas = {1, 2, 7}
CONSTANT ShapeFees = {3, 7}
CONSTANT ShapePcts = {0, 99, 150}
CONSTANT ShapeBals = {0, 4, 5, 10, 11}
CONSTANT MaxIn = 5
CONSTANT MaxMax = 4
CONSTANT MaxTok = 2
CONSTANT FlooringDefect = FALSE
INIT Init
NEXT Next
INVARIANT ThresholdExact
INVARIANT Monotone
INVARIANT ZeroShare
INVARIANT FloorCharacterised
INVARIANT Homogeneous
INVARIANT VerdictShape
INVARIANT Exact
POSTCONDITION AllCasesVisited
