CONSTANT Ns = {1, 2, 3, 4, 5, 10, 21, 22, 23, 24, 25, 26, 40}
CONSTANT Vs = {0, 1, 2, 3, 4, 5, 6, 7, 8, 9, 10, 11, 12, 13, 14, 15, 16, 17, 18, 19, 20, 21, 22, 23, 24, 25, 34, 36, 255, 256, 65535, 65536, 16777215}
CONSTANT Fills = {0, 1, 23}
CONSTANT RehNs = {1, 2, 3, 4, 5, 6, 7, 8, 9, 10, 11, 12}
INIT Init
NEXT Next
INVARIANT AllBytes
INVARIANT RoundTrip
INVARIANT HeadIsArray
INVARIANT NoIdIsErr
INVARIANT NonUintWf
INVARIANT IllIsIll
INVARIANT ReheadSame
INVARIANT FormsDiffer
INVARIANT OneMinimal
