CONSTANT Ns = {1, 2, 3, 22, 23, 24, 25}
CONSTANT Vs = {0, 1, 2, 3, 4, 5, 6, 7, 22, 23, 24, 255, 256, 65536}
CONSTANT Fills = {0, 23}
CONSTANT RehNs = {1, 2, 3, 4, 5, 6, 7, 8, 9, 10, 11, 12}
INIT Init
NEXT Next
INVARIANT AllBytes
INVARIANT RoundTrip
INVARIANT HeadIsArray
INVARIANT NoIdIsErr
INVARIANT NonUintWf
INVARIANT IllIsIll
INVARIANT ReheadSame
INVARIANT FormsDiffer
INVARIANT OneMinimal
