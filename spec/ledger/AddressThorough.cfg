CONSTANT PtrVals = {0, 127, 128, 16383, 16384, 2097151, 2097152}
CONSTANT PtrHeaders = {64, 65, 80, 81}
CONSTANT PtrDevs = {"exact", "short", "junk1", "junk28", "wl3x", "xwl8", "wl1", "wl2", "wl3", "wl4", "wl5", "wl6", "wl7", "wl8"}
INIT Init
NEXT Next
INVARIANT ValidIffParses
INVARIANT Lossless
INVARIANT ParseSerialize
INVARIANT LenExact
INVARIANT HrpTotal
INVARIANT VarintOk
INVARIANT WireAlphabet
INVARIANT ByronNibble
