CONSTANT NOps = 3
CONSTANT SharedScratch = FALSE
CONSTANT AllThirds = TRUE
INIT Init
NEXT Next
INVARIANT OwnContent
INVARIANT HistoriesMatch
