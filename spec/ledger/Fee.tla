------------------------------- MODULE Fee -------------------------------
(* C30 — The minimum fee and the size limit use the transaction's real size. *)
(*                                                                           *)
(* Two decision functions of the Shelley..Dijkstra UTXO rule:                *)
(*                                                                           *)
(*   Size(tx)   = |orig| - [era in Alonzo..Conway /\ envelope = 4]           *)
(*   MinFee     = a * Size + b, computed in a machine word 0..W-1;           *)
(*                Overflow when the product or the sum is >= W               *)
(*   AcceptFee  <=> ~Overflow /\ fee >= MinFee     (Overflow is an error,    *)
(*                                                  never a wrapped number)  *)
(*   AcceptSize <=> |orig| <= max                                            *)
(*                                                                           *)
(* |orig| is the length of the encoding the transaction arrived in; it may   *)
(* be longer than the canonical re-encoding (`pad` bytes longer) and the     *)
(* four/three-element envelope may have a minimal, a wide or an indefinite   *)
(* array head.  Neither must matter.                                         *)
(*                                                                           *)
(* From Alonzo on the four-element envelope carries the is_valid flag        *)
(* (false = the transaction's Plutus scripts fail; the block producer        *)
(* includes it anyway and only its collateral is collected).  The minimum    *)
(* fee and the maximum size are phase-1 checks of the UTXO rule: they are     *)
(* preconditions whatever the flag says (only UTXOS branches on it).  The     *)
(* flag is a dimension of the size slice (field p2, TRUE = is_valid is        *)
(* false) and of the carriers on which the arithmetic points are replayed;    *)
(* no verdict reads it (invariants FlagIrrelevant, FlagNeverHelps).           *)
(*                                                                           *)
(* The module is parametric in the word size W.  TLC checks it with          *)
(* W = 2^3 on the full grid as states (thorough: also W = 2^4 as one         *)
(* quantified theorem) and with W = 2^8 on a grid that contains every        *)
(* overflow edge; the conformance driver replays                             *)
(* the rows at 64 bits through the exact map  x |-> x * 2^64/W  on a, b and  *)
(* the fee (invariant Homogeneous) and uses the class table (Class ->        *)
(* verdict) for 64-bit numbers that are not multiples of 2^64/W, classified  *)
(* with math/big.  The size slice ranges over small abstract lengths and is  *)
(* translated to the length of a real transaction (invariant Translation).   *)
EXTENDS Integers, Sequences, FiniteSets, Json, TLC, SequencesExt

CONSTANTS
    W,          \* word size of the arithmetic slice
    As, Ss, Bs, \* arithmetic slice: values of a, Size, b (subsets of 0..W-1)
    AllFees,    \* TRUE: every fee 0..W-1; FALSE: the fees around every edge
    Origs,      \* size slice: abstract lengths of the original encoding
    Pads,       \* size slice: |orig| - |canonical re-encoding|
    SzAs, SzBs, \* size slice: fee parameters (small: no overflow there)
    P2Pads,     \* size slice: the paddings that are also built flagged is_valid = false (subset of Pads)
    WrapDefect, \* TRUE re-enables modular arithmetic in the model (TLC must refute it)
    FlagDefect, \* TRUE lets a flagged transaction skip both rules in the model (TLC must refute it)
    FullW       \* word size of the full-grid theorem and of arithfull.ndjson (0 = none)

Full == 0..(W - 1)            \* for configurations:  As <- Full
Word(w) == 0..(w - 1)

---------------------------------------------------------------------------
(* The arithmetic                                                           *)

MulOv(w, a, s)    == a * s >= w
AddOv(w, a, s, b) == a * s < w /\ a * s + b >= w
Ov(w, a, s, b)    == MulOv(w, a, s) \/ AddOv(w, a, s, b)
MinFee(a, s, b)   == a * s + b                  \* meaningful iff ~Ov
Wrapped(w, a, s, b) == (a * s + b) % w

ExactVerdict(w, a, s, b, f) ==
    IF Ov(w, a, s, b) THEN "overflow"
    ELSE IF f >= MinFee(a, s, b) THEN "accept" ELSE "tooSmall"

\* the defective design kept for reference: the word silently wraps
WrappedVerdict(w, a, s, b, f) ==
    IF f >= Wrapped(w, a, s, b) THEN "accept" ELSE "tooSmall"

FeeVerdict(w, a, s, b, f) ==
    IF WrapDefect THEN WrappedVerdict(w, a, s, b, f) ELSE ExactVerdict(w, a, s, b, f)

\* the classes the driver can establish for arbitrary 64-bit numbers
Class(w, a, s, b, f) ==
    IF MulOv(w, a, s) THEN "mul"
    ELSE IF AddOv(w, a, s, b) THEN "add"
    ELSE IF f < MinFee(a, s, b) THEN "below"
    ELSE IF f = MinFee(a, s, b) THEN "at" ELSE "above"

Classes == {"mul", "add", "below", "at", "above"}
ClassVerdict(cls) ==
    IF cls \in {"mul", "add"} THEN "overflow"
    ELSE IF cls = "below" THEN "tooSmall" ELSE "accept"

\* where the case sits relative to the overflow edges (for the evidence and
\* for choosing 64-bit representatives)
Edge(w, a, s, b) ==
    IF MulOv(w, a, s) THEN (IF a >= 1 /\ (a - 1) * s < w THEN "first" ELSE "inner")
    ELSE IF AddOv(w, a, s, b) THEN (IF a * s + b = w THEN "first" ELSE "inner")
    ELSE IF a * s + b = w - 1 THEN "last" ELSE "inner"

---------------------------------------------------------------------------
(* The size                                                                 *)

EraSeq == <<"shelley", "allegra", "mary", "alonzo", "babbage", "conway", "dijkstra">>
Eras   == {EraSeq[i] : i \in 1..Len(EraSeq)}
Mid    == {"alonzo", "babbage", "conway"}          \* [body, witnesses, is_valid, aux]
Envs(era) == IF era \in Mid THEN {4} ELSE IF era = "dijkstra" THEN {3, 4} ELSE {3}
Heads  == {"min", "wide", "indef"}                 \* 0x83/0x84, 0x98 n, 0x9f .. 0xff

\* the size slice is evaluated in a word wide enough that it never overflows
SzW == 1048576

Sub(era, env) == IF era \in Mid /\ env = 4 THEN 1 ELSE 0
FeeSize(era, env, orig) == orig - Sub(era, env)

\* the property text speaks of "the four-element Alonzo-to-Conway envelope";
\* it is silent on a Dijkstra transaction that arrives with four elements
\* (the repository deliberately subtracts the byte there): both are accepted
Silent(era, env) == era = "dijkstra" /\ env = 4
\* ... but both readings (|orig| and |orig| - 1) are readings of the statement:
\* where they give the same verdict, that verdict is binding ("either" otherwise)
BothReadings(era, env, orig, a, b, f) ==
    LET lo == ExactVerdict(SzW, a, orig - 1, b, f)
        hi == ExactVerdict(SzW, a, orig, b, f)
    IN  IF ~Silent(era, env) THEN ExactVerdict(SzW, a, FeeSize(era, env, orig), b, f)
        ELSE IF lo = hi THEN lo ELSE "either"

\* the third element of the Alonzo..Conway envelope is is_valid: exactly these
\* transactions can be flagged phase-2 invalid.  Shelley..Mary have no place for
\* the flag, and a Dijkstra transaction cannot say is_valid = false (its envelope
\* has three elements; the four-element form it is also read from must say true)
CanFlag(era, env) == era \in Mid /\ env = 4

\* the property is one-directional ("accepts only if fee >= a*size + b"): the
\* implementation sizes an Alonzo..Conway transaction whose four-element envelope
\* has an INDEFINITE head one byte too large (it cannot read the head and keeps
\* |orig|), which only raises the minimum.  For these cases an over-estimate of
\* the size is an observation, not a disagreement; an under-estimate, or an
\* acceptance below the stated minimum, still is one.
OverSizeTolerated(era, env, hd) == era \in Mid /\ env = 4 /\ hd = "indef"

SizeVerdict(orig, max) == IF orig <= max THEN "accept" ELSE "tooBig"

---------------------------------------------------------------------------
(* The case space (one state per case)                                      *)

Near(x) == {x - 1, x, x + 1}

FeesOf(a, s, b) ==
    IF AllFees THEN Full
    ELSE ({0, W - 1} \cup Near(Wrapped(W, a, s, b))
            \cup (IF Ov(W, a, s, b) THEN {} ELSE Near(MinFee(a, s, b)))) \cap Full

ArithCase(a, s, b, f) == [kind |-> "arith", a |-> a, s |-> s, b |-> b, fee |-> f]

SizeCase(era, env, hd, orig, pad, a, b, f, max, p2) ==
    [kind |-> "size", era |-> era, env |-> env, hd |-> hd, orig |-> orig, pad |-> pad,
     a |-> a, b |-> b, fee |-> f, max |-> max, p2 |-> p2]

\* (a silent case also gets the fees around the minimum of its other reading)
SzFees(era, env, orig, a, b) ==
    LET mf == MinFee(a, FeeSize(era, env, orig), b)
        lo == IF Silent(era, env) THEN Near(MinFee(a, orig - 1, b)) ELSE {}
    IN {x \in (Near(mf) \cup {mf - 2} \cup lo) : x >= 0}
SzMaxs(orig, pad) ==
    {x \in {orig - pad - 1, orig - pad, orig - 1, orig, orig + 1} : x >= 0}

\* the transaction and the fee parameters of a size case
Shape(era, env, hd, orig, pad, a, b, p2) ==
    [era |-> era, env |-> env, hd |-> hd, orig |-> orig, pad |-> pad, a |-> a, b |-> b, p2 |-> p2]
ShapeOK(t) ==
    /\ t.env \in Envs(t.era)
    /\ (t.hd # "min" => t.pad >= 1)                 \* a non-minimal head is one byte of padding
    /\ t.pad < t.orig
    /\ (t.p2 => CanFlag(t.era, t.env) /\ t.pad \in P2Pads)
Shapes == { t \in { Shape(q[1], q[2], q[3], q[4], q[5], q[6], q[7], q[8]) :
                        q \in Eras \X {3, 4} \X Heads \X Origs \X Pads \X SzAs \X SzBs \X BOOLEAN } : ShapeOK(t) }
\* the two rules are independent: the fee varies under a limit that fits, the
\* limit varies under the fee that is exactly the minimum
CasesOf(t) ==
    LET mf == MinFee(t.a, FeeSize(t.era, t.env, t.orig), t.b) IN
           { SizeCase(t.era, t.env, t.hd, t.orig, t.pad, t.a, t.b, f, t.orig, t.p2) :
                f \in SzFees(t.era, t.env, t.orig, t.a, t.b) }
      \cup { SizeCase(t.era, t.env, t.hd, t.orig, t.pad, t.a, t.b, mf, m, t.p2) : m \in SzMaxs(t.orig, t.pad) }

\* the transactions an arithmetic point (a, size, b, fee) is replayed on: every
\* era and envelope whose fee size the statement fixes, unflagged and - where the
\* envelope can say so - flagged; `sub` is what the driver adds to the point's
\* size to get the length of the transaction it has to build
Carrier(era, env, p2) == [era |-> era, env |-> env, p2 |-> p2]
Carriers == { k \in { Carrier(q[1], q[2], q[3]) : q \in Eras \X {3, 4} \X BOOLEAN } :
                /\ k.env \in Envs(k.era) /\ ~Silent(k.era, k.env)
                /\ (k.p2 => CanFlag(k.era, k.env)) }

VARIABLE c
Init ==
    \/ \E a \in As, s \in Ss, b \in Bs :
          \E f \in FeesOf(a, s, b) : c = ArithCase(a, s, b, f)
    \/ \E t \in Shapes : c \in CasesOf(t)
Next == UNCHANGED c

ArithSlice == UNION { { ArithCase(p[1], p[2], p[3], f) : f \in FeesOf(p[1], p[2], p[3]) } : p \in As \X Ss \X Bs }
SizeSlice  == UNION { CasesOf(t) : t \in Shapes }

\* POSTCONDITION: the states TLC visited are exactly the emitted cases
AllCasesVisited == TLCGet("distinct") = Cardinality(ArithSlice) + Cardinality(SizeSlice)

---------------------------------------------------------------------------
(* Meta-properties, evaluated in every state (= for every case)             *)

IsArith == c.kind = "arith"
IsSize  == c.kind = "size"

\* --- the arithmetic meta-properties as predicates of one point (w, a, s, b, f) ---

\* the decision is a function of the class, and the class table is the one above
PClassDecides(w, a, s, b, f) ==
    /\ Class(w, a, s, b, f) \in Classes
    /\ FeeVerdict(w, a, s, b, f) = ClassVerdict(Class(w, a, s, b, f))

\* nothing is ever accepted below the true (unbounded) a*size + b, and an
\* overflow is an error for every fee; WrapDefect = TRUE is refuted here
PNeverWrapped(w, a, s, b, f) ==
    /\ (FeeVerdict(w, a, s, b, f) = "accept" => f >= a * s + b)
    /\ (a * s + b >= w <=> FeeVerdict(w, a, s, b, f) = "overflow")

\* without overflow the rule is the exact threshold
PThreshold(w, a, s, b, f) == ~Ov(w, a, s, b) =>
    /\ (ExactVerdict(w, a, s, b, f) = "accept" <=> f >= MinFee(a, s, b))
    /\ ExactVerdict(w, a, s, b, MinFee(a, s, b)) = "accept"
    /\ (MinFee(a, s, b) > 0 => ExactVerdict(w, a, s, b, MinFee(a, s, b) - 1) = "tooSmall")

\* the two overflow causes are exclusive and together say "the true sum does not fit"
POverflowSplit(w, a, s, b, f) ==
    /\ ~(MulOv(w, a, s) /\ AddOv(w, a, s, b))
    /\ (Ov(w, a, s, b) <=> a * s + b >= w)

\* more fee never hurts; larger parameters never help; overflow is upward closed
PMonotone(w, a, s, b, f) ==
    /\ (ExactVerdict(w, a, s, b, f) = "accept" => ExactVerdict(w, a, s, b, f + 1) = "accept")
    /\ (a >= 1 /\ ExactVerdict(w, a, s, b, f) = "accept" => ExactVerdict(w, a - 1, s, b, f) = "accept")
    /\ (b >= 1 /\ ExactVerdict(w, a, s, b, f) = "accept" => ExactVerdict(w, a, s, b - 1, f) = "accept")
    /\ (Ov(w, a, s, b) => Ov(w, a + 1, s, b) /\ Ov(w, a, s + 1, b) /\ Ov(w, a, s, b + 1))

\* the wrapped design agrees with the exact one exactly when nothing overflows
PWrapCharacterised(w, a, s, b, f) ==
    (WrappedVerdict(w, a, s, b, f) = ExactVerdict(w, a, s, b, f) <=> ~Ov(w, a, s, b))

\* scaling a, b and the fee together with the word keeps class and verdict:
\* the justification for replaying the grid at 64 bits with the factor 2^64/W
PHomogeneous(w, a, s, b, f) == \A m \in {2, 3, 16} :
    /\ Class(w * m, a * m, s, b * m, f * m) = Class(w, a, s, b, f)
    /\ ExactVerdict(w * m, a * m, s, b * m, f * m) = ExactVerdict(w, a, s, b, f)
    /\ (~Ov(w, a, s, b) => MinFee(a * m, s, b * m) = m * MinFee(a, s, b))

\* --- as invariants of the visited cases ---
ClassDecides      == IsArith => PClassDecides(W, c.a, c.s, c.b, c.fee)
NeverWrapped      == IsArith => PNeverWrapped(W, c.a, c.s, c.b, c.fee)
Threshold         == IsArith => PThreshold(W, c.a, c.s, c.b, c.fee)
OverflowSplit     == IsArith => POverflowSplit(W, c.a, c.s, c.b, c.fee)
Monotone          == IsArith => PMonotone(W, c.a, c.s, c.b, c.fee)
WrapCharacterised == IsArith => PWrapCharacterised(W, c.a, c.s, c.b, c.fee)
Homogeneous       == IsArith => PHomogeneous(W, c.a, c.s, c.b, c.fee)

\* --- and as one theorem over the FULL grid of a small word FullW (every a, size,
\* b, fee in 0..FullW-1), evaluated by TLC as an assumption (FullW = 0: skipped);
\* these points are not states, their number is FullW^4 ---
FullGridTheorem(w) == \A a \in Word(w), s \in Word(w), b \in Word(w), f \in Word(w) :
    /\ PClassDecides(w, a, s, b, f) /\ PNeverWrapped(w, a, s, b, f) /\ PThreshold(w, a, s, b, f)
    /\ POverflowSplit(w, a, s, b, f) /\ PMonotone(w, a, s, b, f) /\ PWrapCharacterised(w, a, s, b, f)
    /\ PHomogeneous(w, a, s, b, f)

\* the size slice never overflows its word SzW (so its verdicts do not depend on W)
SizeSliceSmall == IsSize => ~Ov(SzW, c.a, c.orig + 3, c.b + 3) /\ c.fee + 3 * c.a < SzW

SzFeeVerdict(x, orig, fee) == ExactVerdict(SzW, x.a, FeeSize(x.era, x.env, orig), x.b, fee)

\* the verdicts of a size case.  Neither reads x.p2; the defective design in
\* which a rule returns early for a flagged transaction is kept for reference
CaseFeeVerdict(x)  == IF FlagDefect /\ x.p2 THEN "accept" ELSE SzFeeVerdict(x, x.orig, x.fee)
CaseSizeVerdict(x) == IF FlagDefect /\ x.p2 THEN "accept" ELSE SizeVerdict(x.orig, x.max)
CaseBothReadings(x) ==
    IF FlagDefect /\ x.p2 THEN "accept" ELSE BothReadings(x.era, x.env, x.orig, x.a, x.b, x.fee)

\* the envelope byte: subtracted exactly for a four-element Alonzo..Conway envelope
EnvelopeByte == IsSize =>
    /\ (c.era \in Mid => FeeSize(c.era, c.env, c.orig) = c.orig - 1)
    /\ (c.era \notin Mid => FeeSize(c.era, c.env, c.orig) = c.orig)
    /\ (c.era \in Mid /\ c.a >= 1 =>
            SzFeeVerdict(c, c.orig, MinFee(c.a, c.orig, c.b) - 1) = "accept")   \* one unit of `a` cheaper

\* shifting the length by d (and the fee by a*d, the limit by d) keeps both
\* verdicts: the justification for replaying abstract lengths on real ones
Translation == IsSize => \A d \in 1..3 :
    /\ SzFeeVerdict(c, c.orig + d, c.fee + c.a * d) = SzFeeVerdict(c, c.orig, c.fee)
    /\ SizeVerdict(c.orig + d, c.max + d) = SizeVerdict(c.orig, c.max)

\* a padded transaction is judged by its original length, not by the length
\* of its canonical re-encoding
OriginalLength == IsSize /\ c.pad > 0 =>
    /\ SizeVerdict(c.orig, c.orig - c.pad) = "tooBig"
    /\ (c.a >= 1 => SzFeeVerdict(c, c.orig, MinFee(c.a, FeeSize(c.era, c.env, c.orig - c.pad), c.b)) = "tooSmall")

\* the phase-2 flag never changes a verdict: a flagged transaction and the same
\* transaction unflagged are judged alike by both rules (FlagDefect = TRUE is
\* refuted here) ...
Flip(x) == [x EXCEPT !.p2 = ~x.p2]
FlagIrrelevant == IsSize /\ CanFlag(c.era, c.env) =>
    /\ CaseFeeVerdict(Flip(c)) = CaseFeeVerdict(c)
    /\ CaseSizeVerdict(Flip(c)) = CaseSizeVerdict(c)
    /\ CaseBothReadings(Flip(c)) = CaseBothReadings(c)
\* ... which is the statement itself read on a flagged transaction: it is accepted
\* only with fee >= a*size + b and |orig| <= max (under either reading of a silent case)
FlagNeverHelps == IsSize /\ c.p2 =>
    /\ (~Silent(c.era, c.env) /\ CaseFeeVerdict(c) = "accept"
            => c.fee >= MinFee(c.a, FeeSize(c.era, c.env, c.orig), c.b))
    /\ (CaseBothReadings(c) = "accept" => c.fee >= MinFee(c.a, c.orig - 1, c.b))
    /\ (CaseSizeVerdict(c) = "accept" => c.orig <= c.max)
\* only an Alonzo..Conway transaction is ever flagged, and every flagged case has its
\* unflagged twin in the case space (so the replay compares like with like)
FlagPaired == IsSize /\ c.p2 =>
    /\ CanFlag(c.era, c.env) /\ c.era \in Mid /\ ~Silent(c.era, c.env)
    /\ LET t == Shape(c.era, c.env, c.hd, c.orig, c.pad, c.a, c.b, FALSE) IN ShapeOK(t) /\ Flip(c) \in CasesOf(t)
\* where the two readings of a silent case agree the agreed verdict is the
\* verdict of both; a case that is not silent has one reading
ReadingsSound == IsSize =>
    LET v == BothReadings(c.era, c.env, c.orig, c.a, c.b, c.fee) IN
    /\ (~Silent(c.era, c.env) => v = SzFeeVerdict(c, c.orig, c.fee))
    /\ (Silent(c.era, c.env) /\ v = "tooSmall" => c.fee < MinFee(c.a, c.orig - 1, c.b))
    /\ (Silent(c.era, c.env) /\ v = "accept" => c.fee >= MinFee(c.a, c.orig, c.b))
    /\ (Silent(c.era, c.env) /\ v = "either" =>
            c.fee >= MinFee(c.a, c.orig - 1, c.b) /\ c.fee < MinFee(c.a, c.orig, c.b))

---------------------------------------------------------------------------
ArithRowW(w, a, s, b, f) ==
    [w |-> w, a |-> a, s |-> s, b |-> b, fee |-> f,
     cls |-> Class(w, a, s, b, f), edge |-> Edge(w, a, s, b), verdict |-> FeeVerdict(w, a, s, b, f),
     wrapDiffers |-> (WrappedVerdict(w, a, s, b, f) # ExactVerdict(w, a, s, b, f))]
ArithRow(x) == ArithRowW(W, x.a, x.s, x.b, x.fee)

SizeRow(x) == [era |-> x.era, env |-> x.env, hd |-> x.hd, orig |-> x.orig, pad |-> x.pad,
               a |-> x.a, b |-> x.b, fee |-> x.fee, max |-> x.max, p2 |-> x.p2,
               size |-> FeeSize(x.era, x.env, x.orig),
               minfee |-> MinFee(x.a, FeeSize(x.era, x.env, x.orig), x.b),
               feeVerdict |-> CaseFeeVerdict(x),
               sizeVerdict |-> CaseSizeVerdict(x),
               silent |-> Silent(x.era, x.env),
               bothReadings |-> CaseBothReadings(x),
               tolerateOver |-> OverSizeTolerated(x.era, x.env, x.hd)]

ClassRow(k) == [cls |-> k, verdict |-> ClassVerdict(k),
                witnesses |-> Cardinality({x \in ArithSlice : Class(W, x.a, x.s, x.b, x.fee) = k})]

CarrierRow(k) == [era |-> k.era, env |-> k.env, p2 |-> k.p2, sub |-> Sub(k.era, k.env)]

Rows(S, F(_)) == LET q == SetToSeq(S) IN [i \in 1..Len(q) |-> F(q[i])]
ASSUME ndJsonSerialize("arith.ndjson", Rows(ArithSlice, ArithRow))
ASSUME ndJsonSerialize("size.ndjson", Rows(SizeSlice, SizeRow))
ASSUME ndJsonSerialize("classes.ndjson", Rows(Classes, ClassRow))
ASSUME ndJsonSerialize("carriers.ndjson", Rows(Carriers, CarrierRow))
\* a flagged carrier is its unflagged twin with the flag set: same envelope, same size
ASSUME \A k \in Carriers : k.p2 => CanFlag(k.era, k.env) /\ Carrier(k.era, k.env, FALSE) \in Carriers
ASSUME P2Pads \subseteq Pads
ASSUME FullW = 0 \/ FullGridTheorem(FullW)
ASSUME FullW = 0 \/ ndJsonSerialize("arithfull.ndjson",
           Rows(Word(FullW) \X Word(FullW) \X Word(FullW) \X Word(FullW),
                LAMBDA p : ArithRowW(FullW, p[1], p[2], p[3], p[4])))
=============================================================================
