CONSTANT Families = {"b2h", "h2b", "mapdom"}
CONSTANT MaxMajor = 64
INIT Init
NEXT Next
INVARIANT TablesConsistent
