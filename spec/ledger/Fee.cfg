CONSTANT W = 256
CONSTANT As = {0, 1, 2, 3, 16, 17, 85, 86, 127, 128, 255}
CONSTANT Ss = {0, 1, 3, 15, 16, 17, 100, 127, 128, 129, 170, 171, 255}
CONSTANT Bs = {0, 1, 127, 128, 254, 255}
CONSTANT AllFees = FALSE
CONSTANT Origs = {6}
CONSTANT Pads = {0, 1, 3}
CONSTANT SzAs = {0, 1, 3}
CONSTANT SzBs = {2}
CONSTANT P2Pads = {0, 3}
CONSTANT FlagDefect = FALSE
CONSTANT WrapDefect = FALSE
CONSTANT FullW = 0
INIT Init
NEXT Next
INVARIANT ClassDecides
INVARIANT NeverWrapped
INVARIANT Threshold
INVARIANT OverflowSplit
INVARIANT Monotone
INVARIANT WrapCharacterised
INVARIANT Homogeneous
INVARIANT SizeSliceSmall
INVARIANT EnvelopeByte
INVARIANT Translation
INVARIANT OriginalLength
INVARIANT FlagIrrelevant
INVARIANT FlagNeverHelps
INVARIANT FlagPaired
INVARIANT ReadingsSound
POSTCONDITION AllCasesVisited
