\* C06 MultiAssetZerosTriplesThorough.cfg: keys 2+1, quantities -1..1, partial maps, triples (1/13 emitted)
CONSTANT KeySet = "2+1"
CONSTANT QAbs = 1
CONSTANT Mode = "partial"
CONSTANT Arity = 3
CONSTANT SampleMod = 13
INIT Init
NEXT Next
INVARIANT EqReflexive
INVARIANT NormIsEq
INVARIANT AddIdentity
INVARIANT AddInverse
INVARIANT DecEnc
INVARIANT EncCanonical
INVARIANT EqPointwise
INVARIANT EqSymmetric
INVARIANT EqUpToZeros
INVARIANT AddPointwise
INVARIANT AddCommutes
INVARIANT AddUpToZeros
INVARIANT AddCancels
INVARIANT EncInjective
INVARIANT EqTransitive
INVARIANT AddAssociates
INVARIANT AddCompatible
