CONSTANT Fees = {0, 1, 2, 3, 4, 5, 6, 7}
CONSTANT Pcts = {0, 1, 50, 99, 100, 150}
CONSTANT MaxBal = 12
CONSTANT RetFees = {3, 7}
CONSTANT RetPcts = {99, 150}
CONSTANT RetAdas = {1, 2}
CONSTANT ShapeFees = {3}
CONSTANT ShapePcts = {0, 150}
CONSTANT ShapeBals = {0, 4, 5}
CONSTANT MaxIn = 4
CONSTANT MaxMax = 3
CONSTANT MaxTok = 2
CONSTANT FlooringDefect = FALSE
INIT Init
NEXT Next
INVARIANT ThresholdExact
INVARIANT Monotone
INVARIANT ZeroShare
INVARIANT FloorCharacterised
INVARIANT Homogeneous
INVARIANT VerdictShape
INVARIANT Exact
POSTCONDITION AllCasesVisited
