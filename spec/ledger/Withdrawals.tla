---------------------------- MODULE Withdrawals ----------------------------
(* C33 — Reward withdrawals are gated on DRep delegation only at PV10 and   *)
(* PV11.                                                                    *)
(*                                                                          *)
(* Decision structure of the Conway withdrawal gate for a Conway-or-later   *)
(* transaction whose withdrawals all come from registered key-hash reward   *)
(* accounts:                                                                *)
(*   - a phase-2-invalid transaction (is_valid = FALSE) is not checked;     *)
(*   - protocol major versions <= 9 and >= 12 impose no requirement;        *)
(*   - at PV10 / PV11 every NON-ZERO withdrawal needs a DRep delegation of  *)
(*     its stake credential: missing => NotDelegated; a ledger state that   *)
(*     cannot answer the delegation query => StateUnavailable.              *)
(*                                                                          *)
(* A case = (pv, valid flag, capability of the ledger state, parameter      *)
(* type, multiset of withdrawals (amount zero / non-zero, delegated or      *)
(* not)).  The property text says nothing about ZERO-amount withdrawals of  *)
(* undelegated accounts (or on an incapable state) at PV10/PV11: verdict    *)
(* "free" (either behaviour accepted by the replay).                        *)
EXTENDS Integers, Sequences, FiniteSets, Json, TLC, SequencesExt

CONSTANTS
    MaxPV,      \* protocol major versions 0..MaxPV
    MaxW        \* up to MaxW withdrawals in one transaction

PVs    == 0..MaxPV
Params == {"conway", "dijkstra"}      \* type of the protocol parameters / rule list
Caps   == {"capable", "incapable"}    \* ledger state implements DRepDelegationState or not

\* a withdrawal: amt 0 = zero lovelace, 1 = some non-zero amount; deleg = the
\* account's stake credential has a DRep delegation in the ledger state
Kinds == [amt : {0, 1}, deleg : BOOLEAN]
Rank(k) == 2 * k.amt + (IF k.deleg THEN 1 ELSE 0)

\* multisets of withdrawals as rank-sorted sequences (a transaction's
\* withdrawals are a map: their order carries no meaning)
Sorted(q) == \A i \in 1..(Len(q) - 1) : Rank(q[i]) <= Rank(q[i + 1])
WdSets == UNION { { q \in [1..n -> Kinds] : Sorted(q) } : n \in 0..MaxW }

Gated(pv) == pv = 10 \/ pv = 11

NonZero(q)            == { i \in DOMAIN q : q[i].amt > 0 }
NonZeroUndelegated(q) == { i \in NonZero(q) : ~q[i].deleg }
ZeroUndelegated(q)    == { i \in DOMAIN q : q[i].amt = 0 /\ ~q[i].deleg }

Verdict(c) ==
    IF ~c.valid \/ ~Gated(c.pv) THEN "ok"
    ELSE IF NonZero(c.wds) # {} THEN
             IF c.cap = "incapable" THEN "StateUnavailable"
             ELSE IF NonZeroUndelegated(c.wds) # {} THEN "NotDelegated"
             ELSE IF ZeroUndelegated(c.wds) # {} THEN "free-NotDelegated"  \* ok or NotDelegated
             ELSE "ok"
    ELSE \* only zero-amount withdrawals (or none)
         IF c.wds = <<>> THEN "ok"
         ELSE IF c.cap = "incapable" THEN "free-StateUnavailable"          \* ok or StateUnavailable
         ELSE IF ZeroUndelegated(c.wds) # {} THEN "free-NotDelegated"
         ELSE "ok"

Verdicts == {"ok", "NotDelegated", "StateUnavailable", "free-NotDelegated", "free-StateUnavailable"}

VARIABLE c
Init == \E pv \in PVs, v \in BOOLEAN, cap \in Caps, pt \in Params, q \in WdSets :
            c = [pv |-> pv, valid |-> v, cap |-> cap, params |-> pt, wds |-> q]
Next == UNCHANGED c

----------------------------------------------------------------------------
(* Meta-properties (every state = every case)                               *)

TypeOK == Verdict(c) \in Verdicts

\* the gate exists only at PV10 and PV11
OnlyTenEleven == (c.pv <= 9 \/ c.pv >= 12) => Verdict(c) = "ok"

\* phase-2-invalid transactions are never rejected by the gate
InvalidSkipped == ~c.valid => Verdict(c) = "ok"

\* "exactly when": the rejection for lack of delegation
NotDelegatedExactly ==
    Verdict(c) = "NotDelegated" <=>
        (c.valid /\ Gated(c.pv) /\ c.cap = "capable" /\ \E i \in DOMAIN c.wds : c.wds[i].amt > 0 /\ ~c.wds[i].deleg)

UnavailableExactly ==
    Verdict(c) = "StateUnavailable" <=>
        (c.valid /\ Gated(c.pv) /\ c.cap = "incapable" /\ \E i \in DOMAIN c.wds : c.wds[i].amt > 0)

\* a fully delegated transaction on a capable state is never rejected
DelegatedPasses ==
    (c.cap = "capable" /\ \A i \in DOMAIN c.wds : c.wds[i].deleg) => Verdict(c) = "ok"

\* the verdict does not depend on the parameter type
ParamsIrrelevant ==
    \A pt \in Params : Verdict([c EXCEPT !.params = pt]) = Verdict(c)

\* adding a delegated withdrawal never turns an accepted transaction into a
\* NotDelegated one; adding an undelegated non-zero one at a gated version
\* always rejects
Additive ==
    LET more(k) == [c EXCEPT !.wds = Append(c.wds, k)] IN
    /\ (Verdict(c) = "ok" /\ c.cap = "capable") => Verdict(more([amt |-> 1, deleg |-> TRUE])) = "ok"
    /\ (c.valid /\ Gated(c.pv) /\ c.cap = "capable")
          => Verdict(more([amt |-> 1, deleg |-> FALSE])) = "NotDelegated"

\* the property constrains the bulk of the space
FreeOnlyOnZeroAmounts ==
    Verdict(c) \in {"free-NotDelegated", "free-StateUnavailable"}
        => (Gated(c.pv) /\ c.valid /\ \E i \in DOMAIN c.wds : c.wds[i].amt = 0)

\* POSTCONDITION: TLC visited exactly the emitted cases
CaseSpace == [pv : PVs, valid : BOOLEAN, cap : Caps, params : Params, wds : WdSets]
AllCasesVisited == TLCGet("distinct") = Cardinality(CaseSpace)

----------------------------------------------------------------------------
Row(x) == [pv |-> x.pv, valid |-> x.valid, cap |-> x.cap, params |-> x.params,
           wds |-> x.wds, verdict |-> Verdict(x)]
Rows(S) == LET q == SetToSeq(S) IN [i \in 1..Len(q) |-> Row(q[i])]
ASSUME ndJsonSerialize("cases.ndjson", Rows(CaseSpace))
=============================================================================
