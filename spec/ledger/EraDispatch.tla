---------------------------- MODULE EraDispatch ----------------------------
(* C36 -- era dispatch is consistent across every entry point                *)
(* C22 -- chain-sync wrapping preserves block and header identity            *)
(*                                                                          *)
(* TB binding: the CONSTANT data of this module (T) are the tables the      *)
(* running Go code reports about itself (harness/cmd/c36 dump): each era    *)
(* package's declared protocol-major range and wire codes, the result of    *)
(* ledger.DetermineBlockType for both header layouts and majors 0..64, the  *)
(* two block/header type maps, and the era registry.  The REFERENCE below   *)
(* is written from the Cardano hard-fork combinator / ledger documentation  *)
(* and the property text, never from those tables.  TLC evaluates every law *)
(* on every table entry (one state per entry); a violated law is a          *)
(* disagreement between the code's own tables and the reference.            *)
(*                                                                          *)
(* RP binding: the module also emits the replay cases (what decoding a real *)
(* block of kind K as block type T must / may report, what serving it over  *)
(* chain-sync must deliver); the Go driver executes them on fixture blocks. *)
EXTENDS Integers, Sequences, FiniteSets, Json, TLC, SequencesExt

CONSTANTS Families,    \* which table families this run checks (cfg)
          MaxMajor     \* DetermineBlockType is tabulated for majors 0..MaxMajor

T == JsonDeserialize("era_tables.json")

-----------------------------------------------------------------------------
(* REFERENCE: the Cardano era sequence and its wire codes.                   *)
(* Hard-fork combinator era index: Byron 0 .. Dijkstra 7.  Node-to-node     *)
(* headers are tagged with the era index.  Node-to-client / storage blocks  *)
(* are tagged 0 (Byron epoch boundary), 1 (Byron main), era index + 1 after *)
(* Byron.                                                                   *)
EraSeq == <<"Byron", "Shelley", "Allegra", "Mary", "Alonzo", "Babbage", "Conway", "Dijkstra">>
NEras  == Len(EraSeq)
PostByron == 2..NEras                       \* positions in EraSeq

RefEraId(i)      == i - 1                   \* i is a position in EraSeq
RefHeaderType(i) == i - 1
RefBlockType(i)  == i                       \* i in PostByron
RefTypes         == 0..8
RefEraPosOfType(t) == IF t <= 1 THEN 1 ELSE t

(* Header-body layouts: TPraos eras (Shelley..Alonzo) carry 15 fields with  *)
(* the protocol major at index 13; Praos eras (Babbage and later) carry 10  *)
(* fields with [major, minor] at index 9.                                   *)
RefLayout(i) == IF i <= 5 THEN 15 ELSE 10
Layouts == {15, 10}

(* Protocol majors whose era is fixed by the ledger's ProtVerLow/High       *)
(* (cardano-ledger): 2 Shelley, 3 Allegra, 4 Mary, 5-6 Alonzo, 7-8 Babbage, *)
(* 9-10 Conway, 12 Dijkstra.  Majors 11 and 13+ are left to the declared    *)
(* ranges (only the structural laws apply to them).                         *)
RefMajorEra == (2 :> 2) @@ (3 :> 3) @@ (4 :> 4) @@ (5 :> 5) @@ (6 :> 5) @@
               (7 :> 6) @@ (8 :> 6) @@ (9 :> 7) @@ (10 :> 7) @@ (12 :> 8)
Majors == 0..MaxMajor

Kinds == <<"byron_ebb", "byron_main", "shelley", "allegra", "mary", "alonzo",
           "babbage", "conway", "dijkstra">>
KindType(k)   == k - 1                      \* k is a position in Kinds
KindEraPos(k) == RefEraPosOfType(KindType(k))

-----------------------------------------------------------------------------
(* The dumped tables                                                        *)
Decl(i)  == T.eras[i - 1]                   \* declared data of era position i in PostByron
Owners(m) == {i \in PostByron : Decl(i).min <= m /\ m <= Decl(i).max}
Disp(l, m) == CHOOSE r \in Range(T.dispatch) : r.layout = l /\ r.major = m
B2H == T.b2h                                \* sequence of <<block type, header type>>
H2B == T.h2b                                \* sequence of <<header type, block type>>
Has(seq, p) == \E j \in DOMAIN seq : seq[j][1] = p[1] /\ seq[j][2] = p[2]
Keys(seq, k) == {j \in DOMAIN seq : seq[j][1] = k}

-----------------------------------------------------------------------------
(* Case space: one state per table entry.  c = [k, a, b]                    *)
EraCases      == {[k |-> "era", a |-> i, b |-> 0] : i \in 1..NEras}
DispatchCases == {[k |-> "dispatch", a |-> l, b |-> m] : l \in Layouts, m \in Majors}
B2HCases      == {[k |-> "b2h", a |-> j, b |-> 0] : j \in DOMAIN B2H}
H2BCases      == {[k |-> "h2b", a |-> j, b |-> 0] : j \in DOMAIN H2B}
MapDomCases   == {[k |-> "mapdom", a |-> i, b |-> 0] : i \in PostByron}
EraIdCases    == {[k |-> "eraid", a |-> n, b |-> 0] : n \in 0..15}
AllCases == EraCases \cup DispatchCases \cup B2HCases \cup H2BCases \cup MapDomCases \cup EraIdCases
Cases == {x \in AllCases : x.k \in Families}

Law(name, ok) == IF ok THEN {} ELSE {name}

EraLaws(i) ==
    IF i = 1 THEN
        LET d == T.byron IN
        Law("name", d.name = EraSeq[1]) \cup
        Law("era_id", d.id = 0 /\ d.const_id = 0) \cup
        Law("block_type", d.ebb = 0 /\ d.main = 1) \cup
        Law("header_type", d.htype = 0)
    ELSE
        LET d == Decl(i) IN
        Law("name", d.name = EraSeq[i]) \cup
        Law("era_id", d.id = RefEraId(i) /\ d.const_id = RefEraId(i)) \cup
        Law("block_type", d.btype = RefBlockType(i)) \cup
        Law("header_type", d.htype = RefHeaderType(i)) \cup
        Law("range_wellformed", d.min <= d.max) \cup
        \* ranges follow the era order, hence are pairwise disjoint
        Law("range_order", i < NEras => d.max < Decl(i + 1).min) \cup
        Law("range_anchor", \A m \in DOMAIN RefMajorEra :
                               RefMajorEra[m] = i => d.min <= m /\ m <= d.max)

DispatchLaws(l, m) ==
    LET r == Disp(l, m)
        o == Owners(m) IN
    \* an inferred type is a post-Byron block type ...
    Law("result_is_block_type", r.ok => r.type \in 2..8) \cup
    \* ... of an era whose declared range contains the major ...
    Law("result_range_contains_major", r.ok => \E i \in o : Decl(i).btype = r.type) \cup
    \* ... and that era is unique
    Law("exactly_one_era", r.ok => Cardinality(o) <= 1) \cup
    \* every declared major is classified in its era's own header layout
    Law("native_layout_classified",
        \A i \in o : RefLayout(i) = l => r.ok /\ r.type = Decl(i).btype) \cup
    Law("undeclared_major_rejected", o = {} => ~r.ok)

\* the property is silent on a declared major met in the other layout
DispatchSilent(l, m) == \E i \in Owners(m) : RefLayout(i) # l

B2HLaws(j) ==
    LET p == B2H[j] IN
    Law("inverse", Has(H2B, <<p[2], p[1]>>)) \cup
    Law("functional", Cardinality(Keys(B2H, p[1])) = 1) \cup
    Law("era_of_type", p[1] \in 2..8 /\ p[2] = RefHeaderType(RefEraPosOfType(p[1])))

H2BLaws(j) ==
    LET p == H2B[j] IN
    Law("inverse", Has(B2H, <<p[2], p[1]>>)) \cup
    Law("functional", Cardinality(Keys(H2B, p[1])) = 1) \cup
    Law("era_of_header", p[1] \in 1..7 /\ p[2] = RefBlockType(p[1] + 1))

\* every Shelley-or-later type goes to its header era and back to itself
MapDomLaws(i) ==
    Law("b2h_total", Keys(B2H, RefBlockType(i)) # {}) \cup
    Law("h2b_total", Keys(H2B, RefHeaderType(i)) # {}) \cup
    Law("round_trip", \A j \in Keys(B2H, RefBlockType(i)) :
                         \A k \in Keys(H2B, B2H[j][2]) : H2B[k][2] = RefBlockType(i))

EraIdLaws(n) ==
    LET r == T.era_by_id[n + 1] IN
    IF n < NEras
    THEN Law("registered", r.rid = n /\ r.name = EraSeq[n + 1])
    ELSE Law("unregistered_aliases_era", r.name \notin Range(EraSeq))

Violations(x) ==
    CASE x.k = "era"      -> EraLaws(x.a)
      [] x.k = "dispatch" -> DispatchLaws(x.a, x.b)
      [] x.k = "b2h"      -> B2HLaws(x.a)
      [] x.k = "h2b"      -> H2BLaws(x.a)
      [] x.k = "mapdom"   -> MapDomLaws(x.a)
      [] x.k = "eraid"    -> EraIdLaws(x.a)

VARIABLE c
Init == c \in Cases
Next == UNCHANGED c

TablesConsistent == Violations(c) = {}

\* well-formedness of the dump itself (a failure here is a harness problem)
DumpShape ==
    /\ Len(T.eras) = NEras - 1
    /\ Len(T.era_by_id) = 16
    /\ \A l \in Layouts, m \in Majors :
          Cardinality({r \in Range(T.dispatch) : r.layout = l /\ r.major = m}) = 1
ASSUME DumpShape

-----------------------------------------------------------------------------
(* Output 1: the verdict of every law on every table entry                  *)
Verdict(x) == [k |-> x.k, a |-> x.a, b |-> x.b, viol |-> SetToSeq(Violations(x)),
               silent |-> (x.k = "dispatch" /\ DispatchSilent(x.a, x.b))]
ASSUME ndJsonSerialize("verdicts.ndjson", SetToSeq({Verdict(x) : x \in Cases}))

(* Output 2 (C36 replay): decoding a block of kind K as block type t.        *)
(* must marks t as the block's own type (the driver requires that at least *)
(* one entry point decodes it, else nothing is checked).  The property only *)
(* constrains what a successful decode reports: type t and the era t        *)
(* belongs to; a refusal is an observation, not a violation.  t = 9 is no   *)
(* block type: nothing may come out.                                        *)
DecodeRow(k, t) ==
    [op |-> "decode", kind |-> Kinds[k], as |-> t,
     must |-> (t = KindType(k)), may |-> (t \in RefTypes),
     type |-> t,
     era_id |-> IF t \in RefTypes THEN RefEraId(RefEraPosOfType(t)) ELSE -1,
     era_name |-> IF t \in RefTypes THEN EraSeq[RefEraPosOfType(t)] ELSE ""]

(* Re-issue: every real post-Byron block is also replayed with each major   *)
(* its era owns (reference anchors and the declared range) in its header.   *)
GenMajors(i) == {m \in DOMAIN RefMajorEra : RefMajorEra[m] = i} \cup
                {m \in Majors : Decl(i).min <= m /\ m <= Decl(i).max}
ReissueRow(k) ==
    [op |-> "reissue", kind |-> Kinds[k], type |-> KindType(k),
     layout |-> RefLayout(KindEraPos(k)),
     majors |-> SetToSeq(GenMajors(KindEraPos(k)))]

(* Classification of a real header with f header-body fields and major m by *)
(* DetermineBlockType.  A header's protocol version is what the issuer      *)
(* signals, so a real block may carry a major of a later era: the inferred  *)
(* type need not be the block's own.  What the property states, for the two *)
(* header layouts (15-field TPraos, 10-field Praos): an inferred type's     *)
(* declared range contains m (allowed), and a major declared by an era is   *)
(* classified as that era in the era's own layout (must_type).  Any other   *)
(* shape (e.g. the twelve-field Leios-extended Dijkstra body) is outside    *)
(* the stated domain: an error there is "no inference" and accepted         *)
(* (stated = FALSE, must_type = -1); a type inferred there must still be    *)
(* range-consistent.                                                        *)
ClassifyRow(f, m) ==
    LET o   == Owners(m)
        nat == {i \in o : f = RefLayout(i)} IN
    [op |-> "classify", layout |-> f, major |-> m, stated |-> (f \in Layouts),
     must_type |-> IF nat # {} THEN Decl(CHOOSE i \in nat : TRUE).btype ELSE -1,
     allowed |-> SetToSeq({Decl(i).btype : i \in o})]

ASSUME ndJsonSerialize("cases36.ndjson",
          SetToSeq({DecodeRow(k, t) : k \in DOMAIN Kinds, t \in 0..9}) \o
          SetToSeq({ReissueRow(k) : k \in 3..Len(Kinds)}) \o
          SetToSeq({ClassifyRow(f, m) : f \in {15, 10, 12}, m \in Majors}))

(* Output 3 (C22 replay): serving a block of kind K over chain-sync.         *)
(* ntc: the client gets the same type and the same bytes.  ntn, Shelley or  *)
(* later: the header travels under its era index, the client maps it back   *)
(* to the same block type, and the header's hash is the block's hash.       *)
(* ntn + Byron is not stated by the property (stated = FALSE).              *)
WrapRow(k, mode) ==
    [kind |-> Kinds[k], mode |-> mode, type |-> KindType(k),
     stated |-> (mode = "ntc" \/ k >= 3),
     wire_era |-> RefHeaderType(KindEraPos(k)),
     same_bytes |-> (mode = "ntc"), same_hash |-> TRUE]
ASSUME ndJsonSerialize("cases22.ndjson",
          SetToSeq({WrapRow(k, mode) : k \in DOMAIN Kinds, mode \in {"ntc", "ntn"}}))
=============================================================================
