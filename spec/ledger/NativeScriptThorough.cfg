CONSTANT T = 4
CONSTANT Bnds = {0, 2, 4}
CONSTANT MaxN = 4
CONSTANT Width3 = TRUE
CONSTANT BigReps = TRUE
INIT Init
NEXT Next
INVARIANT Recorded
INVARIANT FlagIrrelevant
INVARIANT MonotoneKeys
INVARIANT MonotoneInterval
INVARIANT Thresholds
INVARIANT AbsentFails
INVARIANT OrderFree
