CONSTANT W = 256
CONSTANT As = {0, 1, 2, 3, 4, 5, 15, 16, 17, 31, 32, 42, 43, 51, 52, 64, 85, 86, 127, 128, 129, 254, 255}
CONSTANT Ss = {0, 1, 2, 3, 5, 6, 15, 16, 17, 51, 64, 85, 86, 87, 100, 101, 127, 128, 129, 170, 171, 200, 254, 255}
CONSTANT Bs = {0, 1, 2, 127, 128, 129, 254, 255}
CONSTANT AllFees = FALSE
CONSTANT Origs = {5, 6, 9}
CONSTANT Pads = {0, 1, 2, 3, 4, 8}
CONSTANT SzAs = {0, 1, 3, 44}
CONSTANT SzBs = {0, 2, 155381}
CONSTANT P2Pads = {0, 1, 2, 3, 4, 8}
CONSTANT FlagDefect = FALSE
CONSTANT WrapDefect = FALSE
CONSTANT FullW = 16
INIT Init
NEXT Next
INVARIANT ClassDecides
INVARIANT NeverWrapped
INVARIANT Threshold
INVARIANT OverflowSplit
INVARIANT Monotone
INVARIANT WrapCharacterised
INVARIANT Homogeneous
INVARIANT SizeSliceSmall
INVARIANT EnvelopeByte
INVARIANT Translation
INVARIANT OriginalLength
INVARIANT FlagIrrelevant
INVARIANT FlagNeverHelps
INVARIANT FlagPaired
INVARIANT ReadingsSound
POSTCONDITION AllCasesVisited
