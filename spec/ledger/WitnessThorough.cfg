CONSTANT MaxIn = 2
CONSTANT MaxColl = 1
CONSTANT MaxReq = 1
CONSTANT MaxVW = 6
CONSTANT MaxBW = 1
CONSTANT MultIn = 2
CONSTANT MultColl = 2
CONSTANT MultReq = 3
CONSTANT MultTotal = 4
CONSTANT MaxMult = 3
CONSTANT FlagSlice = "full"
INIT Init
NEXT Next
INVARIANT Statement
INVARIANT MonotoneWitnesses
INVARIANT AntitoneObligations
INVARIANT OneBadSigRejects
INVARIANT OwnerNeeded
INVARIANT KindsDoNotMix
INVARIANT ScriptInputsNeutral
INVARIANT VerdictShape
INVARIANT OrderIrrelevant
INVARIANT FlagIrrelevant
INVARIANT MultiplicityIrrelevant
INVARIANT Emit
POSTCONDITION AllCasesVisited
