CONSTANT NVals = 2
CONSTANT MaxTx = 3
INIT Init
NEXT Next
INVARIANT RealBlocksDecode
INVARIANT WellFormedDecodes
INVARIANT SkipComparesNothing
INVARIANT Binding
INVARIANT HeaderBinding
INVARIANT SscNotCompared
INVARIANT NoConfigWeakens
INVARIANT OrderMatters
POSTCONDITION AllCasesVisited
