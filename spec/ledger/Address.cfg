CONSTANT PtrVals = {0, 127, 128, 16383, 16384}
CONSTANT PtrHeaders = {64, 65, 80, 81}
CONSTANT PtrDevs = {"exact", "short", "junk1", "wl3", "wl3x", "xwl8"}
INIT Init
NEXT Next
INVARIANT ValidIffParses
INVARIANT Lossless
INVARIANT ParseSerialize
INVARIANT LenExact
INVARIANT HrpTotal
INVARIANT VarintOk
INVARIANT WireAlphabet
INVARIANT ByronNibble
