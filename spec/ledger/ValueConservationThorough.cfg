CONSTANTS
    Eras = {"shelley", "allegra", "mary", "alonzo", "babbage", "conway", "dijkstra"}
    Seed = 1
    MaxCerts = 3
    PerBagLegacy = 30
    PerBagGov = 8
    FlagEvery = 1
INIT Init
NEXT Next
INVARIANT VariantSane
INVARIANT PerAssetNotMerged
INVARIANT AddBothSides
INVARIANT OneSideBreaks
INVARIANT CertAlgebra
INVARIANT Signs
INVARIANT EraShape
INVARIANT PoolHistory
INVARIANT FlagIrrelevant
INVARIANT FlagTwin
