CONSTANTS
    Eras = {"shelley", "allegra", "mary", "alonzo", "babbage", "conway", "dijkstra"}
    Seed = 1
    MaxCerts = 3
    PerBagLegacy = 20
    PerBagGov = 6
INIT Init
NEXT Next
INVARIANT VariantSane
INVARIANT AddBothSides
INVARIANT OneSideBreaks
INVARIANT CertAlgebra
INVARIANT Signs
INVARIANT EraShape
