CONSTANT NOps = 2
CONSTANT SharedScratch = TRUE
CONSTANT AllThirds = FALSE
CONSTANT NtcFirst3 = {2, 8}
INIT Init
NEXT Next
INVARIANT OwnContent
INVARIANT HistoriesMatch
