CONSTANT MaxPV = 20
CONSTANT MaxW = 2
INIT Init
NEXT Next
INVARIANT TypeOK
INVARIANT OnlyTenEleven
INVARIANT InvalidSkipped
INVARIANT NotDelegatedExactly
INVARIANT UnavailableExactly
INVARIANT DelegatedPasses
INVARIANT ParamsIrrelevant
INVARIANT Additive
INVARIANT FreeOnlyOnZeroAmounts
POSTCONDITION AllCasesVisited
