\* C06 MultiAssetZerosTriples.cfg: keys 1x2, quantities -1..1, partial maps, triples (1/3 emitted)
CONSTANT KeySet = "1x2"
CONSTANT QAbs = 1
CONSTANT Mode = "partial"
CONSTANT Arity = 3
CONSTANT SampleMod = 3
INIT Init
NEXT Next
INVARIANT EqReflexive
INVARIANT NormIsEq
INVARIANT AddIdentity
INVARIANT AddInverse
INVARIANT DecEnc
INVARIANT EncCanonical
INVARIANT EqPointwise
INVARIANT EqSymmetric
INVARIANT EqUpToZeros
INVARIANT AddPointwise
INVARIANT AddCommutes
INVARIANT AddUpToZeros
INVARIANT AddCancels
INVARIANT EncInjective
INVARIANT EqTransitive
INVARIANT AddAssociates
INVARIANT AddCompatible
