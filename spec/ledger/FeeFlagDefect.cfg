CONSTANT W = 16
CONSTANT As = {}
CONSTANT Ss = {}
CONSTANT Bs = {}
CONSTANT AllFees = TRUE
CONSTANT Origs = {6}
CONSTANT Pads = {0, 1}
CONSTANT SzAs = {0, 1, 3}
CONSTANT SzBs = {2}
CONSTANT P2Pads = {0, 1}
CONSTANT FlagDefect = TRUE
CONSTANT WrapDefect = FALSE
CONSTANT FullW = 0
INIT Init
NEXT Next
INVARIANT FlagIrrelevant
