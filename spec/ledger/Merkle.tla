---------------------------- MODULE Merkle ----------------------------
(* C35 — Byron transaction merkle root: the reference construction as a     *)
(* symbolic term tree.  Hashing is injective in the model, so the root of   *)
(* a list IS its shape; the conformance driver folds each emitted shape     *)
(* with the real Blake2b-256 and the 0/1 tags and compares with             *)
(* byron.MerkleRoot.                                                        *)
EXTENDS Naturals, Sequences, FiniteSets, Json, TLC

CONSTANT N           \* shapes are enumerated for 0..N items

Pow2(p) == \E k \in 0..10 : p = 2^k

\* the largest power of two strictly below n (n >= 2)
Split(n) == CHOOSE p \in 1..n : Pow2(p) /\ p < n /\ 2 * p >= n

RECURSIVE Shape(_, _)
\* the tree over items lo .. lo+n-1
Shape(lo, n) ==
    IF n = 1 THEN <<"L", lo>>
    ELSE LET s == Split(n) IN <<"B", Shape(lo, s), Shape(lo + s, n - s)>>

Root(n) == IF n = 0 THEN <<"E">> ELSE Shape(0, n)

RECURSIVE Leaves(_)
Leaves(t) == IF t[1] = "L" THEN <<t[2]>>
             ELSE IF t[1] = "E" THEN <<>>
             ELSE Leaves(t[2]) \o Leaves(t[3])

RECURSIVE Depths(_, _)
Depths(t, d) == IF t[1] = "L" THEN {d}
                ELSE Depths(t[2], d + 1) \cup Depths(t[3], d + 1)

Perfect(t) == Cardinality(Depths(t, 0)) = 1 /\ Pow2(Len(Leaves(t)))

VARIABLE n
Init == n \in 0..N
Next == UNCHANGED n

\* meta-properties of the transcription, checked in every state (= every n)
InOrder      == Leaves(Root(n)) = [i \in 1..n |-> i - 1]
LeftPerfect  == n >= 2 => LET t == Root(n) IN
                   /\ Perfect(t[2])
                   /\ Len(Leaves(t[2])) < n
                   /\ 2 * Len(Leaves(t[2])) >= n
Injective    == \A m \in 0..N : m # n => Root(m) # Root(n)
SplitIsPow   == n >= 2 => Pow2(Split(n)) /\ Split(n) < n

Row(k) == [n |-> k, shape |-> Root(k)]
Emit == ndJsonSerialize("cases.ndjson", [k \in 1..(N + 1) |-> Row(k - 1)])
ASSUME Emit
=======================================================================
