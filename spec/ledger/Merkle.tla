---------------------------- MODULE Merkle ----------------------------
(* C35 — Byron transaction merkle root: the reference construction as a     *)
(* symbolic term tree.  Hashing is injective in the model, so the root of   *)
(* a list IS its shape; the conformance driver folds each emitted shape     *)
(* with the real Blake2b-256 and the 0/1 tags and compares with             *)
(* byron.MerkleRoot.                                                        *)
EXTENDS Naturals, Sequences, FiniteSets, Json, TLC

CONSTANT N           \* shapes are enumerated for 0..N items

Pow2(p) == \E k \in 0..10 : p = 2^k

\* the largest power of two strictly below n (n >= 2)
Split(n) == CHOOSE p \in 1..n : Pow2(p) /\ p < n /\ 2 * p >= n

RECURSIVE Shape(_, _)
\* the tree over items lo .. lo+n-1
Shape(lo, n) ==
    IF n = 1 THEN <<"L", lo>>
    ELSE LET s == Split(n) IN <<"B", Shape(lo, s), Shape(lo + s, n - s)>>

Root(n) == IF n = 0 THEN <<"E">> ELSE Shape(0, n)

RECURSIVE Leaves(_)
Leaves(t) == IF t[1] = "L" THEN <<t[2]>>
             ELSE IF t[1] = "E" THEN <<>>
             ELSE Leaves(t[2]) \o Leaves(t[3])

RECURSIVE Depths(_, _)
Depths(t, d) == IF t[1] = "L" THEN {d}
                ELSE Depths(t[2], d + 1) \cup Depths(t[3], d + 1)

Perfect(t) == Cardinality(Depths(t, 0)) = 1 /\ Pow2(Len(Leaves(t)))

VARIABLE n
Init == n \in 0..N
Next == UNCHANGED n

\* meta-properties of the transcription, checked in every state (= every n)
InOrder      == Leaves(Root(n)) = [i \in 1..n |-> i - 1]
LeftPerfect  == n >= 2 => LET t == Root(n) IN
                   /\ Perfect(t[2])
                   /\ Len(Leaves(t[2])) < n
                   /\ 2 * Len(Leaves(t[2])) >= n
Injective    == \A m \in 0..N : m # n => Root(m) # Root(n)
SplitIsPow   == n >= 2 => Pow2(Split(n)) /\ Split(n) < n

\* A leaf is the hash of the tag byte 0 followed by the WHOLE item, whatever its length: the construction
\* never looks at item sizes.  Each shape is therefore replayed with items of every size class (all items
\* of one class, and a rotation through the classes): around the hash and block sizes of Blake2b (32, 64,
\* 65, 127, 128, 129), around 1 KiB and 4 KiB (buffers implementations like to keep on the stack), and a
\* transaction-sized 70000 bytes.
SizeClasses == <<0, 1, 32, 64, 65, 127, 128, 129, 1023, 1024, 1025, 4095, 4096, 4097, 70000>>
LeafPreimageLen(len) == 1 + len
SizesOf(k, p) == [i \in 1..k |-> IF p <= Len(SizeClasses) THEN SizeClasses[p]
                                   ELSE SizeClasses[((i + k) % Len(SizeClasses)) + 1]]
PreimageCoversItem == \A p \in 1..(Len(SizeClasses) + 1) : \A i \in 1..n :
                          LeafPreimageLen(SizesOf(n, p)[i]) = SizesOf(n, p)[i] + 1
Row(k) == [n |-> k, shape |-> Root(k),
           sizes |-> [p \in 1..(Len(SizeClasses) + 1) |-> SizesOf(k, p)]]
Emit == ndJsonSerialize("cases.ndjson", [k \in 1..(N + 1) |-> Row(k - 1)])
ASSUME Emit
=======================================================================
