CONSTANT W = 8
CONSTANT As <- Full
CONSTANT Ss <- Full
CONSTANT Bs <- Full
CONSTANT AllFees = TRUE
CONSTANT Origs = {}
CONSTANT Pads = {}
CONSTANT SzAs = {}
CONSTANT SzBs = {}
CONSTANT P2Pads = {}
CONSTANT FlagDefect = FALSE
CONSTANT WrapDefect = FALSE
CONSTANT FullW = 0
INIT Init
NEXT Next
INVARIANT ClassDecides
INVARIANT NeverWrapped
INVARIANT Threshold
INVARIANT OverflowSplit
INVARIANT Monotone
INVARIANT WrapCharacterised
INVARIANT Homogeneous
POSTCONDITION AllCasesVisited
