---------------------------- MODULE OutputValue ----------------------------
(* C08 — transaction output values stay within the ledger's value range.   *)
(*                                                                          *)
(* A multi-asset quantity of a transaction output is admissible iff it lies *)
(* in 0 .. 2^64-1 (0 is pruned at decoding, `positive_coin = 1 .. 2^64-1`   *)
(* in the CDDL).  A transaction is accepted iff value is conserved AND every*)
(* output quantity is admissible.  Because conservation only adds, it       *)
(* cannot stop a transaction whose outputs carry +q and -q of a token that  *)
(* is neither consumed nor minted (PairForge): only the range check can.    *)
(*                                                                          *)
(* Three families of cases, all with the verdict `accept` of this module:   *)
(*  class  one output quantity of a given value class, written in a given   *)
(*         CBOR integer form, in a transaction that conserves value by      *)
(*         construction (the other quantities are admissible; only the two  *)
(*         representatives of magnitude 2^200 are balanced by their         *)
(*         opposite number, which is inadmissible as well);                 *)
(*         the multi-asset map is written plainly or with a repeated key    *)
(*         (encoding shape, see Shapes below);                              *)
(*  pair   PairForge with exact magnitudes 1, 2^63, 2^64-1, 2^64;           *)
(*  tx     every small transaction over the scaled domain TxOuts,           *)
(*         where MaxQ is the image of 2^64-1; the driver replays it under   *)
(*         q |-> q * (2^64-1)/MaxQ, which preserves sums and the two range  *)
(*         boundaries exactly (homomorphic scaling, DESIGN section 1).      *)
(*                                                                          *)
(* RangeChecked = TRUE is the repaired design (the property).  The          *)
(* defective design (no range check anywhere) is RangeChecked = FALSE; TLC  *)
(* then refutes Safety and NoForge (OutputValueDefect.cfg).                 *)
EXTENDS Integers, Sequences, FiniteSets, SequencesExt, Json, TLC

CONSTANTS MaxQ,          \* image of 2^64-1 in the scaled tx domain (must divide 2^64-1: 3, 5, 15, 17 ...)
          TxOuts,        \* quantities an output may carry in the tx family
          TxMaxIns,      \* at most this many asset-carrying inputs
          TxMaxOuts,     \* at most this many outputs
          RangeChecked   \* TRUE: the property's design; FALSE: the defect

\* values of TxOuts for the configurations (a .cfg cannot spell negative numbers)
TxOutsQuick    == {-4, -3, -1, 0, 1, 3, 4}
TxOutsThorough == {-6, -5, -2, -1, 0, 1, 2, 4, 5, 6}
TxOutsDefect   == {-3, -1, 0, 1, 3}

------------------------------------------------------------------------
(* value classes, CBOR integer forms, representatives *)
Classes == {"le_m2p63m1", "m2p63", "m1", "zero", "one", "max", "maxp1", "ge_maxp2"}
Forms   == {"uint", "nint", "big2", "big3"}

Negative(c)   == c \in {"le_m2p63m1", "m2p63", "m1"}
TooBig(c)     == c \in {"maxp1", "ge_maxp2"}
Admissible(c) == ~Negative(c) /\ ~TooBig(c)          \* = c \in {"zero", "one", "max"}

\* which classes a form can denote: major type 0 is 0..2^64-1, major type 1 is
\* -2^64..-1, tag 2 any non-negative, tag 3 any negative integer
Representable(f, c) ==
    CASE f = "uint" -> Admissible(c)
      [] f = "nint" -> Negative(c)
      [] f = "big2" -> ~Negative(c)
      [] f = "big3" -> Negative(c)

\* concrete representatives (named; the driver owns the big numbers and checks
\* that each lies in its class).  The open classes have several.
Reps(f, c) ==
    CASE c = "le_m2p63m1" -> IF f = "nint" THEN {"m2p63m1", "m2p64"}
                             ELSE {"m2p63m1", "m2p64", "m2p64m1", "m2p200"}
      [] c = "ge_maxp2"   -> {"2p64p1", "2p65", "2p200"}
      [] OTHER            -> {c}

\* era x output form: Mary has [addr, value]; Alonzo adds [addr, value, datum_hash];
\* Babbage and later add the map form {0: addr, 1: value, ...}
Eras == {"mary", "alonzo", "babbage", "conway", "dijkstra"}
OutForms(e) == CASE e = "mary"   -> {"array2"}
                 [] e = "alonzo" -> {"array2", "array3"}
                 [] OTHER        -> {"array2", "array3", "map"}

------------------------------------------------------------------------
(* the scaled transaction model *)
RECURSIVE Sum(_)
Sum(s) == IF s = <<>> THEN 0 ELSE Head(s) + Sum(Tail(s))
RECURSIVE SumPos(_)
SumPos(s) == IF s = <<>> THEN 0
             ELSE (IF Head(s) > 0 THEN Head(s) ELSE 0) + SumPos(Tail(s))

InRangeQ(q)  == 0 <= q /\ q <= MaxQ
Balanced(t)  == Sum(t.ins) = Sum(t.outs)             \* nothing minted
AllInRange(t) == \A i \in 1..Len(t.outs) : InRangeQ(t.outs[i])
AcceptTx(t)  == Balanced(t) /\ (RangeChecked => AllInRange(t))
\* tokens held by the outputs' owners that nobody gave up
Created(t)   == SumPos(t.outs) - Sum(t.ins)
WhyTx(t)     == IF ~Balanced(t) THEN "unbalanced"
                ELSE IF ~AllInRange(t) THEN "range" ELSE "ok"

SeqsUpTo(S, lo, hi) == UNION {[1..n -> S] : n \in lo..hi}

------------------------------------------------------------------------
(* the case space; one record shape for all three families *)
None == "-"
Blank == [kind |-> None, era |-> None, of |-> None, cls |-> None, form |-> None, rep |-> None,
          pos |-> 0, comp |-> None, mag |-> None, nform |-> None, pform |-> None, order |-> None,
          shape |-> "plain", ins |-> <<>>, outs |-> <<>>]

(* encoding shape of the multi-asset map that carries the case quantity q.      *)
(* A map may repeat a key: the policy id (outer map) or the asset name (inner   *)
(* map).  Before Conway the ledger decodes such maps with last-wins semantics   *)
(* (Map.fromList); Conway and later reject the duplicate.  Either way the       *)
(* quantity an ACCEPTED output carries is the LAST occurrence, and that one     *)
(* must be in range.  "same": both occurrences are q; "decoyfirst": an in-range *)
(* decoy, then q; "decoylast": q, then the in-range decoy (q is discarded).     *)
DupShapes == {"dupname:same", "dupname:decoyfirst", "dupname:decoylast",
              "duppol:same", "duppol:decoyfirst", "duppol:decoylast"}
Shapes == {"plain"} \cup DupShapes
DecoyLast(sh) == sh \in {"dupname:decoylast", "duppol:decoylast"}
\* which occurrence survives decoding: the case quantity or the decoy
Effective(sh) == IF DecoyLast(sh) THEN "decoy" ELSE "case"
DupLegal(e) == e \in {"mary", "alonzo", "babbage"}     \* protocol version < 9

EraForms == UNION {{<<e, o>> : o \in OutForms(e)} : e \in Eras}
Quantities == UNION {UNION {{<<k, f, r>> : r \in Reps(f, k)} : f \in {g \in Forms : Representable(g, k)}} : k \in Classes}
ClassSpace ==
    {[Blank EXCEPT !.kind = "class", !.era = ef[1], !.of = ef[2], !.cls = q[1], !.form = q[2], !.rep = q[3],
                   !.pos = p, !.comp = k] :
        ef \in EraForms, q \in Quantities, p \in {1, 2}, k \in {"none", "other"}}
    \cup
    {[Blank EXCEPT !.kind = "class", !.era = ef[1], !.of = ef[2], !.cls = q[1], !.form = q[2], !.rep = q[3],
                   !.pos = p, !.comp = "none", !.shape = sh] :
        ef \in EraForms, q \in Quantities, p \in {1, 2}, sh \in DupShapes}

\* PairForge: +q in one output, -q in another, no input and no mint of the token
Mags == {"one", "2p63", "max", "maxp1"}
PosFormOk(f, m) == f = "big2" \/ (f = "uint" /\ m # "maxp1")
PairSpace ==
    UNION {{[Blank EXCEPT !.kind = "pair", !.era = ef[1], !.of = ef[2], !.mag = m, !.nform = nf, !.pform = pf,
                          !.order = d] :
               ef \in EraForms, nf \in {"nint", "big3"}, pf \in {g \in {"uint", "big2"} : PosFormOk(g, m)},
               d \in {"negfirst", "posfirst"}} : m \in Mags}
    \cup
    \* the -q output written with a repeated key whose last occurrence is -q
    UNION {{[Blank EXCEPT !.kind = "pair", !.era = ef[1], !.of = ef[2], !.mag = m, !.nform = nf, !.pform = pf,
                          !.order = d, !.shape = sh] :
               ef \in EraForms, nf \in {"nint", "big3"}, pf \in {g \in {"uint", "big2"} : PosFormOk(g, m)},
               d \in {"negfirst", "posfirst"}, sh \in {z \in DupShapes : ~DecoyLast(z)}} : m \in Mags}

TxSpace == {[Blank EXCEPT !.kind = "tx", !.ins = i, !.outs = o] :
               i \in SeqsUpTo(1..MaxQ, 0, TxMaxIns), o \in SeqsUpTo(TxOuts, 1, TxMaxOuts)}

CaseSpace == ClassSpace \cup PairSpace \cup TxSpace

------------------------------------------------------------------------
(* THE ORACLE: may the ledger accept the case's transaction?               *)
(* class and pair transactions conserve value by construction, so only the *)
(* range decides.                                                          *)
Accept(x) ==
    \* the surviving occurrence decides; the decoy is in range
    CASE x.kind = "class" -> (RangeChecked => (Effective(x.shape) = "decoy" \/ Admissible(x.cls)))
      [] x.kind = "pair"  -> ~RangeChecked            \* the -q output is never admissible
      [] OTHER            -> AcceptTx(x)

Why(x) ==
    CASE x.kind = "class" -> IF Effective(x.shape) = "decoy" \/ Admissible(x.cls) THEN "ok" ELSE "range"
      [] x.kind = "pair"  -> "range"
      [] OTHER            -> WhyTx(x)

\* cases whose acceptance the driver must observe, else the class is vacuous:
\* the canonical encodings of the in-range boundary values
Baseline(x) == x.kind = "class" /\ x.form = "uint" /\ x.cls \in {"one", "max"} /\ x.comp = "none"
               /\ x.shape = "plain"
\* a repeated key whose surviving quantity is in range must get through where the
\* era accepts repeated keys at all: the driver demands one such acceptance per era
\* and output form, otherwise the lenient decoding path was never exercised
DupBaseline(x) == x.kind = "class" /\ x.shape # "plain" /\ DupLegal(x.era) /\ x.form = "uint"
                  /\ x.cls \in {"one", "max"}

VARIABLE c
Init == c \in CaseSpace
Next == UNCHANGED c

------------------------------------------------------------------------
(* meta-properties, evaluated for every case *)
\* the property: nothing accepted carries a negative or oversized quantity
Safety ==
    Accept(c) =>
        CASE c.kind = "class" -> Effective(c.shape) = "decoy" \/ Admissible(c.cls)
          [] c.kind = "pair"  -> FALSE
          [] OTHER            -> AllInRange(c)
\* its consequence: an accepted transaction creates no tokens
NoForge == (c.kind = "tx" /\ Accept(c)) => Created(c) = 0
\* conservation alone does not imply it: the pair shape is balanced and creates q
PairShape(t) == t.ins = <<>> /\ Len(t.outs) = 2 /\ t.outs[1] > 0 /\ t.outs[2] = -t.outs[1]
PairIsBalancedForgery == (c.kind = "tx" /\ PairShape(c)) => Balanced(c) /\ Created(c) = c.outs[1]
\* the verdict of the class family is the range and nothing else
AdmissibleIs == \A k \in Classes : Admissible(k) <=> k \in {"zero", "one", "max"}
EveryClassReachable == \A k \in Classes : \E f \in Forms : Representable(f, k) /\ Reps(f, k) # {}
\* last wins: a repeated key changes nothing unless the surviving occurrence is another quantity
LastWins == (c.kind \in {"class", "pair"} /\ Effective(c.shape) = "case") =>
               Accept(c) = Accept([c EXCEPT !.shape = "plain"])
\* an out-of-range quantity is harmless only when it is the discarded occurrence
DiscardedOnly == (c.kind = "class" /\ RangeChecked /\ Accept(c) /\ ~Admissible(c.cls)) => DecoyLast(c.shape)
RepairedRejects == RangeChecked => (Accept(c) <=> Why(c) = "ok")

------------------------------------------------------------------------
(* emission *)
Row(x) == [kind |-> x.kind, era |-> x.era, of |-> x.of, cls |-> x.cls, form |-> x.form, rep |-> x.rep,
           pos |-> x.pos, comp |-> x.comp, mag |-> x.mag, nform |-> x.nform, pform |-> x.pform,
           order |-> x.order, ins |-> x.ins, outs |-> x.outs, shape |-> x.shape,
           eff |-> Effective(x.shape), duplegal |-> (x.kind # "tx" /\ DupLegal(x.era)),
           accept |-> Accept(x), why |-> Why(x), baseline |-> Baseline(x), dupbaseline |-> DupBaseline(x)]

ASSUME MaxQ \in {3, 5, 15, 17}            \* divisors of 2^64-1, so that the scaling is exact
ASSUME TxOuts \subseteq (-MaxQ - 2)..(MaxQ + 2)
ASSUME ndJsonSerialize("cases.ndjson", SetToSeq({Row(x) : x \in CaseSpace}))
ASSUME ndJsonSerialize("meta.ndjson", <<[maxq |-> MaxQ, rangechecked |-> RangeChecked]>>)
=======================================================================
