CONSTANT W = 16
CONSTANT As = {0, 1, 3, 5, 15}
CONSTANT Ss = {0, 1, 3, 5, 6, 15}
CONSTANT Bs = {0, 1, 15}
CONSTANT AllFees = TRUE
CONSTANT Origs = {}
CONSTANT Pads = {}
CONSTANT SzAs = {}
CONSTANT SzBs = {}
CONSTANT P2Pads = {}
CONSTANT FlagDefect = FALSE
CONSTANT WrapDefect = TRUE
CONSTANT FullW = 0
INIT Init
NEXT Next
INVARIANT NeverWrapped
