CONSTANT NOps = 3
CONSTANT SharedScratch = FALSE
CONSTANT AllThirds = FALSE
CONSTANT NtcFirst3 = {2, 8}
INIT Init
NEXT Next
INVARIANT OwnContent
INVARIANT HistoriesMatch
