CONSTANT MaxQ = 3
CONSTANT TxOuts <- TxOutsQuick
CONSTANT TxMaxIns = 2
CONSTANT TxMaxOuts = 3
CONSTANT RangeChecked = TRUE
INIT Init
NEXT Next
INVARIANT Safety
INVARIANT NoForge
INVARIANT PairIsBalancedForgery
INVARIANT AdmissibleIs
INVARIANT EveryClassReachable
INVARIANT RepairedRejects
INVARIANT LastWins
INVARIANT DiscardedOnly
