CONSTANT NOps = 3
CONSTANT SharedScratch = FALSE
CONSTANT AllThirds = FALSE
INIT Init
NEXT Next
INVARIANT OwnContent
INVARIANT HistoriesMatch
