\* C06 MultiAssetSquare.cfg: keys 2x2, quantities -1..1, total maps, pairs
CONSTANT KeySet = "2x2"
CONSTANT QAbs = 1
CONSTANT Mode = "total"
CONSTANT Arity = 2
CONSTANT SampleMod = 1
INIT Init
NEXT Next
INVARIANT EqReflexive
INVARIANT NormIsEq
INVARIANT AddIdentity
INVARIANT AddInverse
INVARIANT DecEnc
INVARIANT EncCanonical
INVARIANT EqPointwise
INVARIANT EqSymmetric
INVARIANT EqUpToZeros
INVARIANT AddPointwise
INVARIANT AddCommutes
INVARIANT AddUpToZeros
INVARIANT AddCancels
INVARIANT EncInjective
