---------------------------- MODULE CborHead ----------------------------
(* C03 — tagged-sum decoding follows the tag whatever the array-header     *)
(* form.  The RFC 8949 head grammar over byte sequences (bytes are 0..255): *)
(* HeadAt gives major type / argument / header length / definite-or-        *)
(* indefinite, ItemEnd is the well-formedness recursion, ListId is the      *)
(* unsigned value of the first element of a non-empty array (else Err).     *)
(* TLC proves ListId(Encode(form, n, form', v)) = v over every admissible   *)
(* array-header and uint form, that re-heading a minimally headed list      *)
(* never changes its id, and emits every encoding with the expected id      *)
(* (cases.ndjson) and every admissible header per list length (heads.ndjson)*)
(* for the conformance driver.                                              *)
(*                                                                          *)
(* Arguments are exact below 2^24 (TLC integers are 32 bit); larger ones    *)
(* are the abstract value Big.                                              *)
EXTENDS Integers, Sequences, FiniteSets, SequencesExt, Json, TLC

CONSTANTS Ns,      \* list lengths of the id cases
          Vs,      \* id values (all < 2^24)
          Fills,   \* value (0..23) of every element after the first
          RehNs    \* list lengths for which header forms are emitted

Err == -1          \* "no id": not a list / empty list / first element not a uint
Big == -2          \* an argument >= 2^24

------------------------------------------------------------------------
(* big-endian argument bytes *)
BE(v, k) == [i \in 1..k |-> IF k - i >= 3 THEN 0 ELSE (v \div (256 ^ (k - i))) % 256]

ArgOf(bytes) ==
    LET k == Len(bytes) IN
    IF \E i \in 1..k : k - i >= 3 /\ bytes[i] # 0 THEN Big
    ELSE LET lo(j) == IF j >= 1 THEN bytes[j] ELSE 0
         IN lo(k) + 256 * lo(k - 1) + 65536 * lo(k - 2)

BadHead == [ok |-> FALSE, brk |-> FALSE, mt |-> 0, arg |-> 0, hlen |-> 0, indef |-> FALSE]

\* the head that starts at index i of bs
HeadAt(bs, i) ==
    IF i < 1 \/ i > Len(bs) THEN BadHead
    ELSE LET b  == bs[i]
             mt == b \div 32
             ai == b % 32
             ex == CASE ai < 24 -> 0 [] ai = 24 -> 1 [] ai = 25 -> 2
                     [] ai = 26 -> 4 [] ai = 27 -> 8 [] OTHER -> 0
         IN IF ai \in 28..30 THEN BadHead
            ELSE IF ai = 31
                 THEN IF mt \in {2, 3, 4, 5}
                      THEN [ok |-> TRUE, brk |-> FALSE, mt |-> mt, arg |-> 0, hlen |-> 1, indef |-> TRUE]
                      ELSE IF mt = 7
                           THEN [ok |-> TRUE, brk |-> TRUE, mt |-> 7, arg |-> 0, hlen |-> 1, indef |-> FALSE]
                           ELSE BadHead
            ELSE IF i + ex > Len(bs) THEN BadHead
            ELSE [ok |-> TRUE, brk |-> FALSE, mt |-> mt, hlen |-> 1 + ex, indef |-> FALSE,
                  arg |-> IF ai < 24 THEN ai ELSE ArgOf(SubSeq(bs, i + 1, i + ex))]

RECURSIVE ItemEnd(_, _), ItemsEnd(_, _, _), IndefEnd(_, _, _), ChunksEnd(_, _, _)

\* index just after the well-formed data item that starts at i, or Err
ItemEnd(bs, i) ==
    LET h == HeadAt(bs, i) IN
    IF ~h.ok \/ h.brk THEN Err
    ELSE CASE h.mt \in {0, 1, 7} -> i + h.hlen
           [] h.mt \in {2, 3} ->
                IF h.indef THEN ChunksEnd(bs, i + 1, h.mt)
                ELSE IF h.arg = Big \/ i + h.hlen + h.arg - 1 > Len(bs) THEN Err
                ELSE i + h.hlen + h.arg
           [] h.mt = 4 ->
                IF h.indef THEN IndefEnd(bs, i + 1, 1)
                ELSE IF h.arg = Big THEN Err ELSE ItemsEnd(bs, i + h.hlen, h.arg)
           [] h.mt = 5 ->
                IF h.indef THEN IndefEnd(bs, i + 1, 2)
                ELSE IF h.arg = Big THEN Err ELSE ItemsEnd(bs, i + h.hlen, 2 * h.arg)
           [] h.mt = 6 -> ItemEnd(bs, i + h.hlen)

ItemsEnd(bs, i, k) ==
    IF k = 0 THEN i
    ELSE LET e == ItemEnd(bs, i) IN IF e = Err THEN Err ELSE ItemsEnd(bs, e, k - 1)

\* indefinite array (step 1) / map (step 2): items up to the break byte
IndefEnd(bs, i, step) ==
    IF i > Len(bs) THEN Err
    ELSE IF bs[i] = 255 THEN i + 1
    ELSE LET e == ItemsEnd(bs, i, step) IN IF e = Err THEN Err ELSE IndefEnd(bs, e, step)

\* indefinite string: definite chunks of the same major type up to the break
ChunksEnd(bs, i, mt) ==
    IF i > Len(bs) THEN Err
    ELSE IF bs[i] = 255 THEN i + 1
    ELSE LET h == HeadAt(bs, i) IN
         IF ~h.ok \/ h.brk \/ h.mt # mt \/ h.indef THEN Err
         ELSE LET e == ItemEnd(bs, i) IN IF e = Err THEN Err ELSE ChunksEnd(bs, e, mt)

WellFormed(bs) == Len(bs) > 0 /\ ItemEnd(bs, 1) = Len(bs) + 1

\* THE ORACLE: the variant tag a tagged-sum list names
ListId(bs) ==
    IF ~WellFormed(bs) THEN Err
    ELSE LET h == HeadAt(bs, 1) IN
         IF h.mt # 4 THEN Err
         ELSE LET first == 1 + h.hlen IN
              IF (h.indef /\ bs[first] = 255) \/ (~h.indef /\ h.arg = 0) THEN Err
              ELSE LET e == HeadAt(bs, first) IN IF e.mt = 0 THEN e.arg ELSE Err

------------------------------------------------------------------------
(* encoders: every admissible header form *)
Forms == {"min", "u8", "u16", "u32", "u64", "indef"}
FormOk(f, n) == CASE f = "min" -> n < 24 [] f = "u8" -> n < 256 [] f = "u16" -> n < 65536 [] OTHER -> TRUE
FormExtra(f) == CASE f = "u8" -> 1 [] f = "u16" -> 2 [] f = "u32" -> 4 [] f = "u64" -> 8 [] OTHER -> 0
FormAi(f)    == CASE f = "u8" -> 24 [] f = "u16" -> 25 [] f = "u32" -> 26 [] f = "u64" -> 27 [] OTHER -> 31

HeadEnc(mt, f, n) ==
    CASE f = "min"   -> <<32 * mt + n>>
      [] f = "indef" -> <<32 * mt + 31>>
      [] OTHER       -> <<32 * mt + FormAi(f)>> \o BE(n, FormExtra(f))

ArrayForms(n) == {f \in Forms : FormOk(f, n)}
UintForms(v)  == {f \in Forms \ {"indef"} : FormOk(f, v)}
ArrayHeader(f, n) == HeadEnc(4, f, n)
Trailer(f)        == IF f = "indef" THEN <<255>> ELSE <<>>
UintEnc(f, v)     == HeadEnc(0, f, v)

Encode(af, n, first, fill) ==
    ArrayHeader(af, n)
      \o (IF n = 0 THEN <<>> ELSE first \o [i \in 1..(n - 1) |-> fill])
      \o Trailer(af)

\* replace the (minimal) array header of bs by form af
Rehead(af, bs) ==
    ArrayHeader(af, HeadAt(bs, 1).arg) \o SubSeq(bs, 2, Len(bs)) \o Trailer(af)

------------------------------------------------------------------------
(* the case space *)
\* first elements that name no variant: -1, -6 (1-byte form), h'', "", [], {}, false, null
NonUint == {<<32>>, <<56, 5>>, <<64>>, <<96>>, <<128>>, <<160>>, <<244>>, <<246>>}
\* well-formed items that are not lists at all
NotLists == {<<0>>, <<24, 5>>, <<65, 0>>, <<97, 48>>, <<161, 0, 0>>, <<191, 0, 0, 255>>, <<246>>}
\* ill-formed lists: truncated, missing break, reserved additional info
IllFormed == {<<130, 0>>, <<152, 2, 0>>, <<159, 0>>, <<159, 0, 0>>, <<156, 0>>, <<129, 28>>, <<153, 0>>}

IdCases  == {[kind |-> "id", af |-> af, n |-> n, uf |-> uf, v |-> v, fill |-> fl, raw |-> <<>>] :
               af \in Forms, n \in Ns, uf \in Forms \ {"indef"}, v \in Vs, fl \in Fills}
IdSpace  == {c \in IdCases : FormOk(c.af, c.n) /\ FormOk(c.uf, c.v)}
ErrSpace == {[kind |-> "nonuint", af |-> af, n |-> n, uf |-> "min", v |-> 0, fill |-> 0, raw |-> x] :
               af \in Forms, n \in {1, 2}, x \in NonUint}
     \cup   {[kind |-> "empty", af |-> af, n |-> 0, uf |-> "min", v |-> 0, fill |-> 0, raw |-> <<>>] :
               af \in Forms}
     \cup   {[kind |-> "notlist", af |-> "min", n |-> 0, uf |-> "min", v |-> 0, fill |-> 0, raw |-> x] :
               x \in NotLists}
     \cup   {[kind |-> "illformed", af |-> "min", n |-> 0, uf |-> "min", v |-> 0, fill |-> 0, raw |-> x] :
               x \in IllFormed}
CaseSpace == IdSpace \cup ErrSpace

Bytes(c) == CASE c.kind = "id"      -> Encode(c.af, c.n, UintEnc(c.uf, c.v), c.fill)
              [] c.kind = "nonuint" -> Encode(c.af, c.n, c.raw, 0)
              [] c.kind = "empty"   -> Encode(c.af, 0, <<>>, 0)
              [] OTHER              -> c.raw

Expect(c) == ListId(Bytes(c))

VARIABLE c
Init == c \in CaseSpace
Next == UNCHANGED c

------------------------------------------------------------------------
(* meta-properties, evaluated for every case *)
AllBytes    == \A i \in 1..Len(Bytes(c)) : Bytes(c)[i] \in 0..255
\* the id is the encoded value, whatever the two header forms
RoundTrip   == c.kind = "id" => WellFormed(Bytes(c)) /\ Expect(c) = c.v
\* the array head decodes to major type 4 / the element count
HeadIsArray == c.kind \in {"id", "nonuint", "empty"} =>
                 LET h == HeadAt(Bytes(c), 1) IN
                   /\ h.ok /\ h.mt = 4
                   /\ h.indef = (c.af = "indef")
                   /\ (~h.indef => h.arg = c.n)
                   /\ h.hlen = 1 + FormExtra(c.af)
\* nothing but a non-empty list with a leading uint names a variant
NoIdIsErr   == c.kind # "id" => Expect(c) = Err
NonUintWf   == c.kind \in {"nonuint", "empty", "notlist"} => WellFormed(Bytes(c))
IllIsIll    == c.kind = "illformed" => ~WellFormed(Bytes(c))
\* re-heading the minimal encoding gives exactly the encoding in that form, with the same id
ReheadSame  == (c.kind = "id" /\ c.n < 24) =>
                 LET m == Encode("min", c.n, UintEnc(c.uf, c.v), c.fill) IN
                   /\ Rehead(c.af, m) = Bytes(c)
                   /\ ListId(Rehead(c.af, m)) = ListId(m)
\* different forms are different byte strings (the forms are really distinct inputs)
FormsDiffer == c.kind = "id" =>
                 \A f \in ArrayForms(c.n) \ {c.af} :
                    Encode(f, c.n, UintEnc(c.uf, c.v), c.fill) # Bytes(c)
\* exactly one minimal array form and one minimal uint form (RFC 8949 4.2.1 preferred serialization)
Minimal(f, n) == \A g \in Forms \ {"indef"} : FormOk(g, n) => FormExtra(f) <= FormExtra(g)
OneMinimal  == c.kind = "id" =>
                 /\ Cardinality({f \in ArrayForms(c.n) \ {"indef"} : Minimal(f, c.n)}) = 1
                 /\ Cardinality({f \in UintForms(c.v) : Minimal(f, c.v)}) = 1

------------------------------------------------------------------------
(* emission *)
Row(x) == [kind |-> x.kind, af |-> x.af, n |-> x.n, uf |-> x.uf, v |-> x.v, fill |-> x.fill,
           bytes |-> Bytes(x), expect |-> Expect(x)]
HeadRow(n, f) == [n |-> n, af |-> f, hdr |-> ArrayHeader(f, n), trl |-> Trailer(f)]

ASSUME \A v \in Vs : v \in 0..16777215
ASSUME \A n \in Ns \cup RehNs : n \in 0..16777215
ASSUME \A f \in Fills : f \in 0..23
ASSUME ndJsonSerialize("cases.ndjson", SetToSeq({Row(x) : x \in CaseSpace}))
ASSUME ndJsonSerialize("heads.ndjson",
                       SetToSeq(UNION {{HeadRow(n, f) : f \in ArrayForms(n)} : n \in RehNs}))
=======================================================================
