CONSTANT Families = {"era", "dispatch", "b2h", "h2b", "mapdom", "eraid"}
CONSTANT MaxMajor = 255
INIT Init
NEXT Next
INVARIANT TablesConsistent
