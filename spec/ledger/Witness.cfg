CONSTANT MaxIn = 1
CONSTANT MaxColl = 1
CONSTANT MaxReq = 1
CONSTANT MaxVW = 2
CONSTANT MaxBW = 1
CONSTANT MultIn = 2
CONSTANT MultColl = 0
CONSTANT MultReq = 2
CONSTANT MultTotal = 3
CONSTANT MaxMult = 2
CONSTANT FlagSlice = "axes"
INIT Init
NEXT Next
INVARIANT Statement
INVARIANT MonotoneWitnesses
INVARIANT AntitoneObligations
INVARIANT OneBadSigRejects
INVARIANT OwnerNeeded
INVARIANT KindsDoNotMix
INVARIANT ScriptInputsNeutral
INVARIANT VerdictShape
INVARIANT OrderIrrelevant
INVARIANT FlagIrrelevant
INVARIANT MultiplicityIrrelevant
INVARIANT Emit
POSTCONDITION AllCasesVisited
