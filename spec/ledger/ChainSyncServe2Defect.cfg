CONSTANT NOps = 2
CONSTANT SharedScratch = TRUE
CONSTANT AllThirds = FALSE
INIT Init
NEXT Next
INVARIANT OwnContent
INVARIANT HistoriesMatch
