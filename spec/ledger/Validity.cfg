CONSTANT T = 4
INIT Init
NEXT Next
INVARIANT Monotone
INVARIANT Convex
INVARIANT EmptyInterval
INVARIANT ZeroEnd
INVARIANT ZeroTtl
INVARIANT ZeroStart
INVARIANT Unbounded
INVARIANT Boundaries
INVARIANT ShelleyAllegra
INVARIANT DefectsNamed
INVARIANT FlagIrrelevant
