-------------------------- MODULE NativeScript --------------------------
(* C29 — native (timelock / multisig) scripts evaluate as the ledger        *)
(* defines them.                                                            *)
(*                                                                          *)
(* A script is a tree:                                                      *)
(*   <<"sig", k>>            signature of key k required                    *)
(*   <<"all", kids>>         every sub-script holds                         *)
(*   <<"any", kids>>         at least one sub-script holds                  *)
(*   <<"nofk", n, kids>>     at least n sub-scripts hold                    *)
(*   <<"after", b>>          invalid-before b   (CDDL tag 4)                *)
(*   <<"before", b>>         invalid-hereafter b (CDDL tag 5)               *)
(* The context is the set of witnessing keys and the transaction's          *)
(* validity interval, each bound Absent or a point of the abstract time     *)
(* line 0..T.  Ledger semantics (Allegra timelocks):                        *)
(*   after b   holds iff the start is PRESENT and b <= start                *)
(*   before b  holds iff the end   is PRESENT and end <= b                  *)
(* The script only compares time points, so the driver maps 0..T            *)
(* monotonically onto uint64 (abstract 0 -> 0 and T -> 2^64-1 in the        *)
(* "z" maps) and the verdict below is the exact oracle.                     *)
(* The transaction context has one more coordinate at rule level: from      *)
(* Alonzo on a transaction carries the is_valid flag.  Native scripts are    *)
(* phase-1: the rule's verdict does not depend on it (RuleHolds, vf,         *)
(* FlagIrrelevant below).                                                    *)
(* Hash(script) = Blake2b-224(0x00 ++ original bytes): the model gives the  *)
(* CBOR token sequence of every script (Tokens), the driver renders it to   *)
(* bytes, decodes those bytes with the real decoder and hashes them.        *)
EXTENDS Integers, Sequences, FiniteSets, SequencesExt, Json, TLC

CONSTANTS
    T,        \* largest abstract time point
    Bnds,     \* time points used as script bounds (subset of 0..T)
    MaxN,     \* n-of-k thresholds 0..MaxN
    Width3,   \* TRUE: depth-2 scripts may have three sub-scripts
    BigReps   \* TRUE: 14 instead of 8 representative sub-scripts at depth 3

Absent == -1
Keys   == {1, 2}
Time   == 0..T
Bound  == {Absent} \cup Time

Leaves == {<<"sig", k>> : k \in Keys}
            \cup {<<"after", b>> : b \in Bnds} \cup {<<"before", b>> : b \in Bnds}

Kids2(S) == {<<>>} \cup {<<a>> : a \in S} \cup {<<a, b>> : a \in S, b \in S}
Kids3(S) == Kids2(S) \cup {<<a, b, d>> : a \in S, b \in S, d \in S}
Comb(K)  == {<<"all", k>> : k \in K} \cup {<<"any", k>> : k \in K}
              \cup {<<"nofk", n, k>> : n \in 0..MaxN, k \in K}

D1 == Leaves
D2 == Comb(IF Width3 THEN Kids3(Leaves) ELSE Kids2(Leaves))

Lo == CHOOSE b \in Bnds : \A d \in Bnds : b <= d
Hi == CHOOSE b \in Bnds : \A d \in Bnds : b >= d
Mid == CHOOSE b \in Bnds : b # Lo /\ b # Hi

\* sub-scripts used below the root of depth-3 scripts: leaf kinds and
\* combinators that are true / false / key- / time-dependent
RepsSmall == {<<"sig", 1>>, <<"after", Mid>>, <<"before", Mid>>,
              <<"all", <<>>>>,
              <<"any", <<<<"sig", 1>>, <<"after", Mid>>>>>>,
              <<"nofk", 1, <<<<"sig", 2>>, <<"before", Mid>>>>>>,
              <<"nofk", 2, <<<<"sig", 1>>, <<"sig", 2>>>>>>,
              <<"all", <<<<"after", Lo>>, <<"before", Hi>>>>>>}
RepsBig == RepsSmall \cup
           {<<"sig", 2>>, <<"after", Lo>>, <<"before", Hi>>, <<"any", <<>>>>,
            <<"all", <<<<"sig", 1>>, <<"sig", 2>>>>>>,
            <<"any", <<<<"before", Lo>>, <<"after", Hi>>>>>>}
Reps == IF BigReps THEN RepsBig ELSE RepsSmall
D3 == Comb(Kids2(Reps)) \ D2

Scripts == D1 \cup D2 \cup D3

Ctx == [keys : SUBSET Keys, start : Bound, end : Bound]

Kids(sc) == IF sc[1] = "nofk" THEN sc[3] ELSE sc[2]

RECURSIVE Eval(_, _)
Eval(sc, cx) ==
    CASE sc[1] = "sig"    -> sc[2] \in cx.keys
      [] sc[1] = "all"    -> \A n \in 1..Len(sc[2]) : Eval(sc[2][n], cx)
      [] sc[1] = "any"    -> \E n \in 1..Len(sc[2]) : Eval(sc[2][n], cx)
      [] sc[1] = "nofk"   -> Cardinality({n \in 1..Len(sc[3]) : Eval(sc[3][n], cx)}) >= sc[2]
      [] sc[1] = "after"  -> cx.start # Absent /\ sc[2] <= cx.start
      [] sc[1] = "before" -> cx.end # Absent /\ cx.end <= sc[2]

(* The Go API as DESIGN.md §7 reads it, kept as named deviations (never the  *)
(* oracle; they only give disagreeing cases a stable, narrow name):          *)
(*   "S"  an absent start is passed as 0                                     *)
(*   "E"  an absent end is passed as 2^64-1 (= T in the z maps)              *)
(*   "Z"  a present end of 0 is taken for absent (TTL() == 0)                *)
Norm(cx, D) ==
    LET st == IF cx.start = Absent /\ "S" \in D THEN 0 ELSE cx.start
        ez == IF cx.end = 0 /\ "Z" \in D THEN Absent ELSE cx.end
        en == IF ez = Absent /\ "E" \in D THEN T ELSE ez
    IN [keys |-> cx.keys, start |-> st, end |-> en]

Flip(sc, cx, D) == Eval(sc, cx) # Eval(sc, Norm(cx, D))
Dev(sc, cx, D) ==
    IF ~Flip(sc, cx, D) THEN "-"
    ELSE LET l == (IF "S" \in D /\ cx.start = Absent /\ Flip(sc, cx, {"S"}) THEN "s" ELSE "")
                  \o (IF "E" \in D /\ cx.end = Absent /\ Flip(sc, cx, {"E"}) THEN "e" ELSE "")
                  \o (IF "Z" \in D /\ cx.end = 0 /\ Flip(sc, cx, {"Z", "E"}) THEN "z" ELSE "")
         IN IF l = "" THEN "combo" ELSE l

-----------------------------------------------------------------------------
(* Rule level.  The era's UTXOW rule (UtxoValidateNativeScripts) evaluates   *)
(* every native script the transaction carries, in the context the           *)
(* transaction gives: its witnesses and its validity interval.  From Alonzo  *)
(* on the transaction has one more attribute, the is_valid flag: FALSE says  *)
(* that its Plutus scripts fail (phase 2), so that only its collateral is    *)
(* collected.  Native scripts are phase 1: the ledger evaluates them before  *)
(* it looks at the flag (UTXOW runs them, UTXOS reads is_valid), so a        *)
(* transaction flagged is_valid = FALSE that carries a failing native script *)
(* is rejected like an unflagged one.  RuleHolds therefore does not read     *)
(* isValid, in any era.                                                      *)
(*   FlagSource(era): where the flag of a transaction of the era comes from  *)
(*     "envelope"  third element of the transaction's array (Alonzo..Conway) *)
(*     "block"     a Dijkstra transaction cannot encode is_valid = FALSE     *)
(*                 itself; it is flagged by its block, whose                 *)
(*                 invalid_transactions set lists its index                  *)
(*     "none"      Allegra, Mary: no flag, the transaction is always valid   *)
RuleEras == {"allegra", "mary", "alonzo", "babbage", "conway", "dijkstra"}
FlagSource(era) ==
    CASE era \in {"alonzo", "babbage", "conway"} -> "envelope"
      [] era = "dijkstra"                        -> "block"
      [] OTHER                                   -> "none"
IsValidOf(era) == IF FlagSource(era) = "none" THEN {TRUE} ELSE BOOLEAN
\* the transactions of the rule-level case space (per script)
RuleCtx == {[era |-> e, cx |-> cx, isValid |-> b] : e \in RuleEras, cx \in Ctx, b \in BOOLEAN}
RuleCases == {r \in RuleCtx : r.isValid \in IsValidOf(r.era)}
RuleHolds(sc, cx, isValid) == Eval(sc, cx)

\* per context: the verdict and the deviation names at Evaluate level and at
\* rule level (shares evaluations; most contexts are not affected)
PerCtx(sc, cx) ==
    LET v  == Eval(sc, cx)
        ne == Norm(cx, {"S", "E"})
        nr == Norm(cx, {"S", "E", "Z"})
        ve == IF ne = cx THEN v ELSE Eval(sc, ne)
        vr == IF nr = cx THEN v ELSE IF nr = ne THEN ve ELSE Eval(sc, nr)
    IN <<v, IF ve = v THEN "-" ELSE Dev(sc, cx, {"S", "E"}),
            IF vr = v THEN "-" ELSE Dev(sc, cx, {"S", "E", "Z"})>>

\* A state is one (script, context) pair, held as indices into the two
\* constant sequences so that states stay small.  j = 0 is the script before a
\* context is chosen: the pairs are the successors of those states, so that
\* TLC's workers evaluate the meta-properties in parallel.
ScriptSeq == SetToSeq(Scripts)
CtxSeq    == SetToSeq(Ctx)
\* v is the specification's verdict for the pair (the oracle of the replay),
\* vf the rule's verdict on a transaction flagged is_valid = FALSE (the oracle
\* of the flagged rule-level cases), de / dr the deviation names; the runner
\* reads them from TLC's state dump.
VARIABLES i, j, v, vf, de, dr
vars == <<i, j, v, vf, de, dr>>
s == ScriptSeq[i]
x == CtxSeq[j]
Init == i \in 1..Len(ScriptSeq) /\ j = 0 /\ v = FALSE /\ vf = FALSE /\ de = "-" /\ dr = "-"
Next == /\ j = 0
        /\ j' \in 1..Len(CtxSeq)
        /\ i' = i
        /\ LET p == PerCtx(s, CtxSeq[j']) IN v' = p[1] /\ de' = p[2] /\ dr' = p[3]
        /\ vf' = RuleHolds(s, CtxSeq[j'], FALSE)

\* the recorded verdict is the evaluation (ties the dump to Eval)
Recorded == j > 0 => (v = Eval(s, x))

\* the is_valid flag never changes the rule's verdict: the recorded verdict of
\* the flagged transaction (vf = RuleHolds(s, x, FALSE) by Next) is the one of
\* the unflagged transaction, and that is the script's evaluation in the
\* transaction's context (v, by Recorded)
FlagIrrelevant ==
    j > 0 => /\ vf = RuleHolds(s, x, TRUE)
             /\ vf = v

-----------------------------------------------------------------------------
(* Meta-properties, evaluated for every (script, context); v = Eval(s, x) by   *)
(* the invariant Recorded.                                                    *)

\* more witnesses never invalidate a script (one added key at a time; the
\* general statement follows by transitivity)
MonotoneKeys ==
    (j > 0 /\ v) =>
        \A k \in Keys : Eval(s, [x EXCEPT !.keys = x.keys \cup {k}])

\* narrowing the transaction's interval never invalidates a script (one step
\* at a time: Absent -> widest present bound, start + 1, end - 1)
NarrowSteps(cx) ==
    (IF cx.start = Absent THEN {[cx EXCEPT !.start = 0]}
     ELSE IF cx.start < T THEN {[cx EXCEPT !.start = cx.start + 1]} ELSE {})
      \cup
    (IF cx.end = Absent THEN {[cx EXCEPT !.end = T]}
     ELSE IF cx.end > 0 THEN {[cx EXCEPT !.end = cx.end - 1]} ELSE {})
MonotoneInterval ==
    (j > 0 /\ v) => \A y \in NarrowSteps(x) : Eval(s, y)

\* all / any are the extreme thresholds of n-of-k; empty lists
Thresholds ==
    j > 0 =>
    /\ s[1] = "all" => (v <=> Eval(<<"nofk", Len(s[2]), s[2]>>, x))
    /\ s[1] = "any" => (v <=> Eval(<<"nofk", 1, s[2]>>, x))
    /\ (s[1] = "nofk" /\ s[2] = 0) => v
    /\ (s[1] = "nofk" /\ s[2] > Len(s[3])) => ~v
    /\ (s[1] = "all" /\ s[2] = <<>>) => v
    /\ (s[1] = "any" /\ s[2] = <<>>) => ~v

\* an absent bound fails every time lock, whatever the lock's bound
AbsentFails ==
    j > 0 =>
    /\ (s[1] = "after" /\ x.start = Absent) => ~v
    /\ (s[1] = "before" /\ x.end = Absent) => ~v
    /\ (s[1] = "after" /\ x.start # Absent) => (v <=> s[2] <= x.start)
    /\ (s[1] = "before" /\ x.end # Absent) => (v <=> x.end <= s[2])

\* the order of sub-scripts is irrelevant
OrderFree ==
    (j > 0 /\ s[1] \in {"all", "any", "nofk"} /\ Len(Kids(s)) = 2) =>
        LET k == Kids(s)
            r == <<k[2], k[1]>>
            m == IF s[1] = "nofk" THEN <<"nofk", s[2], r>> ELSE <<s[1], r>>
        IN v <=> Eval(m, x)

-----------------------------------------------------------------------------
(* CBOR token sequence of a script (CDDL native_script): "a" head of the    *)
(* script's own array (n items), "g" its type id, "u" the n-of-k threshold,  *)
(* "l" head of a sub-script list (n items), "k" the 28-byte hash of key n,   *)
(* "t" the slot that stands for time point n.                                *)
RECURSIVE Tokens(_)
TokensOfKids(k) == FoldLeft(LAMBDA acc, e : acc \o Tokens(e), <<<<"l", Len(k)>>>>, k)
Tokens(sc) ==
    CASE sc[1] = "sig"    -> << <<"a", 2>>, <<"g", 0>>, <<"k", sc[2]>> >>
      [] sc[1] = "all"    -> << <<"a", 2>>, <<"g", 1>> >> \o TokensOfKids(sc[2])
      [] sc[1] = "any"    -> << <<"a", 2>>, <<"g", 2>> >> \o TokensOfKids(sc[2])
      [] sc[1] = "nofk"   -> << <<"a", 3>>, <<"g", 3>>, <<"u", sc[2]>> >> \o TokensOfKids(sc[3])
      [] sc[1] = "after"  -> << <<"a", 2>>, <<"g", 4>>, <<"t", sc[2]>> >>
      [] sc[1] = "before" -> << <<"a", 2>>, <<"g", 5>>, <<"t", sc[2]>> >>

RECURSIVE Name(_)
NameOfKids(k) ==
    "(" \o FoldLeft(LAMBDA acc, e : IF acc = "" THEN Name(e) ELSE acc \o "," \o Name(e), "", k) \o ")"
Name(sc) ==
    CASE sc[1] \in {"sig", "after", "before"} -> sc[1] \o ToString(sc[2])
      [] sc[1] \in {"all", "any"}             -> sc[1] \o NameOfKids(sc[2])
      [] sc[1] = "nofk"                       -> "nofk" \o ToString(sc[2]) \o NameOfKids(sc[3])

RECURSIVE Depth(_)
Depth(sc) ==
    IF sc[1] \in {"sig", "after", "before"} THEN 1
    ELSE LET k == Kids(sc) IN
         1 + (IF k = <<>> THEN 0 ELSE Max({Depth(k[n]) : n \in 1..Len(k)}))

CtxRow(y) == [keys |-> SetToSeq(y.keys), start |-> y.start, end |-> y.end]

Row(sc) == [name |-> Name(sc), depth |-> Depth(sc), tok |-> Tokens(sc)]

ASSUME Bnds \subseteq Time /\ Cardinality(Bnds) >= 3 /\ 0 \in Bnds /\ T \in Bnds
\* distinct scripts have distinct encodings and distinct names (so, with a
\* collision-free hash, distinct script hashes)
ASSUME Cardinality({Tokens(sc) : sc \in Scripts}) = Cardinality(Scripts)
ASSUME Cardinality({Name(sc) : sc \in Scripts}) = Cardinality(Scripts)
ASSUME \A sc \in Scripts : Depth(sc) <= 3
ASSUME \A e \in RuleEras : TRUE \in IsValidOf(e)
ASSUME {r.era : r \in {q \in RuleCases : ~q.isValid}} = {e \in RuleEras : FlagSource(e) # "none"}
ASSUME ndJsonSerialize("eras.ndjson",
         SetToSeq({[era |-> e, flag |-> FlagSource(e), is_valid |-> SetToSeq(IsValidOf(e))] : e \in RuleEras}))
ASSUME ndJsonSerialize("ctx.ndjson", [n \in 1..Len(CtxSeq) |-> CtxRow(CtxSeq[n])])
ASSUME ndJsonSerialize("cases.ndjson", [n \in 1..Len(ScriptSeq) |-> Row(ScriptSeq[n])])
=======================================================================
