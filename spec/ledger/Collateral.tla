---------------------------- MODULE Collateral ----------------------------
(* C32 — Collateral covers the fee share the protocol demands.              *)
(*                                                                          *)
(* The decision structure of the four collateral predicates of the          *)
(* Alonzo..Dijkstra UTXO rule, for a transaction that runs scripts:         *)
(*   Insufficient  <=>  ~(balance * 100 >= fee * pct)     (exact, no floor) *)
(*   NonAda        <=>  collateral inputs carry tokens that the collateral  *)
(*                      return does not give back                           *)
(*   NoCollateral  <=>  no collateral input                                 *)
(*   TooMany       <=>  more collateral inputs than the protocol maximum    *)
(* `balance` is the ledger's collateral balance: the ada of the collateral  *)
(* inputs minus the ada of the collateral return (Babbage and later; Alonzo *)
(* has no collateral return).                                               *)
(*                                                                          *)
(* The case space is the state space (one state per case); the              *)
(* meta-properties of the transcription are invariants; every case is       *)
(* emitted with the spec's verdict and replayed on the real rule functions  *)
(* and rule lists of the four eras by harness/cmd/c32.                      *)
EXTENDS Integers, Sequences, FiniteSets, Json, TLC, SequencesExt

CONSTANTS
    Fees,        \* fees of the amount slice
    Pcts,        \* collateral percentages of the amount slice
    MaxBal,      \* balances 0..MaxBal (covers every threshold of Fees x Pcts, +1)
    RetFees, RetPcts, RetAdas,   \* return slice: fees, percentages, positive ada of the collateral return
    ShapeFees, ShapePcts, ShapeBals,   \* the few amounts used in the shape slice
    MaxIn,       \* collateral inputs 0..MaxIn in the shape slice
    MaxMax,      \* protocol maximum 0..MaxMax in the shape slice
    MaxTok,      \* token quantity 0..MaxTok
    FlooringDefect   \* TRUE re-enables the defect F-C32 (fee*pct/100 floored) in the model

Styles == {"alonzo", "babbage"}      \* without / with a collateral return field
NoRet == -1                          \* value of `ret` when there is no collateral return output

----------------------------------------------------------------------------
(* The decision functions                                                   *)

Enough(fee, pct, bal) == bal * 100 >= fee * pct

\* the defective design kept for reference (DESIGN section 7, F-C32): the
\* required amount is floored in the transaction's favour
FlooredEnough(fee, pct, bal) == bal >= (fee * pct) \div 100

Sufficient(fee, pct, bal) ==
    IF FlooringDefect THEN FlooredEnough(fee, pct, bal) ELSE Enough(fee, pct, bal)

CeilDiv(a, b) == (a + b - 1) \div b
Threshold(fee, pct) == CeilDiv(fee * pct, 100)

HasRet(c) == c.ret >= 0

\* every token of the collateral inputs is given back by the collateral return
\* (giving back more than the inputs carry is left to Free below)
TokensReturned(c) == HasRet(c) /\ c.tokRet >= c.tokIn

\* the set of collateral failures the property demands for case c
Errors(c) ==
    IF ~c.scripts THEN {}
    ELSE   (IF Sufficient(c.fee, c.pct, c.bal) THEN {} ELSE {"Insufficient"})
      \cup (IF c.tokIn > 0 /\ ~TokensReturned(c) THEN {"NonAda"} ELSE {})
      \cup (IF c.nIn = 0 THEN {"NoCollateral"} ELSE {})
      \cup (IF c.nIn > c.maxColl THEN {"TooMany"} ELSE {})

\* failure classes on which the property text is silent for case c: either
\* behaviour of the implementation is accepted there
Free(c) ==
    IF ~c.scripts THEN {"Insufficient", "NonAda", "NoCollateral", "TooMany"}
    ELSE \* the return gives back more tokens than the inputs carry
         IF HasRet(c) /\ c.tokRet > c.tokIn THEN {"NonAda"} ELSE {}

----------------------------------------------------------------------------
(* The case space                                                           *)

Case(style, scripts, fee, pct, bal, ret, nIn, maxColl, tokIn, tokRet) ==
    [style |-> style, scripts |-> scripts, fee |-> fee, pct |-> pct, bal |-> bal,
     ret |-> ret, nIn |-> nIn, maxColl |-> maxColl, tokIn |-> tokIn, tokRet |-> tokRet]

RetsOf(style, rets) == IF style = "alonzo" THEN {NoRet} ELSE rets

\* amount slice: the inequality, for 1..3 ada-only collateral inputs, without a
\* collateral return or with one that carries no ada
AmountCases ==
    { Case(st, TRUE, f, p, b, r, n, 3, 0, 0) :
        st \in Styles, f \in Fees, p \in Pcts, b \in 0..MaxBal,
        r \in {NoRet, 0}, n \in 1..3 }

\* return slice: the balance is what the collateral inputs hold minus what the
\* collateral return takes back
ReturnCases ==
    { Case("babbage", TRUE, f, p, b, r, n, 3, 0, 0) :
        f \in RetFees, p \in RetPcts, b \in 0..MaxBal, r \in RetAdas, n \in 1..3 }

\* shape slice: number of inputs, protocol maximum, tokens, return, scripts
ShapeCases ==
    { Case(st, s, f, p, b, r, n, m, ti, tr) :
        st \in Styles, s \in BOOLEAN, f \in ShapeFees, p \in ShapePcts, b \in ShapeBals,
        r \in {NoRet, 0, 1}, n \in 0..MaxIn, m \in 0..MaxMax, ti \in 0..MaxTok, tr \in 0..MaxTok }

WellFormed(c) ==
    /\ c.ret \in RetsOf(c.style, {c.ret})                 \* Alonzo: no return
    /\ (c.ret < 0 => c.tokRet = 0)                         \* no return, no returned tokens
    /\ (c.nIn = 0 => c.bal = 0 /\ c.ret <= 0 /\ c.tokIn = 0)   \* nothing to sum
    /\ (c.tokIn > 0 => c.nIn >= 1)

Slice(S) == { x \in S : WellFormed(x) }
AmountSlice == Slice(AmountCases)
ReturnSlice == Slice(ReturnCases)
ShapeSlice  == Slice(ShapeCases)
CaseSpace == AmountSlice \cup ReturnSlice \cup ShapeSlice

\* boundary classes for amounts TLC cannot represent: the driver picks 64-bit
\* fees and sets balance = ceil(fee*pct/100) + rel; the verdict depends on rel
\* only (invariant ThresholdExact below is the justification)
BigRows == { [pct |-> p, rel |-> r, enough |-> (IF FlooringDefect THEN r >= -1 ELSE r >= 0)] :
             p \in Pcts \ {0}, r \in {-1, 0, 1} }

VARIABLE c
\* the three slices again, as generators (TLC enumerates them without building
\* and normalising the sets); AllCasesVisited ties them to the emitted sets
Init ==
    \/ \E st \in Styles, f \in Fees, p \in Pcts, b \in 0..MaxBal, r \in {NoRet, 0}, n \in 1..3 :
          c = Case(st, TRUE, f, p, b, r, n, 3, 0, 0) /\ WellFormed(c)
    \/ \E f \in RetFees, p \in RetPcts, b \in 0..MaxBal, r \in RetAdas, n \in 1..3 :
          c = Case("babbage", TRUE, f, p, b, r, n, 3, 0, 0) /\ WellFormed(c)
    \/ \E st \in Styles, s \in BOOLEAN, f \in ShapeFees, p \in ShapePcts, b \in ShapeBals,
          r \in {NoRet, 0, 1}, n \in 0..MaxIn, m \in 0..MaxMax, ti \in 0..MaxTok, tr \in 0..MaxTok :
          c = Case(st, s, f, p, b, r, n, m, ti, tr) /\ WellFormed(c)
Next == UNCHANGED c

\* POSTCONDITION: the states TLC visited are exactly the emitted cases
AllCasesVisited == TLCGet("distinct") = Cardinality(CaseSpace)

----------------------------------------------------------------------------
(* Meta-properties, evaluated in every state (= for every case)             *)

\* the inequality is a threshold on the balance at the exact ceiling
ThresholdExact ==
    Enough(c.fee, c.pct, c.bal) <=> c.bal >= Threshold(c.fee, c.pct)

\* more balance never hurts, more fee / percentage never helps
Monotone ==
    /\ Enough(c.fee, c.pct, c.bal) => Enough(c.fee, c.pct, c.bal + 1)
    /\ Enough(c.fee + 1, c.pct, c.bal) => Enough(c.fee, c.pct, c.bal)
    /\ Enough(c.fee, c.pct + 1, c.bal) => Enough(c.fee, c.pct, c.bal)

\* nothing is demanded when the fee share is zero
ZeroShare == (c.fee = 0 \/ c.pct = 0) => Enough(c.fee, c.pct, c.bal)

\* the floored design differs from the exact one exactly at the floor of an
\* inexact quotient, and only ever in the transaction's favour
FloorCharacterised ==
    /\ Enough(c.fee, c.pct, c.bal) => FlooredEnough(c.fee, c.pct, c.bal)
    /\ (FlooredEnough(c.fee, c.pct, c.bal) /\ ~Enough(c.fee, c.pct, c.bal))
          <=> ((c.fee * c.pct) % 100 # 0 /\ c.bal = (c.fee * c.pct) \div 100)

\* scaling fee and balance by the same factor keeps the verdict (used by the
\* driver to replay the grid at 64-bit magnitudes)
Homogeneous == \A m \in {2, 3, 7} :
    Enough(c.fee * m, c.pct, c.bal * m) <=> Enough(c.fee, c.pct, c.bal)

\* shape of the verdict
VerdictShape ==
    /\ Errors(c) \subseteq {"Insufficient", "NonAda", "NoCollateral", "TooMany"}
    /\ (~c.scripts => Errors(c) = {})
    /\ (c.scripts /\ c.nIn = 0 /\ c.fee * c.pct > 0 => {"NoCollateral", "Insufficient"} \subseteq Errors(c))
    /\ (c.scripts /\ c.tokIn = 0 => "NonAda" \notin Errors(c))
    /\ (c.style = "alonzo" /\ c.scripts /\ c.tokIn > 0 => "NonAda" \in Errors(c))
    /\ Errors(c) \cap Free(c) = {}

\* the model decides by the exact inequality; CollateralDefect.cfg switches the
\* flooring defect on and TLC must then refute this invariant (fee 1, pct 1,
\* balance 0 is the smallest counterexample)
Exact == Sufficient(c.fee, c.pct, c.bal) <=> Enough(c.fee, c.pct, c.bal)

----------------------------------------------------------------------------
Row(x) == [style |-> x.style, scripts |-> x.scripts, fee |-> x.fee, pct |-> x.pct,
           bal |-> x.bal, ret |-> x.ret, nIn |-> x.nIn, maxColl |-> x.maxColl,
           tokIn |-> x.tokIn, tokRet |-> x.tokRet,
           errors |-> Errors(x), free |-> Free(x),
           floorDiffers |-> (FlooredEnough(x.fee, x.pct, x.bal) /\ ~Enough(x.fee, x.pct, x.bal))]

\* one file per slice (a case that belongs to two slices is replayed in both)
Rows(S) == LET q == SetToSeq(S) IN [i \in 1..Len(q) |-> Row(q[i])]
ASSUME ndJsonSerialize("amount.ndjson", Rows(AmountSlice))
ASSUME ndJsonSerialize("return.ndjson", Rows(ReturnSlice))
ASSUME ndJsonSerialize("shape.ndjson", Rows(ShapeSlice))
ASSUME ndJsonSerialize("big.ndjson", SetToSeq(BigRows))
=============================================================================
