---------------------------- MODULE MultiAsset ----------------------------
(* C06 — multi-asset values form a commutative group "up to zeros".         *)
(*                                                                          *)
(* A value is a finite map from asset keys <<policy, name>> to integer      *)
(* quantities.  A key may be absent or carry an explicit zero: the property *)
(* says the two are the same value, so the model keeps both forms (a value  *)
(* is a function whose DOMAIN is any subset of Keys) and proves that every  *)
(* verdict is independent of the form.                                      *)
(*                                                                          *)
(* Policies are abstract naturals (the driver maps them monotonically onto  *)
(* 28-byte hashes), names are tuples of abstract letters (mapped letter by  *)
(* letter onto byte blocks, monotonically, lengths kept proportional).      *)
(* Quantities are small; the driver replays every case at q |-> q*M, which  *)
(* preserves Get/Add/Eq, so the row scaled by M is the exact oracle.        *)
EXTENDS Integers, Sequences, FiniteSets, SequencesExt, Json, IOUtils, TLC

CONSTANTS KeySet,    \* name of the key universe, see Keys
          QAbs,      \* quantities range over -QAbs..QAbs
          Mode,      \* "total": DOMAIN = Keys;  "partial": any DOMAIN \subseteq Keys
          Arity,     \* 2: cases are pairs, 3: cases are triples
          SampleMod  \* triples: emit those whose seeded hash is 0 mod SampleMod

ABSENT == 9          \* marks "key not in DOMAIN" in emitted arrays (outside Q)

QMin == 0 - QAbs
QMax == QAbs
Q == QMin..QMax

\* <<1,0>> sorts before <<2>> bytewise-lexicographically but after it in the
\* canonical CBOR order (shorter first): the key universes contain that trap.
Keys ==
    CASE KeySet = "2x2" -> { <<1, <<>>>>, <<1, <<2>>>>, <<2, <<2>>>>, <<2, <<1, 0>>>> }
      [] KeySet = "1x3" -> { <<1, <<>>>>, <<1, <<2>>>>, <<1, <<1, 0>>>> }
      [] KeySet = "2+1" -> { <<1, <<2>>>>, <<1, <<1, 0>>>>, <<2, <<>>>> }
      [] KeySet = "1x2" -> { <<1, <<2>>>>, <<1, <<1, 0>>>> }
      [] KeySet = "3x2" -> { <<1, <<>>>>, <<1, <<2>>>>, <<2, <<2>>>>, <<2, <<1, 0>>>>,
                             <<3, <<0, 2>>>>, <<3, <<1>>>> }

--------------------------------------------------------------------------
(* canonical key order: policies bytewise (all of one length), names        *)
(* shorter-first then bytewise (RFC 8949 4.2.1 on byte-string keys)          *)
LexLT(x, y)  == \E i \in 1..Len(x) : x[i] < y[i] /\ \A j \in 1..(i - 1) : x[j] = y[j]
NameLT(x, y) == Len(x) < Len(y) \/ (Len(x) = Len(y) /\ LexLT(x, y))
KeyLT(k, l)  == k[1] < l[1] \/ (k[1] = l[1] /\ NameLT(k[2], l[2]))

RECURSIVE SortNames(_)
SortNames(S) == IF S = {} THEN <<>>
                ELSE LET m == CHOOSE x \in S : \A y \in S \ {x} : NameLT(x, y)
                     IN <<m>> \o SortNames(S \ {m})
RECURSIVE SortNats(_)
SortNats(S) == IF S = {} THEN <<>>
               ELSE LET m == CHOOSE x \in S : \A y \in S \ {x} : x < y
                    IN <<m>> \o SortNats(S \ {m})
RECURSIVE SortKeys(_)
SortKeys(S) == IF S = {} THEN <<>>
               ELSE LET m == CHOOSE x \in S : \A y \in S \ {x} : KeyLT(x, y)
                    IN <<m>> \o SortKeys(S \ {m})

KeySeq == SortKeys(Keys)
NK     == Len(KeySeq)

--------------------------------------------------------------------------
(* the algebra                                                               *)
Vals == IF Mode = "total" THEN [Keys -> Q]
        ELSE UNION { [D -> Q] : D \in SUBSET Keys }

Zero       == [k \in {} |-> 0]
Get(a, k)  == IF k \in DOMAIN a THEN a[k] ELSE 0
NonZero(a) == { k \in DOMAIN a : a[k] # 0 }
\* the property's definition of equality: equal non-zero quantities per key
Eq(a, b)   == { <<k, a[k]>> : k \in NonZero(a) } = { <<k, b[k]>> : k \in NonZero(b) }
Norm(a)    == [k \in NonZero(a) |-> a[k]]
Add(a, b)  == [k \in (DOMAIN a \cup DOMAIN b) |-> Get(a, k) + Get(b, k)]
Neg(a)     == [k \in DOMAIN a |-> 0 - a[k]]

\* encoding: the entries of the map in canonical key order, nested by policy
\*   << <<policy, << <<name, q>>, ... >> >>, ... >>
Enc(a) ==
    LET ps == SortNats({ k[1] : k \in DOMAIN a })
    IN  [i \in 1..Len(ps) |->
            LET ns == SortNames({ k[2] : k \in { l \in DOMAIN a : l[1] = ps[i] } })
            IN  << ps[i], [j \in 1..Len(ns) |-> << ns[j], a[<< ps[i], ns[j] >>] >>] >>]

EntriesOf(s) == UNION { { << <<s[i][1], s[i][2][j][1]>>, s[i][2][j][2] >> : j \in 1..Len(s[i][2]) }
                        : i \in 1..Len(s) }
\* decoding drops zero quantities (and with them empty policies)
Dec(s) == LET E == { e \in EntriesOf(s) : e[2] # 0 }
          IN  [k \in { e[1] : e \in E } |-> (CHOOSE e \in E : e[1] = k)[2]]

\* the flattened key sequence of an encoding, for the canonical-order law
RECURSIVE FlatKeys(_)
FlatKeys(s) == IF s = <<>> THEN <<>>
               ELSE [j \in 1..Len(s[1][2]) |-> << s[1][1], s[1][2][j][1] >>] \o FlatKeys(Tail(s))
Canonical(s) == LET f == FlatKeys(s) IN \A i \in 1..(Len(f) - 1) : KeyLT(f[i], f[i + 1])

--------------------------------------------------------------------------
(* case space as states: a state is a tuple of 1..Arity values; level 1      *)
(* carries the laws about one value, level 2 the laws about pairs, level 3   *)
(* the laws about triples (TLC's workers expand the levels in parallel)      *)
VARIABLE c
Init == c \in { <<a>> : a \in Vals }
Next == \/ Len(c) < Arity /\ \E v \in Vals : c' = Append(c, v)
        \/ Len(c) = Arity /\ UNCHANGED c

A == c[1]
B == c[2]
C == c[3]
L1(P) == Len(c) = 1 => P
L2(P) == Len(c) = 2 => P
L3(P) == Len(c) = 3 => P

\* ---- laws about one value
EqReflexive   == L1(Eq(A, A))
NormIsEq      == L1(Eq(A, Norm(A)) /\ Norm(Norm(A)) = Norm(A))
AddIdentity   == L1(Eq(Add(A, Zero), A) /\ Eq(Add(Zero, A), A))
AddInverse    == L1(Eq(Add(A, Neg(A)), Zero))
DecEnc        == L1(Dec(Enc(A)) = Norm(A) /\ Dec(Enc(Norm(A))) = Norm(A))
EncCanonical  == L1(Canonical(Enc(A)) /\ Len(FlatKeys(Enc(A))) = Cardinality(DOMAIN A))
\* ---- laws about pairs
EqPointwise   == L2(Eq(A, B) <=> (\A k \in Keys : Get(A, k) = Get(B, k)))
EqSymmetric   == L2(Eq(A, B) <=> Eq(B, A))
EqUpToZeros   == L2(Eq(A, B) <=> Norm(A) = Norm(B))
AddPointwise  == L2(\A k \in Keys : Get(Add(A, B), k) = Get(A, k) + Get(B, k))
AddCommutes   == L2(Eq(Add(A, B), Add(B, A)))
AddUpToZeros  == L2(Eq(Add(Norm(A), Norm(B)), Add(A, B)))
AddCancels    == L2(Eq(Add(A, B), A) <=> Eq(B, Zero))
EncInjective  == L2((Enc(Norm(A)) = Enc(Norm(B))) <=> Eq(A, B))
\* ---- laws about triples
EqTransitive  == L3((Eq(A, B) /\ Eq(B, C)) => Eq(A, C))
AddAssociates == L3(Eq(Add(Add(A, B), C), Add(A, Add(B, C))))
AddCompatible == L3(Eq(A, B) => Eq(Add(A, C), Add(B, C)) /\ Eq(Add(C, A), Add(C, B)))

--------------------------------------------------------------------------
(* emission of the cases with the model's verdicts                          *)
Arr(a)  == [i \in 1..NK |-> IF KeySeq[i] \in DOMAIN a THEN a[KeySeq[i]] ELSE ABSENT]
GetArr(a) == [i \in 1..NK |-> Get(a, KeySeq[i])]

Seed == IF "VERIF_SEED" \in DOMAIN IOEnv THEN atoi(IOEnv.VERIF_SEED) ELSE 1

RECURSIVE CodeR(_, _)
CodeR(a, i) == IF i > NK THEN 0
               ELSE (IF KeySeq[i] \in DOMAIN a THEN a[KeySeq[i]] - QMin + 1 ELSE 0)
                    + (QMax - QMin + 2) * CodeR(a, i + 1)
Code(a) == CodeR(a, 1)
Sampled(a, b, d) == ((Code(a) * 31 + Code(b) * 1009 + Code(d) * 10007 + (Seed % 9973) * 13) % SampleMod) = 0

KeyRow(i) == [i |-> i, p |-> KeySeq[i][1], name |-> KeySeq[i][2]]
ValRow(a) == [a |-> Arr(a), norm |-> Arr(Norm(a)), enc |-> Enc(a), encn |-> Enc(Norm(a))]
PairRow(p) == [a |-> Arr(p[1]), b |-> Arr(p[2]), eq |-> Eq(p[1], p[2]),
               sum |-> GetArr(Add(p[1], p[2]))]
TripleRow(t) == [a |-> Arr(t[1]), b |-> Arr(t[2]), c |-> Arr(t[3]),
                 eqab |-> Eq(t[1], t[2]), eqbc |-> Eq(t[2], t[3]), eqac |-> Eq(t[1], t[3]),
                 sum |-> GetArr(Add(Add(t[1], t[2]), t[3]))]

\* rows are produced as sequences indexed over SetToSeq(Vals) (no set of rows is
\* ever built, TLC would have to sort it)
VS == SetToSeq(Vals)
NV == Len(VS)
PairAt(i)   == << VS[((i - 1) \div NV) + 1], VS[((i - 1) % NV) + 1] >>
Triples     == { u \in Vals \X Vals \X Vals : Sampled(u[1], u[2], u[3]) }

Emit ==
    /\ ndJsonSerialize("keys.ndjson", [i \in 1..NK |-> KeyRow(i)])
    /\ IF Arity = 2
       THEN /\ ndJsonSerialize("vals.ndjson", [i \in 1..NV |-> ValRow(VS[i])])
            /\ ndJsonSerialize("pairs.ndjson", [i \in 1..(NV * NV) |-> PairRow(PairAt(i))])
       ELSE LET ts == SetToSeq(Triples)
            IN  ndJsonSerialize("triples.ndjson", [i \in 1..Len(ts) |-> TripleRow(ts[i])])
ASSUME Emit
=======================================================================
