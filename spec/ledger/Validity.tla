---------------------------- MODULE Validity ----------------------------
(* C26 — a transaction is accepted at slot s only inside its validity       *)
(* interval.                                                                *)
(*                                                                          *)
(* Time is an abstract ordered set 0..T.  The rule only COMPARES slots, so  *)
(* the conformance driver maps 0..T monotonically onto concrete uint64      *)
(* values (0, 1, 2^63, 2^64-1, adjacent triples, seeded values): every      *)
(* comparison is preserved and the verdict below is the exact oracle.       *)
(* Abstract 0 is mapped to concrete 0 by the zero-preserving maps.          *)
(*                                                                          *)
(* Shelley: body key 3 (ttl) is mandatory, there is no lower bound:         *)
(*          Accept <=> slot <= ttl.                                         *)
(* Allegra..Dijkstra: key 8 (validity start) and key 3 (invalid-hereafter)  *)
(*          are both optional:                                              *)
(*          Accept <=> (start absent \/ slot >= start)                      *)
(*                  /\ (end   absent \/ slot <  end).                       *)
EXTENDS Integers, Sequences, FiniteSets, SequencesExt, Json, TLC

CONSTANT T          \* largest abstract time point (>= 2)

Absent  == -1
Time    == 0..T
Bound   == {Absent} \cup Time
Later   == {"allegra", "mary", "alonzo", "babbage", "conway", "dijkstra"}
EraSet  == {"shelley"} \cup Later

\* From Alonzo on a transaction carries the is_valid flag. A transaction flagged
\* is_valid = false (its scripts fail, only its collateral is collected) is still
\* included in a block, so the interval - a phase-1 check - applies to it
\* unchanged: Accept does not look at p2.  (Dijkstra's three-element envelope
\* cannot carry the flag.)
Flagged == {"alonzo", "babbage", "conway"}
CaseSpace ==
    [era : {"shelley"}, start : {Absent}, end : Time, slot : Time, p2 : {FALSE}]
      \cup
    [era : Later, start : Bound, end : Bound, slot : Time, p2 : {FALSE}]
      \cup
    [era : Flagged, start : Bound, end : Bound, slot : Time, p2 : {TRUE}]

LowerOk(c) == c.start = Absent \/ c.slot >= c.start
UpperOk(c) == c.end = Absent \/ c.slot < c.end

Accept(c) ==
    IF c.era = "shelley" THEN c.slot <= c.end
    ELSE LowerOk(c) /\ UpperOk(c)

\* why the specification rejects (part of the case's stable name)
Why(c) ==
    IF c.era = "shelley" THEN (IF c.slot <= c.end THEN "ok" ELSE "ttl")
    ELSE CASE LowerOk(c) /\ UpperOk(c)   -> "ok"
           [] ~LowerOk(c) /\ UpperOk(c)  -> "start"
           [] LowerOk(c) /\ ~UpperOk(c)  -> "end"
           [] OTHER                      -> "both"

(* The behaviour DESIGN.md §7 predicts from reading the code, kept as named, *)
(* disabled definitions (never the oracle): F-C26 = no upper-bound check    *)
(* from Allegra on; F-C26z = a bound of 0 is taken for "absent".            *)
AcceptNoUpper(c) ==
    IF c.era = "shelley" THEN c.slot <= c.end ELSE LowerOk(c)
AcceptZeroAbsent(c) ==
    IF c.era = "shelley" THEN c.end = 0 \/ c.slot <= c.end
    ELSE (c.start \in {Absent, 0} \/ c.slot >= c.start)
      /\ (c.end \in {Absent, 0} \/ c.slot < c.end)

VARIABLE c
Init == c \in CaseSpace
Next == UNCHANGED c

-----------------------------------------------------------------------------
(* Meta-properties of the transcription, evaluated for every case.           *)

Wider(a, b) ==      \* interval of b contains the interval of a
    /\ (b.start = Absent \/ (a.start # Absent /\ b.start <= a.start))
    /\ (b.end = Absent \/ (a.end # Absent /\ a.end <= b.end))

\* widening the interval never turns an accepted transaction into a rejected one
Monotone ==
    Accept(c) => \A d \in CaseSpace :
        (d.era = c.era /\ d.slot = c.slot /\ Wider(c, d)) => Accept(d)

\* the accepted slots of one transaction form an interval (no holes)
Convex ==
    \A s1, s3 \in Time :
        (s1 < c.slot /\ c.slot < s3
         /\ Accept([c EXCEPT !.slot = s1]) /\ Accept([c EXCEPT !.slot = s3]))
        => Accept(c)

\* an empty interval accepts nowhere; an upper bound of 0 accepts nowhere
EmptyInterval ==
    (c.era \in Later /\ c.start # Absent /\ c.end # Absent /\ c.start >= c.end)
        => ~Accept(c)
ZeroEnd  == (c.era \in Later /\ c.end = 0) => ~Accept(c)
ZeroTtl  == (c.era = "shelley" /\ c.end = 0) => (Accept(c) <=> c.slot = 0)

\* a present start of 0 is the same as no start; absent bounds never reject
ZeroStart ==
    c.era \in Later => (Accept([c EXCEPT !.start = 0]) <=> Accept([c EXCEPT !.start = Absent]))
Unbounded ==
    (c.era \in Later /\ c.start = Absent /\ c.end = Absent) => Accept(c)

\* boundaries: start is inclusive, invalid-hereafter is exclusive, ttl is inclusive
Boundaries ==
    /\ (c.era \in Later /\ c.start = c.slot /\ c.end = Absent) => Accept(c)
    /\ (c.era \in Later /\ c.end = c.slot) => ~Accept(c)
    /\ (c.era = "shelley" /\ c.end = c.slot) => Accept(c)

\* Shelley ttl = e-1 is Allegra invalid-hereafter = e
ShelleyAllegra ==
    (c.era = "shelley" /\ c.end < T) =>
        (Accept(c) <=> Accept([era |-> "allegra", start |-> Absent,
                               end |-> c.end + 1, slot |-> c.slot, p2 |-> FALSE]))

\* the phase-2 flag never changes the verdict
FlagIrrelevant == c.era \in Flagged => (Accept(c) <=> Accept([c EXCEPT !.p2 = ~c.p2]))

\* the predicted defects are distinguishable from the specification exactly
\* where Why says so (keeps the known-finding keys honest)
DefectsNamed ==
    /\ (AcceptNoUpper(c) # Accept(c)) <=> (c.era \in Later /\ Why(c) = "end")
    /\ (AcceptZeroAbsent(c) # Accept(c)) =>
          (c.end = 0 /\ Why(c) \in {"end", "ttl"})

-----------------------------------------------------------------------------
B(x)   == IF x = Absent THEN "A" ELSE ToString(x)
Row(x) == [era |-> x.era, start |-> x.start, end |-> x.end, slot |-> x.slot,
           accept |-> Accept(x), why |-> Why(x), p2 |-> x.p2,
           name |-> "era=" \o x.era \o ":start=" \o B(x.start) \o ":end=" \o B(x.end)
                    \o ":slot=" \o ToString(x.slot) \o ":why=" \o Why(x)
                    \o (IF x.p2 THEN ":p2invalid" ELSE "")]

ASSUME T >= 2
ASSUME ndJsonSerialize("cases.ndjson", SetToSeq({Row(x) : x \in CaseSpace}))
=======================================================================
