---------------------------- MODULE BodyHash ----------------------------
(* C34 — block bodies are bound to their headers at decode time.            *)
(*                                                                          *)
(* Symbolic hash: H(x) is the term <<"H", x>>, injective by construction    *)
(* (the conformance driver uses the real blocks, so the real Blake2b-256).  *)
(* A block is a header carrying commitments and a body made of parts.  For  *)
(* every era the module states which commitments the header carries, how    *)
(* each is computed from the parts, and which of them decoding compares:    *)
(*                                                                          *)
(*   shelley, allegra, mary    body_hash = H(<<H(tx_bodies), H(tx_witnesses), H(aux_data)>>)          *)
(*   alonzo, babbage, conway   body_hash = H(<<H(tx_bodies), H(tx_witnesses), H(aux_data), H(invalid_txs)>>) *)
(*   dijkstra                  body_hash = H(block_body), block_body = <<invalid_txs, transactions, leios_cert, peras_cert>> *)
(*   byron_main                tx_count, tx_merkle (root over the transaction bodies), tx_witnesses   *)
(*                             (hash over the list of witness lists), dlg, upd; the ssc proof is      *)
(*                             carried but not compared                                               *)
(*   byron_ebb                 body_hash = H(body)                                                    *)
(*                                                                          *)
(*   DecodeOk(block, cfg) <=> every commitment compared under cfg equals    *)
(*                            its recomputation from the body               *)
(*                                                                          *)
(* cfg is the caller's VerifyConfig: "skip" (SkipBodyHashValidation: nothing *)
(* is compared), "default", "ssc_hash" (EnableByronSscProofHashValidation:  *)
(* the Byron ssc proof is compared IN ADDITION).  No configuration with     *)
(* body validation enabled compares less than the default one.              *)
EXTENDS Naturals, Sequences, FiniteSets, SequencesExt, Json, TLC

CONSTANTS NVals,    \* a body part has one of NVals contents
          MaxTx     \* Byron main: 0..MaxTx transactions in a mutated body

Vals == 0..(NVals - 1)

Eras == {"byron_ebb", "byron_main", "shelley", "allegra", "mary", "alonzo", "babbage", "conway", "dijkstra"}

H(x) == <<"H", x>>

\* simple parts of the body, in wire order (Byron main has the transaction
\* list in addition, see below)
Parts(e) ==
    CASE e \in {"shelley", "allegra", "mary"}   -> <<"tx_bodies", "tx_witnesses", "aux_data">>
      [] e \in {"alonzo", "babbage", "conway"}  -> <<"tx_bodies", "tx_witnesses", "aux_data", "invalid_txs">>
      [] e = "dijkstra"                         -> <<"invalid_txs", "transactions", "leios_cert", "peras_cert">>
      [] e = "byron_main"                       -> <<"ssc_payload", "dlg_payload", "upd_payload">>
      [] e = "byron_ebb"                        -> <<"body">>
PartSet(e) == {Parts(e)[i] : i \in 1..Len(Parts(e))}

\* a Byron transaction is <<body, witnesses>>
Tx == Vals \X Vals
TxLists == UNION {[1..n -> Tx] : n \in 0..MaxTx}

\* a body: the simple parts, and for Byron main the transactions
Bodies(e) == IF e = "byron_main"
             THEN {[p |-> p_, txs |-> t] : p_ \in [PartSet(e) -> Vals], t \in TxLists}
             ELSE {[p |-> p_, txs |-> <<>>] : p_ \in [PartSet(e) -> Vals]}

\* the block the mutations start from: neighbouring parts have different
\* contents, and there are two different transactions
PartIndex(e, x) == CHOOSE i \in 1..Len(Parts(e)) : Parts(e)[i] = x
OrigVal(e, x)   == (PartIndex(e, x) - 1) % NVals
Other(v)        == (v + 1) % NVals
OrigDef(e) == [p |-> [x \in PartSet(e) |-> OrigVal(e, x)],
               txs |-> IF e = "byron_main" THEN <<<<0, 0>>, <<1, 1>>>> ELSE <<>>]
OrigTable == [e \in Eras |-> OrigDef(e)]      \* (a constant: TLC evaluates it once)
Orig(e) == OrigTable[e]

----------------------------------------------------------------------------
(* what the header of a well-formed block carries *)

SegHashes(e, b) == [i \in 1..Len(Parts(e)) |-> H(b.p[Parts(e)[i]])]
Whole(e, b)     == [i \in 1..Len(Parts(e)) |-> b.p[Parts(e)[i]]]

Commit(e, b) ==
    CASE e \in {"shelley", "allegra", "mary", "alonzo", "babbage", "conway"} ->
            [body_hash |-> H(SegHashes(e, b))]
      [] e = "dijkstra"  -> [body_hash |-> H(Whole(e, b))]
      [] e = "byron_ebb" -> [body_hash |-> H(b.p["body"])]
      [] e = "byron_main" ->
            [tx_count     |-> <<"N", Len(b.txs)>>,
             tx_merkle    |-> <<"M", [i \in 1..Len(b.txs) |-> b.txs[i][1]]>>,
             tx_witnesses |-> H([i \in 1..Len(b.txs) |-> b.txs[i][2]]),
             ssc          |-> H(b.p["ssc_payload"]),
             dlg          |-> H(b.p["dlg_payload"]),
             upd          |-> H(b.p["upd_payload"])]

OrigCommitTable == [e \in Eras |-> Commit(e, Orig(e))]
Commitments(e) == DOMAIN OrigCommitTable[e]
\* what decoding compares: everything but the Byron ssc proof
Compared(e)    == Commitments(e) \ {"ssc"}
Configs        == {"skip", "default", "ssc_hash"}
Validating     == Configs \ {"skip"}
ComparedIn(e, cfg) ==
    CASE cfg = "skip"     -> {}
      [] cfg = "default"  -> Compared(e)
      [] cfg = "ssc_hash" -> Compared(e) \cup (Commitments(e) \cap {"ssc"})

\* a block: header commitments hdr and body b
Failing(e, hdr, b, cfg) == {k \in ComparedIn(e, cfg) : hdr[k] # Commit(e, b)[k]}
DecodeOk(e, hdr, b, cfg) == Failing(e, hdr, b, cfg) = {}

\* the part of the body the property speaks about (the ssc payload is excluded)
Covered(e, b) == [p |-> [x \in PartSet(e) \ {"ssc_payload"} |-> b.p[x]], txs |-> b.txs]

----------------------------------------------------------------------------
(* Case space: the original header (possibly with one commitment replaced)  *)
(* paired with any body of the model.                                       *)
Bad == <<"other">>          \* a commitment value no body produces
HdrMuts(e) == {"none"} \cup Commitments(e)
Hdr(e, hm) == IF hm = "none" THEN OrigCommitTable[e]
              ELSE [OrigCommitTable[e] EXCEPT ![hm] = Bad]
OrigCoveredTable == [e \in Eras |-> Covered(e, Orig(e))]

VARIABLE c
Init == \E e \in Eras : \E b \in Bodies(e), hm \in HdrMuts(e), g \in Configs :
            c = [era |-> e, body |-> b, hm |-> hm, cfg |-> g]
Next == UNCHANGED c

Ok(x) == DecodeOk(x.era, Hdr(x.era, x.hm), x.body, x.cfg)

\* every real (= well-formed, unmutated) block decodes, validated or not
RealBlocksDecode == (c.hm = "none" /\ c.body = Orig(c.era)) => Ok(c)
\* more generally every well-formed block does: recompute the header for the body
WellFormedDecodes == DecodeOk(c.era, Commit(c.era, c.body), c.body, c.cfg)
\* with validation skipped nothing is compared
SkipComparesNothing == c.cfg = "skip" => Ok(c)
\* the binding: a body that differs from the committed one in a covered part is refused
Binding == (c.cfg \in Validating /\ Covered(c.era, c.body) # OrigCoveredTable[c.era]) => ~Ok(c)
\* ... and so is a header whose compared commitment is not the body's
HeaderBinding == (c.cfg \in Validating /\ c.hm \in Compared(c.era)) => ~Ok(c)
\* the documented hole: the Byron ssc payload and proof are not compared
SscNotCompared ==
    (c.era = "byron_main" /\ c.cfg = "default" /\ c.hm \in {"none", "ssc"} /\ Covered(c.era, c.body) = OrigCoveredTable[c.era]) => Ok(c)
\* no configuration with validation enabled binds less than the default one:
\* what it accepts the default accepts, and the verdict on the covered parts
\* and compared commitments is the same in all of them
NoConfigWeakens ==
    c.cfg \in Validating =>
        /\ Compared(c.era) \subseteq ComparedIn(c.era, c.cfg)
        /\ (Ok(c) => Ok([c EXCEPT !.cfg = "default"]))
        /\ (Failing(c.era, Hdr(c.era, c.hm), c.body, c.cfg) \cap Compared(c.era)
               = Failing(c.era, Hdr(c.era, c.hm), c.body, "default"))
\* every compared commitment is needed: some case is refused by it alone
EachComparedNeeded ==
    \A e \in Eras : \A k \in Compared(e) : Failing(e, Hdr(e, k), Orig(e), "default") = {k}
\* every part but the ssc payload is under some compared commitment
EveryPartCovered ==
    \A e \in Eras : \A x \in PartSet(e) \ {"ssc_payload"} : \A v \in Vals \ {OrigVal(e, x)} :
        Failing(e, Hdr(e, "none"), [Orig(e) EXCEPT !.p[x] = v], "default") # {}
\* (these two speak about the eras, not about a case: checked once)
ASSUME EachComparedNeeded
ASSUME EveryPartCovered
\* the order of the segments is committed to
OrderMatters ==
    \A i, j \in 1..Len(Parts(c.era)) :
        LET pi == Parts(c.era)[i]
            pj == Parts(c.era)[j]
            b  == c.body
            sw == [b EXCEPT !.p[pi] = b.p[pj], !.p[pj] = b.p[pi]]
        IN (c.era # "byron_main" /\ b.p[pi] # b.p[pj]) => Commit(c.era, sw) # Commit(c.era, b)

NumCases == LET n(e) == Cardinality(Bodies(e)) * Cardinality(HdrMuts(e)) * Cardinality(Configs)
            IN n("byron_ebb") + n("byron_main") + n("shelley") + n("allegra") + n("mary")
               + n("alonzo") + n("babbage") + n("conway") + n("dijkstra")
AllCasesVisited == TLCGet("distinct") = NumCases

----------------------------------------------------------------------------
(* Replay rows: one per (era, mutation class, validation flag).  A class is *)
(* a single change of the original block; the driver realises it by many    *)
(* byte-level and structural mutations of real blocks inside the byte range *)
(* of the named part / commitment.                                          *)
SetTx(t, i, x) == [t EXCEPT ![i] = x]
Classes(e) ==
    {<<"none", "-">>}
    \cup {<<"part", x>> : x \in PartSet(e)}
    \cup {<<"commit", k>> : k \in Commitments(e)}
    \cup (IF e = "byron_main"
          THEN {<<"tx_body", "-">>, <<"tx_witness", "-">>, <<"tx_drop", "-">>, <<"tx_dup", "-">>, <<"tx_swap", "-">>,
                <<"framing", "-">>}
          ELSE IF Len(Parts(e)) >= 2 THEN {<<"swap_parts", "-">>} ELSE {})

\* the representative block of a class: <<hdr mutation, body>>
Rep(e, m) ==
    LET o == Orig(e) IN
    CASE m[1] = "none"       -> <<"none", o>>
      [] m[1] = "part"       -> <<"none", [o EXCEPT !.p[m[2]] = Other(@)]>>
      [] m[1] = "commit"     -> <<m[2], o>>
      [] m[1] = "tx_body"    -> <<"none", [o EXCEPT !.txs = SetTx(@, 1, <<1, 0>>)]>>
      [] m[1] = "tx_witness" -> <<"none", [o EXCEPT !.txs = SetTx(@, 1, <<0, 1>>)]>>
      [] m[1] = "tx_drop"    -> <<"none", [o EXCEPT !.txs = <<@[1]>>]>>
      [] m[1] = "tx_dup"     -> <<"none", [o EXCEPT !.txs = <<@[1], @[2], @[1]>>]>>
      [] m[1] = "tx_swap"    -> <<"none", [o EXCEPT !.txs = <<@[2], @[1]>>]>>
      [] m[1] = "framing"    -> \* other bytes around the same transactions and payloads
            <<"none", o>>
      [] m[1] = "swap_parts" -> \* the first two parts (different contents) exchanged
            <<"none", [o EXCEPT !.p[Parts(e)[1]] = o.p[Parts(e)[2]], !.p[Parts(e)[2]] = o.p[Parts(e)[1]]]>>

\* The property excludes the ssc payload (and its proof): no verdict is
\* demanded.  Nor for "framing": the Byron commitments are over the transaction
\* bodies, the witness lists and the payloads, not over the list / pair
\* encoding around them, so a block that differs only there still carries
\* what its header commits to; the model does not tell such blocks apart.
Excluded(m) == m[2] \in {"ssc_payload", "ssc"} \/ m[1] = "framing"

Row(e, m, v) ==
    LET r == Rep(e, m) IN
    [era |-> e, mut |-> m[1], target |-> m[2], config |-> v, validate |-> (v # "skip"),
     decode_ok |-> DecodeOk(e, Hdr(e, r[1]), r[2], v),
     failing |-> SetToSeq(Failing(e, Hdr(e, r[1]), r[2], v)),
     excluded |-> Excluded(m)]

\* the representatives are cases of the model (so the invariants above speak about them)
RepsAreCases == \A e \in Eras : \A m \in Classes(e) : Rep(e, m)[2] \in Bodies(e) /\ Rep(e, m)[1] \in HdrMuts(e)
ASSUME RepsAreCases

Rows == UNION {{Row(e, m, v) : m \in Classes(e), v \in Configs} : e \in Eras}
ASSUME ndJsonSerialize("cases.ndjson", SetToSeq(Rows))
=============================================================================
