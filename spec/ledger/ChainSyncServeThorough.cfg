CONSTANT NOps = 3
CONSTANT SharedScratch = FALSE
CONSTANT AllThirds = TRUE
CONSTANT NtcFirst3 = {1, 2, 3, 4, 5, 6, 7, 8, 9}
INIT Init
NEXT Next
INVARIANT OwnContent
INVARIANT HistoriesMatch
