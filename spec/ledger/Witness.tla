---------------------------- MODULE Witness ----------------------------
(* C28 — spending requires a valid signature from the owner.                *)
(*                                                                          *)
(* Symbolic crypto.  A key is an element of K; its key hash KeyHash(k) and  *)
(* the Byron address root Root(k, v) it derives (v = the chain code and     *)
(* attributes that go into the root together with the key) are injective    *)
(* terms.  A signature is either valid for (key, this transaction id) or    *)
(* not: sigValid.  The conformance driver replaces keys by real ed25519     *)
(* keys, roots by real Byron address roots and an invalid signature by a    *)
(* one-bit corruption / a signature of another key / of another message.    *)
(*                                                                          *)
(* A case is a transaction:                                                 *)
(*   ins   set of locks of the spent outputs                                *)
(*   coll  set of locks of the collateral outputs                           *)
(*   req   required signers (keys)                                          *)
(*   vw    vkey witnesses       <<key, sigValid>>                           *)
(*   bw    bootstrap witnesses  <<key, variant, sigValid>>                  *)
(*   p2    the transaction is flagged is_valid = FALSE (phase-2 invalid)    *)
(*   dup   how often an element is LISTED: on the wire the witness "sets"   *)
(*         and the required signers are lists, and nothing removes a        *)
(*         repetition; dup names the repeated elements with their count     *)
(* A lock is <<"key", k>> (payment key hash of k), <<"byron", k>> (Byron    *)
(* address with root Root(k, 0)) or <<"script", 0>>.                        *)
EXTENDS Naturals, FiniteSets, FiniteSetsExt, Sequences, SequencesExt, Json, TLC

CONSTANTS MaxIn,    \* 1..MaxIn spent outputs
          MaxColl,  \* 0..MaxColl collateral outputs
          MaxReq,   \* 0..MaxReq required signers
          MaxVW,    \* 0..MaxVW vkey witnesses
          MaxBW,    \* 0..MaxBW bootstrap witnesses
          FlagSlice, \* which cases also exist flagged is_valid = FALSE: "axes" | "full" (below)
          MultIn,   \* the multiplicity slice: 1..MultIn spent outputs,
          MultColl, \*   0..MultColl collateral outputs,
          MultReq,  \*   0..MultReq required signers,
          MultTotal, \*   at most MultTotal of these together,
          MaxMult   \*   a repeated element is listed 2..MaxMult times

K      == {1, 2, 3}        \* key universe
Owners == {1, 2}           \* keys that own outputs; key 3 is a stranger

KeyHash(k) == <<"kh", k>>
Root(k, v) == <<"root", k, v>>

ScriptLock == <<"script", 0>>
Locks == {<<"key", k>> : k \in Owners} \cup {<<"byron", k>> : k \in Owners} \cup {ScriptLock}

VWs == K \X BOOLEAN
\* bootstrap witnesses: an owner's key with the chain code / attributes of its
\* address (variant 0) or with other ones (variant 1: same key, other root),
\* and the stranger's
BootIds == (Owners \X {0, 1}) \cup {<<3, 0>>}
BWs == {<<b[1], b[2], ok>> : b \in BootIds, ok \in BOOLEAN}

UpTo(S, lo, hi) == UNION {kSubset(n, S) : n \in lo..hi}

\* the five dimensions of the case space (constant definitions: TLC evaluates them once)
InsSets  == UpTo(Locks, 1, MaxIn)
CollSets == UpTo(Locks, 0, MaxColl)
ReqSets  == UpTo(K, 0, MaxReq)
VWSets   == UpTo(VWs, 0, MaxVW)
BWSets   == UpTo(BWs, 0, MaxBW)
AllWits  == VWSets \X BWSets        \* <<vkey witnesses, bootstrap witnesses>>

\* The sixth dimension: the phase-2 flag.  From Alonzo on a transaction carries
\* is_valid; FALSE says that its Plutus scripts fail -- the block producer
\* includes it all the same and only its collateral is collected.  Witnesses
\* and signatures are a phase-1 check (UTXOW): the ledger applies it whatever
\* the flag says -- and it matters most for a flagged transaction: the
\* collateral it forfeits has to be the signer's to forfeit.  Accept below
\* does not read p2 (FlagIrrelevant).
\* Eras whose transactions can be flagged.  Alonzo, Babbage, Conway: the third
\* element of the transaction's envelope.  Dijkstra: the envelope cannot say
\* is_valid = false; a transaction is flagged by the block that carries it
\* (the block's invalid_transactions), which is where IsValid() = FALSE comes
\* from in this library -- the driver flags the decoded transaction the way
\* block decoding does.  Shelley..Mary transactions have no flag: the flagged
\* cases do not exist there.
FlagEras == {"alonzo", "babbage", "conway", "dijkstra"}
\* The witness sets of the flagged cases.  "full": every case exists flagged
\* as well (thorough tier).  "axes": every obligation (inputs, collateral,
\* required signers) flagged with witnesses of one kind at a time -- every set
\* of vkey witnesses without bootstrap witnesses, every set of bootstrap
\* witnesses without vkey witnesses -- and no flagged ordered case (quick
\* tier: + 13 % cases).  Every reason of rejection and acceptances of every
\* lock kind occur in both.
FlagWits == IF FlagSlice = "full" THEN AllWits
            ELSE {<<v, {}>> : v \in VWSets} \cup {<<{}, b>> : b \in BWSets}
FlagsOfSlices == IF FlagSlice = "full" THEN BOOLEAN ELSE {FALSE}   \* the ordered slice
ASSUME FlagSlice \in {"axes", "full"}
ASSUME FlagWits \subseteq AllWits     \* a flagged case always has its unflagged twin

----------------------------------------------------------------------------
(* the rule *)

VKeyHashes(c) == {KeyHash(w[1]) : w \in c.vw}
BootRoots(c)  == {Root(b[1], b[2]) : b \in c.bw}

AllSigsValid(c) == (\A w \in c.vw : w[2]) /\ (\A b \in c.bw : b[3])

\* what the owner of a lock has to supply
Witnessed(c, l) ==
    CASE l[1] = "key"   -> KeyHash(l[2]) \in VKeyHashes(c)
      [] l[1] = "byron" -> Root(l[2], 0) \in BootRoots(c)
      [] OTHER          -> FALSE

\* a script-locked input is none of this rule's business; collateral has to be
\* owned by a key
InputOk(c, l) == l = ScriptLock \/ Witnessed(c, l)
CollOk(c, l)  == Witnessed(c, l)
ReqOk(c, k)   == KeyHash(k) \in VKeyHashes(c)

Accept(c) ==
    /\ AllSigsValid(c)
    /\ \A l \in c.ins  : InputOk(c, l)
    /\ \A l \in c.coll : CollOk(c, l)
    /\ \A k \in c.req  : ReqOk(c, k)

Why(c) ==
    (IF AllSigsValid(c) THEN {} ELSE {"badsig"})
    \cup (IF \A l \in c.ins : InputOk(c, l) THEN {} ELSE {"input"})
    \cup (IF \A l \in c.coll : CollOk(c, l) THEN {} ELSE {"collateral"})
    \cup (IF \A k \in c.req : ReqOk(c, k) THEN {} ELSE {"required"})

\* The property is an implication (accepted => owners witnessed, signatures
\* valid, required signers witnessed).  Whether a Byron-locked collateral
\* output may be witnessed by a bootstrap witness is the only place where the
\* statement's "or, for Byron inputs" leaves room: rejecting such a
\* transaction cannot violate the property, so these cases oblige the code
\* only when the verdict is "reject".
Silent(c) == \E l \in c.coll : l[1] = "byron"

----------------------------------------------------------------------------
\* Two levels so that TLC's workers share the enumeration: an initial state
\* fixes the obligations, its successors add every witness set.  `done` marks
\* a complete case; the meta-properties speak about complete cases.
\*
\* Flagged (p2 = TRUE) and unflagged cases: see FlagWits above.
\* Two slices.  "base": every combination of the five dimensions above; the
\* inputs are a set (field ord = <<>>: the driver lists them in a fixed order).
\* "ordered": 2..3 inputs of mixed lock kinds as a SEQUENCE -- the order in
\* which the ledger sees them (sorted by output reference; the driver chooses
\* the references so that the i-th lock is the i-th input) -- in every order,
\* with every subset of the witnesses the owners have to supply: all present,
\* exactly one owner missing at every position, and more.  The verdict is a
\* function of the set (OrderIrrelevant below), so an implementation that
\* stops looking after some input disagrees with the specification on one of
\* the orders.
NoDup == [vw |-> {}, bw |-> {}, req |-> {}]     \* every element listed once (see Multiplicity below)
Orders == UNION {SetToSeqs(S) : S \in UpTo(Locks, 2, 3)}
RangeOf(o) == {o[i] : i \in 1..Len(o)}
OwnVW(S) == {<<l[2], TRUE>> : l \in {x \in S : x[1] = "key"}}
OwnBW(S) == {<<l[2], 0, TRUE>> : l \in {x \in S : x[1] = "byron"}}
OrderedCases == UNION {{[ins |-> RangeOf(o), coll |-> {}, req |-> {}, vw |-> v, bw |-> b, ord |-> o, p2 |-> f, dup |-> NoDup] :
                          v \in SUBSET OwnVW(RangeOf(o)), b \in SUBSET OwnBW(RangeOf(o)), f \in FlagsOfSlices} : o \in Orders}

----------------------------------------------------------------------------
(* Multiplicity.  The vkey witnesses, the bootstrap witnesses and the       *)
(* required signers are sets in the ledger's eyes and lists on the wire: a  *)
(* transaction may list the same witness, or the same required signer,      *)
(* several times (the library decodes what is listed).  The rule above      *)
(* speaks about SETS: an owner / a required signer is witnessed when its    *)
(* key is among the keys that are listed, however often; a witness listed   *)
(* five times stands for one key, never for five obligations.  Accept does  *)
(* not read dup (MultiplicityIrrelevant).                                   *)
(*                                                                          *)
(* The "mult" slice: 1..MultIn inputs, 0..MultColl collateral outputs and   *)
(* 0..MultReq required signers -- two and more DISTINCT obligations of one  *)
(* kind, which the base slice does not have --, every subset of the valid   *)
(* witnesses the obligations call for, and in each of the three lists at    *)
(* most one element listed 2..MaxMult times.  (The cases that are base      *)
(* cases are left to the base slice; the slice is not flagged: p2 = FALSE.) *)
\* no element repeated, or one element of S listed n times: {<<element, n>>}
OneOf(S) == {{}} \cup {{<<x, n>>} : x \in S, n \in 2..MaxMult}
Dups(v, b, r) == {[vw |-> dv, bw |-> db, req |-> dr] : dv \in OneOf(v), db \in OneOf(b), dr \in OneOf(r)}

KeysOf(S, kind) == {l[2] : l \in {x \in S : x[1] = kind}}
OwnedLocks == Locks \ {ScriptLock}     \* (a script lock puts no witness on the lists)
MultObl == {o \in UpTo(OwnedLocks, 1, MultIn) \X UpTo(OwnedLocks, 0, MultColl) \X UpTo(K, 0, MultReq) :
                Cardinality(o[1]) + Cardinality(o[2]) + Cardinality(o[3]) <= MultTotal}
MultOf(i, co, r) ==
    UNION {{[ins |-> i, coll |-> co, req |-> r, vw |-> v, bw |-> b, ord |-> <<>>, p2 |-> FALSE, dup |-> d] : d \in Dups(v, b, r)} :
              v \in SUBSET {<<k, TRUE>> : k \in KeysOf(i \cup co, "key") \cup r},
              b \in SUBSET {<<k, 0, TRUE>> : k \in KeysOf(i \cup co, "byron")}}
IsBase(x) == /\ x.dup = NoDup /\ x.ord = <<>>
             /\ x.ins \in InsSets /\ x.coll \in CollSets /\ x.req \in ReqSets
             /\ <<x.vw, x.bw>> \in (IF x.p2 THEN FlagWits ELSE AllWits)
\* the cases of one obligation (the slice is the union over MultObl; TLC is
\* never asked for the union as one set)
MultCasesOf(o) == {x \in MultOf(o[1], o[2], o[3]) : ~IsBase(x)}

\* how often things are listed
Times(D, x)  == IF \E d \in D : d[1] = x THEN (CHOOSE d \in D : d[1] = x)[2] ELSE 1
\* listed vkey witnesses (with repetitions) of the keys in S; listed required signers
Listed(x, S) == MapThenSumSet(LAMBDA w : Times(x.dup.vw, w), {w \in x.vw : w[1] \in S})
ReqListed(x) == MapThenSumSet(LAMBDA k : Times(x.dup.req, k), x.req)

(* Two ways of getting it wrong, as named definitions (never the oracle):    *)
(* counting listed witnesses against the number of required signers -- a    *)
(* witness listed twice pays for a signer who never signed --, and asking    *)
(* for one listed witness per LISTED required signer -- a signer listed      *)
(* twice needs two witnesses.  The slice tells both from the rule (ASSUMEs). *)
AcceptCountingWitnesses(x) ==
    /\ AllSigsValid(x) /\ (\A l \in x.ins : InputOk(x, l)) /\ (\A m \in x.coll : CollOk(x, m))
    /\ Listed(x, x.req) >= Cardinality(x.req)
AcceptPerListedSigner(x) ==
    /\ AllSigsValid(x) /\ (\A l \in x.ins : InputOk(x, l)) /\ (\A m \in x.coll : CollOk(x, m))
    /\ Listed(x, x.req) >= ReqListed(x)
ASSUME \E o \in MultObl : \E x \in MultCasesOf(o) : ~Accept(x) /\ AcceptCountingWitnesses(x)
ASSUME \E o \in MultObl : \E x \in MultCasesOf(o) : Accept(x) /\ ~AcceptPerListedSigner(x)
ASSUME MaxMult >= 2 /\ MultReq >= 2 /\ MultTotal >= 3

\* sl: the slice an obligation belongs to (an obligation of the multiplicity
\* slice may look like one of the base slice)
VARIABLES c, done, sl
Init == /\ done = FALSE
        /\ \/ sl = "mult" /\ \E o \in MultObl :
                 c = [ins |-> o[1], coll |-> o[2], req |-> o[3], vw |-> {}, bw |-> {}, ord |-> <<>>, p2 |-> FALSE, dup |-> NoDup]
           \/ sl = "base" /\ \E i \in InsSets, co \in CollSets, r \in ReqSets, f \in BOOLEAN :
                 c = [ins |-> i, coll |-> co, req |-> r, vw |-> {}, bw |-> {}, ord |-> <<>>, p2 |-> f, dup |-> NoDup]
           \/ sl = "ordered" /\ \E o \in Orders, f \in FlagsOfSlices :
                 c = [ins |-> RangeOf(o), coll |-> {}, req |-> {}, vw |-> {}, bw |-> {}, ord |-> o, p2 |-> f, dup |-> NoDup]
Next == /\ ~done
        /\ done' = TRUE
        /\ UNCHANGED sl
        /\ IF sl = "mult"
           THEN \E x \in MultCasesOf(<<c.ins, c.coll, c.req>>) : c' = x
           ELSE IF sl = "base"
           THEN \E w \in (IF c.p2 THEN FlagWits ELSE AllWits) : c' = [c EXCEPT !.vw = w[1], !.bw = w[2]]
           ELSE \E v \in SUBSET OwnVW(c.ins), b \in SUBSET OwnBW(c.ins) : c' = [c EXCEPT !.vw = v, !.bw = b]

----------------------------------------------------------------------------
(* Meta-properties, evaluated for every case *)

\* the statement of the property, read off the accepted case
Statement ==
    (done /\ Accept(c)) =>
        /\ \A l \in (c.ins \cup c.coll) : l[1] = "key" => \E w \in c.vw : w[1] = l[2] /\ w[2]
        /\ \A l \in (c.ins \cup c.coll) : l[1] = "byron" => \E b \in c.bw : b[1] = l[2] /\ b[2] = 0 /\ b[3]
        /\ \A l \in c.coll : l # ScriptLock
        /\ \A w \in c.vw : w[2]
        /\ \A b \in c.bw : b[3]
        /\ \A k \in c.req : \E w \in c.vw : w[1] = k /\ w[2]

\* more valid witnesses never hurt
MonotoneWitnesses ==
    (done /\ Accept(c)) =>
        /\ \A k \in K : Accept([c EXCEPT !.vw = @ \cup {<<k, TRUE>>}])
        /\ \A b \in BootIds : Accept([c EXCEPT !.bw = @ \cup {<<b[1], b[2], TRUE>>}])

\* fewer obligations never hurt
AntitoneObligations ==
    (done /\ Accept(c)) =>
        /\ \A l \in c.ins  : Accept([c EXCEPT !.ins = @ \ {l}])
        /\ \A l \in c.coll : Accept([c EXCEPT !.coll = @ \ {l}])
        /\ \A k \in c.req  : Accept([c EXCEPT !.req = @ \ {k}])

\* one invalid signature anywhere rejects, whoever it belongs to
OneBadSigRejects == done =>
    /\ \A k \in K : ~Accept([c EXCEPT !.vw = @ \cup {<<k, FALSE>>}])
    /\ \A b \in BootIds : ~Accept([c EXCEPT !.bw = @ \cup {<<b[1], b[2], FALSE>>}])

\* taking away every witness of an owner / a required signer rejects
OwnerNeeded == done =>
    /\ \A l \in (c.ins \cup c.coll) : l[1] = "key" =>
          ~Accept([c EXCEPT !.vw = {w \in @ : w[1] # l[2]}])
    /\ \A l \in (c.ins \cup c.coll) : l[1] = "byron" =>
          ~Accept([c EXCEPT !.bw = {b \in @ : ~(b[1] = l[2] /\ b[2] = 0)}])
    /\ \A k \in c.req : ~Accept([c EXCEPT !.vw = {w \in @ : w[1] # k}])

\* a witness of the wrong kind does not help: a bootstrap witness does not
\* stand for the key hash, a vkey witness does not stand for the root, and the
\* same key with other chain code / attributes derives another root
KindsDoNotMix == done =>
    /\ \A k \in Owners : (<<"key", k>> \in c.ins /\ ~\E w \in c.vw : w[1] = k) => ~Accept(c)
    /\ \A k \in Owners : (<<"byron", k>> \in c.ins /\ ~\E b \in c.bw : b[1] = k /\ b[2] = 0) => ~Accept(c)

\* script-locked inputs carry no obligation here; script-locked collateral is never accepted
ScriptInputsNeutral == done =>
    /\ (ScriptLock \in c.ins /\ Cardinality(c.ins) > 1) =>
          (Accept(c) <=> Accept([c EXCEPT !.ins = @ \ {ScriptLock}]))
    /\ ScriptLock \in c.coll => ~Accept(c)

VerdictShape == done => (Accept(c) <=> Why(c) = {}) /\ Why(c) \subseteq {"badsig", "input", "collateral", "required"}

\* the order of the inputs never matters: every reordering of an ordered case
\* has the same verdict, and exactly the owners' witnesses decide it
OrderIrrelevant ==
    (done /\ c.ord # <<>>) =>
        /\ \A o \in SetToSeqs(c.ins) : Accept([c EXCEPT !.ord = o]) = Accept(c)
        /\ Accept(c) <=> (c.vw = OwnVW(c.ins) /\ c.bw = OwnBW(c.ins))
        /\ \A i \in 1..Len(c.ord) :      \* one owner missing, at any position: rejected
              LET l == c.ord[i] IN
              l # ScriptLock => ~Accept([c EXCEPT !.vw = OwnVW(c.ins \ {l}), !.bw = OwnBW(c.ins \ {l})])

\* the phase-2 flag never changes the verdict, nor the reasons, nor what the
\* property leaves open: a flagged transaction is accepted exactly when its
\* unflagged twin is.  (Statement and every law above hold for a flagged case
\* as they stand: none of them reads p2.)
FlagIrrelevant == done =>
    LET twin == [c EXCEPT !.p2 = ~@] IN
    /\ Accept(twin) = Accept(c)
    /\ Why(twin) = Why(c)
    /\ Silent(twin) = Silent(c)
    /\ (c.p2 /\ c.ord = <<>>) => (<<c.vw, c.bw>> \in FlagWits /\ <<c.vw, c.bw>> \in AllWits)

\* the verdict is a function of the SETS: however often a witness or a
\* required signer is listed, the case has the verdict, the reasons and the
\* silence of the case that lists everything once ...
MultiplicityIrrelevant == done =>
    LET once == [c EXCEPT !.dup = NoDup] IN
    /\ Accept(once) = Accept(c)
    /\ Why(once) = Why(c)
    /\ Silent(once) = Silent(c)
    \* ... and a key that is not among the listed witnesses' keys is not made up
    \* for by listing other witnesses more often
    /\ \A k \in c.req : (~\E w \in c.vw : w[1] = k) => ~Accept(c)
    /\ \A l \in (c.ins \cup c.coll) : (l[1] = "key" /\ ~\E w \in c.vw : w[1] = l[2]) => ~Accept(c)
    \* dup names listed elements only
    /\ {d[1] : d \in c.dup.vw} \subseteq c.vw /\ {d[1] : d \in c.dup.bw} \subseteq c.bw
    /\ {d[1] : d \in c.dup.req} \subseteq c.req

BaseObl     == Cardinality(InsSets) * Cardinality(CollSets) * Cardinality(ReqSets)
Obligations == BaseObl * 2 + Cardinality(Orders) * Cardinality(FlagsOfSlices) + Cardinality(MultObl)
NumMult     == MapThenSumSet(LAMBDA o : Cardinality(MultCasesOf(o)), MultObl)
NumCases    == BaseObl * Cardinality(AllWits) + BaseObl * Cardinality(FlagWits) + Cardinality(OrderedCases)
               + NumMult
NumFlagged  == BaseObl * Cardinality(FlagWits) + Cardinality({x \in OrderedCases : x.p2})
\* POSTCONDITION: every combination was visited (and therefore emitted) once
AllCasesVisited == TLCGet("distinct") = NumCases + Obligations

----------------------------------------------------------------------------
Row(x) == [ins |-> SetToSeq(x.ins), coll |-> SetToSeq(x.coll), req |-> SetToSeq(x.req),
           vw |-> SetToSeq(x.vw), bw |-> SetToSeq(x.bw), ord |-> x.ord, p2 |-> x.p2,
           dup |-> [vw  |-> SetToSeq({<<d[1][1], d[1][2], d[2]>> : d \in x.dup.vw}),
                    bw  |-> SetToSeq({<<d[1][1], d[1][2], d[1][3], d[2]>> : d \in x.dup.bw}),
                    req |-> SetToSeq(x.dup.req)],
           accept |-> Accept(x), silent |-> Silent(x), why |-> SetToSeq(Why(x))]

\* Each complete case is printed once, with the verdict, when TLC checks the
\* invariants on it (an invariant is evaluated once per distinct state); the
\* runner collects the <<"ROW", json>> lines of TLC's output.
Emit == done => PrintT(<<"ROW", ToJson(Row(c))>>)
ASSUME PrintT(<<"NUMCASES", NumCases>>)
ASSUME PrintT(<<"NUMFLAGGED", NumFlagged>>)
ASSUME PrintT(<<"NUMMULT", NumMult>>)
ASSUME PrintT(<<"FLAGERAS", ToJson(SetToSeq(FlagEras))>>)
=============================================================================
