CONSTANT MaxLang = 3
CONSTANT Shapes = {"empty", "short", "edge", "real"}
CONSTANT RuleShapes = {"empty", "short", "edge", "real"}
CONSTANT P2Shapes = {"empty", "short", "edge", "real"}
INIT Init
NEXT Next
INVARIANT ViewShape
INVARIANT Wrapping
INVARIANT Distinct
INVARIANT RuleShape
INVARIANT FlagIrrelevant
POSTCONDITION AllCasesVisited
