CONSTANT MaxLang = 3
CONSTANT Shapes = {"empty", "short", "edge", "real"}
CONSTANT RuleShapes = {"empty", "short", "edge", "real"}
CONSTANT P2Shapes = {"empty", "short", "edge", "real"}
CONSTANT ShapedL = {{}, {0}, {1}, {0, 1}, {2}, {0, 2}, {1, 2}, {0, 1, 2}, {3}, {0, 3}, {1, 3}, {2, 3}, {0, 1, 3}, {0, 2, 3}, {1, 2, 3}, {0, 1, 2, 3}}
CONSTANT ShapedShapes = {"short"}
CONSTANT ShapedP2 = {FALSE, TRUE}
INIT Init
NEXT Next
INVARIANT ViewShape
INVARIANT Wrapping
INVARIANT Distinct
INVARIANT RuleShape
INVARIANT FlagIrrelevant
INVARIANT OriginalBytes
POSTCONDITION AllCasesVisited
