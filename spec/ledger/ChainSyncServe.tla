-------------------------- MODULE ChainSyncServe --------------------------
(* C22, history dimension -- what is delivered for a served block depends   *)
(* only on that block.                                                      *)
(*                                                                          *)
(* Server.RollForward is two steps: construct the roll-forward message      *)
(* (NewMsgRollForwardNtC / NewMsgRollForwardNtN, which wraps the block or   *)
(* extracts and wraps its header) and encode it (cbor.Encode inside         *)
(* SendMessage).  A node serves several connections at once, so the steps   *)
(* of different serve operations interleave: construct A, construct B,      *)
(* encode A, encode B, ...  This module is the state machine of NOps serve  *)
(* operations with every interleaving of their construct / encode steps.    *)
(* In the specified design a constructed message owns its content, hence    *)
(* OwnContent: whatever is encoded for operation i is block i.  The         *)
(* defective design in which messages refer to a scratch area shared by all *)
(* constructions is kept as SharedScratch = TRUE (TLC then finds            *)
(* construct 1, construct 2, encode 1 as the counterexample).               *)
(*                                                                          *)
(* RP binding: every complete history is emitted, crossed with same-era and *)
(* cross-era block assignments; the Go driver executes each history on the  *)
(* real message constructors / encoder / client decoder in exactly that     *)
(* order and compares what arrives for operation i with block deliver[i].   *)
EXTENDS Integers, Sequences, FiniteSets, Json, TLC, SequencesExt

CONSTANTS NOps,            \* serve operations of the state machine (2 or 3); histories of 2..NOps are emitted
          SharedScratch,   \* FALSE: the specified design
          AllThirds,       \* FALSE: third block = next kind, ntc pairs adjacent; TRUE: every kind (thorough)
          NtcFirst3        \* kinds (positions) that lead a three-operation ntc history

Ops == 1..NOps
None == 0
Ref  == -1

VARIABLES msg,      \* msg[i]: content of the constructed message of op i (None, a block, or Ref)
          wire,     \* wire[i]: what was encoded for op i (None or a block)
          scratch,  \* the shared scratch area of the defective design
          h         \* history of steps taken

vars == <<msg, wire, scratch, h>>

Init == /\ msg = [i \in Ops |-> None]
        /\ wire = [i \in Ops |-> None]
        /\ scratch = None
        /\ h = <<>>

Construct(i) ==
    /\ msg[i] = None
    /\ IF SharedScratch
       THEN /\ scratch' = i
            /\ msg' = [msg EXCEPT ![i] = Ref]
       ELSE /\ scratch' = scratch
            /\ msg' = [msg EXCEPT ![i] = i]
    /\ UNCHANGED wire
    /\ h' = Append(h, [s |-> "c", i |-> i])

Encode(i) ==
    /\ msg[i] # None
    /\ wire[i] = None
    /\ wire' = [wire EXCEPT ![i] = IF msg[i] = Ref THEN scratch ELSE msg[i]]
    /\ UNCHANGED <<msg, scratch>>
    /\ h' = Append(h, [s |-> "e", i |-> i])

Done == \A i \in Ops : wire[i] # None
Next == (\E i \in Ops : Construct(i) \/ Encode(i)) \/ (Done /\ UNCHANGED vars)

\* what is delivered for operation i depends only on block i
OwnContent == \A i \in Ops : wire[i] # None => wire[i] = i

-----------------------------------------------------------------------------
(* All complete histories, computed independently of the state machine:     *)
(* every arrangement of the 2n steps of n operations in which construct i   *)
(* precedes encode i.  HistoriesMatch ties the two together for n = NOps;   *)
(* histories of fewer operations are projections of those.                  *)
Steps(n) == {[s |-> k, i |-> i] : k \in {"c", "e"}, i \in 1..n}
Pos(f, st) == CHOOSE p \in DOMAIN f : f[p] = st
Histories(n) ==
    {f \in [1..(2 * n) -> Steps(n)] :
        /\ \A p, q \in 1..(2 * n) : p # q => f[p] # f[q]
        /\ \A i \in 1..n : Pos(f, [s |-> "c", i |-> i]) < Pos(f, [s |-> "e", i |-> i])}
HistoriesMatch == Done => h \in Histories(NOps)

-----------------------------------------------------------------------------
(* Block assignments.  A block is (kind, sib): the repository's fixture     *)
(* block of that kind, or (sib = TRUE) its sibling: same block with one     *)
(* flipped byte at the end of its header, i.e. same era and shape,          *)
(* different identity.  ntn is stated for Shelley-or-later kinds only.      *)
Kinds == <<"byron_ebb", "byron_main", "shelley", "allegra", "mary", "alonzo",
           "babbage", "conway", "dijkstra">>
KindsOf(mode) == IF mode = "ntn" THEN 3..Len(Kinds) ELSE 1..Len(Kinds)
NextKind(mode, k) == IF k = Len(Kinds) THEN (IF mode = "ntn" THEN 3 ELSE 1) ELSE k + 1
B(k, sib) == [kind |-> Kinds[k], sib |-> sib]

\* cross-era pairs: all ordered pairs for ntn; for ntc (the message copies the block) adjacent kinds in
\* both orders unless AllThirds
Pairs(mode) == {p \in KindsOf(mode) \X KindsOf(mode) :
                  /\ p[1] # p[2]
                  /\ (mode = "ntn" \/ AllThirds \/ p[2] = NextKind(mode, p[1]) \/ p[1] = NextKind(mode, p[2]))}
Firsts3(mode) == IF mode = "ntc" THEN NtcFirst3 ELSE KindsOf(mode)
Thirds(mode) == {p \in Firsts3(mode) \X KindsOf(mode) : AllThirds \/ p[2] = NextKind(mode, p[1])}
Assignments(n, mode) ==
    IF n = 2
    THEN {<<B(k, FALSE), B(k, TRUE)>> : k \in KindsOf(mode)} \cup              \* same era
         {<<B(p[1], FALSE), B(p[2], FALSE)>> : p \in Pairs(mode)}              \* cross era
    ELSE {<<B(p[1], FALSE), B(p[1], TRUE), B(p[2], FALSE)>> : p \in Thirds(mode)}

Row(n, mode, a, f) == [mode |-> mode, ops |-> a, order |-> f,
                       deliver |-> [i \in 1..n |-> i]]   \* op i delivers block i (OwnContent)
Rows(n, mode) == SetToSeq({Row(n, mode, a, f) : a \in Assignments(n, mode), f \in Histories(n)})
ASSUME ndJsonSerialize("serve22.ndjson",
          IF NOps = 2 THEN Rows(2, "ntc") \o Rows(2, "ntn")
          ELSE Rows(2, "ntc") \o Rows(2, "ntn") \o Rows(3, "ntc") \o Rows(3, "ntn"))
=============================================================================
