---------------------------- MODULE Address ----------------------------
(* C05 — address encodings are mutually consistent.                         *)
(*                                                                          *)
(* The decision structure of a Cardano address: header byte h = type*16 +   *)
(* network, the payment/stake layout of each type, the exact length, the    *)
(* mainnet whitelist of historical trailing bytes, the bech32 prefix, the   *)
(* pointer as three minimal base-128 varints, and the Byron envelope        *)
(* (array(2) [tag 24 payload, CRC32], payload [root(28), attributes, type]).*)
(*                                                                          *)
(* Wire bytes are 0..255; the 28 bytes of a payment hash are the token P,   *)
(* of a stake hash the token S and random junk the token J: the driver      *)
(* replaces tokens by seeded random bytes, so the model is independent of   *)
(* the hash values (the decision structure never looks at them).            *)
(*                                                                          *)
(* Two independent formulations are checked against each other on every     *)
(* case: the declarative Valid/ExpectedLen and the operational Parse; and   *)
(* the round trips Serialize(Parse(w)) = w, Parse(Serialize(a)) = a.        *)
EXTENDS Integers, Sequences, FiniteSets, SequencesExt, Json, TLC

CONSTANTS PtrVals,       \* values of the pointer components (slot, tx index, cert index)
          PtrHeaders,    \* header bytes (types 4, 5) enumerated with every pointer triple
          PtrDevs        \* length deviations applied to every pointer triple

P == -1   \* a byte of the payment credential hash
S == -2   \* a byte of the stake credential hash
J == -3   \* a random byte that belongs to nothing
HashLen == 28
Rep(x, k) == [i \in 1..k |-> x]

------------------------------------------------------------------------
(* header byte *)
TypeOf(h) == h \div 16
NetOf(h)  == h % 16
KnownTypes == (0..7) \cup {14, 15}
ByronType  == 8

PayKind(t) ==
    CASE t \in {0, 2, 4, 6} -> "key" [] t \in {1, 3, 5, 7} -> "script" [] t \in {14, 15} -> "none" [] OTHER -> "invalid"
StakeKind(t) ==
    CASE t \in {0, 1, 14} -> "key" [] t \in {2, 3, 15} -> "script" [] t \in {4, 5} -> "pointer"
      [] t \in {6, 7} -> "none" [] OTHER -> "invalid"

Hrp(t, net) == (IF t \in {14, 15} THEN "stake" ELSE "addr") \o (IF net = 1 THEN "" ELSE "_test")
RealHrps == {"addr", "addr_test", "stake", "stake_test"}

------------------------------------------------------------------------
(* pointer: base-128 varints, most significant group first, bit 7 = continuation *)
RECURSIVE Digits7(_)
Digits7(v) == IF v < 128 THEN <<v>> ELSE Digits7(v \div 128) \o <<v % 128>>
Varint(v)  == LET d == Digits7(v) IN [i \in 1..Len(d) |-> IF i < Len(d) THEN d[i] + 128 ELSE d[i]]
Minimal(seq) == Len(seq) > 0 /\ seq[1] # 128     \* no leading zero group

NoVar == [ok |-> FALSE, val |-> 0, next |-> 0]
RECURSIVE ReadVarAcc(_, _, _)
ReadVarAcc(bs, off, acc) ==
    IF off > Len(bs) THEN NoVar                     \* ran out of bytes inside a varint
    ELSE LET b == bs[off] IN
         IF b < 0 THEN NoVar                        \* (never the case in the emitted wires)
         ELSE IF b >= 128 THEN ReadVarAcc(bs, off + 1, acc * 128 + (b - 128))
         ELSE [ok |-> TRUE, val |-> acc * 128 + b, next |-> off + 1]
ReadVar(bs, off) == ReadVarAcc(bs, off, 0)

------------------------------------------------------------------------
(* trailing bytes that exist on mainnet (cardano-ledger #2729; the list of  *)
(* cardano-multiplatform-lib's TRAILING_WHITELIST)                          *)
Whitelist == <<
  <<203, 87, 175, 176, 179, 95, 200, 156, 99, 6, 28, 153, 20, 224, 85, 0, 26, 81, 140, 117, 22>>,
  <<19, 213, 244, 163, 254, 4, 120, 178, 36, 30, 1, 104, 227, 203, 165, 0, 26, 34, 193, 90, 17>>,
  <<0>>,
  <<106, 51, 48, 102, 53, 97, 109, 107, 119, 104, 119, 113, 97, 52, 119, 118, 102, 121, 106, 100, 101, 122,
    121, 97, 101, 108, 109, 110, 110, 103, 100, 54, 100, 52, 101>>,
  <<53, 97, 99, 121, 50, 114, 48, 101, 107, 114, 112, 113, 122, 113, 106, 108, 113, 100, 107, 56, 108, 122,
    113, 110, 53, 114, 52, 53, 110>>,
  <<6, 29, 7, 12, 13, 4, 27, 7, 2, 15, 11, 13, 11, 15, 2, 9, 18, 5, 29, 28, 16, 9, 17, 4, 14, 31, 7, 19, 17,
    3, 1, 0, 11, 16, 22, 0>>,
  <<18, 110, 119, 53, 51, 53, 103, 54, 118, 115, 112, 55, 120, 55, 102, 104, 120, 112, 113, 50, 112, 116,
    115, 104, 57, 103, 107, 114>>,
  <<44>> >>
Whitelisted(seq) == \E k \in 1..Len(Whitelist) : Whitelist[k] = seq

------------------------------------------------------------------------
(* the abstract address and its serialisation *)
NoAddr == [ok |-> FALSE, type |-> 0, net |-> 0, pay |-> "", stake |-> "", ptr |-> <<>>,
           extra |-> <<>>, payAt |-> 0, stakeAt |-> 0]

PtrBytes(p) == Varint(p[1]) \o Varint(p[2]) \o Varint(p[3])

Serialize(a) ==
    <<a.type * 16 + a.net>>
      \o (IF a.pay \in {"key", "script"} THEN Rep(P, HashLen) ELSE <<>>)
      \o (CASE a.stake \in {"key", "script"} -> Rep(S, HashLen)
            [] a.stake = "pointer"           -> PtrBytes(a.ptr)
            [] OTHER                         -> <<>>)
      \o a.extra

\* declarative: the exact length of a well-formed address
ExpectedLen(t, p) ==
    1 + (IF PayKind(t) \in {"key", "script"} THEN HashLen ELSE 0)
      + (CASE StakeKind(t) \in {"key", "script"} -> HashLen
           [] StakeKind(t) = "pointer" -> Len(Varint(p[1])) + Len(Varint(p[2])) + Len(Varint(p[3]))
           [] OTHER -> 0)

\* operational: the parser (Shelley family; type 8 is the Byron envelope, below)
Parse(bs) ==
    IF Len(bs) = 0 THEN NoAddr
    ELSE LET t == TypeOf(bs[1])  net == NetOf(bs[1]) IN
    IF t = ByronType THEN NoAddr                    \* hash tokens are no CBOR envelope
    ELSE IF net \notin {0, 1} THEN NoAddr
    ELSE IF t \notin KnownTypes THEN NoAddr
    ELSE LET hasPay == PayKind(t) \in {"key", "script"}
             afterPay == IF hasPay THEN 2 + HashLen ELSE 2
         IN IF hasPay /\ Len(bs) < 1 + HashLen THEN NoAddr
    ELSE LET sk == StakeKind(t) IN
         LET v1 == ReadVar(bs, afterPay)
             v2 == IF v1.ok THEN ReadVar(bs, v1.next) ELSE NoVar
             v3 == IF v2.ok THEN ReadVar(bs, v2.next) ELSE NoVar
             afterStake == CASE sk \in {"key", "script"} -> afterPay + HashLen
                             [] sk = "pointer" -> IF v3.ok THEN v3.next ELSE 0
                             [] OTHER -> afterPay
         IN IF sk \in {"key", "script"} /\ Len(bs) < afterPay + HashLen - 1 THEN NoAddr
            ELSE IF sk = "pointer" /\ ~v3.ok THEN NoAddr
            ELSE LET rest == SubSeq(bs, afterStake, Len(bs)) IN
                 IF Len(rest) > 0 /\ ~(net = 1 /\ Whitelisted(rest)) THEN NoAddr
                 ELSE [ok |-> TRUE, type |-> t, net |-> net, pay |-> PayKind(t), stake |-> sk,
                       ptr |-> IF sk = "pointer" THEN <<v1.val, v2.val, v3.val>> ELSE <<>>,
                       extra |-> rest,
                       payAt |-> IF hasPay THEN 2 ELSE 0,
                       stakeAt |-> IF sk \in {"key", "script"} THEN afterPay ELSE 0]

------------------------------------------------------------------------
(* the Shelley-family case space: header x length deviation x pointer *)
Devs == {"exact", "short", "junk1", "junk28", "wl3x", "xwl8", "wl1", "wl2", "wl3", "wl4", "wl5", "wl6", "wl7", "wl8"}
WlIndex(d) == CASE d = "wl1" -> 1 [] d = "wl2" -> 2 [] d = "wl3" -> 3 [] d = "wl4" -> 4 [] d = "wl5" -> 5
                [] d = "wl6" -> 6 [] d = "wl7" -> 7 [] d = "wl8" -> 8 [] OTHER -> 0

Triples == {<<a, b, c>> : a \in PtrVals, b \in PtrVals, c \in PtrVals}
OneTriple == {<<1, 2, 3>>}

ShelleyCases ==
       {[kind |-> "shelley", h |-> h, dev |-> d, ptr |-> <<>>] :
            h \in {x \in 0..255 : StakeKind(TypeOf(x)) # "pointer"}, d \in Devs}
  \cup {[kind |-> "shelley", h |-> h, dev |-> d, ptr |-> p] : h \in PtrHeaders, d \in PtrDevs, p \in Triples}
  \cup {[kind |-> "shelley", h |-> h, dev |-> d, ptr |-> p] :
            h \in {x \in 0..255 : StakeKind(TypeOf(x)) = "pointer"}, d \in Devs, p \in OneTriple}

\* the well-formed body a wallet would write under header h (unknown types get two hashes)
Body(h, p) ==
    LET t == TypeOf(h) IN
    IF t \in KnownTypes
    THEN Serialize([type |-> t, net |-> NetOf(h), pay |-> PayKind(t), stake |-> StakeKind(t), ptr |-> p, extra |-> <<>>])
    ELSE <<h>> \o Rep(P, HashLen) \o Rep(S, HashLen)

Wire(c) ==
    LET b == Body(c.h, c.ptr) IN
    CASE c.dev = "exact"  -> b
      [] c.dev = "short"  -> SubSeq(b, 1, Len(b) - 1)
      [] c.dev = "junk1"  -> b \o <<85>>
      [] c.dev = "junk28" -> b \o Rep(J, HashLen)
      [] c.dev = "wl3x"   -> b \o Whitelist[3] \o <<85>>      \* a whitelisted trailer, then one more byte
      [] c.dev = "xwl8"   -> b \o <<85>> \o Whitelist[8]      \* one byte, then a whitelisted trailer
      [] OTHER            -> b \o Whitelist[WlIndex(c.dev)]

\* declarative validity
Valid(c) ==
    /\ TypeOf(c.h) \in KnownTypes
    /\ NetOf(c.h) \in {0, 1}
    /\ \/ c.dev = "exact"
       \/ (WlIndex(c.dev) > 0 /\ NetOf(c.h) = 1)

------------------------------------------------------------------------
(* the Byron envelope *)
ByronCases ==
    {[kind |-> "byron", outer |-> o, wrap |-> w, crc |-> k, rootlen |-> r, attr |-> a, btype |-> b] :
        o \in {"arr2", "arr1", "arr3"}, w \in {"tag24", "tag25", "bare"}, k \in {"ok", "bad"},
        r \in {27, 28, 29}, a \in {"none", "path", "magic", "both"}, b \in {0, 1, 2}}

ByronValid(c) == c.outer = "arr2" /\ c.wrap = "tag24" /\ c.crc = "ok" /\ c.rootlen = HashLen
\* Shelley convention for Byron: the network magic attribute is only present on testnets
ByronNet(c)   == IF c.attr \in {"magic", "both"} THEN 0 ELSE 1
\* the first byte of every Byron envelope has the address-type nibble 8
ByronFirstByte(c) == CASE c.outer = "arr2" -> 130 [] c.outer = "arr1" -> 129 [] OTHER -> 131

------------------------------------------------------------------------
CaseSpace == ShelleyCases \cup ByronCases

\* the state is one case together with its wire bytes and the parser's result
\* (computed once per case; the meta-properties below only read them)
VARIABLES c, w, a
vars == <<c, w, a>>
Init == /\ c \in CaseSpace
        /\ w = IF c.kind = "shelley" THEN Wire(c) ELSE <<>>
        /\ a = IF c.kind = "shelley" THEN Parse(w) ELSE NoAddr
Next == UNCHANGED vars

IsS == c.kind = "shelley"

(* meta-properties, evaluated for every case *)
\* the two formulations agree
ValidIffParses == IsS => (Valid(c) <=> a.ok)
\* bytes -> address -> bytes is the identity
Lossless       == (IsS /\ a.ok) => Serialize(a) = w
\* address -> bytes -> address is the identity, and nothing of the header is lost
ParseSerialize == (IsS /\ a.ok) =>
                     /\ Parse(Serialize(a)) = a
                     /\ a.type = TypeOf(c.h) /\ a.net = NetOf(c.h)
                     /\ a.ptr = c.ptr
                     /\ a.pay = PayKind(a.type) /\ a.stake = StakeKind(a.type)
\* exact length
LenExact       == (IsS /\ Valid(c)) => Len(w) = ExpectedLen(TypeOf(c.h), c.ptr) + Len(a.extra)
\* the prefix is total on valid addresses and separates stake-only / network
HrpTotal       == (IsS /\ Valid(c)) =>
                     LET t == TypeOf(c.h)  n == NetOf(c.h) IN
                       /\ Hrp(t, n) \in RealHrps
                       /\ (Hrp(t, n) \in {"stake", "stake_test"}) = (PayKind(t) = "none")
                       /\ (Hrp(t, n) \in {"addr", "stake"}) = (n = 1)
\* pointers: minimal varints round trip; a padded varint reads the same value but is not minimal
\* (padded varints are outside the property's domain "minimal varints")
VarintOk       == (IsS /\ c.ptr # <<>>) =>
                     \A i \in 1..3 :
                        LET v == Varint(c.ptr[i]) IN
                          /\ Minimal(v)
                          /\ ReadVar(v, 1) = [ok |-> TRUE, val |-> c.ptr[i], next |-> Len(v) + 1]
                          /\ ReadVar(<<128>> \o v, 1).val = c.ptr[i] /\ ~Minimal(<<128>> \o v)
\* only bytes and tokens on the wire; hashes are never inspected by the decision
WireAlphabet   == IsS => \A i \in 1..Len(w) : (w[i] >= 0 /\ w[i] <= 255) \/ w[i] = P \/ w[i] = S \/ w[i] = J
\* Byron: every envelope carries type nibble 8 (so it can never be taken for a Shelley type),
\* and the Shelley parser never accepts that nibble
ByronNibble    == /\ (~IsS => TypeOf(ByronFirstByte(c)) = ByronType)
                  /\ ((IsS /\ TypeOf(c.h) = ByronType) => ~a.ok)

------------------------------------------------------------------------
(* emission *)
SRow(x) ==
    LET xw == Wire(x) IN LET xa == Parse(xw) IN
    [kind |-> "shelley", h |-> x.h, dev |-> x.dev, ptr |-> x.ptr, wire |-> xw,
     valid |-> xa.ok, type |-> xa.type, net |-> xa.net, pay |-> xa.pay, stake |-> xa.stake,
     ptrv |-> xa.ptr, extra |-> Len(xa.extra), pay_at |-> xa.payAt, stake_at |-> xa.stakeAt,
     hrp |-> IF xa.ok THEN Hrp(xa.type, xa.net) ELSE ""]
BRow(x) ==
    [kind |-> "byron", outer |-> x.outer, wrap |-> x.wrap, crc |-> x.crc, rootlen |-> x.rootlen,
     attr |-> x.attr, btype |-> x.btype, valid |-> ByronValid(x), type |-> ByronType, net |-> ByronNet(x)]

ASSUME \A v \in PtrVals : v \in 0..16777215
ASSUME \A h \in PtrHeaders : StakeKind(TypeOf(h)) = "pointer"
ASSUME PtrDevs \subseteq Devs
ASSUME ~Whitelisted(<<85>>) /\ ~Whitelisted(Rep(J, HashLen))
ASSUME ~Whitelisted(Whitelist[3] \o <<85>>) /\ ~Whitelisted(<<85>> \o Whitelist[8])
ASSUME ndJsonSerialize("cases.ndjson", SetToSeq({SRow(x) : x \in ShelleyCases}))
ASSUME ndJsonSerialize("byron.ndjson", SetToSeq({BRow(x) : x \in ByronCases}))
=======================================================================
