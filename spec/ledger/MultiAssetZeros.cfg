\* C06 MultiAssetZeros.cfg: keys 2+1, quantities -1..1, partial maps, pairs
CONSTANT KeySet = "2+1"
CONSTANT QAbs = 1
CONSTANT Mode = "partial"
CONSTANT Arity = 2
CONSTANT SampleMod = 1
INIT Init
NEXT Next
INVARIANT EqReflexive
INVARIANT NormIsEq
INVARIANT AddIdentity
INVARIANT AddInverse
INVARIANT DecEnc
INVARIANT EncCanonical
INVARIANT EqPointwise
INVARIANT EqSymmetric
INVARIANT EqUpToZeros
INVARIANT AddPointwise
INVARIANT AddCommutes
INVARIANT AddUpToZeros
INVARIANT AddCancels
INVARIANT EncInjective
