CONSTANTS
    Eras = {"shelley", "allegra", "mary", "alonzo", "babbage", "conway", "dijkstra"}
    Seed = 1
    MaxCerts = 2
    PerBagLegacy = 4
    PerBagGov = 2
    FlagEvery = 8
INIT Init
NEXT Next
INVARIANT VariantSane
INVARIANT PerAssetNotMerged
INVARIANT AddBothSides
INVARIANT OneSideBreaks
INVARIANT CertAlgebra
INVARIANT Signs
INVARIANT EraShape
INVARIANT PoolHistory
INVARIANT FlagIrrelevant
INVARIANT FlagTwin
