CONSTANTS
    Eras = {"shelley", "allegra", "mary", "alonzo", "babbage", "conway", "dijkstra"}
    Seed = 1
    MaxCerts = 2
    PerBagLegacy = 10
    PerBagGov = 4
INIT Init
NEXT Next
INVARIANT VariantSane
INVARIANT AddBothSides
INVARIANT OneSideBreaks
INVARIANT CertAlgebra
INVARIANT Signs
INVARIANT EraShape
