CONSTANT N = 70
INIT Init
NEXT Next
INVARIANT InOrder
INVARIANT LeftPerfect
INVARIANT Injective
INVARIANT SplitIsPow
INVARIANT PreimageCoversItem
