CONSTANT T = 3
CONSTANT Bnds = {0, 2, 3}
CONSTANT MaxN = 3
CONSTANT Width3 = FALSE
CONSTANT BigReps = FALSE
INIT Init
NEXT Next
INVARIANT Recorded
INVARIANT FlagIrrelevant
INVARIANT MonotoneKeys
INVARIANT MonotoneInterval
INVARIANT Thresholds
INVARIANT AbsentFails
INVARIANT OrderFree
