"""C17 Connection roles and diffusion modes gate what is accepted (S1, RP + muxer/engine events)."""
import concurrent.futures
import json
import os

import vlib

INVS = ("TypeOK MachineMatchesOutcome InitiatorOnlyNeverDeliversRequest ResponderOnlyNeverDeliversResponse "
        "StartedIffEnabled EnabledIsReachable LocalOptInOnlyAffectsOwnInitiator StopRemovesExactlyThatPair")


def legacy_selftest(chk):
    """The defective design kept in the specification must be rejected by TLC (the invariants are not vacuous)."""
    r = vlib.run_tlc("net/Connection", cfg="ConnectionLegacy.cfg", timeout=400, workers=2, deadlock=False, continue_=True)
    if r.error:
        raise vlib.MachineryError("Connection/ConnectionLegacy.cfg: %s" % r.error)
    violated = sorted(set(getattr(r, "violated", [])))
    need = {"InitiatorOnlyNeverDeliversRequest", "ResponderOnlyNeverDeliversResponse", "StartedIffEnabled"}
    if not need <= set(violated):
        raise vlib.MachineryError("the legacy design (full-duplex flag ignored, peer-sharing guard one-sided) should violate %s, "
                                  "TLC reported %s" % (sorted(need), violated))
    chk.extra["legacy_design_rejected_by_tlc"] = violated
    # the same for the local-option dimension: "keep-alives are opt-in" read as "no keep-alive instance unless the
    # application sends keep-alives" leaves an enabled responder unreachable
    r = vlib.run_tlc("net/Connection", cfg="ConnectionOptIn.cfg", timeout=400, workers=2, deadlock=False, continue_=True)
    if r.error:
        raise vlib.MachineryError("Connection/ConnectionOptIn.cfg: %s" % r.error)
    violated = sorted(set(getattr(r, "violated", [])))
    need = {"EnabledIsReachable", "StartedIffEnabled", "LocalOptInOnlyAffectsOwnInitiator"}
    if not need <= set(violated):
        raise vlib.MachineryError("the opt-in design (keep-alive constructed only with the local option) should violate %s, "
                                  "TLC reported %s" % (sorted(need), violated))
    chk.extra["optin_design_rejected_by_tlc"] = violated
    # the same for the history dimension: "unregistering one role drops the protocol number's whole entry" leaves the
    # surviving role of a stopped protocol unreachable (a smaller version window: every violating state is printed)
    r = vlib.run_tlc("net/Connection", cfg="ConnectionDropId.cfg", timeout=400, workers=2, deadlock=False, continue_=True)
    if r.error:
        raise vlib.MachineryError("Connection/ConnectionDropId.cfg: %s" % r.error)
    violated = sorted(set(getattr(r, "violated", [])))
    need = {"StartedIffEnabled", "StopRemovesExactlyThatPair"}
    if not need <= set(violated):
        raise vlib.MachineryError("the drop-id design (stopping one role unregisters both roles of the protocol number) should "
                                  "violate %s, TLC reported %s" % (sorted(need), violated))
    chk.extra["dropid_design_rejected_by_tlc"] = violated


def binding_selftest(chk, drv, cases):
    """Flip the expected delivery of one routed request and require the driver to object."""
    victim = None
    with open(cases) as f:
        for line in f:
            row = json.loads(line)
            if row["kind"] == "ntc" and row["server"]:
                for i, s in enumerate(row["segs"]):
                    if s["id"] == 5 and not s["resp"] and s["deliver"] == "yes":
                        s["deliver"], s["app"] = "no", "no"
                        victim = (row, i)
                        break
            if victim:
                break
    if victim is None:
        raise vlib.MachineryError("binding self-test: no routed node-to-client chain-sync request among the rows")
    path = os.path.join(vlib.scratch("c17-selftest-"), "replay.json")
    with open(path, "w") as f:
        json.dump({"job": {"row": victim[0], "seg": victim[1], "variant": 0}, "seed": chk.seed}, f)
    p = vlib.run_cmd([drv, "-replay", path], timeout=300, env={"VERIF_SEED": chk.seed, "VERIF_TIER": chk.tier})
    n = sum(1 for l in p.stdout.splitlines() if l.startswith("{") and json.loads(l).get("t") == "disagree")
    if n == 0:
        raise vlib.MachineryError("binding self-test: a wrong expected delivery was not noticed by the driver")
    chk.extra["binding_selftest"] = "expected delivery of one routed request flipped: driver reported %d disagreement(s)" % n


def run(chk, replay=None):
    chk.rule = ("Connection.tla has two halves: (A) what the negotiation enabled, written from the network specification "
                "(duplex iff node-to-node, version >= 10 and both sides advertised InitiatorAndResponder, else the opener is "
                "initiator-only and the acceptor responder-only; keep-alive from NtN v7, peer-sharing from v11 and only when both "
                "sides enabled it, local-state-query / local-tx-monitor (v12) by NtC version, protocols 14/15 on DMQ only), and (B) "
                "an implementation-shaped machine: setupConnection (constructed instances, (protocol, role) pairs registered with "
                "the muxer, muxer diffusion mode) followed by readLoop on one inbound segment (direction gate, Route, Deliver) and the "
                "responder's guard. TLC checks in every state of every case (configuration x version x protocol number x "
                "direction) that an initiator-only connection never delivers a request and ends with an error, likewise "
                "responder-only/response, that exactly the enabled protocols are registered in exactly the negotiated roles, and that "
                "a segment for an enabled protocol in a negotiated role is delivered. A configuration also carries the local option "
                "that never goes on the wire (lka = WithKeepAlive on/off): half (A) does not depend on it, it may only decide "
                "whether the application's own keep-alive initiator runs (expectation 'any' for that one pair when off), and "
                "LocalOptInOnlyAffectsOwnInitiator states that instances, responders, every other pair and the muxer mode are "
                "the same with the option on and off. A configuration may also carry a HISTORY (stop = one (protocol, role) pair "
                "the negotiation obliged the connection to run, stopped between set-up and the probe: Client.Stop()/Server.Stop() -> "
                "Protocol.Stop -> muxer.UnregisterProtocol): StopRemovesExactlyThatPair states that exactly that pair leaves the "
                "registered set, so the opposite role of the same protocol number and every other obliged pair stay registered and a "
                "segment for them is delivered (StartedIffEnabled / EnabledIsReachable are stated about Live = Required minus the "
                "stopped pair); about a segment for the stopped role itself the property is silent ('any'). Each case is replayed on a real "
                "ouroboros.Connection over an in-memory pipe against a raw peer that performs the handshake by hand (selecting the "
                "row's version, diffusion mode and peer-sharing flag; the connection is created with the row's WithKeepAlive) and then writes the one segment (well-formed first request of "
                "that protocol / a responder message). Observed through the accessors, the muxer hooks (Reg, Deliver, Err), the "
                "engine hook (Handle), the peer-sharing callback and ErrorChan; compared with the row. A case is one "
                "(configuration, segment); all are non-trivial (each one sets up a connection and sends the segment)")
    chk.assumptions = [
        "expectations (which version carries which protocol, duplex only from NtN v10) are my transcription of the network specification / CIP-0137",
        "the Leios trio (ids 18-20, CIP-0164 prototype, no version assigned) is left open on node-to-node connections ('any'), but only in the negotiated roles; a refusing peer-sharing instance is allowed where peer sharing was not negotiated, its callback must not run",
        "WithKeepAlive is a case dimension (keys of the rows with the option off end in :lka=0 before the segment); with the option off the keep-alive initiator may or may not be registered (the application's own choice), everything else is demanded as with the option on; every row is run with the option on (on node-to-client/DMQ it must be without effect); with the option off the quick tier runs the node-to-node rows that have peer sharing off on both sides, the thorough tier every row",
        "histories: one stopped role per connection, stopped through the API by the local application (keys carry :stop=<id>/<role> before the segment); a role stopping because the PEER sent Done, and restarts, are not taken; quick tier: the duplex node-to-node configurations with the keep-alive option on and peer sharing set alike on both sides, every obliged pair stopped in turn, probed with both directions of every enabled protocol; thorough: every configuration; a history that cannot be established (Stop does not unregister) is a machinery failure",
        "WithDelayProtocolStart/WithDelayMuxerStart are not used",
        "which error closes the connection is not compared (a gate-case rejected because no receiver is registered counts as closed with an error); an error for a merely unroutable segment is recorded, not required",
        "one inbound segment per connection; the peer's diffusion / peer-sharing flags exist only in node-to-node version data, so node-to-client and DMQ rows have none",
    ]
    if replay:
        drv = vlib.go_build("c17")
        vlib.run_driver(chk, drv, ["-replay", replay], timeout=600)
        return
    cfg = "Connection.cfg" if chk.tier == "quick" else "ConnectionThorough.cfg"
    # the driver is built while TLC runs
    with concurrent.futures.ThreadPoolExecutor(max_workers=2) as ex:
        fb = ex.submit(vlib.go_build, "c17")
        ft = ex.submit(vlib.run_tlc, "net/Connection", cfg=cfg, timeout=500, workers=4, deadlock=False,
                       coverage=(chk.tier != "quick"))
        r = ft.result()
        drv = fb.result()
    vlib.tlc_must_pass(r, "Connection/" + cfg)
    chk.add_tlc(cfg, r)
    if r.coverage_zero:
        chk.extra["spec_actions_never_taken"] = r.coverage_zero
    cases = os.path.join(r.dir, "cases.ndjson")
    if not os.path.exists(cases) or os.path.getsize(cases) == 0:
        raise vlib.MachineryError("Connection/%s emitted no cases" % cfg)
    vlib.run_driver(chk, drv, [cases], timeout=(600 if chk.tier == "quick" else 3600))
    if chk.tier != "quick":
        legacy_selftest(chk)
        binding_selftest(chk, drv, cases)
    chk.extra["invariants"] = INVS.split()
    chk.exhaustive = False
