"""C24 Tx-submission keeps its acknowledgement window consistent (S2, replay of TLC behaviours)."""
import json
import os
from concurrent.futures import ThreadPoolExecutor

import vlib

INVS = ("TypeOK AckedLeReceived AckWithinOutstanding OutstandingExact WireInRange RefusedLocally PerCall "
        "DoneOnlyFromBlocking OutRejectsOverLimit")

QUICK = ["TxSubmissionBig.cfg", "TxSubmission.cfg", "TxSubmissionWin.cfg", "TxSubmissionOut.cfg",
         "TxSubmissionChain.cfg"]
THOROUGH = ["TxSubmissionBigThorough.cfg", "TxSubmissionThorough.cfg", "TxSubmissionWinThorough.cfg",
            "TxSubmissionOut.cfg", "TxSubmissionChainThorough.cfg"]


def r_limit(rows):
    return rows[0]["limit"]


def _load(path):
    rows = []
    with open(path) as f:
        for line in f:
            line = line.strip()
            if not line:
                continue
            row = json.loads(line)
            if isinstance(row, str):
                row = json.loads(row)
            rows.append(row)
    return rows


def _tlc_all(chk, cfgs, timeout, coverage):
    """Run the configs concurrently (separate JVMs, separate scratch dirs); returns the rows of each.

    Chain configs draw their pseudo-random histories from VERIF_SEED (read by the spec through IOEnv)."""
    def one(cfg):
        return vlib.run_tlc("net/TxSubmission", cfg=cfg, timeout=timeout, workers=1, deadlock=False,
                            env={"VERIF_SEED": chk.seed}, coverage=coverage)
    with ThreadPoolExecutor(max_workers=len(cfgs)) as ex:
        results = list(ex.map(one, cfgs))
    out = []
    zero = {}
    for cfg, r in zip(cfgs, results):
        vlib.tlc_must_pass(r, "TxSubmission/" + cfg)
        chk.add_tlc(cfg, r)
        path = os.path.join(r.dir, "rows.ndjson")
        if not os.path.exists(path) or os.path.getsize(path) == 0:
            raise vlib.MachineryError("TxSubmission/%s produced no behaviours" % cfg)
        out.append(_load(path))
        if coverage and getattr(r, "coverage_zero", None):
            zero[cfg] = sorted(set(r.coverage_zero))
    if coverage:
        chk.extra["tlc_actions_never_taken"] = zero or "none"
    return out


# the driver's case key of a row (harness/cmd/c24/main.go histKey / call.String): used only to find the
# row a crashed driver process was working on
def _call_str(kind, c):
    ans = "stop" if c["ans"] < 0 else str(c["ans"])
    b = "b" if c["blocking"] else "nb"
    if kind == "out":
        return "wire(%s,ack=%d,req=%d,ans=%s)" % (b, c["ack"], c["req"], ans)
    if c["op"] == "txs":
        return "txs(%d)" % c["n"]
    return "ids(%s,req=%d,ans=%s)" % (b, c["req"], ans)


def _row_key(row):
    return row["kind"] + ":" + ";".join(_call_str(row["kind"], s["c"]) for s in row["steps"])


def _run_shard(chk, drv, rows, idx, timeout):
    """One driver process per attempt. A process crash inside library code is reported by vlib as a
    disagreement of the case it happened in; the rows after that case are then replayed by a new process,
    so a crash never silently drops the rest of the shard."""
    sub = vlib.Check(chk.pid, chk.tier, chk.seed)
    d = vlib.scratch("c24-shard%d-" % idx)
    todo = rows
    attempt = 0
    retried = set()
    while todo:
        path = os.path.join(d, "rows%d.ndjson" % attempt)
        vlib.write_ndjson(path, todo)
        nv, nk = len(sub.violations), len(sub.known_hits)
        res = vlib.run_driver(sub, drv, [path], timeout=timeout)
        if not (isinstance(res, dict) and res.get("crashed")):
            break
        attempt += 1
        if attempt > 60:
            raise vlib.MachineryError("c24 driver crashed %d times in one shard" % attempt)
        # which row was running? (the last VH-CASE line of the crashed process is the tail of the crash key)
        keys = [v[0] for v in sub.violations[nv:]] + [h[1] for h in sub.known_hits[nk:]]
        last = None
        for key in keys:
            if key.startswith("crash:") and key.count(":") >= 2:
                last = key.split(":", 2)[2]
        pos = None
        if last:
            for i, row in enumerate(todo):
                if _row_key(row) == last:
                    pos = i
        if pos is None:
            raise vlib.MachineryError("c24 driver crashed and the crashing row could not be located")
        sub.extra["driver_process_crashes"] = sub.extra.get("driver_process_crashes", 0) + 1
        # the crash may belong to the asynchronous tear-down of the previous row: replay the named row
        # once more, skip it if it is named again
        if last in retried:
            pos += 1
        retried.add(last)
        sub.evaluations += pos
        for row in todo[:pos]:
            sub.nontrivial.add(_row_key(row))
        todo = todo[pos:]
    return sub


def _replay_all(chk, drv, rows, shards, timeout):
    shards = max(1, min(shards, len(rows)))
    parts = [rows[i::shards] for i in range(shards)]
    errs = []

    def one(i):
        try:
            return _run_shard(chk, drv, parts[i], i, timeout)
        except vlib.MachineryError as e:
            errs.append(e)
            return None

    with ThreadPoolExecutor(max_workers=shards) as ex:
        subs = list(ex.map(one, range(shards)))
    if errs:
        raise errs[0]
    for i, s in enumerate(subs):
        chk.evaluations += s.evaluations
        chk.nontrivial |= {"%d/%s" % (i, k) for k in s.nontrivial}
        chk.violations += s.violations
        chk.known_hits += s.known_hits
        for x in s.samples:
            chk.sample(x)
        for k, v in s.extra.items():
            if isinstance(v, (int, float)) and not isinstance(v, bool):
                if k == "longest_history":
                    chk.extra[k] = max(chk.extra.get(k, 0), v)
                else:
                    chk.extra[k] = chk.extra.get(k, 0) + v
            else:
                chk.extra[k] = v


def _binding_selftest(chk, drv, rows):
    """Thorough tier: alter one expected wire ack of one behaviour and one expected verdict of one raw-peer
    case, and require the driver to object (guards against a replay that compares nothing)."""
    victims = []
    for row in rows:
        if row["kind"] == "hist":
            idx = [i for i, s in enumerate(row["steps"]) if s["e"]["wire"] and s["e"]["ack"] > 0]
            if idx:
                v = json.loads(json.dumps(row))
                v["steps"][idx[-1]]["e"]["ack"] -= 1
                victims.append(v)
                break
    for row in rows:
        if row["kind"] == "out" and row["steps"][0]["e"]["cb"] and row["steps"][0]["e"]["reply"] == "ids":
            v = json.loads(json.dumps(row))
            v["steps"][0]["e"]["cb"] = False
            v["steps"][0]["e"]["reply"] = "none"
            v["steps"][0]["e"]["err"] = True
            victims.append(v)
            break
    if len(victims) != 2:
        raise vlib.MachineryError("binding self-test: no behaviour to corrupt")
    total = 0
    for v in victims:
        path = os.path.join(vlib.scratch("selftest-"), "rows.ndjson")
        vlib.write_ndjson(path, [v])
        p = vlib.run_cmd([drv, path], timeout=300, env={"VERIF_SEED": chk.seed, "VERIF_TIER": chk.tier})
        n = sum(1 for l in p.stdout.splitlines() if l.startswith("{") and json.loads(l).get("t") == "disagree")
        if n == 0:
            raise vlib.MachineryError("binding self-test: a corrupted expectation (%s) was not noticed by the driver"
                                      % v["kind"])
        total += n
    chk.extra["binding_selftest"] = ("one expected wire ack lowered in one history and one raw-peer verdict "
                                     "flipped: driver reported %d disagreement(s)" % total)


def run(chk, replay=None):
    chk.rule = ("TxSubmission.tla is the acknowledgement window of the tx-submission inbound side (received, acked, "
                "ackNext; RequestTxIds sends ack = ackNext, a reply of k ids sets ackNext' = k, Done restarts the "
                "conversation with an empty window) composed with the outbound side's request check and its rule "
                "that 'stop' becomes Done only for a blocking request, with the count limit 65535 scaled to 3. TLC "
                "checks in every reachable state acked <= received, ackNext <= received - acked, every wire ack/req "
                "within 0..limit, out-of-range calls refused locally without a message, and Done only after a "
                "blocking request; it emits every call history up to the configured length, seeded pseudo-random "
                "longer histories, and every single wire request (blocking, ack, req in 0..limit+1) x application "
                "answer for the outbound side alone. The driver replays the histories on a real txsubmission.Server "
                "and Client over two real muxers and an in-memory pipe (counts mapped monotonically onto 0, 1, mid, "
                "65535, 65536, negative and huge ints) and compares after every call the result, whether a message "
                "was sent, the (blocking, ack, req) bytes that travelled, the client callback's arguments and the "
                "number of Done messages; the single requests are written as raw CBOR (counts up to 2^64-1) by a "
                "segment-level peer to a real Client. A case is one history / one wire request; all are non-trivial")
    chk.assumptions = [
        "the order-isomorphic map is exact because the rules only compare counts with the limit and copy them",
        "the inbound side's policy 'acknowledge exactly the previous reply' (DESIGN.md C24) is part of the specification; "
        "a smaller ack would also satisfy the property text",
        "a request that exceeds the limits is 'rejected' when the application never sees it, nothing is answered and the "
        "protocol instance reports an error (the uint16 message fields make the decoder do this)",
        "exhaustive histories have the lengths named in the configs; longer ones are a seeded pseudo-random sample",
        "replies of 65535 / 65536 ids are replayed in few histories (each costs about a second)",
    ]
    drv = vlib.go_build("c24")
    if replay:
        obj = json.load(open(replay))
        row = obj["row"]
        env = {"VERIF_SEED": obj["verif_seed"]} if "verif_seed" in obj else None
        if obj.get("rseed") is not None:
            row["rseed"] = obj["rseed"]
        if obj.get("rep") is not None:
            row["rep"] = obj["rep"]
        path = os.path.join(vlib.scratch("c24-replay-"), "rows.ndjson")
        vlib.write_ndjson(path, [row])
        vlib.run_driver(chk, drv, [path], timeout=600, env=env)
        return
    quick = chk.tier == "quick"
    cfgs = QUICK if quick else THOROUGH
    parts = _tlc_all(chk, cfgs, 240 if quick else 540, coverage=not quick)
    rows = [r for p in parts for r in p]   # the expensive (big reply) behaviours come first: spread over all shards
    chk.extra["behaviours_per_config"] = {c: len(p) for c, p in zip(cfgs, parts)}
    hist = [r for r in rows if r["kind"] == "hist"]
    steps = [s for r in hist for s in r["steps"]]
    chk.extra["behaviours"] = len(rows)
    chk.extra["calls_in_histories"] = len(steps)
    chk.extra["calls_by_expected_result"] = {k: sum(1 for s in steps if s["e"]["res"] == k)
                                             for k in ("ids", "refused", "stopped", "aborted", "txs")}
    chk.extra["replies_of_65535_or_65536_ids"] = sum(1 for s in steps if s["c"]["op"] == "ids" and s["e"]["res"] == "ids"
                                                     and s["c"]["ans"] >= r_limit(rows))
    _replay_all(chk, drv, rows, 4 if quick else 8, 600 if quick else 1500)
    if not quick:
        _binding_selftest(chk, drv, rows)
    chk.extra["invariants"] = INVS.split()
    chk.exhaustive = False
