"""C16 Mini-protocol state machines match the network specification (S2, TB + RP)."""
import concurrent.futures
import json
import os

import vlib

MODULE = "net/ProtoEquiv"


def tb_key(row, law):
    return "tb:proto=%s:src=%s:state=%s:ref=%s:%s" % (row["proto"], row["src"], row["state"], row["ref"], law)


def tb_desc(row, law):
    return ("%s, state map of the %s: in implementation state %s, reached together with state %s of the reference "
            "automaton (spec/net/MiniProtocols.tla), the two differ: %s"
            % (row["proto"], {"var": "exported StateMap variable"}.get(row["src"], "real " + row["src"] + " object"),
               row["state"], row["ref"], law))


def run_product(chk, tables, timeout=240, add=True):
    """TLC on the product of every dumped automaton with its reference automaton (ProtoEquiv.cfg).

    Same contract as tb_common.run_tb (TLC's verdict and the verdict rows must agree; a violated invariant is a
    code disagreement, anything else that stops TLC is a machinery failure), for a state space that is explored
    by Next: TLC then prints a behaviour with every violation."""
    cfg = "ProtoEquiv.cfg"
    r = vlib.run_tlc(MODULE, cfg=cfg, files=[tables], timeout=timeout, extra=["-continue"])
    if add:
        chk.add_tlc(cfg, r)
    errs = [l for l in r.out.splitlines() if l.startswith("Error:")]
    viol = [l for l in errs if "Invariant Equivalent is violated" in l]
    other = [l for l in errs if l not in viol and not l.startswith("Error: The behavior up to this point is")]
    if other or (r.error and not errs):
        raise vlib.MachineryError("TLC failed on %s/%s: %s" % (MODULE, cfg, other[0] if other else r.error))
    if "Model checking completed" not in r.out:
        raise vlib.MachineryError("TLC did not complete on %s/%s:\n%s" % (MODULE, cfg, r.out[-1500:]))
    path = os.path.join(r.dir, "verdicts.ndjson")
    if not os.path.exists(path):
        raise vlib.MachineryError("TLC wrote no verdicts.ndjson:\n%s" % r.out[-1500:])
    rows = vlib.read_ndjson(path)
    if r.distinct != len(rows):
        raise vlib.MachineryError("%s: %d product states explored but %d verdict rows" % (cfg, r.distinct, len(rows)))
    bad_rows = [row for row in rows if row["viol"]]
    if len(bad_rows) != len(viol):
        raise vlib.MachineryError("%s: TLC reports %d violating product states, the verdict rows %d"
                                  % (cfg, len(viol), len(bad_rows)))
    r.ok = not bad_rows
    if add:
        for row in bad_rows:
            for law in row["viol"]:
                chk.disagree(tb_key(row, law), tb_desc(row, law),
                             {"product_state": row, "violated_law": law, "what": tb_desc(row, law)})
    return r, rows


def product_self_test(chk, tables, base_rows):
    """Binding self-test: each corruption of the dumped automata must be rejected with the named law
    (in addition to what the uncorrupted dump already shows)."""
    base = json.load(open(tables))
    known = {(x["idx"], x["ref"], x["state"], l) for x in base_rows for l in x["viol"]}
    done = []
    for name, mutate, law in corruptions():
        t = json.loads(json.dumps(base))
        mutate(t)
        d = vlib.scratch("c16tb-")
        p = os.path.join(d, os.path.basename(tables))
        with open(p, "w") as f:
            json.dump(t, f)
        r, rows = run_product(chk, p, add=False)
        new = {l for x in rows for l in x["viol"] if (x["idx"], x["ref"], x["state"], l) not in known}
        if law not in new:
            raise vlib.MachineryError("binding self-test %r: corrupted automaton was not rejected with law %r (got %s)"
                                      % (name, law, sorted(new)))
        done.append("%s -> %s" % (name, law))
    chk.extra["binding_self_test"] = done


def corruptions():
    def auto(t, proto, src):
        return next(a for a in t["autos"] if a["proto"] == proto and a["src"] == src)

    def must_reply_awaits(t):
        auto(t, "chain-sync/ntn", "client")["trans"].append({"f": "MustReply", "l": "AwaitReply", "t": "MustReply"})

    def keepalive_agency(t):
        for s in auto(t, "keep-alive", "var")["states"]:
            if s["n"] == "Server":
                s["a"] = "client"

    def done_from_nonblocking(t):
        auto(t, "tx-submission", "server")["trans"].append({"f": "TxIdsNonBlocking", "l": "Done", "t": "Done"})

    def no_blocks_dropped(t):
        a = auto(t, "block-fetch", "var")
        a["trans"] = [x for x in a["trans"] if x["l"] != "NoBlocks"]

    def failure_rewired(t):
        for x in auto(t, "local-state-query", "client")["trans"]:
            if x["l"] == "Failure":
                x["t"] = "Acquired"

    def done_not_terminal(t):
        for s in auto(t, "peer-sharing", "server")["states"]:
            if s["n"] == "Done":
                s["a"] = "client"

    def votes_counter_off_by_one(t):
        for x in auto(t, "leios-votes", "client")["trans"]:
            if x["l"] == "VotesRequestNext/2":
                x["t"] = "Busy{tokens:3}"

    return [("chain-sync MustReply also permits AwaitReply", must_reply_awaits, "label=AwaitReply:extra"),
            ("keep-alive Server state given to the client", keepalive_agency, "agency:impl=client:ref=server"),
            ("tx-submission Done permitted after a non-blocking request", done_from_nonblocking, "label=Done:extra"),
            ("block-fetch NoBlocks removed", no_blocks_dropped, "label=NoBlocks:missing"),
            ("local-state-query Failure leads to Acquired", failure_rewired, "label=Query:extra"),
            ("peer-sharing Done not terminal", done_not_terminal, "terminal"),
            ("leios-votes request for 2 votes waits for 3", votes_counter_off_by_one, "label=Vote:extra")]


def replay_self_test(chk, drv, cases, labels):
    """Flip the expected verdict of a few rows: the driver must report each of them."""
    rows = vlib.read_ndjson(cases)
    flip = {"accept": "reject", "reject": "accept", "held": "accept"}
    picked = []
    for want in ("accept", "reject", "held"):
        for proto in ("chain-sync/ntn", "tx-submission"):
            r = next((x for x in rows if x["proto"] == proto and x["expect"] == want and len(x["seq"]) >= 2), None)
            if r is not None:
                picked.append(dict(r, expect=flip[want]))
    d = vlib.scratch("c16self-")
    p = os.path.join(d, "flipped.ndjson")
    vlib.write_ndjson(p, picked)
    sub = vlib.Check(chk.pid, chk.tier, chk.seed)
    sub.findings = []
    plain = sub.disagree
    sub.disagree = lambda key, desc, replay_obj=None: plain(key, desc, None)  # no replay files for fabricated rows
    vlib.run_driver(sub, drv, ["replay", p, labels], timeout=300, env={"C16_DECIDE_MS": "1500", "C16_FINAL_MS": "3000"},
                    count=False)
    # every flipped row runs in two roles
    if len(sub.violations) != 2 * len(picked):
        raise vlib.MachineryError("replay self-test: %d flipped verdicts x 2 roles, %d reported"
                                  % (len(picked), len(sub.violations)))
    chk.extra["replay_self_test"] = "%d flipped verdicts x 2 roles, all reported" % len(picked)


def run(chk, replay=None):
    chk.rule = ("TB: the state map, initial state, state context and codec of the REAL client and server object of "
                "every mini-protocol / mode / version (plus the exported StateMap variables) are read from the "
                "running code and unfolded on representative messages built with the package constructors "
                "(MatchFuncs evaluated: blocking bit, leios-votes counter 0..3); TLC explores the product of each "
                "dumped automaton with the independent reference automaton (MiniProtocols.tla) and requires equal "
                "agency, the same enabled labels and terminal iff terminal in every reachable product state "
                "(decides language equivalence for sequences of any length). RP: TLC enumerates every label sequence "
                "of length <= N over the reference automaton (one state each) and emits it extended by every label "
                "of the alphabet with the verdict accept / reject / held; each row is driven through the real engine "
                "(protocol.New with the real object's state map and codec) as client and as server against a raw "
                "segment-level peer writing the real encodings. A case is (row, role); all are distinct sequences.")
    chk.assumptions = [
        "reference automata of the nine network-specification protocols are my transcription of the specification "
        "(DESIGN Appendix D); handshake MsgReplyVersions (TCP simultaneous open, same encoding as ProposeVersions) "
        "and local-tx-monitor GetMeasures are not part of the reference",
        "the six Leios/DMQ automata are written from the package READMEs (limited independence); the "
        "message-submission README prints the union of V1 and V2 and additionally lists Done from "
        "MessageIdsNonBlocking, which no version permits: V1 is taken as the tx-submission2 shape, V2 as "
        "'no Init, only the server ends the protocol, from Idle'",
        "a message from the side that does not hold agency cannot be refused by an engine that supports "
        "pipelining: the stated behaviour is that it is neither acted on nor sent while agency is elsewhere "
        "(verdict 'held', observed for a grace period; a delay can only hide a deviation, never fabricate one)",
        "state timeouts are removed from the replayed state maps (C14 is about timeouts)",
        "one representative payload per label; leios-votes request counts bounded to 0..3",
    ]
    thorough = chk.tier != "quick"
    seq_cfg = "ProtoSeqsThorough.cfg" if thorough else "ProtoSeqs.cfg"
    with concurrent.futures.ThreadPoolExecutor(max_workers=2) as ex:
        f_ref = ex.submit(vlib.run_tlc, "net/MiniProtocols", cfg="MiniProtocols.cfg", timeout=240, coverage=thorough)
        f_seq = ex.submit(vlib.run_tlc, MODULE, cfg=seq_cfg, timeout=420)
        drv = vlib.go_build("c16")
        d = vlib.scratch("c16-")
        tables = os.path.join(d, "impl_automata.json")
        vlib.run_driver(chk, drv, ["dump", tables], timeout=120)
        # TB: a violated invariant here is a disagreement between the code's own state maps and the reference
        r, rows = run_product(chk, tables)
        r_ref, r_seq = f_ref.result(), f_seq.result()
    vlib.tlc_must_pass(r_ref, "MiniProtocols (well-formedness of the reference automata)")
    chk.add_tlc("MiniProtocols.cfg", r_ref)
    vlib.tlc_must_pass(r_seq, "ProtoEquiv/" + seq_cfg)
    chk.add_tlc(seq_cfg, r_seq)
    autos = json.load(open(tables))["autos"]
    chk.traces = len(autos)  # implementation automata dumped from the running code and validated by TLC
    chk.extra["c16_reference_states"] = r_ref.distinct
    chk.extra["c16_product_states"] = len(rows)
    chk.extra["c16_product_states_disagreeing"] = sum(1 for x in rows if x["viol"])
    chk.extra["c16_protocols"] = sorted({a["proto"] for a in autos})
    chk.extra["c16_reference_sequences"] = r_seq.distinct
    chk.sample({"product_rows": [x for x in rows if x["proto"] == "local-tx-monitor" and x["src"] == "var"]})
    if r_ref.coverage_zero:
        chk.extra["c16_reference_actions_never_taken"] = r_ref.coverage_zero
    cases = os.path.join(r_seq.dir, "cases16.ndjson")
    labels = os.path.join(r_seq.dir, "labels16.ndjson")
    if not (os.path.exists(cases) and os.path.exists(labels)):
        raise vlib.MachineryError("TLC wrote no cases16.ndjson / labels16.ndjson")
    vlib.run_driver(chk, drv, ["replay", cases, labels], timeout=900 if thorough else 420)
    if thorough:
        product_self_test(chk, tables, rows)
        replay_self_test(chk, drv, cases, labels)
    chk.exhaustive = False
