"""C15 No call hangs and nothing leaks, whatever the peer does (S1: ClientApi.tla, TB table from the source + RP)."""
import json
import os

import vlib

HAND = os.path.join(vlib.SPEC, "net", "ClientApiTable.json")
INVS = "TypeOK DoneAfterHandler CleanAfterDone MutexOwner TimerSound TimeoutEndsSilence".split()
PROPS = "CallReturns CloseCompletes SecondCallReturns ScriptPlayed SilenceTimesOut".split()


def build_table(drv, repo, notes):
    """hand-written structure (spec/net/ClientApiTable.json) + facts extracted from the source of `repo`."""
    p = vlib.run_cmd([drv, "extract", repo, HAND], timeout=120)
    if p.returncode != 0:
        raise vlib.MachineryError("c15 extract failed: %s" % p.stderr[-1500:])
    facts = json.loads(p.stdout)
    hand = json.load(open(HAND))
    if not facts["conn"]["found"]:
        raise vlib.MachineryError("Connection.shutdown not found in %s/connection.go" % repo)
    apis = []
    for api in hand["apis"]:
        ff = facts["files"].get(api["file"])
        fkey = "%s.%s" % (api["type"], api["func"])
        if ff is None or not ff["funcs"].get(fkey, {}).get("found"):
            raise vlib.MachineryError("table is stale: %s not found in %s" % (fkey, api["file"]))
        fn = ff["funcs"][fkey]
        waits = set()
        stages = []
        for k, st in enumerate(api["stages"]):
            bg = bool(st.get("bg"))
            sites = [s for s in fn["recvs"] if s["ch"] in st["wait"]]
            missing = [w for w in st["wait"] if not any(s["ch"] == w for s in sites)]
            if missing and not bg:
                raise vlib.MachineryError("table is stale: %s does not receive from %s (stage %d)" % (fkey, missing, k + 1))
            done = all(s["sel"] and s["done"] for s in sites)
            waits |= set(st["wait"])
            replies = []
            for rp in st["replies"]:
                hkey = "%s.%s" % (api["type"], rp["handler"])
                h = ff["funcs"].get(hkey)
                if h is None or not h["found"]:
                    raise vlib.MachineryError("table is stale: handler %s not found in %s" % (hkey, api["file"]))
                push = [{"ch": x["local"], "sel": False, "buf": True, "eff": x.get("eff", rp["eff"])}
                        for x in rp["push"] if isinstance(x, dict)]
                hand_fields = [x for x in rp["push"] if not isinstance(x, dict)]
                if rp.get("mode") == "callback":
                    got = []
                else:
                    got = [{"ch": s["ch"], "sel": bool(s["sel"] and s["done"]),
                            "buf": ff["chancap"].get(s["ch"], 0) != 0, "eff": rp["eff"]} for s in h["sends"]]
                    names = [g["ch"] for g in got]
                    if not set(hand_fields) <= set(names):
                        notes.append("%s: %s sends on %s, the hand-written structure expects %s" %
                                     (api["name"], rp["handler"], names, hand_fields))
                    elif sorted(names) != sorted(hand_fields):
                        extra = list(names)
                        for x in hand_fields:
                            if x in extra:
                                extra.remove(x)
                        # a send the hand-written structure does not know: harmless if buffered, else it blocks the handler
                        if any(not g["buf"] for g in got if g["ch"] in extra):
                            notes.append("%s: %s has blocking sends beyond the hand-written structure: %s" %
                                         (api["name"], rp["handler"], extra))
                replies.append({"name": rp["name"], "handler": rp["handler"], "eff": rp["eff"],
                                "unlock": bool(rp.get("unlock")), "restart": bool(rp.get("restart")),
                                "untimed": bool(rp.get("untimed")), "push": push + got})
            # state timeout of the state the stage waits in: the Config field the client's state map takes it from
            # ("=Const": a fixed one of the package's state map)
            tmo = st.get("timeout", "")
            fixed = tmo.startswith("=")
            if tmo and not fixed and tmo not in ff.get("timeout_fields", []):
                raise vlib.MachineryError("table is stale: %s does not take a state timeout from config.%s (it has: %s)" %
                                          (api["file"], tmo, ff.get("timeout_fields")))
            stages.append({"req": st["req"], "reqtype": st.get("reqtype", 0), "bg": bg, "wait": st["wait"],
                           "done": bool(done), "forbid": st["forbid"], "replies": replies,
                           "timed": bool(tmo), "tmopt": tmo.lstrip("="), "tmofixed": fixed})
        apis.append({"name": api["name"], "proto": api["proto"], "conn": api["conn"], "pid": api["pid"],
                     "file": api["file"], "type": api["type"], "func": api["func"],
                     "mutex": bool(api["mutex"]) and api["mutex"] in fn["locks"],
                     "hold": bool(api.get("hold")), "cleanup": bool(ff["cleanup"]),
                     "closed": sorted(set(ff["closed_on_done"]) & waits), "stages": stages})
    if not facts["engine"]["found"]:
        raise vlib.MachineryError("Protocol.Start not found in %s/protocol/protocol.go" % repo)
    ka = facts.get("keepalive") or {}
    if not ka.get("found"):
        raise vlib.MachineryError("keepalive.Client.startTimer not found in %s/protocol/keepalive/client.go" % repo)
    return {"apis": apis, "conn": {"waits": bool(facts["conn"]["waits"])},
            "engine": {"startfail_done": bool(facts["engine"]["startfail_done"])},
            "keepalive": {"arm_checks_done": bool(ka.get("arm_checks_done"))}}, facts


def predictions(r):
    """cases.ndjson + outcomes.ndjson (one row per terminal state) -> one row per case with the set of
    terminal observations per aspect."""
    cases_p = os.path.join(r.dir, "cases.ndjson")
    outs_p = os.path.join(r.dir, "outcomes.ndjson")
    for p in (cases_p, outs_p):
        if not os.path.exists(p) or os.path.getsize(p) == 0:
            raise vlib.MachineryError("ClientApi produced no %s" % os.path.basename(p))
    cases = {}
    for c in vlib.read_ndjson(cases_p):
        cases[(c["api"], tuple(c["script"]))] = {"ret": set(), "ret2": set(), "closeret": set(), "errclosed": set(),
                                                 "safe": set(), "alive": set(), "played": set(), "blocked": set(),
                                                 "tmo": set(), "n": 0}
    for row in vlib.read_ndjson(outs_p):
        if isinstance(row, str):
            row = json.loads(row)
        k = (row["api"], tuple(row["script"]))
        if k not in cases:
            raise vlib.MachineryError("terminal state of an unknown case: %s" % (k,))
        c = cases[k]
        c["n"] += 1
        for f in ("ret", "ret2", "closeret", "errclosed", "safe", "played", "tmo"):
            c[f].add(row[f])
        c["alive"].add(tuple(sorted(row["alive"])))
        if row["blocked"]:
            c["blocked"].add(row["blocked"])
    rows = []
    for i, k in enumerate(sorted(cases)):
        c = cases[k]
        if c["n"] == 0:
            raise vlib.MachineryError("case without terminal state: %s" % (k,))
        pred = {f: sorted(c[f]) for f in ("ret", "ret2", "closeret", "errclosed", "safe", "played", "tmo")}
        pred["alive"] = [list(a) for a in sorted(c["alive"])]
        pred["blocked"] = sorted(c["blocked"])
        row = {"api": k[0], "script": list(k[1]), "idx": i, "pred": pred}
        if len(pred["alive"]) > 1:
            row["repeat"] = 8        # a race in the model decides whether something is left behind: try it several times
        rows.append(row)
    return rows


# ---- life-cycle cases: server restart (ServerRestart.tla), client Stop (ClientStop.tla), keep-alive timer (KeepAliveTimer.tla)

LIFE = {
    # kind: (module, cases file, outcomes file, key fields, fields that are information only)
    "timer": ("KeepAliveTimer", "timer_cases.ndjson", "timer_outcomes.ndjson", ("script", "hold", "late"), ("played", "ticks")),
    "restart": ("ServerRestart", "restart_cases.ndjson", "restart_outcomes.ndjson", ("proto", "script", "timing"), ("c2",)),
    "stop": ("ClientStop", "stop_cases.ndjson", "stop_outcomes.ndjson", ("client", "scenario", "ending"), ()),
    "bulk": ("BulkSend", "bulk_cases.ndjson", "bulk_outcomes.ndjson", ("who", "reads", "close"), ()),
}
# BulkSend.tla's "who" -> the real endpoints that are in that situation
BULK_TARGETS = {"msg": ("txsubmission-client", "lsq-server"), "stream": ("blockfetch-server",)}
LOOPS = ("recv", "send", "read", "state")


def _freeze(v):
    return tuple(v) if isinstance(v, list) else v


def life_rows(kind, r):
    """cases + outcomes of one life-cycle module -> one row per case with the distinct observations TLC reached
    (at = "rest" / "end"); a case whose observations differ between behaviours is run several times."""
    mod, cases_f, outs_f, keyf, info = LIFE[kind]
    cases_p, outs_p = os.path.join(r.dir, cases_f), os.path.join(r.dir, outs_f)
    for p in (cases_p, outs_p):
        if not os.path.exists(p) or os.path.getsize(p) == 0:
            raise vlib.MachineryError("%s produced no %s" % (mod, os.path.basename(p)))
    cases = {}
    for c in vlib.read_ndjson(cases_p):
        cases[tuple(_freeze(c[f]) for f in keyf)] = (c, {})
    for row in vlib.read_ndjson(outs_p):
        if isinstance(row, str):
            row = json.loads(row)
        k = tuple(_freeze(row[f]) for f in keyf)
        if k not in cases:
            raise vlib.MachineryError("%s: observation of an unknown case: %s" % (mod, k))
        row.setdefault("at", "end")
        obs = {f: v for f, v in row.items() if f not in keyf and f not in info}
        if kind == "stop" and obs["at"] == "rest":
            # at rest the driver attributes the engine loops to the protocol under test (receiver pointer), nothing else
            obs["alive"] = sorted(x for x in obs["alive"] if x in LOOPS)
            obs.pop("up", None)
        for f, v in obs.items():
            if isinstance(v, list):
                obs[f] = sorted(v)
        cases[k][1][json.dumps(obs, sort_keys=True)] = obs
    rows = []
    for i, k in enumerate(sorted(cases, key=lambda k: json.dumps(k))):
        c, preds = cases[k]
        if not any(o["at"] == "end" for o in preds.values()):
            raise vlib.MachineryError("%s: case without terminal state: %s" % (mod, k))
        row = dict(c)
        row["idx"] = i
        row["pred"] = [preds[x] for x in sorted(preds)]
        ends = [o for o in row["pred"] if o["at"] == "end"]
        rests = [o for o in row["pred"] if o["at"] == "rest"]
        if len(ends) > 1 or len(rests) > 1:
            row["repeat"] = 3
        if kind == "bulk":
            for t in BULK_TARGETS[row["who"]]:
                rows.append(dict(row, target=t, idx=len(rows)))
        else:
            rows.append(row)
    return rows


def _tlc(chk, cfg, table_path, timeout, workers=1, coverage=False, add=True):
    r = vlib.run_tlc("net/ClientApi", cfg=cfg, files=[table_path], timeout=timeout, workers=workers,
                     deadlock=False, coverage=coverage)
    if add:
        chk.add_tlc(cfg, r)
    return r


def _liveness_on_extracted(chk, table_path, rows, unsafe):
    """TLC's own verdict on the liveness statements for the table as extracted must agree with the terminal states
    it emitted: violated exactly when some case has a terminal state with a hang / a leftover / an unsafe close."""
    rl = _tlc(chk, "ClientApiLive.cfg", table_path, timeout=1200, workers=4)
    expect_violation = bool(unsafe) or any(
        False in x["pred"]["ret"] or False in x["pred"]["ret2"] or x["pred"]["alive"] != [[]] for x in rows)
    viol = rl.violation
    if not viol and rl.error:
        first = rl.error.splitlines()[0]
        if "violated" in first and ("Temporal propert" in first or "Invariant" in first):
            viol = rl.error          # "Temporal properties X and Y were violated"
    if not rl.ok and not viol:
        raise vlib.MachineryError("ClientApiLive.cfg: %s" % rl.error)
    if rl.ok == expect_violation:
        raise vlib.MachineryError("ClientApiLive.cfg: TLC's verdict on the liveness statements (%s) does not agree with the "
                                  "terminal states it emitted (hang/leftover predicted: %s)" % (rl.ok, expect_violation))
    chk.extra["liveness_on_the_extracted_table"] = "hold" if rl.ok else viol.splitlines()[0]


def run(chk, replay=None):
    chk.rule = ("ClientApi.tla models a blocking API call (busy mutex, enqueue, wait on result channels with or without "
                "DoneChan), the handler running inside recvLoop (plain / select / buffered pushes), the engine's "
                "shutdown (recvLoop leaves only between messages, DoneChan closes after recvLoop and sendLoop, cleanup "
                "closes the result channels), and Connection.Close/shutdown with its two error forwarders, against "
                "every peer script of <= 3 steps over {correct reply, each permitted-but-wrong-kind reply, forbidden "
                "message, malformed bytes, surplus reply, truncated segment, stall, rejected segment, close, tmo = silence "
                "until the state timeout of the state waited in fires (TimeoutFires: stateLoop's timer, armed on entering "
                "a timed state, reports the error, stops the protocol and is forgotten; the stateLoop that keeps the fired "
                "timer - Design keeptimer - is rejected by TLC through StateLoopEnds)} and a user "
                "who closes, drains ErrorChan and calls once more. It is instantiated per call from a table whose "
                "structure is hand-written and whose deciding attributes (DoneChan case in the wait, channels closed "
                "on done, select/plain/buffered handler sends, mutex, waitGroup.Wait before close(errorChan)) are "
                "extracted from the source under test with go/ast. TLC emits every terminal state of every case; the "
                "prediction of a case is the set of terminal observations. Each case is replayed by a raw peer "
                "against the real client/server object inside a real ouroboros.Connection; call returned / hangs, "
                "second call, Close returned, ErrorChan closed and the leftover library goroutines must be among the "
                "predicted ones, and any hang or leftover is a violation of the property. A case is (call, script); "
                "all are non-trivial. Four more modules cover the life cycle, bound the same way (TLC emits the cases "
                "and every at-rest / terminal observation; the raw peer and the driver, with the engine's and the "
                "muxer's verif trace hooks as gates, force the schedules): ServerRestart.tla - chain-sync, block-fetch "
                "and tx-submission servers restarting on Done (old instance stops, unregisters, new one registers or "
                "fails to; peer scripts <= 3 steps over done/request/close with the steps after the first Done early, "
                "mid, late or free; a server call racing ProtocolInstance()); ClientStop.tla - Stop() of the eight "
                "clients (engine / lifecycle / soft / waiting kinds) while a call is blocked, twice, concurrently, after "
                "the peer closed, while a handler sits in a user callback; KeepAliveTimer.tla - the keep-alive client's "
                "timer chain (tick = check, enqueue, SendError, re-arm; clean-up goroutine; period free) over reply / "
                "bad reply / Stop / close in every order, with the schedule that holds a tick inside enqueueMessage "
                "until the clean-up has run; BulkSend.tla - a >= 1 MiB reply or stream stuck in sendLoop's hand-off "
                "behind a peer that stopped reading when the connection ends")
    chk.assumptions = [
        "state timeouts (C14) are configured out of the way (10 min), except in the scripts that end in tmo: there the "
        "timeout of the state the script's last stage waits in is set to 120..300 ms (by seed) through the public option "
        "the table names for the stage (checked against client.go: entry.Timeout = c.config.<field>), tx-submission's "
        "fixed 10 s ones are waited for (thorough tier), and the peer's silence lasts until the engine's trace hook "
        "reports Timeout (or Stop) for the protocol under test - no bound on when a timeout fires is asserted other than "
        "45 s, after which the case counts as not established (machinery failure: whether timeouts fire is C14's subject); "
        "chain-sync node-to-client and the blocking tx-submission request have no state timeout, MustReply's is not an "
        "option; a hang verdict needs: whole script written, "
        "connection ended, two dumps 1.5 s apart with the caller parked inside the library method and every library "
        "goroutine of the case parked and unchanged; an undecidable case is a machinery failure",
        "the structure half of the table (which request, which channel, which handler) is hand-written from client.go; "
        "the extractor sees sends along the path with the most sends and does not follow channels passed through "
        "other channels (chain-sync want*-channels are hand-stated as buffered)",
        "the user reads ErrorChan only after Close returned (capacity 0 or 10 by seed), the most adverse legal order",
        "block-fetch batches and chain-sync streams are covered in depth by C23/C21; here they are one generic instance",
        "life-cycle cases: the user reads ErrorChan all the time; 'at rest' = every library goroutine parked (time.Sleep "
        "is not rest) and unchanged over 150 ms, twice; old protocol instances are told apart by the *Protocol pointer "
        "in the trace events and in the goroutines' entry frames; the keep-alive timer is read through reflect/unsafe "
        "under the client's own mutex (three samples 0.6 s = 10 periods apart, then Stop()); chain-sync server restart "
        "runs node-to-client (the node-to-node CanAwait state has a fixed 10 s server-side timeout); chain-sync Stop "
        "with PipelineLimit 2 (F-C21-stopfull needs > 80)",
    ]
    drv = vlib.go_build("c15")
    notes = []
    table, facts = build_table(drv, vlib.REPO, notes)
    d = vlib.scratch("c15-")
    table_path = os.path.join(d, "c15_table.json")
    with open(table_path, "w") as f:
        json.dump(table, f, indent=1, sort_keys=True)
    if notes:
        chk.extra["table_drift"] = notes
    chk.extra["extracted_attributes"] = {
        a["name"]: {"mutex": a["mutex"], "closed_on_done": a["closed"],
                    "wait_selects_DoneChan": [s["done"] for s in a["stages"] if not s["bg"]]}
        for a in table["apis"]}
    chk.extra["shutdown_waits_for_forwarders"] = table["conn"]["waits"]
    chk.extra["start_closes_DoneChan_when_registration_fails"] = table["engine"]["startfail_done"]
    chk.extra["keepalive_startTimer_checks_DoneChan_before_arming"] = table["keepalive"]["arm_checks_done"]

    if replay:
        obj = json.load(open(replay))
        row = obj["row"]
        row["rseed"] = obj.get("rseed")
        if row.get("kind"):
            # a life-cycle case (server restart / client Stop / keep-alive timer / bulk send)
            if len([o for o in row.get("pred", []) if o.get("at") == "end"]) > 1:
                row["repeat"] = 12
            path = os.path.join(d, "replay_rows.ndjson")
            vlib.write_ndjson(path, [row])
            env = {"VERIF_SEED": obj["verif_seed"]} if "verif_seed" in obj else None
            vlib.run_driver(chk, drv, ["life", path], timeout=900, env=env)
            return
        if len(row.get("pred", {}).get("alive", [])) > 1:
            row["repeat"] = 24       # the recorded verdict depends on a race: give it some chances
        path = os.path.join(d, "replay_rows.ndjson")
        vlib.write_ndjson(path, [row])
        env = {"VERIF_SEED": obj["verif_seed"]} if "verif_seed" in obj else None
        vlib.run_driver(chk, drv, ["run", table_path, path], timeout=600, env=env)
        return

    quick = chk.tier == "quick"
    cfg = "ClientApi.cfg" if quick else "ClientApiThorough.cfg"
    rcfg = "ClientApiRepairedQuick.cfg" if quick else "ClientApiRepaired.cfg"
    # every TLC run of the tier at once (they are independent; the machine may be busy)
    jobs = {
        "api": lambda: _tlc(chk, cfg, table_path, timeout=300 if quick else 1200, workers=4 if quick else 8,
                            coverage=not quick, add=False),
        "api_repaired": lambda: _tlc(chk, rcfg, table_path, timeout=300 if quick else 1200, workers=4, add=False),
        # the stateLoop that keeps a fired timer: TLC has to reject it
        "api_keeptimer": lambda: _tlc(chk, "ClientApiKeepTimer.cfg", table_path, timeout=300, workers=1, add=False),
    }
    for kind, (mod, _, _, _, _) in LIFE.items():
        lcfg = mod + (".cfg" if quick or kind == "bulk" else "Thorough.cfg")
        jobs[kind] = (lambda mod=mod, lcfg=lcfg: vlib.run_tlc(
            "net/" + mod, cfg=lcfg, files=[table_path], timeout=300 if quick else 1500,
            workers=(2 if mod == "ServerRestart" else 1) if quick else 4, deadlock=False))
    if not quick:
        jobs["restart_live"] = lambda: vlib.run_tlc("net/ServerRestart", cfg="ServerRestartLive.cfg", files=[table_path],
                                                    timeout=1500, workers=4, deadlock=False)
    import concurrent.futures
    res, errs = {}, {}

    def one(name):
        try:
            res[name] = jobs[name]()
        except vlib.MachineryError as e:
            errs[name] = e
    with concurrent.futures.ThreadPoolExecutor(max_workers=len(jobs)) as ex:
        list(ex.map(one, list(jobs)))
    if errs:
        raise errs[sorted(errs)[0]]
    for name in jobs:
        chk.add_tlc({"api": cfg, "api_repaired": rcfg, "api_keeptimer": "ClientApiKeepTimer.cfg"}.get(name, name), res[name])
    r, rr = res["api"], res["api_repaired"]
    vlib.tlc_must_pass(r, cfg)
    if r.coverage_zero:
        chk.extra["spec_actions_never_taken"] = sorted(set(r.coverage_zero))
    rows = predictions(r)
    chk.extra["cases"] = len(rows)
    chk.extra["cases_where_the_model_predicts_a_hang"] = sum(
        1 for x in rows if False in x["pred"]["ret"] or False in x["pred"]["ret2"])
    chk.extra["cases_where_the_model_predicts_a_leftover"] = sum(1 for x in rows if x["pred"]["alive"] != [[]])
    chk.extra["cases_with_a_race_in_the_model"] = sum(1 for x in rows if len(x["pred"]["ret"]) > 1)
    tmo_rows = [x for x in rows if x["script"] and x["script"][-1] == "tmo"]
    chk.extra["cases_of_silence_beyond_a_state_timeout"] = len(tmo_rows)
    chk.extra["of_which_the_timeout_fires_in_every_behaviour_of_the_model"] = sum(1 for x in tmo_rows if x["pred"]["tmo"] == [True])
    chk.extra["calls_with_a_timed_waiting_state"] = {
        a["name"]: [(s["tmopt"] + (" (fixed)" if s["tmofixed"] else "")) if s["timed"] else "-" for s in a["stages"]]
        for a in table["apis"] if any(s["timed"] for s in a["stages"])}
    if not tmo_rows:
        raise vlib.MachineryError("ClientApi produced no case of silence beyond a state timeout")
    unsafe = [x for x in rows if False in x["pred"]["safe"]]
    if unsafe:
        # TB: the extracted shutdown closes ErrorChan under a forwarder that may still send on it
        chk.disagree("conn=shutdown:errchan=closed-under-forwarder",
                     "Connection.shutdown does not wait for the error forwarders before close(errorChan): the model "
                     "reaches a send on the closed channel (panic) in %d cases, e.g. %s / %s" %
                     (len(unsafe), unsafe[0]["api"], ".".join(unsafe[0]["script"]) or "silence"),
                     {"cases": [[x["api"], x["script"]] for x in unsafe[:20]]})

    # the repaired design satisfies the property's liveness statements (and the spec is not vacuous)
    vlib.tlc_must_pass(rr, rcfg)
    rk = res["api_keeptimer"]
    if rk.ok or "StateLoopEnds" not in (rk.violation or ""):
        raise vlib.MachineryError("ClientApiKeepTimer.cfg: TLC did not reject the stateLoop that keeps a fired timer "
                                  "(StateLoopEnds): %s" % (rk.violation or rk.error or "no error"))
    chk.extra["defective_design_tlc_must_reject: stateLoop keeps the fired state timer"] = "rejected: StateLoopEnds"

    # ---- the life-cycle modules: server restart on Done, client Stop(), keep-alive timer, bulk send
    life = []
    for kind, (mod, _, _, _, _) in LIFE.items():
        vlib.tlc_must_pass(res[kind], mod)
        krows = life_rows(kind, res[kind])
        chk.extra["life_cases_" + kind] = len(krows)
        chk.extra["life_cases_%s_with_more_than_one_predicted_outcome" % kind] = sum(1 for x in krows if x.get("repeat"))
        if kind == "timer":
            chk.extra["timer_cases_where_the_model_predicts_a_timer_left_armed_in_every_behaviour"] = sum(
                1 for x in krows if all(o["leak"] for o in x["pred"] if o["at"] == "end"))
            chk.extra["timer_cases_where_the_model_predicts_it_in_some_behaviour"] = sum(
                1 for x in krows if any(o["leak"] for o in x["pred"] if o["at"] == "end"))
        if quick:
            # the model is checked in full; the replay on the real code takes a seeded half of the racy cases
            pick = int(chk.seed) % 2
            racy = {x["idx"]: j for j, x in enumerate(y for y in krows if y.get("repeat"))}
            krows = [x for x in krows if not x.get("repeat") or racy[x["idx"]] % 2 == pick or kind == "bulk"]
            if kind == "bulk":
                krows = [x for x in krows if x["reads"] == 1 + pick % 2 or x["target"] == "txsubmission-client"]
            for x in krows:
                if x.get("repeat"):
                    x["repeat"] = 2
        life += krows
    chk.extra["life_cases_replayed"] = len(life)
    if "restart_live" in res:
        vlib.tlc_must_pass(res["restart_live"], "ServerRestartLive.cfg")
    if not quick:
        _liveness_on_extracted(chk, table_path, rows, unsafe)
        _defective_designs(chk, table_path)

    # ---- replay on the real code: both families at once
    shards = 8 if quick else 16
    sub = vlib.Check(chk.pid, chk.tier, chk.seed)
    sub.findings = chk.findings
    lerr = []

    def run_life():
        try:
            # longest first within a shard does not matter; interleave the kinds so that shards are even
            vlib.run_driver_sharded(sub, drv, ["life"], sorted(life, key=lambda x: (x["idx"], x["kind"])),
                                    shards=shards, timeout=500 if quick else 2400)
        except vlib.MachineryError as e:
            lerr.append(e)
    import threading
    th = threading.Thread(target=run_life)
    th.start()
    vlib.run_driver_sharded(chk, drv, ["run", table_path], rows, shards=shards, timeout=400 if quick else 1500)
    th.join()
    if lerr:
        raise lerr[0]
    chk.evaluations += sub.evaluations
    chk.nontrivial |= {"life/" + k for k in sub.nontrivial}
    chk.violations += sub.violations
    chk.known_hits += sub.known_hits
    for x in sub.samples:
        chk.sample(x, cap=9)
    for k, v in sub.extra.items():
        chk.extra[k] = v
    if not quick:
        _binding_selftest(chk, drv, table_path, rows)
        _life_selftest(chk, drv, life)
    chk.extra["invariants"] = INVS + ["ErrorChanSafe (repaired design; as an emitted observation on the extracted one)"] + LIFE_INVS
    chk.extra["liveness"] = PROPS + LIFE_PROPS
    chk.exhaustive = True


LIFE_INVS = ["ServerRestart: RegisteredRuns OneLive DoneAfterLoops CleanAfterDone TerminalGood RestGood",
             "ClientStop: MutexOwners DoneAfterHandler CloseAfterDone TerminalGood",
             "KeepAliveTimer: WireAfterStop DoneAfterLoops CleanAfterDone NoImmortalTimer (repaired design) TerminalGood",
             "BulkSend: DoneAfterLoops TerminalGood"]
LIFE_PROPS = ["ServerRestart (thorough): OldInstanceEnds CallsReturn CloseCompletes ScriptPlayed",
              "ClientStop (thorough): StopsAndCallsReturn CloseCompletes ScenarioPlayed",
              "KeepAliveTimer (thorough): CloseCompletes TimerQuiesces ScriptPlayed",
              "BulkSend: CloseCompletes EndsWithConnection ReachesBlocked"]


def _defective_designs(chk, table_path):
    """Designs TLC has to reject: the timer chain as the code has it (NoImmortalTimerAny), sendLoop's hand-off
    without the recvDoneChan case (NothingLeft)."""
    out = {}
    for mod, cfg, inv in (("KeepAliveTimer", "KeepAliveTimerAsCode.cfg", "NoImmortalTimerAny"),
                          ("BulkSend", "BulkSendNoRecvDone.cfg", "NothingLeft")):
        r = vlib.run_tlc("net/" + mod, cfg=cfg, files=[table_path], timeout=600, workers=2, deadlock=False)
        chk.add_tlc(cfg, r)
        if r.ok or inv not in (r.violation or ""):
            raise vlib.MachineryError("%s: TLC did not reject the defective design (%s): %s" % (cfg, inv, r.violation or r.error))
        out[cfg] = "rejected: " + inv
    chk.extra["defective_designs_tlc_must_reject"] = out


def _life_selftest(chk, drv, life):
    """Flip the prediction of one held-tick timer case ('no timer left' if the model predicts a timer left armed, as it
    did before the keep-alive client was repaired; 'timer left' if it predicts none) and of one bulk case to 'sendLoop
    left': the driver must object to both."""
    vt = next((x for x in life if x["kind"] == "timer" and x.get("hold") == "tick"), None)
    vb = next((x for x in life if x["kind"] == "bulk"), None)
    if vt is None or vb is None:
        raise vlib.MachineryError("life self-test: no held-tick timer case / no bulk case")
    v1 = json.loads(json.dumps(vt))
    leaks = all(o["leak"] for o in v1["pred"] if o["at"] == "end")
    for o in v1["pred"]:
        o["leak"] = not leaks
    want1 = "leak=timer:unpredicted" if leaks else "end:unpredicted:leak=false"
    v2 = json.loads(json.dumps(vb))
    for o in v2["pred"]:
        o["alive"] = ["send"]
    path = os.path.join(vlib.scratch("c15-lifeself-"), "rows.ndjson")
    vlib.write_ndjson(path, [v1, v2])
    p = vlib.run_cmd([drv, "life", path], timeout=600, env={"VERIF_SEED": chk.seed, "VERIF_TIER": chk.tier})
    keys = [json.loads(l).get("key", "") for l in p.stdout.splitlines()
            if l.startswith("{") and json.loads(l).get("t") == "disagree"]
    if not any(k.endswith(want1) for k in keys) or not any("end:unpredicted:alive=[]" in k for k in keys):
        raise vlib.MachineryError("life self-test: flipped predictions gave %s" % keys)
    chk.extra["life_binding_selftest"] = ("held-tick timer case predicted '%s' / bulk case predicted 'sendLoop "
                                          "left': driver objected to both" % ("no timer left" if leaks else "timer left"))


def _binding_selftest(chk, drv, table_path, rows):
    """Flip the prediction of one well-served case to 'never returns' and of one to 'leaves recvLoop behind':
    the driver must object to both."""
    victim = None
    for row in rows:
        if row["script"] == ["ok"] and row["pred"]["ret"] == [True] and row["pred"]["alive"] == [[]]:
            victim = json.loads(json.dumps(row))
            break
    if victim is None:
        raise vlib.MachineryError("binding self-test: no well-served case")
    v1 = json.loads(json.dumps(victim))
    v1["pred"]["ret"] = [False]
    v2 = json.loads(json.dumps(victim))
    v2["pred"]["alive"] = [["recv", "send", "state", "closer"]]
    path = os.path.join(vlib.scratch("c15-selftest-"), "rows.ndjson")
    vlib.write_ndjson(path, [v1, v2])
    p = vlib.run_cmd([drv, "run", table_path, path], timeout=300, env={"VERIF_SEED": chk.seed, "VERIF_TIER": chk.tier})
    keys = [json.loads(l).get("key", "") for l in p.stdout.splitlines()
            if l.startswith("{") and json.loads(l).get("t") == "disagree"]
    if len(keys) != 2 or not any("predicted-hang" in k for k in keys) or not any("predicted-leak" in k for k in keys):
        raise vlib.MachineryError("binding self-test: flipped predictions gave %s" % keys)
    chk.extra["binding_selftest"] = ("prediction of one well-served case flipped to 'hangs' / 'leaves goroutines': "
                                     "driver objected to both")
