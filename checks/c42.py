"""C42 The block pipeline applies each good block once, in order (S1)."""
import pipe_common


def run(chk, replay=None):
    pipe_common.run_pipe(
        chk, "C42",
        mc=["PipeSafetyQuick.cfg"],
        live=["PipeLiveStop.cfg"],
        sims=[("SimStop.cfg", 60, 300), ("SimMix.cfg", 60, 400), ("SimV.cfg", 30, 300)],
        thorough_mc=["PipelineFixed.cfg", "PipeSafetyV.cfg"])
