"""C23 Block-fetch returns the blocks that were asked for (S1/S2, replay of TLC response shapes)."""
import json
import os

import vlib

INVS = ("TypeOK GetBlockSound GetBlockExact RangeOrder RangeReturn BusyLock "
        "BatchDoneFuncIffConfigured ReleasedAtBatchDone BlockCallbackPresent").split()
PROPS = "Termination RangeCompletes EveryRequestSent".split()


def _merge(r):
    """cases.ndjson (every case once) + outcomes.ndjson (one row per terminal state TLC reached)
    -> one row per case carrying the set of outcomes the specification allows."""
    cases_p = os.path.join(r.dir, "cases.ndjson")
    outs_p = os.path.join(r.dir, "outcomes.ndjson")
    for p in (cases_p, outs_p):
        if not os.path.exists(p) or os.path.getsize(p) == 0:
            raise vlib.MachineryError("BlockFetchClient produced no %s" % os.path.basename(p))
    def ck(c):
        return json.dumps(c, sort_keys=True)
    cases = {}
    for c in vlib.read_ndjson(cases_p):
        cases[ck(c)] = dict(c, allowed=[])
    for row in vlib.read_ndjson(outs_p):
        if isinstance(row, str):
            row = json.loads(row)
        k = ck(row["case"])
        if k not in cases:
            raise vlib.MachineryError("outcome for an unknown case: %s" % k)
        o = {"res": row["res"], "deliv": row["deliv"], "bd": row["bd"]}
        if o not in cases[k]["allowed"]:
            cases[k]["allowed"].append(o)
    rows = []
    for i, k in enumerate(sorted(cases)):
        c = cases[k]
        if not c["allowed"]:
            # Termination holds, so every case has a terminal state: an empty set is a spec/emit bug
            raise vlib.MachineryError("case without terminal outcome: %s" % k)
        c["idx"] = i
        rows.append(c)
    return rows


def _expect_violation(chk, cfg, needle, what):
    r = vlib.run_tlc("net/BlockFetchClient", cfg=cfg, timeout=240, workers=1, deadlock=False)
    if r.ok or needle not in r.out:
        raise vlib.MachineryError("%s: TLC was expected to report '%s' for the as-read design (%s)" % (cfg, needle, r))
    chk.extra.setdefault("model_of_the_code_as_read", {})[cfg] = what


def _binding_selftest(chk, drv, rows):
    """Flip the expectation of one well-served GetBlock case (allow only 'err') and require the driver to object."""
    victim = None
    for row in rows:
        if row["mode"] == "block" and not row["close"] and row["follow"] == "none" \
                and not row["nob"] and row["blocks"] == [row["p"]]:
            victim = json.loads(json.dumps(row))
            victim["allowed"] = [{"res": [{"b": 0, "ret": "err"}], "deliv": [[]], "bd": [0]}]
            break
    if victim is None:
        raise vlib.MachineryError("binding self-test: no well-served GetBlock case")
    path = os.path.join(vlib.scratch("c23-selftest-"), "rows.ndjson")
    vlib.write_ndjson(path, [victim])
    p = vlib.run_cmd([drv, path], timeout=240, env={"VERIF_SEED": chk.seed, "VERIF_TIER": chk.tier})
    n = sum(1 for l in p.stdout.splitlines() if l.startswith("{") and json.loads(l).get("t") == "disagree")
    if n != 1:
        raise vlib.MachineryError("binding self-test: a flipped expectation gave %d disagreements (want 1)" % n)
    chk.extra["binding_selftest"] = "expected outcome of one well-served GetBlock case replaced by 'err': driver objected"


def run(chk, replay=None):
    chk.rule = ("BlockFetchClient.tla models GetBlock / GetBlockRange, the four handlers running inside recvLoop "
                "(rendezvous on the result channels), the busy lock with its tokens and watcher, and shutdown (DoneChan "
                "closes only after recvLoop left its loop) against a scripted server: NoBlocks or StartBatch.Block*.BatchDone "
                "for every batch over the block identities, optionally followed by a close, optionally followed by a "
                "well-served follow-up request for the other point, on a client in every callback configuration (which of "
                "BlockFunc / BlockRawFunc / BatchDoneFunc are set; quick: three configurations in which each callback is once "
                "set and once unset, thorough: all eight; a range batch carrying blocks needs a block callback). The callbacks "
                "only receive: comp[k] counts the BatchDone messages handled for call k whatever is configured, BatchDoneFunc is "
                "invoked iff configured, the busy lock is free once comp[k] = 1, and every request of a history without close is "
                "eventually sent. TLC checks in every state that GetBlock returns a block "
                "only if exactly that block was served (and, without a close, exactly then), that BlockFunc sees a prefix of "
                "the served blocks in order and BatchDoneFunc at most once and only after all of them, lock ownership, and as "
                "liveness that every call returns and every started range completes. It emits every case and every terminal "
                "outcome; the driver plays each case with real mainnet blocks from a raw segment-level peer against the real "
                "blockfetch.Client in a real engine over two muxers and requires the observed outcome (per call ok<id>/err/nil, "
                "delivered ids, BatchDone count) to be one of the case's terminal outcomes; callbacks are attributed to the "
                "request the peer received last, and the follow-up of a range request is issued either at once (it waits for "
                "the lock inside the library) or after the batch was seen completing. A call still parked inside the "
                "library 10 s after the request, with the whole script written, is a hang. A case is (call, point, shape, "
                "close, follow-up, callback configuration); all are non-trivial")
    chk.assumptions = [
        "state timeouts (C14) are configured out of the way (10 min) and not part of this property",
        "block identities 1..3 are mapped onto distinct mainnet fixture blocks (seeded permutation of the seven eras)",
        "after a close the engine may drop any suffix of the script (the model lets recvLoop exit between any two messages)",
        "with BlockFunc and BlockRawFunc both set the property does not say which one receives the blocks: either is accepted; "
        "a client without any block callback is only given range batches without blocks (the property is silent otherwise)",
        "a script the raw peer cannot finish because the connection went down under it (it closes only after its last "
        "script itself) is the client's doing and judged by the observed outcome; only a muxer that does not take a segment "
        "within 60 s is a machinery failure",
        "a hang verdict needs: every model outcome returns, the peer wrote its whole script, and two goroutine dumps 1.5 s "
        "apart show the calling goroutine parked inside the blockfetch client method",
    ]
    drv = vlib.go_build("c23")
    if replay:
        obj = json.load(open(replay))
        row = obj["row"]
        row["rseed"] = obj.get("rseed")
        path = os.path.join(vlib.scratch("c23-replay-"), "rows.ndjson")
        vlib.write_ndjson(path, [row])
        env = {"VERIF_SEED": obj["verif_seed"]} if "verif_seed" in obj else None
        vlib.run_driver(chk, drv, [path], timeout=300, env=env)
        return
    cfg = "BlockFetchClient.cfg" if chk.tier == "quick" else "BlockFetchClientThorough.cfg"
    r = vlib.run_tlc("net/BlockFetchClient", cfg=cfg, timeout=400 if chk.tier == "quick" else 900, workers=1, deadlock=False,
                     coverage=(chk.tier != "quick"))
    vlib.tlc_must_pass(r, cfg)
    chk.add_tlc(cfg, r)
    if r.coverage_zero:
        chk.extra["spec_actions_never_taken"] = sorted(set(r.coverage_zero))
    rows = _merge(r)
    path = os.path.join(r.dir, "rows.ndjson")
    vlib.write_ndjson(path, rows)
    chk.extra["cases"] = len(rows)
    chk.extra["cases_with_several_allowed_outcomes"] = sum(1 for x in rows if len(x["allowed"]) > 1)
    vlib.run_driver(chk, drv, [path], timeout=500 if chk.tier == "quick" else 1200)
    if chk.tier != "quick":
        _expect_violation(chk, "BlockFetchClientAsCodeHash.cfg", "Invariant GetBlockSound is violated",
                          "HashCheck=FALSE: GetBlockSound violated (F-C23a)")
        _expect_violation(chk, "BlockFetchClientAsCodeBlocking.cfg", "Temporal property Termination was violated",
                          "Collect=FALSE: Termination violated, handler parked on a channel nobody reads (F-C23b/c)")
        _binding_selftest(chk, drv, rows)
    chk.extra["invariants"] = INVS
    chk.extra["liveness"] = PROPS
    chk.exhaustive = True
