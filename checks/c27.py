"""C27 value is conserved by every accepted transaction (S3)."""
import json
import os
import re
import vlib

SPEC_DIR = os.path.join(vlib.SPEC, "ledger")


def _seeded_cfg(base, seed, eras=None, tag=""):
    """The .cfg of the tier with `Seed` set to VERIF_SEED (the sample of the grid
    is drawn inside the specification from that constant) and, optionally, `Eras`
    narrowed to one group (the thorough tier runs one TLC per group of eras)."""
    with open(os.path.join(SPEC_DIR, base)) as f:
        txt = f.read()
    txt, n = re.subn(r"Seed\s*=\s*\d+", "Seed = %d" % (abs(int(seed)) % 1000000), txt)
    if n != 1:
        raise vlib.MachineryError("cannot set Seed in %s" % base)
    if eras:
        txt, n = re.subn(r"Eras\s*=\s*\{[^}]*\}", "Eras = {%s}" % ", ".join('"%s"' % e for e in eras), txt)
        if n != 1:
            raise vlib.MachineryError("cannot set Eras in %s" % base)
    d = vlib.scratch("c27cfg-")
    name = base.replace(".cfg", "_seeded%s.cfg" % tag)
    path = os.path.join(d, name)
    with open(path, "w") as f:
        f.write(txt)
    return path, name


def _disagreements(drv, rows, chk, name):
    d = vlib.scratch("c27self-")
    path = os.path.join(d, name)
    vlib.write_ndjson(path, rows)
    p = vlib.run_cmd([drv, path], timeout=120, env={"VERIF_SEED": chk.seed, "VERIF_TIER": chk.tier})
    for line in p.stdout.splitlines():
        try:
            rec = json.loads(line)
        except ValueError:
            continue
        if rec.get("t") == "summary" and p.returncode == 0:
            return rec.get("disagreements", 0), rec.get("evaluations", 0)
    raise vlib.MachineryError("binding self-test: driver failed on %s:\n%s" % (name, p.stderr[-1500:]))


def _binding_selftest(drv, rows, chk):
    """The driver must react to the oracle: replay a few rows as emitted and
    with the expected verdict flipped; every evaluation has to disagree in
    exactly one of the two runs (whatever the code under test does), otherwise
    the replay binds nothing."""
    picked, seen = [], set()
    for r in rows:
        # per era one unflagged row and, where the era has the flag, one flagged is_valid = false
        k = (r["era"], bool(r.get("p2")))
        if k not in seen and len(r["certs"]) >= 1:
            seen.add(k)
            picked.append(dict(r))
    if not picked:
        raise vlib.MachineryError("binding self-test: no rows")
    d0, n0 = _disagreements(drv, picked, chk, "asis.ndjson")
    for r in picked:
        r["accept"] = not r["accept"]
    d1, n1 = _disagreements(drv, picked, chk, "flipped.ndjson")
    # the rule-list and baseline probes are the same in both runs; only the row replays flip
    # 3 scales + 1 CBOR round trip per row (none where the encoding cannot carry is_valid = false)
    replays = sum(4 if (not r.get("p2") or r.get("p2wire")) else 3 for r in picked)
    if n0 != n1 or d0 + d1 < replays or d1 == 0:
        raise vlib.MachineryError("binding self-test: %d replays, %d disagreements as emitted + %d flipped"
                                  % (replays, d0, d1))
    chk.extra["c27_binding_selftest"] = ("%d rows (%d flagged is_valid = false), %d replays: %d disagreements as "
                                         "emitted, %d with the expected verdict flipped"
                                         % (len(picked), sum(1 for r in picked if r.get("p2")), replays, d0, d1))


def run(chk, replay=None):
    chk.rule = ("reference consumed/produced (coin and asset) per era transcribed from the ledger specification in "
                "ValueConservation.tla; TLC draws, for every certificate multiset of the era (size <= MaxCerts), PerBag "
                "base transactions from the value grid with a hash of VERIF_SEED and emits each as drawn / balanced / "
                "balanced-then-off-by-one with the reference verdict, checking the balance algebra in every case; the "
                "driver builds the era's concrete transaction, mock ledger state (UTxO, registered pools) and protocol "
                "parameters, calls the era's UtxoValidateValueNotConservedUtxo at three scales (x1, x10^6, ~2^62), each with a different concrete identity of the model's two assets (names differing by a trailing 0x00, \"\" vs 0x00, prefix-related, 32 bytes differing in the last one, random, same name under two policy ids), plus "
                "once after a CBOR encode/decode round trip, and compares accept/reject with the TLC row; it also "
                "confirms the rule is in the era's UtxoValidationRules. The phase-2 flag is a coordinate of the case "
                "space (Alonzo..Dijkstra): one base transaction in FlagEvery (quick 8, thorough every one) is emitted a "
                "second time, in all its variants, with is_valid = false; the reference verdict does not read the flag "
                "(invariants FlagIrrelevant, FlagTwin), the driver builds the flagged transaction and expects the "
                "unflagged twin's answer (keys end in :p2invalid; round trip where the era's encoding carries the "
                "flag, i.e. not Dijkstra, whose flag comes from the block's list of invalid transactions). The ledger "
                "state's pool table is a coordinate too: the already registered pool has, in half of the base "
                "transactions, a retirement announced (PoolCurrentState returns the registration and an epoch); the "
                "reference charges a pool deposit iff the named pool is not in the registered set, whatever its "
                "retirement status (invariant PoolHistory; keys of those cases carry :poolold=retiring). A case is one (abstract transaction, scale, "
                "policy class); non-trivial when it has a certificate, asset, withdrawal, donation or proposal")
    chk.assumptions = [
        "a stake / DRep deregistration refunds the current keyDeposit / drepDeposit parameter (mock ledger state "
        "records no per-credential deposit)",
        "deposits carried by Conway certificates and proposals equal the protocol parameter (well-formed; other "
        "rules enforce it)",
        "deposit parameters are >= 1; Dijkstra direct deposits and sub-transactions are empty",
        "consumed = produced is a phase-1 precondition of the UTXO rule and is applied whatever is_valid says "
        "(Alonzo/Babbage/Conway ledger: only UTXOS branches on the flag); flagged replays are not crossed with the "
        "all-zero policy id classes (those stay with the unflagged cases, where the known deviation F-C27-b is keyed)",
        "the rule only adds, so replaying a small-integer case scaled by M is exact (homomorphic scaling)",
    ]
    drv = vlib.go_build("c27")

    if replay:
        with open(replay) as f:
            rp = json.load(f)
        row = rp.get("case")
        if not isinstance(row, dict):
            raise vlib.MachineryError("replay file has no case: %s" % replay)
        d = vlib.scratch("c27replay-")
        path = os.path.join(d, "case.ndjson")
        vlib.write_ndjson(path, [row])
        env = {"C27_FORCE_POL": "rand", "C27_FORCE_ZEROES": "0"}
        m = re.search(r":sc=1:pol=([a-z]+)(:zeroes)?", rp.get("key", ""))
        if m:
            env = {"C27_FORCE_POL": m.group(1), "C27_FORCE_ZEROES": "1" if m.group(2) else "0"}
        m = re.search(r":nm=([a-z0-9]+):sc=", rp.get("key", ""))
        if m and m.group(1) not in ("na", "unused"):
            env["C27_FORCE_NM"] = m.group(1)
        vlib.run_driver(chk, drv, [path], timeout=120, env=env)
        chk.exhaustive = False
        return

    base = "ValueConservation.cfg" if chk.tier == "quick" else "ValueConservationThorough.cfg"
    # quick: one TLC run over all eras; thorough: one run per group of eras, side by side
    groups = [None] if chk.tier == "quick" else [["conway"], ["dijkstra"], ["mary", "alonzo"], ["babbage"],
                                                 ["shelley", "allegra"]]   # largest first (3 at a time)

    def model_check(i):
        g = groups[i]
        path, name = _seeded_cfg(base, chk.seed, g, "_%d" % i)
        r = vlib.run_tlc("ledger/ValueConservation", cfg=name, files=[path],
                         timeout=240 if chk.tier == "quick" else 900, heap="3g",
                         env={"JAVA_TOOL_OPTIONS": "-XX:ParallelGCThreads=2"})
        return g, r

    from concurrent.futures import ThreadPoolExecutor
    with ThreadPoolExecutor(max_workers=3) as ex:
        results = list(ex.map(model_check, range(len(groups))))
    rows = []
    for g, r in results:
        what = "%s Seed=%s%s" % (base, chk.seed, " Eras=" + "+".join(g) if g else "")
        vlib.tlc_must_pass(r, what)
        chk.add_tlc(what, r)
        part = vlib.read_ndjson(os.path.join(r.dir, "cases.ndjson"))
        if len(part) != r.distinct or not part:
            # every emitted row must have been a checked state and vice versa
            raise vlib.MachineryError("%s: TLC checked %d cases but emitted %d rows" % (what, r.distinct, len(part)))
        rows += part
    cases = os.path.join(vlib.scratch("c27cases-"), "cases.ndjson")
    vlib.write_ndjson(cases, rows)
    eras = sorted({x["era"] for x in rows})
    chk.extra["c27_cases_per_era"] = {e: sum(1 for x in rows if x["era"] == e) for e in eras}
    chk.extra["c27_reference_accepts"] = sum(1 for x in rows if x["accept"])
    chk.extra["c27_cases_reregistering_a_retiring_pool_per_era"] = {
        e: sum(1 for x in rows if x["era"] == e and "poolreg_old" in x["certs"]
               and x.get("pools", {}).get("old") == "retiring") for e in eras}
    chk.extra["c27_flagged_is_valid_false_cases_per_era"] = {
        e: sum(1 for x in rows if x["era"] == e and x.get("p2")) for e in eras if any(
            x["era"] == e and x.get("p2") for x in rows)}
    chk.extra["c27_certificate_multisets"] = len({(x["era"], tuple(x["certs"])) for x in rows})
    _binding_selftest(drv, rows, chk)
    vlib.run_driver(chk, drv, [cases], timeout=600 if chk.tier == "quick" else 1800)
    chk.exhaustive = False
