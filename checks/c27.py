"""C27 value is conserved by every accepted transaction (S3)."""
import json
import os
import re
import vlib

SPEC_DIR = os.path.join(vlib.SPEC, "ledger")


def _seeded_cfg(base, seed):
    """The .cfg of the tier with `Seed` set to VERIF_SEED (the sample of the grid
    is drawn inside the specification from that constant)."""
    with open(os.path.join(SPEC_DIR, base)) as f:
        txt = f.read()
    txt, n = re.subn(r"Seed\s*=\s*\d+", "Seed = %d" % (abs(int(seed)) % 1000000), txt)
    if n != 1:
        raise vlib.MachineryError("cannot set Seed in %s" % base)
    d = vlib.scratch("c27cfg-")
    name = base.replace(".cfg", "_seeded.cfg")
    path = os.path.join(d, name)
    with open(path, "w") as f:
        f.write(txt)
    return path, name


def _binding_selftest(drv, rows, chk):
    """Flip the expected verdict of a few rows: the driver must object to every
    one of them, otherwise the replay binds nothing."""
    picked = [dict(r) for r in rows if len(r["certs"]) >= 1 and r["var"] in ("bal", "free")][:6]
    if not picked:
        raise vlib.MachineryError("binding self-test: no rows")
    for r in picked:
        r["accept"] = not r["accept"]
    d = vlib.scratch("c27self-")
    path = os.path.join(d, "flipped.ndjson")
    vlib.write_ndjson(path, picked)
    p = vlib.run_cmd([drv, path], timeout=120, env={"VERIF_SEED": chk.seed, "VERIF_TIER": chk.tier})
    dis = 0
    for line in p.stdout.splitlines():
        try:
            rec = json.loads(line)
        except ValueError:
            continue
        if rec.get("t") == "summary":
            dis = rec.get("disagreements", 0)
    # every flipped row is replayed at 3 scales + 1 round trip
    if p.returncode != 0 or dis < 4 * len(picked):
        raise vlib.MachineryError("binding self-test: %d flipped verdicts produced only %d disagreements"
                                  % (len(picked), dis))
    chk.extra["c27_binding_selftest"] = "%d flipped verdicts -> %d disagreements" % (len(picked), dis)


def run(chk, replay=None):
    chk.rule = ("reference consumed/produced (coin and asset) per era transcribed from the ledger specification in "
                "ValueConservation.tla; TLC draws, for every certificate multiset of the era (size <= MaxCerts), PerBag "
                "base transactions from the value grid with a hash of VERIF_SEED and emits each as drawn / balanced / "
                "balanced-then-off-by-one with the reference verdict, checking the balance algebra in every case; the "
                "driver builds the era's concrete transaction, mock ledger state (UTxO, registered pools) and protocol "
                "parameters, calls the era's UtxoValidateValueNotConservedUtxo at three scales (x1, x10^6, ~2^62) plus "
                "once after a CBOR encode/decode round trip, and compares accept/reject with the TLC row; it also "
                "confirms the rule is in the era's UtxoValidationRules. A case is one (abstract transaction, scale, "
                "policy class); non-trivial when it has a certificate, asset, withdrawal, donation or proposal")
    chk.assumptions = [
        "a stake / DRep deregistration refunds the current keyDeposit / drepDeposit parameter (mock ledger state "
        "records no per-credential deposit)",
        "deposits carried by Conway certificates and proposals equal the protocol parameter (well-formed; other "
        "rules enforce it)",
        "deposit parameters are >= 1; transactions are phase-2 valid; Dijkstra direct deposits and sub-transactions "
        "are empty",
        "the rule only adds, so replaying a small-integer case scaled by M is exact (homomorphic scaling)",
    ]
    drv = vlib.go_build("c27")

    if replay:
        with open(replay) as f:
            rp = json.load(f)
        row = rp.get("case")
        if not isinstance(row, dict):
            raise vlib.MachineryError("replay file has no case: %s" % replay)
        d = vlib.scratch("c27replay-")
        path = os.path.join(d, "case.ndjson")
        vlib.write_ndjson(path, [row])
        env = {"C27_FORCE_POL": "rand", "C27_FORCE_ZEROES": "0"}
        m = re.search(r":sc=1:pol=([a-z]+)(:zeroes)?", rp.get("key", ""))
        if m:
            env = {"C27_FORCE_POL": m.group(1), "C27_FORCE_ZEROES": "1" if m.group(2) else "0"}
        vlib.run_driver(chk, drv, [path], timeout=120, env=env)
        chk.exhaustive = False
        return

    base = "ValueConservation.cfg" if chk.tier == "quick" else "ValueConservationThorough.cfg"
    path, name = _seeded_cfg(base, chk.seed)
    r = vlib.run_tlc("ledger/ValueConservation", cfg=name, files=[path],
                     timeout=240 if chk.tier == "quick" else 1500, heap="4g",
                     env={"JAVA_TOOL_OPTIONS": "-XX:ParallelGCThreads=2"})
    vlib.tlc_must_pass(r, "ValueConservation (%s, seed %s)" % (base, chk.seed))
    chk.add_tlc("%s Seed=%s" % (base, chk.seed), r)
    cases = os.path.join(r.dir, "cases.ndjson")
    rows = vlib.read_ndjson(cases)
    if len(rows) != r.distinct or not rows:
        # every emitted row must have been a checked state and vice versa
        raise vlib.MachineryError("TLC checked %d cases but emitted %d rows" % (r.distinct, len(rows)))
    eras = sorted({x["era"] for x in rows})
    chk.extra["c27_cases_per_era"] = {e: sum(1 for x in rows if x["era"] == e) for e in eras}
    chk.extra["c27_reference_accepts"] = sum(1 for x in rows if x["accept"])
    chk.extra["c27_certificate_multisets"] = len({(x["era"], tuple(x["certs"])) for x in rows})
    _binding_selftest(drv, rows, chk)
    vlib.run_driver(chk, drv, [cases], timeout=600 if chk.tier == "quick" else 1800)
    chk.exhaustive = False
