"""C33 Reward withdrawals are gated on DRep delegation only at PV10 and PV11 (S3, RP)."""
import os

import vlib


def _self_test(chk, drv, cases_path):
    """Binding self-test: flip the spec verdict of two cases (one each way) and
    require the driver to report a disagreement."""
    rows = vlib.read_ndjson(cases_path)
    picks = []
    for r in rows:
        if (r["params"] == "conway" and r["valid"] and r["cap"] == "capable"
                and r["wds"] == [{"amt": 1, "deleg": False}] and r["pv"] in (9, 10)):
            want = "NotDelegated" if r["pv"] == 10 else "ok"
            if r["verdict"] != want:
                raise vlib.MachineryError("self-test: reference case pv=%d has verdict %r" % (r["pv"], r["verdict"]))
            q = dict(r)
            q["verdict"] = "ok" if r["pv"] == 10 else "NotDelegated"
            picks.append(q)
    if len(picks) != 2:
        raise vlib.MachineryError("self-test: reference cases (pv 9 / 10, one undelegated withdrawal) not found")
    d = vlib.scratch("c33-self-")
    p = os.path.join(d, "flipped.ndjson")
    vlib.write_ndjson(p, picks)
    probe = vlib.Check(chk.pid, chk.tier, chk.seed)
    vlib.run_driver(probe, drv, [p], timeout=60)
    keys = [k for k, _, _ in probe.violations] + [k for _, k, _ in probe.known_hits]
    for _, _, path in probe.violations:
        if path and os.path.exists(path):
            os.remove(path)
    hit = [k for k in keys if k.startswith("pv=10:valid=1:cap=capable:params=conway:wds=1u")
           or k.startswith("pv=9:valid=1:cap=capable:params=conway:wds=1u")]
    if not hit:
        raise vlib.MachineryError("self-test: flipped verdicts were not reported (got %r)" % keys)
    chk.extra["binding_self_test"] = "flipped verdicts of the PV9 / PV10 single undelegated withdrawal were rejected: %s" % sorted(hit)[:4]


def run(chk, replay=None):
    chk.rule = ("TLC enumerates protocol major versions 0..20 x valid flag x ledger-state capability x parameter "
                "type x every multiset of up to MaxW withdrawals (zero / non-zero amount, delegated or not) with "
                "the verdict of the gate (ok / NotDelegated / StateUnavailable, or free where the property is "
                "silent) and proves the 'exactly when' characterisations on it; every case becomes a signed, "
                "balanced Conway or Dijkstra transaction decoded from CBOR and is observed at "
                "conway.UtxoValidateWithdrawals, at every entry of the era's UtxoValidationRules and through "
                "common.VerifyTransaction over the whole list; a case is one spec row (plus its concrete variant: "
                "PV 20 also mapped to 2^31 and 2^32-1, all non-zero amounts 2^64-1, the other era's parameter "
                "type); non-trivial = the transaction has at least one withdrawal")
    chk.assumptions = [
        "all withdrawals come from registered key-hash reward accounts (the property's scope); script-hash "
        "accounts, unregistered accounts and delegation lookups that return an error are not exercised",
        "zero-amount withdrawals of undelegated accounts (or on a state without the capability) at PV10/PV11 are "
        "outside the property text: both behaviours accepted, observed behaviour in free_cases_observed",
        "a phase-2-invalid transaction (is_valid=false) is expected not to be rejected by the gate; for those "
        "VerifyTransaction may fail in other rules, only the gate errors are looked at",
        "'cannot answer' = the ledger state does not implement common.DRepDelegationState",
        "non-zero amounts are drawn from {1, 10^6, 2^61} (and 2^64-1 in the amt=max variant): the gate only "
        "distinguishes zero from non-zero",
    ]
    thorough = chk.tier != "quick"
    cfg = "WithdrawalsThorough.cfg" if thorough else "Withdrawals.cfg"
    r = vlib.run_tlc("ledger/Withdrawals", cfg=cfg, timeout=300, deadlock=False)
    vlib.tlc_must_pass(r, "Withdrawals")
    chk.add_tlc(cfg, r)
    cases = os.path.join(r.dir, "cases.ndjson")
    drv = vlib.go_build("c33")
    _self_test(chk, drv, cases)
    vlib.run_driver(chk, drv, [cases], timeout=600)
    chk.exhaustive = False
