"""C08 Transaction output values stay within the ledger's value range (S3)."""
import os
import vlib


def run(chk, replay=None):
    chk.rule = ("OutputValue.tla: a transaction is accepted iff value is conserved and every output quantity lies in "
                "0..2^64-1. TLC proves for every case Accept => in range, Accept => no token created (NoForge), that the "
                "PairForge shape (+q and -q, nothing consumed or minted) is balanced yet creates q, and refutes NoForge "
                "for the design without a range check (OutputValueDefect.cfg). It enumerates three families with the "
                "verdict: class (8 value classes x 4 CBOR integer forms x representatives x era/output form x position x "
                "companion asset x encoding shape of the multi-asset map: plain, or a repeated policy / asset-name key whose "
                "last occurrence wins, with the case quantity as both, the last or the discarded occurrence), pair (PairForge with magnitudes 1, 2^63, 2^64-1, 2^64 x integer forms x era/output "
                "form x order) and tx (every transaction with <= 2 token inputs and <= 3 outputs over the scaled domain, "
                "replayed under q -> q*(2^64-1)/MaxQ, which preserves sums and both range boundaries). Each case is "
                "written byte by byte, signed, decoded by the era decoder and run through the era's whole "
                "UtxoValidationRules list on a mock ledger state; accepted = decoded and all rules pass; the driver "
                "reports a disagreement iff the code accepts what the specification rejects. A case = one key "
                "(family, classes/quantities, forms, era, output form); all are non-trivial.")
    chk.assumptions = [
        "class and pair transactions conserve value by construction of the driver (big-number arithmetic TLC cannot do); the verdict itself is TLC's",
        "the canonical encodings of 1 and 2^64-1 and every in-range transaction of the scaled domain must be accepted, otherwise the run is a dead driver (exit 2), not a pass",
        "in-range quantities written as bignums (tag 2) may be accepted or rejected: the property is silent",
        "spent outputs in the mock ledger state always hold admissible quantities",
        "a repeated map key is decoded last-wins before Conway and may be rejected outright from Conway on; the verdict is about the surviving occurrence only; each pre-Conway era/output form must accept at least one repeated-key output with an in-range surviving quantity, else exit 2",
    ]
    drv = vlib.go_build("c08")
    if replay:
        vlib.run_driver(chk, drv, ["--replay", replay], timeout=120)
        chk.exhaustive = False
        return
    cfg = "OutputValue.cfg" if chk.tier == "quick" else "OutputValueThorough.cfg"
    r = vlib.run_tlc("ledger/OutputValue", cfg=cfg, timeout=420, workers="auto")
    vlib.tlc_must_pass(r, "OutputValue")
    chk.add_tlc(cfg, r)
    cases = os.path.join(r.dir, "cases.ndjson")
    meta = os.path.join(r.dir, "meta.ndjson")
    for p in (cases, meta):
        if not os.path.exists(p) or os.path.getsize(p) == 0:
            raise vlib.MachineryError("TLC did not emit %s" % os.path.basename(p))
    n = sum(1 for _ in open(cases))
    if n != r.distinct:
        raise vlib.MachineryError("emitted %d cases but TLC found %d states" % (n, r.distinct))
    # the design without the range check must be refuted by TLC (the spec is not vacuous)
    d = vlib.run_tlc("ledger/OutputValue", cfg="OutputValueDefect.cfg", timeout=120)
    if d.ok or not d.violation or "NoForge" not in d.violation:
        raise vlib.MachineryError("OutputValueDefect.cfg: TLC did not refute NoForge for the design without a range "
                                  "check: %s" % (d.violation or d.error or "no error"))
    chk.extra["defect_design_refuted_by_tlc"] = d.violation.splitlines()[0]
    vlib.run_driver(chk, drv, [cases, meta], timeout=480)
    # exhaustive over the model's finite case space; the concrete quantities are representatives
    chk.exhaustive = False
