"""C31 The script data hash binds redeemers, datums and cost models (S3, RP)."""
import os

import vlib

ERAS = ["alonzo", "babbage", "conway", "dijkstra"]


def _self_test(chk, drv, views, rules_path, flag_path):
    """Binding self-test: flip the verdict of one accepting and one rejecting
    row of the decision table, and of one accepting and one rejecting row of the
    flagged (is_valid = false) table, and require the replay to report all."""
    rows = vlib.read_ndjson(rules_path)
    picks, origs, want = [], [], set()
    for decl, flip, p2 in (("right", False, False), ("laterIndef", True, False), ("right", False, True), ("random", True, True)):
        for r in rows:
            if (r["L"] == [1] and r["shape"] == "short" and r["red"] and r["datf"] == "list" and r["decl"] == decl
                    and bool(r.get("p2")) == p2 and r.get("binding") == "both" and "babbage" in r["eras"]
                    and r.get("rform", "any") == "any" and r.get("denc", "any") == "any"):
                if r["accept"] == flip:
                    raise vlib.MachineryError("self-test: reference row %s has spec verdict %r" % (decl, r["accept"]))
                q = dict(r)
                q["accept"] = flip
                picks.append(q)
                origs.append(r)
                want.add("rule:era=babbage:L=1:shape=short:red=1:dat=list:decl=%s%s:at=func" % (decl, ":p2invalid" if p2 else ""))
                break
    if len(picks) != 4:
        raise vlib.MachineryError("self-test: reference rows (L = {V2}, short, redeemers and datums) not in the TLC output")
    d = vlib.scratch("c31-self-")
    reported = []
    for name, flipped in (("orig", False), ("flipped", True)):
        p = os.path.join(d, name + ".ndjson")
        vlib.write_ndjson(p, picks if flipped else origs)
        probe = vlib.Check(chk.pid, chk.tier, chk.seed)
        # the driver cross-checks the declared hash against the row's verdict itself;
        # VERIF_SELFTEST switches that guard off for the flipped rows
        vlib.run_driver(probe, drv, ["rules", "babbage", views, p, flag_path], timeout=120, env={"VERIF_SELFTEST": "1"})
        reported.append(set([k for k, _, _ in probe.violations] + [k for _, k, _ in probe.known_hits]))
        for _, _, path in probe.violations:     # the probe must not leave replay files behind
            if path and os.path.exists(path):
                os.remove(path)
    # flipping the expected verdict must flip whether the case is reported (if the
    # code is wrong on a reference row the unflipped row is reported instead, and
    # the main run below reports it as well)
    bad = [k for k in sorted(want) if (k in reported[0]) == (k in reported[1])]
    if bad:
        raise vlib.MachineryError("self-test: flipping the verdict did not change the report for %r (orig %r, flipped %r)"
                                  % (bad, sorted(reported[0]), sorted(reported[1])))
    chk.extra["binding_self_test"] = ("flipping the verdicts of (babbage, {V2}, right / indefinite-list hash; flagged is_valid = false, "
                                      "right / random hash) flips the report: %s"
                                      % sorted(want))


def run(chk, replay=None):
    chk.rule = ("TLC evaluates LangViews.tla: for every subset L of the Plutus languages and every cost-model shape the "
                "language-views value as an abstract CBOR token sequence (map head, keys in length-then-lexicographic order of "
                "their encodings, PlutusV1 key and value double-wrapped with an indefinite list, later languages a definite "
                "list), and the decision table of the rule over (redeemers?, datum field in {absent, present-empty list, "
                "present-empty tag-258 set, non-empty list, non-empty tag-258 set}, declared in {absent, right, 12 near-miss "
                "terms}) -- datum bytes enter the hash only when the collection is non-empty; it proves key-order totality, V1-last, wrapping, injectivity in L and that every near-miss differs "
                "exactly when it applies. The tokens are rendered by an independent writer and compared with "
                "common.EncodeLangViews; every table row is executed on real Alonzo..Dijkstra transactions with the declared "
                "hash computed (Blake2b-256) in the driver; a case is one (L, shape, values, models) view or one (era, L, shape, "
                "redeemers, datum field, declared) row; all are non-trivial. The phase-2 flag is a dimension of the table "
                "(field p2; quick: the flagged table for the shape in P2Shapes, thorough: for every shape): the specification "
                "proves that verdict, reason, right and declared term do not read it (FlagIrrelevant), and the flagged rows run on "
                "transactions with is_valid = false (Alonzo..Conway: third element of the envelope; Dijkstra: the flag the block "
                "decoder assigns to a member of invalid_transactions), keys ending in :p2invalid. The encoding shape of the script "
                "data is a dimension as well (fields rs = redeemer form list/map x canonical, non-minimal heads, indefinite "
                "container, map keys out of order, map with a repeated key (Conway, last wins); denc = datum encoding canonical, "
                "non-minimal, indefinite): the specification states that the right term holds the ORIGINAL bytes for every "
                "shape and that the hash of a re-encoding is accepted exactly when re-encoding changes nothing (OriginalBytes); "
                "those rows are built with exactly that shape on the wire and decoded by the era's decoder, keys carry "
                ":renc=<form>-<enc> / :denc=<enc> (quick: L = {V1}; thorough: every L, flagged as well)")
    chk.assumptions = [
        "Blake2b-256 is collision free (hashes are terms in the model; the driver checks that the real declared hash equals "
        "the real right hash exactly when the model accepts)",
        "the languages used are those of the Plutus scripts carried in the witness set (what the rule reads; reference "
        "scripts are not exercised)",
        "the redeemer bytes of a transaction without redeemers are the era's empty encoding (0x80 Alonzo/Babbage, 0xa0 "
        "Conway/Dijkstra), as in the reference ledger",
        "only accept/reject is judged; the error type is recorded (rule_rows_by_spec_reason_and_code_error)",
        "a flagged transaction without redeemers is rejected by the flag rule whatever this rule says: on those rows only "
        "'the table rejects => the rule rejects' is judged (binding = rejectOnly; over-rejections are counted in flagged_rows)",
        "a Dijkstra transaction cannot encode is_valid = false; the driver flags the decoded transaction with the assignment the "
        "Dijkstra block decoder makes for members of invalid_transactions (TxIsValid = false)",
        "whether a redeemer map with a repeated key decodes at all is not judged (Conway decodes it last-wins as the ledger "
        "does; the shape is not generated for Dijkstra, whose decoder refuses it); the re-encoding of such a map is the "
        "canonical encoding of the last-wins value",
        "the rule list is observed entry by entry (only the script-data-hash error types are read); the rest of the "
        "transaction is not made valid for the other rules",
    ]
    thorough = chk.tier != "quick"
    cfg = "LangViewsThorough.cfg" if thorough else "LangViews.cfg"
    r = vlib.run_tlc("ledger/LangViews", cfg=cfg, timeout=540 if thorough else 150,
                     workers="auto" if thorough else None, deadlock=False)
    vlib.tlc_must_pass(r, "LangViews")
    chk.add_tlc(cfg, r)
    views = os.path.join(r.dir, "views.ndjson")
    rules = os.path.join(r.dir, "rules.ndjson")
    flag = os.path.join(r.dir, "flag.ndjson")
    counts = {}
    for n, p in (("views", views), ("rules", rules)):
        with open(p) as f:
            counts[n] = sum(1 for line in f if line.strip())
    all_rows = vlib.read_ndjson(rules)
    counts["rules_flagged"] = sum(1 for row in all_rows if row.get("p2"))
    counts["rules_explicit_redeemer_shape"] = sum(1 for row in all_rows if row.get("rform", "any") != "any")
    counts["rules_explicit_datum_encoding"] = sum(1 for row in all_rows if row.get("denc", "any") != "any")
    if not counts["rules_flagged"] or not os.path.exists(flag):
        raise vlib.MachineryError("LangViews: no flagged (p2) rule rows / flag.ndjson in the TLC output")
    if not counts["rules_explicit_redeemer_shape"] or not counts["rules_explicit_datum_encoding"]:
        raise vlib.MachineryError("LangViews: no rule rows with an explicit encoding shape in the TLC output")
    chk.extra["tlc_rows"] = counts

    drv = vlib.go_build("c31")
    _self_test(chk, drv, views, rules, flag)
    vlib.run_driver(chk, drv, ["views", views], timeout=600)
    for era in ERAS:
        # one process per era: vh caps the disagreements of one process
        vlib.run_driver(chk, drv, ["rules", era, views, rules, flag], timeout=600)
    chk.exhaustive = False
