"""C26 Transactions are accepted only inside their validity interval (S3)."""
import os
import vlib


ERAS = ["shelley", "allegra", "mary", "alonzo", "babbage", "conway", "dijkstra"]
MAPS = ["zlow", "zhigh", "zmid", "zext", "zrnd", "nz"]


def run(chk, replay=None):
    chk.rule = ("TLC enumerates every (era, validity start, invalid-hereafter/ttl, slot) over an abstract time line "
                "0..T with each bound absent or present, proves monotonicity/convexity/boundary laws of the acceptance "
                "predicate for every case and emits its verdict; every case is replayed under six order-isomorphic maps "
                "onto uint64 (0, 1, 2^63, 2^64-1, adjacent triples, seeded) on a decoded, signed transaction of the era "
                "through common.VerifyTransaction with the era's whole UtxoValidationRules list; a case is one "
                "(era,start,end,slot,map) tuple, all are non-trivial (distinct keys)")
    chk.assumptions = [
        "the rule only compares slots, so a strictly increasing map of the abstract time line preserves the verdict",
        "Shelley transactions carry a ttl (mandatory in the Shelley CDDL); the absent-ttl Shelley case is not stated by the property and not checked",
        "the factory transaction is valid apart from its interval (checked per era at every concrete slot; an unsigned copy must be rejected)",
    ]
    drv = vlib.go_build("c26")
    if replay:
        vlib.run_driver(chk, drv, ["--replay", replay], timeout=120)
        chk.exhaustive = False
        return
    cfg = "Validity.cfg" if chk.tier == "quick" else "ValidityThorough.cfg"
    r = vlib.run_tlc("ledger/Validity", cfg=cfg, timeout=300, coverage=(chk.tier == "thorough"))
    vlib.tlc_must_pass(r, "Validity")
    chk.add_tlc(cfg, r)
    if chk.tier == "thorough":
        chk.extra["tlc_zero_coverage"] = r.coverage_zero
    cases = os.path.join(r.dir, "cases.ndjson")
    rows = vlib.read_ndjson(cases)
    if len(rows) != r.distinct:
        raise vlib.MachineryError("emitted %d cases but TLC found %d states" % (len(rows), r.distinct))
    # one driver run per (era, chunk of <= 180 cases, map): below the reporter's cap of 200 reported
    # disagreements, so that a known finding can never crowd out an unknown one
    by_why = {}
    top = str(max(x["slot"] for x in rows))
    for era in ERAS:
        mine = [x for x in rows if x["era"] == era]
        for ci in range(0, len(mine), 180):
            path = os.path.join(r.dir, "cases-%s-%d.ndjson" % (era, ci))
            vlib.write_ndjson(path, mine[ci:ci + 180])
            for m in MAPS:
                s = vlib.run_driver(chk, drv, [m, path, top], timeout=300)
                for k, v in (s.get("extra") or {}).get("c26_cases_by_spec_reason", {}).items():
                    by_why[k] = by_why.get(k, 0) + v
    chk.extra["c26_cases_by_spec_reason"] = by_why
    if chk.tier == "thorough":
        _binding_selftest(chk, drv, rows, r.dir)
    # exhaustive over the abstract grid; the concrete uint64 space is covered by representatives
    chk.exhaustive = False


def _binding_selftest(chk, drv, rows, d):
    """Flip the expected verdict of a few rows: the driver must then disagree (non-vacuous binding)."""
    picked = []
    for want in (("allegra", "start"), ("conway", "ok"), ("shelley", "ok"), ("shelley", "ttl")):
        for r in rows:
            if (r["era"], r["why"]) == want and r["start"] != 0 and r["end"] != 0:
                picked.append(dict(r, accept=not r["accept"], name="selftest:" + r["name"]))
                break
    path = os.path.join(d, "selftest.ndjson")
    vlib.write_ndjson(path, picked)
    probe = vlib.Check(chk.pid, chk.tier, chk.seed)
    probe.findings = []
    vlib.run_driver(probe, drv, ["all", path, str(max(x["slot"] for x in rows))], timeout=120)
    for _, _, rp in probe.violations:  # the probe's replay files are not findings
        if rp and os.path.exists(rp):
            os.remove(rp)
    n = len(picked) * 6
    if len(probe.violations) != n:
        raise vlib.MachineryError("binding self-test: %d flipped cases, %d rejected" % (n, len(probe.violations)))
    chk.extra["binding_selftest"] = "%d flipped verdicts, all rejected by the driver" % n
