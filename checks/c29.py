"""C29 Native scripts evaluate as the ledger defines them (S3)."""
import json
import os
import re
import vlib


def _pairs(r):
    """Join the static script rows (cases.ndjson) with the per-pair verdicts TLC wrote to its state dump."""
    rows = vlib.read_ndjson(os.path.join(r.dir, "cases.ndjson"))
    nctx = len(vlib.read_ndjson(os.path.join(r.dir, "ctx.ndjson")))
    for row in rows:
        row["v"] = [None] * nctx
        row["vf"] = [None] * nctx
        row["de"] = {}
        row["dr"] = {}
    cur = {}
    n = 0
    pat = re.compile(r'^/\\ (\w+) = (.*)$')

    def flush():
        nonlocal n
        if cur and int(cur["j"]) > 0:
            row = rows[int(cur["i"]) - 1]
            j = int(cur["j"])
            row["v"][j - 1] = 1 if cur["v"] == "TRUE" else 0
            row["vf"][j - 1] = 1 if cur["vf"] == "TRUE" else 0
            if cur["de"] != '"-"':
                row["de"][str(j)] = cur["de"].strip('"')
            if cur["dr"] != '"-"':
                row["dr"][str(j)] = cur["dr"].strip('"')
            n += 1

    with open(os.path.join(r.dir, "states.dump")) as f:
        for line in f:
            if line.startswith("State "):
                flush()
                cur = {}
                continue
            m = pat.match(line.rstrip("\n"))
            if m:
                cur[m.group(1)] = m.group(2)
    flush()
    if n != len(rows) * nctx or any(x is None for row in rows for x in row["v"] + row["vf"]):
        raise vlib.MachineryError("state dump has %d pairs, expected %d" % (n, len(rows) * nctx))
    if len(rows) + n != r.distinct:
        raise vlib.MachineryError("TLC reports %d states, dump+scripts give %d" % (r.distinct, len(rows) + n))
    return rows, nctx


def run(chk, replay=None):
    chk.rule = ("TLC enumerates every native script of depth <= 3 (all depth <= 2 scripts over 2 keys and the bound set, "
                "depth-3 scripts over representative sub-scripts) with every context (witness key set, validity start, "
                "invalid-hereafter, each absent or a point of an abstract time line), proves monotonicity in keys and in "
                "interval narrowing, threshold/empty-list/order laws and injectivity of the encoding, and records the "
                "verdict of each pair; every pair is replayed on scripts DECODED from bytes rendered from the spec's CBOR "
                "token sequence (minimal, non-minimal integer/list heads, indefinite lists) through NativeScript.Evaluate "
                "under five order-isomorphic maps onto uint64 and through the native-script rule of the Allegra, Conway and "
                "Dijkstra rule lists on signed transactions (all three for every pair of depth <= 2 scripts in the quick tier, otherwise "
                "one of the three in rotation; other eras, maps, and the whole rule list rule by rule on a "
                "sample; in the eras whose transactions carry the is_valid flag - Alonzo, Babbage, Conway in the envelope, "
                "Dijkstra through its block's invalid_transactions set - also on the transaction flagged is_valid = false, "
                "with the specification's verdict vf for the flagged transaction, which the invariant FlagIrrelevant proves "
                "equal to the unflagged one: every leaf script, every 2nd (Conway) / 8th (Dijkstra, Alonzo, Babbage) other "
                "script in the quick tier, every replayed script in the thorough tier); Hash() is compared with Blake2b-224(0x00 ++ bytes); a case is one (level, era, script, context, "
                "encoding, map) tuple, all non-trivial")
    chk.assumptions = [
        "scripts only compare slots, so a strictly increasing map of the abstract time line preserves the verdict",
        "Blake2b-224 is collision free (the model proves the encodings of distinct scripts distinct)",
        "NativeScript.Evaluate is called the way its documentation says (validityStart 0 / validityEnd MaxUint64 when not set)",
        "scripts whose own array head is non-minimal are replayed only once F-C03 (property C03) is repaired",
        "the factory's flagged transaction carries no redeemer: UtxoValidateIsValidFlag rejects it whatever its native script "
        "(checked in the driver's baseline) and is set aside when the whole rule list is run on flagged transactions",
        "a Dijkstra transaction is flagged the way its block decoder does it (TxIsValid = false on the decoded transaction)",
    ]
    drv = vlib.go_build("c29")
    if replay:
        vlib.run_driver(chk, drv, ["--replay", replay], timeout=120)
        chk.exhaustive = False
        return
    thorough = chk.tier == "thorough"
    cfg = "NativeScriptThorough.cfg" if thorough else "NativeScript.cfg"
    r = vlib.run_tlc("ledger/NativeScript", cfg=cfg, timeout=900 if thorough else 240, workers="auto",
                     deadlock=False, extra=["-dump", "states"], heap="8g" if thorough else None, coverage=thorough)
    vlib.tlc_must_pass(r, "NativeScript")
    chk.add_tlc(cfg, r)
    if thorough:
        chk.extra["tlc_zero_coverage"] = r.coverage_zero
    rows, nctx = _pairs(r)
    chk.extra["c29_scripts"] = len(rows)
    chk.extra["c29_contexts"] = nctx
    pairs = os.path.join(r.dir, "pairs.ndjson")
    vlib.write_ndjson(pairs, rows)
    ctx = os.path.join(r.dir, "ctx.ndjson")
    eras = os.path.join(r.dir, "eras.ndjson")
    chk.extra["c29_rule_eras"] = vlib.read_ndjson(eras)
    vlib.run_driver(chk, drv, [ctx, pairs, eras], timeout=900 if thorough else 300)
    if thorough:
        _binding_selftest(chk, drv, rows, ctx, eras, r.dir)
    chk.exhaustive = False


def _binding_selftest(chk, drv, rows, ctx, eras, d):
    """Flip one expected verdict (unflagged and flagged) of a few scripts: the driver must disagree on exactly those pairs."""
    picked = []
    for row in rows:
        if row["depth"] == 1 or len(picked) >= 4:
            continue
        if not row["de"] and not row["dr"] and 0 < sum(row["v"]) < len(row["v"]):
            r2 = json.loads(json.dumps(row))
            r2["v"][0] = 1 - r2["v"][0]
            r2["vf"][0] = 1 - r2["vf"][0]
            picked.append(r2)
    path = os.path.join(d, "selftest.ndjson")
    vlib.write_ndjson(path, picked)
    probe = vlib.Check(chk.pid, chk.tier, chk.seed)
    probe.findings = []
    vlib.run_driver(probe, drv, [ctx, path, eras], timeout=300)
    for _, _, rp in probe.violations:  # the probe's replay files are not findings
        if rp and os.path.exists(rp):
            os.remove(rp)
    if len(picked) == 0 or len(probe.violations) < len(picked) * 6:
        raise vlib.MachineryError("binding self-test: %d flipped scripts, %d disagreements" % (len(picked), len(probe.violations)))
    names = {p["name"] for p in picked}
    stray = [k for k, _, _ in probe.violations if not any(":s=%s:" % n in k for n in names)]
    if stray:
        raise vlib.MachineryError("binding self-test: disagreement outside the flipped scripts: %s" % stray[0])
    if not any(k.endswith(":p2invalid") for k, _, _ in probe.violations):
        raise vlib.MachineryError("binding self-test: no disagreement on a flagged (is_valid = false) pair")
    chk.extra["binding_selftest"] = "%d flipped verdicts, %d disagreements reported, all on the flipped pairs" % (
        len(picked), len(probe.violations))
