"""C05 address encodings are mutually consistent (S3)."""
import os
import vlib


def run(chk, replay=None):
    chk.rule = ("Address.tla states the address decision structure (header byte = type*16+network, payment/stake "
                "layout per type, exact length, mainnet whitelist of historical trailers, bech32 prefix, pointer = "
                "three minimal base-128 varints, Byron envelope). TLC checks on every case that the declarative "
                "Valid/ExpectedLen and the operational Parse agree, Serialize(Parse(w)) = w, Parse(Serialize(a)) = a, "
                "the prefix is total and separates stake-only/network, varints round trip; and emits every case "
                "(256 header bytes x length deviations x pointer triples; Byron decision table) with the expected "
                "verdict and fields. The driver materialises each with seeded random hashes and compares "
                "NewAddressFromBytes / Bytes / String / NewAddress (five prefixes + corrupted checksum) / Type / "
                "NetworkId / PaymentKeyHash / StakeKeyHash / payloads / CBOR / NewAddressFromParts with the row. "
                "A case = (header, deviation, pointer) or one Byron table row; all are non-trivial.")
    chk.assumptions = [
        "hash bytes are tokens in the model (the decision never inspects them); the driver uses random, all-zero and all-0xff hashes",
        "the eight whitelisted mainnet trailers are accepted on network 1 only (DESIGN C05: Valid includes the mainnet whitelist)",
        "pointer components are minimal varints below 2^24 (property domain); padded varints are outside the domain and not judged",
        "bech32/base58 character-level fidelity is exercised via btcutil, not specified; CRC32/base58 corruption is detected with probability 1-2^-32",
    ]
    cfg = "Address.cfg" if chk.tier == "quick" else "AddressThorough.cfg"
    r = vlib.run_tlc("ledger/Address", cfg=cfg, timeout=540)
    vlib.tlc_must_pass(r, "Address")
    chk.add_tlc(cfg, r)
    cases = os.path.join(r.dir, "cases.ndjson")
    byron = os.path.join(r.dir, "byron.ndjson")
    for p in (cases, byron):
        if not os.path.exists(p) or os.path.getsize(p) == 0:
            raise vlib.MachineryError("TLC did not emit %s" % os.path.basename(p))
    drv = vlib.go_build("c05")
    vlib.run_driver(chk, drv, [cases, byron], timeout=400)
    chk.exhaustive = False
