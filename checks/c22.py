"""C22 Chain-sync wrapping preserves block and header identity (S2, TB + RP)."""
import json
import os

import c36 as era
import tb_common
import vlib


def corruptions():
    def swap_both(t):
        # Allegra <-> Mary swapped consistently in both maps: still inverse, wrong era index on the wire
        for k in ("b2h", "h2b"):
            t[k][1][1], t[k][2][1] = t[k][2][1], t[k][1][1]

    def swap_h2b(t):
        t["h2b"][4][1], t["h2b"][5][1] = t["h2b"][5][1], t["h2b"][4][1]

    def drop(t):
        t["b2h"] = t["b2h"][:-1]

    return [("Allegra/Mary swapped in both maps", swap_both, "era_of_type"),
            ("two BlockHeaderToBlockTypeMap values swapped", swap_h2b, "round_trip"),
            ("Dijkstra missing from BlockToBlockHeaderTypeMap", drop, "b2h_total")]


def run(chk, replay=None):
    chk.rule = ("TB: ledger.BlockToBlockHeaderTypeMap / BlockHeaderToBlockTypeMap are dumped from the running code; "
                "TLC checks on every entry that H2B(B2H(T)) = T for every Shelley-or-later block type, that the maps "
                "are mutually inverse and that a block type travels under its own era index (one state per entry). "
                "RP: TLC emits per (block kind, ntc|ntn) what must arrive; every fixture block (and a re-encoded copy "
                "of each post-Byron one) is served (a) through NewMsgRollForwardNtC/NtN -> CBOR -> NewMsgFromCbor -> "
                "the client's header mapping and (b) through a real chainsync Server.RollForward -> real client "
                "callback over two ouroboros.Connection objects on net.Pipe, with the decoded and the raw callback; "
                "delivered type, bytes, wire era and header hash vs Block.Hash() are compared with the row. "
                "History dimension (ChainSyncServe.tla): the state machine of 2 and 3 serve operations with every "
                "interleaving of their construct / encode steps, invariant 'what is encoded for operation i is block "
                "i'; every complete history x same-era (block, one-byte sibling) and cross-era block assignment is "
                "executed step by step in one goroutine on NewMsgRollForwardNtC/NtN -> cbor.Encode -> client decode, "
                "and two connections are served concurrently through real engines (fixtures vs siblings); a "
                "disagreement is only a real type / byte / hash mismatch of what arrived. "
                "A case is (fixture, mode, path) or (history, operation); non-trivial when the property states the outcome.")
    chk.assumptions = [
        "state shared between message constructions (e.g. a sync.Pool scratch buffer) is only observable when the "
        "runtime hands the same memory back: the constructor-level histories run in one goroutine on one P without GC "
        "between steps to make that repeatable; the two-connection engine run is scheduler dependent; a missed reuse "
        "is a pass, never a violation",
        "Block.Hash() of the block decoded as its own type is the block's identity (cross-checked with "
        "Blake2b-256 of the header bytes for Shelley-or-later blocks)",
        "Byron blocks over node-to-node are not stated by the property (Server.RollForward refuses them, the "
        "message constructor with era 0 works): outcome recorded in c22_not_stated_by_property only",
    ]
    thorough = chk.tier != "quick"
    cfg = "EraDispatchC22Thorough.cfg" if thorough else "EraDispatchC22.cfg"
    drv = vlib.go_build("c36")
    d = vlib.scratch("c22-")
    tables = os.path.join(d, "era_tables.json")
    vlib.run_driver(chk, drv, ["dump", vlib.REPO, tables, "255" if thorough else "64"], timeout=120)
    t = json.load(open(tables))
    # the dump counts every table it writes; only the two maps belong to this property
    chk.evaluations = len(t["b2h"]) + len(t["h2b"])
    chk.nontrivial = {"b2h:%d" % p[0] for p in t["b2h"]} | {"h2b:%d" % p[0] for p in t["h2b"]}
    chk.samples = []
    chk.sample({"BlockToBlockHeaderTypeMap": t["b2h"], "BlockHeaderToBlockTypeMap": t["h2b"]})
    r, rows = tb_common.run_tb(
        chk, "ledger/EraDispatch", cfg, tables,
        lambda row, law: "tb:%s:%s" % (era.entry_name(t, row), law),
        lambda row, law: "the code's own table entry %s = %s violates law %s of spec/ledger/EraDispatch.tla"
                         % (era.entry_name(t, row), json.dumps(era.entry_value(t, row)), law))
    chk.traces = 1
    chk.extra["c22_table_entries_checked"] = len(rows)
    cases = os.path.join(r.dir, "cases22.ndjson")
    if not os.path.exists(cases):
        raise vlib.MachineryError("TLC wrote no cases22.ndjson")
    vlib.run_driver(chk, drv, ["replay22", vlib.REPO, cases], timeout=300)
    serve_histories(chk, drv, thorough)
    if thorough:
        tb_common.self_test(chk, "ledger/EraDispatch", cfg, tables, corruptions())
    chk.exhaustive = False


def serve_histories(chk, drv, thorough):
    """History dimension (spec/ledger/ChainSyncServe.tla): interleaved construct / encode steps of 2 and 3 serve
    operations; TLC checks OwnContent on the state machine and emits every complete history x block assignment."""
    files = []
    for c in ("ChainSyncServeThorough.cfg" if thorough else "ChainSyncServe.cfg",):
        r = vlib.run_tlc("ledger/ChainSyncServe", cfg=c, timeout=240)
        vlib.tlc_must_pass(r, c)
        chk.add_tlc(c, r)
        p = os.path.join(r.dir, "serve22.ndjson")
        if not os.path.exists(p):
            raise vlib.MachineryError("TLC wrote no serve22.ndjson (%s)" % c)
        files.append(p)
    if thorough:
        # vacuity: in the defective design (messages refer to a shared scratch area) TLC must find the
        # construct-construct-encode counterexample
        r = vlib.run_tlc("ledger/ChainSyncServe", cfg="ChainSyncServeDefect.cfg", timeout=120)
        if r.ok or not (r.violation and "OwnContent" in r.violation):
            raise vlib.MachineryError("ChainSyncServe: SharedScratch=TRUE does not violate OwnContent: %s"
                                      % (r.violation or r.error))
        chk.extra["c22_shared_scratch_counterexample_found_by_tlc"] = True
    vlib.run_driver(chk, drv, ["serve22", vlib.REPO] + files, timeout=600)
