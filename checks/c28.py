"""C28 spending requires a valid signature from the owner (S3, symbolic crypto, RP)."""
import json
import os
import re

import vlib


def _listed_twice(r):
    return any(r["dup"][f] for f in ("vw", "bw", "req"))


def _flag_env(flag_eras):
    return {"C28_FLAG_ERAS": ",".join(flag_eras)}


def _self_test(chk, drv, rows, flag_eras):
    """Binding self-test: flip the spec verdict of one accepted and one rejected
    case and require the replay to report both (guards against a vacuous
    replay, e.g. signatures over the wrong message rejecting everything)."""
    def find(pred):
        for r in rows:
            if pred(r):
                return dict(r)
        raise vlib.MachineryError("self-test: reference case not in the TLC output")
    acc = find(lambda r: r["accept"] and not r["silent"] and r["ins"] == [["key", 1]] and not r["coll"]
               and not r["req"] and r["vw"] == [[1, True]] and not r["bw"] and not r["p2"] and not _listed_twice(r))
    rej = find(lambda r: not r["accept"] and r["ins"] == [["byron", 2]] and not r["coll"] and not r["req"]
               and not r["vw"] and r["bw"] == [[2, 1, True]] and not r["p2"] and not _listed_twice(r))
    # the same two, flagged is_valid = false (replayed in the eras that have the flag only)
    ka, kr = _key(acc) + ":p2invalid", _key(rej) + ":p2invalid"
    facc = find(lambda r: r["p2"] and _key(r) == ka)
    frej = find(lambda r: r["p2"] and _key(r) == kr)
    # a required signer who never signed, next to one whose witness is listed twice
    kd = "ins=key1:coll=-:req=1+2:vw=1v*2:bw=-"
    drej = find(lambda r: r["dup"]["vw"] and not r["p2"] and _key(r) == kd)
    if drej["accept"]:
        raise vlib.MachineryError("self-test: the specification accepts %s" % kd)
    drej["accept"], drej["why"] = True, []
    for x in (acc, facc):
        x["accept"], x["why"] = False, ["input"]
    for x in (rej, frej):
        x["accept"], x["why"] = True, []
    d = vlib.scratch("c28-self-")
    p = os.path.join(d, "flipped.ndjson")
    vlib.write_ndjson(p, [acc, rej, facc, frej, drej])
    probe = vlib.Check(chk.pid, chk.tier, chk.seed)
    vlib.run_driver(probe, drv, [p, "mary,conway,dijkstra"], timeout=120, count=False, env=_flag_env(flag_eras))
    keys = {k for k, _, _ in probe.violations} | {k for _, k, _ in probe.known_hits}
    for _, _, path in probe.violations:
        if path and os.path.exists(path):
            os.remove(path)
    want = set()
    for era in ("mary", "conway", "dijkstra"):
        want.add("era=%s:ins=key1:coll=-:req=-:vw=1v:bw=-:code=accept:spec=reject" % era)
        want.add("era=%s:ins=byron2:coll=-:req=-:vw=-:bw=2.1v:code=reject:spec=accept" % era)
        if era == "conway":     # (Dijkstra's decoder refuses a tag-258 set with a repeated member)
            want.add("era=%s:%s:code=reject:spec=accept" % (era, kd))
        if era in flag_eras:
            want.add("era=%s:ins=key1:coll=-:req=-:vw=1v:bw=-:p2invalid:code=accept:spec=reject" % era)
            want.add("era=%s:ins=byron2:coll=-:req=-:vw=-:bw=2.1v:p2invalid:code=reject:spec=accept" % era)
    if any(":p2invalid" in k and k.startswith("era=mary:") for k in keys):
        raise vlib.MachineryError("self-test: a flagged case was replayed in mary, whose transactions have no is_valid flag")
    if not want <= keys:
        raise vlib.MachineryError("self-test: flipped verdicts were not all reported (missing %r)" % sorted(want - keys))
    chk.extra["binding_self_test"] = ("the replay rejected the flipped verdicts of (input key1 witnessed by key1) and "
                                      "(Byron input of key 2 with the bootstrap witness of key 2 under other "
                                      "chain code / attributes) in mary, conway and dijkstra, and of the same two "
                                      "flagged is_valid = false in conway (envelope) and dijkstra (block), and of (required signers 1 "
                                      "and 2, the witness of 1 listed twice) in conway")


def run(chk, replay=None):
    chk.rule = ("Witness.tla: keys {1,2,3} (1,2 own outputs, 3 is a stranger), outputs locked by a key hash, a Byron "
                "root or a script, collateral outputs, required signers, vkey witnesses (key, sigValid), bootstrap "
                "witnesses (key, chain-code/attributes variant, sigValid); Accept <=> all supplied signatures valid "
                "/\\ owners(inputs u collateral) witnessed /\\ required witnessed. TLC enumerates every combination "
                "within the bounds of the .cfg, plus an ordered slice (2-3 inputs of mixed lock kinds as a sequence, every order, "
                "every subset of the owners' witnesses: the driver picks output references that sort in that order), and proves on each the property statement read off Accept, "
                "monotonicity in witnesses, antitonicity in obligations, one-bad-signature-rejects, owner-needed, "
                "witness kinds do not mix, script inputs neutral, input order irrelevant, phase-2 flag irrelevant "
                "(cases with p2 = TRUE are the same transactions flagged is_valid = false: all of them in the thorough tier, "
                "in the quick tier every obligation with witnesses of one kind at a time; replayed in Alonzo, Babbage, Conway "
                "with the envelope's flag false and in Dijkstra, whose envelope cannot say so, flagged the way block decoding "
                "flags the members of invalid_transactions; key suffix :p2invalid), multiplicity irrelevant (the mult slice: "
                "2 and more distinct inputs / collateral outputs / required signers, every subset of the owners' valid witnesses, "
                "and in each of the three lists at most one element listed 2..MaxMult times, written as the same bytes again: "
                "key element suffix *n; the verdict is a function of the sets, and the slice provably separates the rule from "
                "counting listed witnesses and from one-witness-per-listed-signer). Every case becomes a real transaction of each era "
                "(pre-Alonzo eras: the cases without collateral / required signers) with real ed25519 keys, real "
                "Byron addresses (root derived by the driver), invalid signature = one flipped bit / other key / "
                "other message, judged by the signature entries of the era's UtxoValidationRules. A case = (era, "
                "locks, collateral, required, witnesses); non-trivial = anything but a lone script input without "
                "witnesses.")
    chk.assumptions = [
        "ed25519 is unforgeable and Blake2b-224 / SHA3-256 are collision free (keys, hashes and roots are injective terms in the model)",
        "the property is an implication: code that rejects a Byron-locked collateral output witnessed by a bootstrap "
        "witness does not violate it (counted in property_silent_byron_collateral_with_bootstrap_witness_rejected); "
        "every other case must agree with the specification in both directions",
        "required signers are the required_signers field (Alonzo and later); withdrawals are not generated",
        "key addresses take a seeded shape per owner (enterprise / base key-key / base key-script / pointer); Conway and "
        "Dijkstra cases write their sets with tag 258 in half of the cases; witness order is rotated by the seed",
        "a script-locked input puts no obligation on signature validation (script evaluation is another property)",
        "the witness sets and the required signers are lists on the wire; a transaction that lists an element more than "
        "once is judged by the sets (a decoder that refuses such a transaction accepts nothing: counted in "
        "element_listed_more_than_once_refused_by_the_decoder_per_era, not a disagreement)",
        "witnesses and signatures are a phase-1 check (UTXOW): a transaction flagged is_valid = false is accepted by "
        "signature validation exactly when the same transaction unflagged is (FlagIrrelevant); the flagged transactions "
        "carry no redeemers, which the signature rules do not read",
    ]
    cfg = "Witness.cfg" if chk.tier == "quick" else "WitnessThorough.cfg"
    r = vlib.run_tlc("ledger/Witness", cfg=cfg, timeout=300 if chk.tier == "quick" else 1500, workers="auto", deadlock=False,
                     heap=None if chk.tier == "quick" else "6g")
    vlib.tlc_must_pass(r, "Witness")
    chk.add_tlc(cfg, r)
    rows, flag_eras = _rows_of(r)
    chk.extra["flagged_cases_in_the_specification"] = sum(1 for x in rows if x["p2"])
    chk.extra["cases_with_an_element_listed_more_than_once_in_the_specification"] = \
        sum(1 for x in rows if _listed_twice(x))
    cases = os.path.join(r.dir, "cases.ndjson")
    vlib.write_ndjson(cases, rows)
    drv = vlib.go_build("c28")
    if replay:
        rp = vlib.read_ndjson(replay) if replay.endswith(".ndjson") else None
        if rp is None:
            with open(replay) as f:
                obj = json.load(f)
            want = obj.get("case")
            rows = [x for x in rows if _key(x) == want]
            if not rows:
                raise vlib.MachineryError("replay case %r is not in the TLC output" % want)
            d = vlib.scratch("c28-replay-")
            p = os.path.join(d, "one.ndjson")
            vlib.write_ndjson(p, rows)
            vlib.run_driver(chk, drv, [p, obj.get("era", "")], timeout=120, env=_flag_env(flag_eras))
            return
    vlib.run_driver(chk, drv, [cases], timeout=300 if chk.tier == "quick" else 2400, env=_flag_env(flag_eras))
    if not chk.violations:
        # (with disagreements on the table the replay is evidently not vacuous,
        # and the reference cases may be the very ones the code gets wrong)
        _self_test(chk, drv, rows, flag_eras)
    # exhaustive over the model's finite case space; the bounds are in the .cfg
    chk.exhaustive = False


_ROW = re.compile(r'^<<"ROW", (".*")>>\s*$')
_NUM = re.compile(r'^<<"NUMCASES", (\d+)>>\s*$')
_NUMF = re.compile(r'^<<"NUMFLAGGED", (\d+)>>\s*$')
_NUMM = re.compile(r'^<<"NUMMULT", (\d+)>>\s*$')
_FE = re.compile(r'^<<"FLAGERAS", (".*")>>\s*$')


def _rows_of(r):
    """The cases TLC printed (one <<"ROW", json>> line per complete case), in a
    canonical order (TLC's workers print in any order)."""
    rows, num, numf, numm, flag_eras = {}, None, None, None, None
    for l in r.out.splitlines():
        m = _ROW.match(l)
        if m:
            row = json.loads(json.loads(m.group(1)))
            rows[_key(row)] = row
            continue
        m = _NUM.match(l)
        if m:
            num = int(m.group(1))
        m = _NUMF.match(l)
        if m:
            numf = int(m.group(1))
        m = _NUMM.match(l)
        if m:
            numm = int(m.group(1))
        m = _FE.match(l)
        if m:
            flag_eras = sorted(json.loads(json.loads(m.group(1))))
    if num is None or len(rows) != num:
        raise vlib.MachineryError("TLC printed %d distinct cases, the specification has %r" % (len(rows), num))
    flagged = sum(1 for x in rows.values() if x["p2"])
    if not flag_eras or numf is None or flagged != numf or flagged == 0:
        raise vlib.MachineryError("TLC printed %d flagged cases for the eras %r, the specification has %r"
                                  % (flagged, flag_eras, numf))
    listed = sum(1 for x in rows.values() if _listed_twice(x))
    if not numm or listed == 0 or listed > numm:
        raise vlib.MachineryError("TLC printed %d cases with a repeated element, the multiplicity slice has %r cases"
                                  % (listed, numm))
    return [rows[k] for k in sorted(rows)], flag_eras


def _key(r):
    def lk(l):
        return "script" if l[0] == "script" else "%s%d" % (l[0], l[1])

    def j(xs):
        return "+".join(xs) if xs else "-"
    ins = sorted(lk(l) for l in r["ins"])
    if r.get("ord"):
        ins = [">".join(lk(l) for l in r["ord"])]
    coll = sorted(lk(l) for l in r["coll"])
    dup = r.get("dup") or {}
    tv = {(d[0], d[1]): d[2] for d in dup.get("vw", [])}
    tb = {(d[0], d[1], d[2]): d[3] for d in dup.get("bw", [])}
    tr = {d[0]: d[1] for d in dup.get("req", [])}

    def star(n):
        return "*%d" % n if n and n > 1 else ""
    req = [str(k) + star(tr.get(k)) for k in sorted(r["req"])]
    vw = ["%d%s" % (w[0], "v" if w[1] else "x") + star(tv.get((w[0], w[1])))
          for w in sorted(r["vw"], key=lambda w: (w[0], not w[1]))]
    bw = ["%d.%d%s" % (w[0], w[1], "v" if w[2] else "x") + star(tb.get((w[0], w[1], w[2])))
          for w in sorted(r["bw"], key=lambda w: (w[0], w[1], not w[2]))]
    return "ins=%s:coll=%s:req=%s:vw=%s:bw=%s%s" % (j(ins), j(coll), j(req), j(vw), j(bw),
                                                    ":p2invalid" if r.get("p2") else "")
