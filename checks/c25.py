"""C25 Local request/response calls get their own answers (S1, replay of TLC behaviours)."""
import json
import os
import re
from concurrent.futures import ThreadPoolExecutor

import vlib

INVS = "TypeOK OwnAnswer MutexExcl QueryInSession OutShape RelLegal ErrOnlyWhenDead ErrSuffix OpaqueOutcome".split()


def _rows(r, what):
    p = os.path.join(r.dir, "rows.ndjson")
    if not os.path.exists(p) or os.path.getsize(p) == 0:
        raise vlib.MachineryError("ReqResp/%s produced no behaviours" % what)
    rows = []
    for x in vlib.read_ndjson(p):
        rows.append(json.loads(x) if isinstance(x, str) else x)
    return rows


def _tlc_all(chk, jobs, timeout):
    """jobs: (cfg, kwargs, expect) run concurrently in separate JVMs; expect is None (must pass) or a text
    TLC must report (configs that model the code as read)."""
    def one(j):
        cfg, kw, _ = j
        kw = dict(kw)
        workers = kw.pop("workers", 1)
        return vlib.run_tlc("net/ReqResp", cfg=cfg, timeout=timeout, workers=workers, deadlock=False, **kw)
    with ThreadPoolExecutor(max_workers=len(jobs)) as ex:
        results = list(ex.map(one, jobs))
    out = {}
    for (cfg, kw, expect), r in zip(jobs, results):
        if expect:
            if r.ok or expect not in r.out:
                raise vlib.MachineryError("%s: TLC was expected to report '%s' (%s)" % (cfg, expect, r))
            chk.extra.setdefault("model_of_the_code_as_read", {})[cfg] = EXPECTED_VIOLATIONS.get(cfg, expect)
            continue
        vlib.tlc_must_pass(r, "ReqResp/" + cfg)
        if kw.get("simulate"):
            m = re.search(r"The number of states generated: (\d+)", r.out)
            if m:
                r.generated = int(m.group(1))
                r.distinct = r.distinct or r.generated
        chk.add_tlc(cfg, r)
        out[cfg] = r
    return out


EXPECTED_VIOLATIONS = {
    "ReqRespNoMutex.cfg": "Mutex=FALSE, two concurrent callers: OwnAnswer violated, the replies are swapped (F-C25)",
    "ReqRespDupOpaque.cfg": "model of a handler that sends an opaque reply to the result channel twice: OwnAnswer violated, "
                            "the next call receives the duplicate (what the replays look for after every opaque reply)",
}


def _merge_forms(rows):
    """Sequential behaviours of the reply-form configuration come once per kind of client (onop = raw | fail) for
    the programs that contain an opaque reply: one row per program, out = the client that hands the reply over raw,
    alt = the client that fails the connection. Both expectations are the model's."""
    by = {}
    for r in rows:
        by.setdefault(json.dumps(r["prog"]), {})[r["onop"]] = r
    out = []
    for k, d in by.items():
        if "raw" not in d:
            raise vlib.MachineryError("ReqRespForm: no behaviour of the raw-hand-over client for %s" % k)
        r = d["raw"]
        if "fail" in d:
            if d["fail"]["h"] != r["h"]:
                raise vlib.MachineryError("ReqRespForm: histories of the two kinds of client differ for %s" % k)
            r["alt"] = d["fail"]["out"]
        out.append(r)
    return out


def _binding_selftest(chk, drv, rows):
    """Corrupt the expected session value of one sequential behaviour and require the driver to object."""
    victim = None
    for row in rows:
        if row["seq"] and row["g"] == 1 and any(o["op"] == "qc" for o in row["out"][0]):
            victim = json.loads(json.dumps(row))
            for o in victim["out"][0]:
                if o["op"] == "qc":
                    o["acqn"] += 1
                    break
            victim["idx"] = 0
            break
    if victim is None:
        raise vlib.MachineryError("binding self-test: no sequential behaviour with a session query")
    path = os.path.join(vlib.scratch("c25-selftest-"), "rows.ndjson")
    vlib.write_ndjson(path, [victim])
    p = vlib.run_cmd([drv, path], timeout=240, env={"VERIF_SEED": chk.seed, "VERIF_TIER": chk.tier})
    n = sum(1 for l in p.stdout.splitlines() if l.startswith("{") and json.loads(l).get("t") == "disagree")
    if n == 0:
        raise vlib.MachineryError("binding self-test: a corrupted expected session value was not noticed")
    chk.extra["binding_selftest"] = "expected session value of one call changed in one behaviour: driver reported %d disagreement(s)" % n


def run(chk, replay=None):
    chk.rule = ("ReqResp.tla models G goroutines running programs of API calls on a blocking request/response client: "
                "call mutex, auto-acquire before a query on a non-acquired client, SendMessage, wait on the result channel "
                "of the expected reply kind (one channel per kind shared by all callers), the engine sending one request at a "
                "time, a server that tags each reply with the request it answers and with its session state, and the handler "
                "handing the reply to whoever waits on that channel. TLC checks OwnAnswer (every received reply answers the "
                "receiver's own request), mutual exclusion, queries only inside an acquired session and termination, "
                "exhaustively for 3 goroutines x 2 calls (no sessions) and 2 x 2 across acquire/release/queries, and emits every "
                "sequential program of 4 calls with the server's per-call session state plus seeded random concurrent behaviours "
                "(3 x 2, whole alphabet). The driver replays each behaviour on the real localstatequery, localtxmonitor, "
                "localtxsubmission and peersharing clients against the library's own servers whose callbacks tag every reply "
                "(echoed credential, HasTx parity, reject reason carrying the tag, GetPeers(n) = n peers with port n), issuing "
                "the calls from several goroutines in the history's happens-before order with seeded delays (between "
                "invocations, in the server callbacks, and in the caller at the engine's Enqd hook, i.e. after the request is "
                "queued and before the caller waits for its reply), followed by barrier-released stress rounds of 32 "
                "goroutines on each client; every returned "
"value must carry its own request's tag and, in sequential histories, the model server's session values. "
                "Reply form: requests whose reply arrives in a form the client's typed decoder refuses (op qx: a RejectTx reason "
                "no ledger error type parses - registered CBOR tags around content of the wrong type -, an LSQ result of another "
                "type) are part of the programs; the model admits a client that hands such a reply over raw and one that fails "
                "the connection (every later call returns an error and no reply), checks OwnAnswer, ErrOnlyWhenDead, ErrSuffix "
                "and OpaqueOutcome for both (sequential programs of 3 calls, 2 x 2 exhaustively, 3 x 2 sampled; thorough: 4 calls over "
                "the whole alphabet, 2 x 2 across acquire/release and 3 x 2 exhaustively), and shows that a "
                "handler sending the opaque reply twice violates OwnAnswer; the replay observes which kind the real client is and "
                "applies the model's expectation for that kind: a call may return an error only where the model's connection has "
                "failed, every value must still be the call's own (the plain reject reasons come as text, generic structure and "
                "typed era mismatch, by tag). "
                "A case is one (protocol, programs, history) replay; it is non-trivial when it makes at least one call")
    chk.assumptions = [
        "the server side is the library's own server with tagging callbacks; its LSQ re-acquire path sends no Acquired by "
        "itself, so the tagging AcquireFunc sends it (observation outside C25, reported)",
        "HasTx and accepted SubmitTx carry one bit of the tag (parity), the other replies carry the whole tag",
        "session values (acquired point, acquisition count, NextTx position) are compared only in sequential histories; in "
        "concurrent ones they depend on the interleaving the real run took and only own-tag equality is required",
        "concurrent behaviours are a seeded random sample of the model's behaviours (TLC -simulate); the invariants are "
        "checked exhaustively on the smaller exhaustive configurations",
        "state timeouts (C14) are configured out of the way (10 min)",
        "opaque replies are produced through the library's own servers (CborRejectReason for tx-submission, a query result of "
        "another type for LSQ); tx-monitor and peer-sharing replies cannot be made opaque that way and rows with qx are not "
        "replayed on them; what a client does with an opaque reply (hand it over raw, fail the connection) is not prescribed "
        "by the property: both are accepted, the kind is observed per replay (connection down or not)",
    ]
    drv = vlib.go_build("c25")
    if replay:
        obj = json.load(open(replay))
        if "stress" in obj:
            env = {"VERIF_SEED": obj["verif_seed"]} if "verif_seed" in obj else None
            vlib.run_driver(chk, drv, ["-stress", obj["stress"], str(obj.get("g", 32)), str(obj.get("k", 60))],
                            timeout=300, env=env)
            return
        row = obj["row"]
        row["rseed"] = obj.get("rseed")
        path = os.path.join(vlib.scratch("c25-replay-"), "rows.ndjson")
        vlib.write_ndjson(path, [row])
        env = {"VERIF_SEED": obj["verif_seed"]} if "verif_seed" in obj else None
        vlib.run_driver(chk, drv, [path], timeout=300, env=env)
        return
    quick = chk.tier == "quick"
    sim_n = 250 if quick else 3000
    seq_cfg = "ReqRespSeq.cfg" if quick else "ReqRespSeqThorough.cfg"
    form_cfg = "ReqRespForm.cfg" if quick else "ReqRespFormThorough.cfg"
    formconc_cfg = "ReqRespFormConc.cfg" if quick else "ReqRespFormConcThorough.cfg"
    simform_n = 70 if quick else 1000
    jobs = [
        ("ReqResp.cfg", {}, None),
        ("ReqRespSession.cfg", {}, None),
        (seq_cfg, {}, None),
        ("ReqRespSim.cfg", {"simulate": "num=%d" % sim_n, "extra": ["-depth", "150", "-seed", str(chk.seed)]}, None),
        ("ReqRespNoMutex.cfg", {}, "Invariant OwnAnswer is violated"),
        (form_cfg, {}, None),
        (formconc_cfg, {} if quick else {"workers": 4}, None),
        ("ReqRespSimForm.cfg", {"simulate": "num=%d" % simform_n, "extra": ["-depth", "150", "-seed", str(chk.seed)]}, None),
        ("ReqRespDupOpaque.cfg", {}, "Invariant OwnAnswer is violated"),
    ]
    if not quick:
        jobs.append(("ReqRespSessionThorough.cfg", {"workers": 4}, None))
        jobs.append(("ReqRespFormConc3.cfg", {"workers": 4}, None))
    res = _tlc_all(chk, jobs, 420 if quick else 900)
    seq_rows = _rows(res[seq_cfg], seq_cfg)
    sim_rows = _rows(res["ReqRespSim.cfg"], "ReqRespSim.cfg")
    form_rows = [r for r in _merge_forms(_rows(res[form_cfg], form_cfg)) if any("qx" in p for p in r["prog"])]
    simform_rows = _rows(res["ReqRespSimForm.cfg"], "ReqRespSimForm.cfg")
    rows = seq_rows + sim_rows + form_rows + simform_rows
    for i, r in enumerate(rows):
        r["idx"] = i
    chk.extra["behaviours_sequential"] = len(seq_rows)
    chk.extra["behaviours_concurrent_sampled"] = len(sim_rows)
    chk.extra["behaviours_reply_form_sequential"] = len(form_rows)
    chk.extra["behaviours_reply_form_concurrent_sampled"] = len(simform_rows)
    chk.extra["behaviours_concurrent_fully_sequential"] = sum(1 for r in sim_rows if r["seq"])
    vlib.run_driver_sharded(chk, drv, [], rows, shards=4, timeout=500)
    if not quick:
        _binding_selftest(chk, drv, seq_rows)
    chk.extra["invariants"] = INVS
    chk.extra["liveness"] = ["Termination"]
    chk.exhaustive = False
