"""C20 The supported-version tables are internally consistent (S2, TB + RP)."""
import json
import os

import tb_common
import vlib

TABLES = ["", "ntc", "ntn", "dmq_ntc", "dmq_ntn"]


def entry_name(t, row):
    k, a, b = row["k"], row["a"], row["b"]
    if k in ("list", "ver"):
        return "%s:table=%s:version=%d" % (k, TABLES[a], t["lists"][a - 1][b - 1])
    if k == "stray":
        return "known:version=%d" % t["known"][b - 1]["v"]
    if k == "keys":
        g = t["genkeys"][b - 1]
        return "genmap:table=%s:magic=%d:d=%d:p=%d:q=%d" % (TABLES[g["t"]], g["mi"], g["d"], g["p"], g["q"])
    if k == "gen":
        g = t["genrows"][b - 1]
        return "gen:table=%s:version=%d:magic=%d:d=%d:p=%d:q=%d" % (
            TABLES[g["t"]], g["v"], g["mi"], g["d"], g["p"], g["q"])
    return "%s:%s:%s" % (k, a, b)


def entry_value(t, row):
    k, a, b = row["k"], row["a"], row["b"]
    if k == "list":
        return {"list": t["lists"][a - 1]}
    if k == "ver":
        v = t["lists"][a - 1][b - 1]
        prev = t["lists"][a - 1][b - 2] if b > 1 else None
        return [x for x in t["known"] if x["v"] in (v, prev)]
    if k == "stray":
        return t["known"][b - 1]
    if k == "keys":
        return t["genkeys"][b - 1]
    if k == "gen":
        return t["genrows"][b - 1]
    return None


def corruptions():
    def ntn_in_ntc(t):
        t["lists"][0].insert(0, 13)

    def drop_era(t):
        for x in t["known"]:
            if x["v"] == 14:
                x["eras"][5] = False

    def hole(t):
        for x in t["known"]:
            if x["v"] == 32784:
                x["eras"][2] = False

    def unsorted(t):
        l = t["lists"][1]
        l[0], l[1] = l[1], l[0]

    def query_lost(t):
        for g in t["genrows"]:
            if g["t"] == 2 and g["v"] == 12 and g["q"]:
                g["gq"] = False

    return [("an NtN number in the NtC list", ntn_in_ntc, "class"),
            ("Conway dropped from NtN 14", drop_era, "era_monotone"),
            ("Mary dropped from NtC 16", hole, "era_prefix"),
            ("NtN list not ascending", unsorted, "ascending"),
            ("NtN 12 generated data loses the query flag", query_lost, "query")]


def run(chk, replay=None):
    chk.rule = ("TB: the four version lists, GetProtocolVersion(v) for all v in 0..65535 and the version maps "
                "generated for every (magic, diffusion, peer sharing, query) are dumped from the running code and "
                "become the constants of VersionTable.tla; TLC evaluates on every entry (one state each): version "
                "class (bit 15 / bit 12), ascending, lists disjoint, decoder present, era flags a prefix of "
                "Shelley<..<Dijkstra, monotone along each list and not below the network spec's floor, no version "
                "known outside the lists, generated map keys = list, generated data answers the requested value for "
                "every parameter the version's data format carries. RP: TLC enumerates (table, version, magic, d, p, q) "
                "with the carried parameters; the driver generates, CBOR-encodes and decodes with that version's own "
                "decoder and compares the four accessors (generated vs decoded, decoded vs requested where carried). "
                "A case is one (table, version, magic, flags); all are non-trivial.")
    chk.assumptions = [
        "which parameters a version's data carries is taken from the handshake CDDL of the network specification "
        "(NtN 7-10: magic+diffusion; NtN 11+: +peer sharing+query; NtC 9-14: magic; NtC 15+: +query; DMQ as CIP-0137)",
        "magics are compared in TLC as two 16-bit halves; concrete magics are 0, 1, 764824073, 2^32-1 and seeded "
        "random values",
        "parameters a format does not carry are only required to survive encode/decode unchanged",
    ]
    thorough = chk.tier != "quick"
    cfg = "VersionTableThorough.cfg" if thorough else "VersionTable.cfg"
    drv = vlib.go_build("c20")
    d = vlib.scratch("c20-")
    tables = os.path.join(d, "version_tables.json")
    vlib.run_driver(chk, drv, ["dump", tables, "12" if thorough else "5"], timeout=120)
    t = json.load(open(tables))
    r, rows = tb_common.run_tb(
        chk, "net/VersionTable", cfg, tables,
        lambda row, law: "tb:%s:%s" % (entry_name(t, row), law),
        lambda row, law: "the code's own table entry %s = %s violates law %s of spec/net/VersionTable.tla"
                         % (entry_name(t, row), json.dumps(entry_value(t, row)), law),
        timeout=240)
    chk.traces = 1  # one table dump of the running code validated by TLC
    chk.extra["c20_table_entries_checked"] = len(rows)
    chk.sample({"tlc_verdict_rows": rows[:3]})
    cases = os.path.join(r.dir, "cases20.ndjson")
    if not os.path.exists(cases):
        raise vlib.MachineryError("TLC wrote no cases20.ndjson")
    vlib.run_driver(chk, drv, ["replay", cases], timeout=300)
    if thorough:
        tb_common.self_test(chk, "net/VersionTable", cfg, tables, corruptions(), timeout=240)
    chk.exhaustive = False
