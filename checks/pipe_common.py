"""Shared orchestration for the block pipeline family (C42, C43, C44):
Pipeline.tla model-checked by TLC (safety + liveness), TLC-simulated behaviours
forced step by step on the real pipeline through the blocking `verif` gates
(harness/cmd/pipe), property monitors evaluated on the real executions."""
import os
import vlib

ASSUME = [
    "the application keeps reading Results() and Errors() (as the package documentation requires)",
    "TLC explores the model for small constants (<= 3 blocks exhaustively, <= 5 in forced replays, <= 3 workers per stage, channel capacity 1-2)",
    "gates sequentialise the real goroutines: each replay step is one gate-to-gate segment (DESIGN Appendix B)",
    "validate stage: fixture blocks never pass VRF/KES validation with the zero nonce, so the 'validated and applied' path is only model-checked, not replayed",
]


def stress(chk, prop, drv):
    """Free-running executions (truly concurrent goroutines, seeded perturbation in the hooks; race
    detector in the thorough tier) validated by TLC against the observer PipelineObs.tla."""
    import json, re
    thorough = chk.tier == "thorough"
    if thorough:
        drv = vlib.go_build("pipe", race=True)
    out = vlib.scratch("pipestress-")
    vlib.run_driver(chk, drv, ["stress", out, "400" if thorough else "40"], timeout=1500)
    tp = os.path.join(out, "traces.ndjson")
    lines = open(tp).read().splitlines()
    starts = [i for i, l in enumerate(lines) if '"ev":"Reset"' in l]
    r = vlib.run_tlc("pipe/PipelineTrace", cfg="PipelineTrace.cfg", workers=1, timeout=1500, env={"VERIF_TRACE": tp})
    chk.add_tlc("validate:PipelineTrace", r)
    m = re.search(r'^<<"REJECTS", "(.*)">>\s*$', r.out, re.M)
    if not r.ok or not m:
        raise vlib.MachineryError("PipelineTrace failed: %s" % (r.violation or r.error or "no verdict"))
    for l1, msg in json.loads(json.loads('"' + m.group(1) + '"')):
        l = l1 - 1
        st = max(i for i in starts if i <= l)
        en = min([i for i in starts if i > l] + [len(lines)])
        cfg = json.loads(lines[st]).get("cfg", "?")
        if not msg.startswith(prop):
            chk.extra["rejections_attributed_elsewhere"] = chk.extra.get("rejections_attributed_elsewhere", 0) + 1
            continue
        desc = "free-running execution (%s) rejected at event %d (%s): %s" % (cfg, l - st, lines[l], msg)
        vlib.log("[trace] " + desc)
        chk.disagree("%s:stress:%s" % (prop, msg[:80]), desc,
                     {"cfg": cfg, "rule": msg, "trace": [json.loads(x) for x in lines[st:en]][:500]})
    chk.extra["free_running_executions_validated"] = len(starts)


def run_pipe(chk, prop, mc, live, sims, thorough_mc=(), thorough_factor=8):
    chk.assumptions = ASSUME
    chk.rule = ("a case is one TLC-simulated behaviour of Pipeline.tla (sequence of gate-to-gate steps of submitters, "
                "workers, apply runner, Stop and WaitForDrain) forced on the real pipeline; distinct = distinct action "
                "sequences; non-trivial = at least 6 forced steps")
    thorough = chk.tier == "thorough"
    for cfg in list(mc) + (list(thorough_mc) if thorough else []):
        r = vlib.run_tlc("pipe/Pipeline", cfg=cfg, workers=16, timeout=1500 if thorough else 400,
                         coverage=False)
        vlib.tlc_must_pass(r, cfg)
        chk.add_tlc(cfg, r)
    for cfg in live:
        r = vlib.run_tlc("pipe/Pipeline", cfg=cfg, workers=8, timeout=900)
        vlib.tlc_must_pass(r, cfg)
        chk.add_tlc(cfg, r)
    drv = vlib.go_build("pipe")
    rows = []
    for i, (cfg, num, depth) in enumerate(sims):
        n = num * (thorough_factor if thorough else 1)
        got, r = vlib.tlc_behaviours("pipe/PipelineSim", cfg, n, depth, seed=chk.seed * 1000 + i, timeout=900)
        chk.add_tlc("simulate:" + cfg, r)
        if len(got) < n // 2:
            raise vlib.MachineryError("only %d of %d simulated behaviours finished (%s)" % (len(got), n, cfg))
        rows += got
    vlib.run_driver_sharded(chk, drv, ["replay"], rows, shards=12, timeout=1500,
                            keep=lambda rec: rec["key"].startswith(prop + ":"))
    stress(chk, prop, drv)
    chk.traces = chk.evaluations  # every forced behaviour is a real execution checked step by step against the spec
    chk.extra["binding"] = ("RP: TLC behaviours forced on the real pipeline through blocking gates; every step's "
                            "expected gate arrival / return value / sequence number / PendingCount operand compared")
