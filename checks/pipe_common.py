"""Shared orchestration for the block pipeline family (C42, C43, C44):
Pipeline.tla model-checked by TLC (safety + liveness), TLC-simulated behaviours
forced step by step on the real pipeline through the blocking `verif` gates
(harness/cmd/pipe), property monitors evaluated on the real executions."""
import os
import vlib

ASSUME = [
    "the application keeps reading Results() and Errors() (as the package documentation requires)",
    "TLC explores the model for small constants (<= 3 blocks exhaustively, <= 5 in forced replays, <= 3 workers per stage, channel capacity 1-2)",
    "gates sequentialise the real goroutines: each replay step is one gate-to-gate segment (DESIGN Appendix B)",
    "validate stage: fixture blocks never pass VRF/KES validation with the zero nonce, so the 'validated and applied' path is only model-checked, not replayed",
]


def run_pipe(chk, prop, mc, live, sims, thorough_mc=(), thorough_factor=8):
    chk.assumptions = ASSUME
    chk.rule = ("a case is one TLC-simulated behaviour of Pipeline.tla (sequence of gate-to-gate steps of submitters, "
                "workers, apply runner, Stop and WaitForDrain) forced on the real pipeline; distinct = distinct action "
                "sequences; non-trivial = at least 6 forced steps")
    thorough = chk.tier == "thorough"
    for cfg in list(mc) + (list(thorough_mc) if thorough else []):
        r = vlib.run_tlc("pipe/Pipeline", cfg=cfg, workers=16, timeout=1500 if thorough else 400,
                         coverage=False)
        vlib.tlc_must_pass(r, cfg)
        chk.add_tlc(cfg, r)
    for cfg in live:
        r = vlib.run_tlc("pipe/Pipeline", cfg=cfg, workers=8, timeout=900)
        vlib.tlc_must_pass(r, cfg)
        chk.add_tlc(cfg, r)
    drv = vlib.go_build("pipe")
    rows = []
    for i, (cfg, num, depth) in enumerate(sims):
        n = num * (thorough_factor if thorough else 1)
        got, r = vlib.tlc_behaviours("pipe/PipelineSim", cfg, n, depth, seed=chk.seed * 1000 + i, timeout=900)
        chk.add_tlc("simulate:" + cfg, r)
        if len(got) < n // 2:
            raise vlib.MachineryError("only %d of %d simulated behaviours finished (%s)" % (len(got), n, cfg))
        rows += got
    vlib.run_driver_sharded(chk, drv, ["replay"], rows, shards=12, timeout=1500,
                            keep=lambda rec: rec["key"].startswith(prop + ":"))
    chk.traces = chk.evaluations  # every forced behaviour is a real execution checked step by step against the spec
    chk.extra["binding"] = ("RP: TLC behaviours forced on the real pipeline through blocking gates; every step's "
                            "expected gate arrival / return value / sequence number / PendingCount operand compared")
