"""C34 block bodies are bound to their headers at decode time (S3, symbolic hash, RP on real blocks)."""
import os

import vlib


def run(chk, replay=None):
    chk.rule = ("BodyHash.tla: a block = header commitments + body parts, hash symbolic (injective term). Per era the "
                "commitment structure (Shelley-Mary: hash of 3 segment hashes; Alonzo-Conway: of 4; Dijkstra: hash of "
                "the block body; Byron main: tx count, merkle root over tx bodies, hash of the witness lists, "
                "delegation hash, update hash, ssc proof carried but not compared; Byron EBB: body hash); DecodeOk <=> "
                "every commitment compared under the caller's VerifyConfig = its recomputation; configurations: skip "
                "(SkipBodyHashValidation, nothing compared), default, ssc_hash (EnableByronSscProofHashValidation: the "
                "Byron ssc proof compared in addition; invariant NoConfigWeakens: a validating configuration never "
                "compares less than the default). TLC pairs the original header (or one "
                "with a single commitment replaced) with every body of the model and proves: real / well-formed blocks "
                "decode, skip compares nothing, any covered difference is refused (Binding), any replaced compared "
                "commitment is refused, each compared commitment is needed, every part but the ssc payload is covered, "
                "segment order is committed to. One row per (era, mutation class, validation flag); the driver "
                "realises a class on the repository's real blocks by single-byte and structural mutations inside the "
                "byte range of the named part / commitment that still decode with SkipBodyHashValidation, and "
                "requires ledger.NewBlockFromCbor to fail with validation (decode_ok of the row). A case = one "
                "decodable mutated block (or an unmutated block x flag); non-trivial = not in an excluded class.")
    chk.assumptions = [
        "Blake2b-256 is collision free (hashes are injective terms in the model); the Byron merkle construction itself is C35's subject",
        "the Byron ssc payload / ssc proof are excluded, as the property and ARCHITECTURE.md say (outcomes counted in excluded_classes)",
        "Byron 'framing' (indefinite vs definite transaction list, head widths, a third element in a [tx, witnesses] pair, "
        "the outer array heads) is not under any commitment the property names: no verdict demanded, outcomes counted",
        "only mutations that still decode with validation skipped are cases; the block's third top-level item of Byron (extra) is not a body part",
        "fixtures: the 11 real blocks of the repository's test data (two Byron main, one EBB, two Shelley, one per later era)",
    ]
    cfg = "BodyHash.cfg" if chk.tier == "quick" else "BodyHashThorough.cfg"
    r = vlib.run_tlc("ledger/BodyHash", cfg=cfg, timeout=300 if chk.tier == "quick" else 900, workers="auto")
    vlib.tlc_must_pass(r, "BodyHash")
    chk.add_tlc(cfg, r)
    cases = os.path.join(r.dir, "cases.ndjson")
    if not os.path.exists(cases) or os.path.getsize(cases) == 0:
        raise vlib.MachineryError("TLC did not emit cases.ndjson")
    drv = vlib.go_build("c34")
    args = [cases, vlib.REPO]
    if replay:
        args += ["replay", replay]
    vlib.run_driver(chk, drv, args, timeout=300 if chk.tier == "quick" else 1500)
    if not replay and not chk.violations:
        # (with disagreements on the table the search is evidently not vacuous,
        # and the reference classes may be the very ones the code gets wrong)
        _self_test(chk, drv, cases)
    chk.exhaustive = False


def _self_test(chk, drv, cases):
    """Binding self-test: claim that a mutated tx_bodies segment of the Conway block and a replaced Byron
    delegation hash decode with validation, and require the replay to object (guards against a vacuous search)."""
    rows = vlib.read_ndjson(cases)
    flipped = []
    for r in rows:
        if r["config"] == "default" and ((r["era"] == "conway" and r["mut"] == "part" and r["target"] == "tx_bodies")
                              or (r["era"] == "byron_main" and r["mut"] == "commit" and r["target"] == "dlg")):
            if r["decode_ok"]:
                raise vlib.MachineryError("self-test: reference row already says decode_ok")
            q = dict(r)
            q["decode_ok"] = True
            flipped.append(q)
        elif r["mut"] == "none" and r["era"] in ("conway", "byron_main"):
            flipped.append(r)
    if len([q for q in flipped if q["mut"] != "none"]) != 2:
        raise vlib.MachineryError("self-test: reference rows not in the TLC output")
    d = vlib.scratch("c34-self-")
    p = os.path.join(d, "flipped.ndjson")
    vlib.write_ndjson(p, flipped)
    probe = vlib.Check(chk.pid, chk.tier, chk.seed)
    vlib.run_driver(probe, drv, [p, vlib.REPO, "only", "conway_mainnet,byron_main_mainnet"], timeout=120, count=False)
    keys = [k for k, _, _ in probe.violations] + [k for _, k, _ in probe.known_hits]
    for _, _, path in probe.violations:
        if path and os.path.exists(path):
            os.remove(path)
    a = [k for k in keys if k.startswith("blk=conway_mainnet:mut=part:target=tx_bodies:")]
    b = [k for k in keys if k.startswith("blk=byron_main_mainnet:mut=commit:target=dlg:")]
    if not a or not b:
        raise vlib.MachineryError("self-test: flipped verdicts were not reported (got %d keys)" % len(keys))
    chk.extra["binding_self_test"] = ("with decode_ok flipped to true the replay objected on %d mutated tx_bodies "
                                      "segments of the Conway block and %d replaced Byron delegation hashes"
                                      % (len(a), len(b)))
