"""C43 Draining the pipeline really waits for in-flight blocks (S1)."""
import pipe_common


def run(chk, replay=None):
    pipe_common.run_pipe(
        chk, "C43",
        mc=["PipeSafetyDrain.cfg"],
        live=["PipeLiveDrain.cfg"],
        sims=[("SimDrain.cfg", 100, 300), ("SimMix.cfg", 50, 400), ("SimStop.cfg", 60, 300)],
        thorough_mc=["PipelineFixed.cfg"])
