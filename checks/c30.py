"""C30 The minimum fee and size limits use the transaction's real size (S3, RP)."""
import concurrent.futures
import os

import vlib


def _tlc(cfgs, timeout, workers=None):
    """Runs several configurations of Fee.tla side by side (they are small; most
    of their wall time is JVM start-up)."""
    with concurrent.futures.ThreadPoolExecutor(max_workers=len(cfgs)) as ex:
        futs = {c: ex.submit(vlib.run_tlc, "ledger/Fee", cfg=c, timeout=timeout, workers=workers, deadlock=False)
                for c in cfgs}
        return {c: f.result() for c, f in futs.items()}


def _self_test(chk, drv, size_path):
    """Binding self-test: flip the spec verdict of two cases far from any doubt
    (a Mary transaction in canonical encoding, fee exactly the minimum / limit
    exactly the length) and require the replay to report both."""
    rows = vlib.read_ndjson(size_path)
    picks, origs = [], []
    for r in rows:
        if (r["era"] == "mary" and r["hd"] == "min" and r["pad"] == 0 and r["a"] == 1
                and r["fee"] == r["minfee"] and r["max"] == r["orig"]):
            if r["feeVerdict"] != "accept" or r["sizeVerdict"] != "accept":
                raise vlib.MachineryError("self-test: reference case has spec verdicts %r" % r)
            q = dict(r)
            q["feeVerdict"], q["sizeVerdict"] = "tooSmall", "tooBig"
            picks.append(q)
            origs.append(r)
            break
    if not picks:
        raise vlib.MachineryError("self-test: reference case (mary, canonical, a=1, fee=minfee, max=orig) not in the TLC output")
    d = vlib.scratch("c30-self-")
    b = picks[0]["b"]
    want = {"fee:era=mary:env=3:hd=min:pad=0:a=1:b=%d:fee=mf+0:at=feerule" % b,
            "max:era=mary:env=3:hd=min:pad=0:max=orig+0:at=maxrule"}
    reported = []
    for name, rows_ in (("orig", origs), ("flipped", picks)):
        p = os.path.join(d, name + ".ndjson")
        vlib.write_ndjson(p, rows_)
        probe = vlib.Check(chk.pid, chk.tier, chk.seed)
        vlib.run_driver(probe, drv, ["size", "all", p], timeout=120)
        reported.append(set([k for k, _, _ in probe.violations] + [k for _, k, _ in probe.known_hits]))
        for _, _, path in probe.violations:      # the probe must not leave replay files behind
            if path and os.path.exists(path):
                os.remove(path)
    # flipping the expected verdict must flip whether the case is reported (if the
    # code is wrong on the reference case the unflipped row is reported instead,
    # and the main run below reports it as well)
    bad = [k for k in sorted(want) if (k in reported[0]) == (k in reported[1])]
    if bad:
        raise vlib.MachineryError("self-test: flipping the verdict did not change the report for %r (orig %r, flipped %r)"
                                  % (bad, sorted(reported[0]), sorted(reported[1])))
    chk.extra["binding_self_test"] = ("flipping the verdicts of (mary, canonical, fee = minimum, limit = length) flips the "
                                      "report: %s" % sorted(want))


def run(chk, replay=None):
    chk.rule = ("TLC checks Fee.tla (Size = |orig| - [Alonzo..Conway four-element envelope]; MinFee = a*Size + b in a word of "
                "W values with Overflow when the product or the sum does not fit; AcceptFee <=> ~Overflow /\\ fee >= MinFee; "
                "AcceptSize <=> |orig| <= max) on the full grid of a small word and on a W = 2^8 grid holding every overflow "
                "edge, proves threshold / never-wrapped / monotonicity / scaling / translation invariants and tags every "
                "case with its class; every case is replayed on real decoded transactions of Shelley..Dijkstra whose original "
                "encoding is padded non-canonically (wide and indefinite heads, wide integers) and on common.CalculateMinFee; "
                "a case is one (era, envelope, head, padding, a, b, fee, limit) tuple of the size slice, one (a, size, b, fee) "
                "point of the arithmetic grid at 64-bit scale (per era), or one 64-bit class representative; all are non-trivial. "
                "The phase-2 flag is a dimension of the size slice and of the carriers of the arithmetic points: every "
                "Alonzo..Conway transaction is also built with is_valid = false and "
                "judged by the same verdicts (invariants FlagIrrelevant, FlagNeverHelps, FlagPaired); keys of flagged cases end "
                "in :p2invalid")
    chk.assumptions = [
        "the arithmetic grid is replayed with a, b and the fee multiplied by 2^64/W (exact: invariant Homogeneous); 64-bit "
        "numbers that are no such multiples are classified with math/big by the spec's formula and judged by the class table",
        "abstract lengths of the size slice are translated to the length of the real transaction (invariant Translation)",
        "an overflow must surface as an error that is not FeeTooSmallUtxoError (any other error type is accepted)",
        "the property is one-directional (accept only if fee >= a*size+b): for an Alonzo..Conway transaction with an "
        "INDEFINITE four-element envelope head an over-estimated fee size (the code keeps |orig|) is recorded as an observation "
        "(observation_indefinite_envelope_size_over_estimated), while a too small size or an acceptance below the stated "
        "minimum is still a disagreement; everywhere else the exact size and both directions are enforced",
        "the property is silent on a Dijkstra transaction that arrives with a four-element envelope (the repository "
        "subtracts the is_valid byte there on purpose): its fee size is observed and recorded, not judged",
        "a flagged transaction (is_valid = false) is the unflagged one with the byte 0xf5 replaced by 0xf4 (no redeemer, no "
        "collateral): the era's is_valid rule rejects it, which is not read - fee and size are phase-1 preconditions and "
        "are observed at the rules themselves and at their entries of the rule list",
        "for the silent Dijkstra four-element case the fee verdict is enforced where both readings of the size (length, "
        "length - 1) give the same verdict (row field bothReadings), and only observed in between",
        "the rule list is observed entry by entry (only the fee / size error types and the entries named "
        "...FeeTooSmallUtxo / ...MaxTxSizeUtxo are read); the rest of the transaction is not made valid for the other rules",
    ]
    thorough = chk.tier != "quick"
    grid = "FeeThorough.cfg" if thorough else "Fee.cfg"
    full = "FeeFull8.cfg"          # W = 2^3, every (a, size, b, fee) as a state
    cfgs = [grid, full] + (["FeeDefect.cfg", "FeeFlagDefect.cfg"] if thorough else [])
    res = _tlc(cfgs, timeout=560 if thorough else 150, workers=4 if thorough else None)
    for c in (grid, full):
        vlib.tlc_must_pass(res[c], c)
        chk.add_tlc(c, res[c])
    if thorough:
        rd = res["FeeDefect.cfg"]
        if rd.ok or not rd.violation or "NeverWrapped" not in rd.violation:
            raise vlib.MachineryError("FeeDefect.cfg: TLC did not refute invariant NeverWrapped with modular arithmetic "
                                      "enabled: %r" % (rd.violation or rd.error or "no error"))
        chk.extra["defect_model"] = "WrapDefect=TRUE refuted by TLC (invariant NeverWrapped)"
        rf = res["FeeFlagDefect.cfg"]
        if rf.ok or not rf.violation or "FlagIrrelevant" not in rf.violation:
            raise vlib.MachineryError("FeeFlagDefect.cfg: TLC did not refute invariant FlagIrrelevant with the early return "
                                      "for flagged transactions enabled: %r" % (rf.violation or rf.error or "no error"))
        chk.extra["defect_model_flag"] = "FlagDefect=TRUE refuted by TLC (invariant FlagIrrelevant)"

    drv = vlib.go_build("c30")
    g, f = res[grid].dir, res[full].dir
    _self_test(chk, drv, os.path.join(g, "size.ndjson"))
    counts = {}
    files = [("size", g, "size.ndjson"), ("arith", g, "arith.ndjson"), ("classes", g, "classes.ndjson"),
             ("arith_full_W8", f, "arith.ndjson")]
    if thorough:
        # the W = 2^4 full grid is one quantified ASSUME of FeeThorough.cfg (its
        # 65536 points are not states); its rows are replayed like the others
        files.append(("arith_full_W16", g, "arithfull.ndjson"))
        chk.extra["full_grid_theorem"] = "FullGridTheorem(16): 16^4 = 65536 points, evaluated by TLC as an assumption (not counted as states)"
    for name, d, fn in files:
        with open(os.path.join(d, fn)) as fh:
            counts[name] = sum(1 for line in fh if line.strip())
    size_rows = vlib.read_ndjson(os.path.join(g, "size.ndjson"))
    counts["size_flagged"] = sum(1 for r in size_rows if r.get("p2"))
    carriers = vlib.read_ndjson(os.path.join(g, "carriers.ndjson"))
    counts["carriers"] = len(carriers)
    counts["carriers_flagged"] = sum(1 for r in carriers if r.get("p2"))
    if not counts["size_flagged"] or not counts["carriers_flagged"]:
        raise vlib.MachineryError("the TLC output has no flagged (is_valid = false) size case or carrier: %r" % counts)
    chk.extra["tlc_rows"] = counts
    vlib.run_driver(chk, drv, ["size", "all", os.path.join(g, "size.ndjson")], timeout=900)
    vlib.run_driver(chk, drv, ["arith", os.path.join(g, "arith.ndjson")], timeout=900)
    vlib.run_driver(chk, drv, ["arith", os.path.join(f, "arith.ndjson")], timeout=600)
    if thorough:
        vlib.run_driver(chk, drv, ["arith", os.path.join(g, "arithfull.ndjson")], timeout=600)
    vlib.run_driver(chk, drv, ["classes", os.path.join(g, "classes.ndjson")], timeout=600)
    chk.exhaustive = False
