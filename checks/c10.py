"""C10 Messages survive segmentation and reassembly unchanged (S1)."""
import engine_common


def run(chk, replay=None):
    engine_common.run_engine(chk, "C10", ["conv.ndjson", "bp.ndjson", "pack.ndjson", "mib.ndjson"])
