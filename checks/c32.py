"""C32 Collateral covers the fee share the protocol demands (S3, RP)."""
import os

import vlib

ERAS = ["alonzo", "babbage", "conway", "dijkstra"]
SLICES = ["amount", "return", "shape"]


def _self_test(chk, drv, amount_path):
    """Binding self-test: flip the spec verdict of two cases far from any
    threshold (one each way) and require the driver to report a disagreement
    (guards against a vacuous replay)."""
    rows = vlib.read_ndjson(amount_path)
    picks = []
    for want_bal, claim in ((12, ["Insufficient"]), (0, [])):
        for r in rows:
            if (r["style"] == "babbage" and r["fee"] == 4 and r["pct"] == 100 and r["bal"] == want_bal
                    and r["nIn"] == 1 and r["ret"] == -1):
                if (r["errors"] == []) != (want_bal == 12):
                    raise vlib.MachineryError("self-test: reference case bal=%d has spec errors %r"
                                              % (want_bal, r["errors"]))
                q = dict(r)
                q["errors"] = claim
                picks.append(q)
                break
    if len(picks) != 2:
        raise vlib.MachineryError("self-test: reference cases (fee 4, pct 100, bal 0 / 12) not in the TLC output")
    d = vlib.scratch("c32-self-")
    p = os.path.join(d, "flipped.ndjson")
    vlib.write_ndjson(p, picks)
    probe = vlib.Check(chk.pid, chk.tier, chk.seed)
    vlib.run_driver(probe, drv, ["conway", "amount", p], timeout=60)
    keys = [k for k, _, _ in probe.violations] + [k for _, k, _ in probe.known_hits]
    # the probe must not leave replay files behind
    for _, _, path in probe.violations:
        if path and os.path.exists(path):
            os.remove(path)
    want = {"era=conway:fee=4:pct=100:bal=12:miss=Insufficient", "era=conway:fee=4:pct=100:bal=0:extra=Insufficient"}
    if not want & set(keys):
        raise vlib.MachineryError("self-test: flipped verdicts were not reported (got %r)" % keys)
    chk.extra["binding_self_test"] = ("flipped verdicts of (conway, fee 4, pct 100, bal 0 / 12) were rejected by "
                                      "the replay: %s" % sorted(want & set(keys)))


def run(chk, replay=None):
    chk.rule = ("TLC enumerates the collateral case space (fee x percentage x balance around every exact "
                "threshold, 0..4 collateral inputs vs the protocol maximum, tokens in / returned, ada return, "
                "scripts or not) with the set of failures the exact rule demands, and proves threshold / "
                "monotonicity / homogeneity / floor-characterisation on it; every case becomes a real "
                "transaction of each era (built as CBOR, decoded by the era's decoder) checked by the era's "
                "exported rule functions and by every entry of the era's UtxoValidationRules; a case is one "
                "(era, fee, pct, balance, return, #inputs, max, tokens, scripts[, scale, encoding]) tuple; "
                "non-trivial = the transaction runs scripts (the property constrains nothing otherwise)")
    chk.assumptions = [
        "collateral balance = ada of the collateral inputs minus ada of the collateral return (ledger definition; "
        "the repository's own UtxoValidateCollateralEqBalance uses the same)",
        "the property is silent on transactions without redeemers and on a collateral return that carries more "
        "tokens than the collateral inputs: both behaviours are accepted there (counts in free_cases_observed)",
        "grid amounts are also replayed scaled by 1000003 and 2^58 (invariant Homogeneous), and 64-bit fees at "
        "the boundary classes ceil(fee*pct/100)-1, +0, +1 (invariant ThresholdExact), computed with math/big",
        "C32 states what an accepted transaction must satisfy: a missing failure is always a disagreement; a surplus "
        "failure is one only when it is one of the four stated conditions mis-evaluated on the plain encoding. "
        "Whether an ada-only value written as [coin, {}] is accepted as collateral, and rule functions failing for "
        "unrelated reasons, are recorded under observed_outside_the_property and never alarm",
        "the rule list is observed entry by entry (only the four collateral error types are read); the rest of "
        "the transaction is not made valid for the other rules",
    ]
    thorough = chk.tier != "quick"
    cfg = "CollateralThorough.cfg" if thorough else "Collateral.cfg"
    r = vlib.run_tlc("ledger/Collateral", cfg=cfg, timeout=420 if thorough else 120,
                     workers="auto" if thorough else None, deadlock=False)
    vlib.tlc_must_pass(r, "Collateral")
    chk.add_tlc(cfg, r)

    if thorough:
        # the defect F-C32 re-enabled in the model must be refuted by TLC (the
        # invariant Exact is not vacuous, the counterexample stays reproducible)
        rd = vlib.run_tlc("ledger/Collateral", cfg="CollateralDefect.cfg", timeout=180, deadlock=False)
        if rd.ok or not rd.violation or "Exact" not in rd.violation:
            raise vlib.MachineryError("CollateralDefect.cfg: TLC did not refute invariant Exact with the flooring "
                                      "defect enabled: %r" % (rd.violation or rd.error or "no error"))
        chk.extra["defect_model"] = "FlooringDefect=TRUE refuted by TLC (invariant Exact)"

    drv = vlib.go_build("c32")
    _self_test(chk, drv, os.path.join(r.dir, "amount.ndjson"))
    counts = {}
    for sl in SLICES + ["big"]:
        path = os.path.join(r.dir, sl + ".ndjson")
        with open(path) as f:
            counts[sl] = sum(1 for line in f if line.strip())
        for era in ERAS:
            # one process per (era, slice): vh caps the disagreements of one
            # process, and the known findings of one slice stay below that cap
            vlib.run_driver(chk, drv, [era, sl, path], timeout=600)
    chk.extra["tlc_rows"] = counts
    chk.exhaustive = False
