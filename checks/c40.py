"""C40 Produced headers validate, and tampered ones do not (S3, symbolic crypto)."""
import os
import vlib


def run(chk, replay=None):
    chk.rule = ("HeaderValidation.tla models BlockBuilder.BuildHeader (Praos and TPraos layouts), the ten checks of "
                "HeaderValidator.ValidateHeader and the checks of ledger.VerifyBlock with symbolic crypto (a certificate or "
                "signature is the tuple of what was proved/signed; nobody signs for a key he does not hold). TLC proves for "
                "every case: a built header is valid exactly when opPeriod <= slot/slotsPerKes < opPeriod + maxEvol; every "
                "third-party change of a header field falsifies the KES check and the checks that cover the field; a "
                "changed body falsifies the body-hash check; a header made by the hot-key holder from one changed input "
                "never passes both validators; every check is the only rejecting one for some case (Isolated), and the "
                "window's upper end differs exactly at offset maxEvol (WindowEdge). Cases = layout x period offset {-1, 0, "
                "max-1, max} x {as built, 30 tamper mutations, 12 insider mutations}. Each is replayed with real Ed25519 / "
                "KES (depth 6) / VRF keys: BuildHeader (f = 1), mutation, era wire format, ledger decoders, ValidateHeader "
                "and VerifyBlock; the verdicts valid / ok must equal the specification's. A case = one key (layout, offset, "
                "regime, mutation, era, network parameters); all are non-trivial. HISTORY: the model's state is the sequence of "
                "cases ONE validator instance has been shown (Init = one case on a fresh validator, Next = the same "
                "instance is shown another case); histories = ordered pairs of cases of one layout of which at least one "
                "is accepted (thorough: any two period offsets, and the first case once more as a third step). TLC checks "
                "HistoryIrrelevant (every step gets the verdict of a fresh validator), ReplayNeedsCold (after or before an "
                "accepted header, the same (issuer, hot key, counter, period) under another cold signature fails check 9, "
                "however much of the rest is re-signed by the hot key), AcceptedPins, and that histories exist where the "
                "cold signature / each check is the only rejecting one next to an accepted header (CertReplayObservable, "
                "HistIsolated). Each history is replayed on one HeaderValidator instance (and one ledger state for "
                "VerifyBlock); every step's verdict must equal its row's. A history = one key.")
    chk.assumptions = [
        "VRF, Ed25519 and KES are unforgeable and hashes collision free (symbolic in the model, real in the replay)",
        "a bit flip in a key, proof or signature yields an invalid one (seeded position)",
        "the node's view of the issuing pool (stake, registered VRF key hash) is looked up by the header's issuer key; unknown issuers have no stake",
        "VerifyBlock is not given maxKESEvolutions (documented): a header beyond the window is expected to pass VerifyBlock and to fail ValidateHeader",
        "the concrete (slotsPerKESPeriod, maxKESEvolutions, opcert period) triples (129600, 62, 400), (10, 7, 3), (4, 2, 2) stand for the model's small constants: the checks only compare period differences with 0 and maxEvol",
    ]
    cfg = "HeaderValidation.cfg" if chk.tier == "quick" else "HeaderValidationThorough.cfg"
    r = vlib.run_tlc("consensus/HeaderValidation", cfg=cfg, timeout=300)
    vlib.tlc_must_pass(r, "HeaderValidation")
    chk.add_tlc(cfg, r)
    cases = os.path.join(r.dir, "cases.ndjson")
    if not os.path.exists(cases) or os.path.getsize(cases) == 0:
        raise vlib.MachineryError("TLC did not emit cases.ndjson")
    hists = os.path.join(r.dir, "histories.ndjson")
    if not os.path.exists(hists) or os.path.getsize(hists) == 0:
        raise vlib.MachineryError("TLC did not emit histories.ndjson")
    n = sum(1 for _ in open(cases))
    nh = sum(1 for _ in open(hists))
    # a state = the history one validator instance has been shown (length 1 = a case on a fresh validator)
    if n + nh != r.distinct:
        raise vlib.MachineryError("emitted %d cases + %d histories but TLC found %d states" % (n, nh, r.distinct))
    chk.extra["c40_tlc_cases_and_histories"] = {"cases_on_a_fresh_validator": n, "histories_on_one_validator": nh}
    drv = vlib.go_build("c40")
    vlib.run_driver(chk, drv, [cases, hists], timeout=900)
    # exhaustive over the model's case space; keys and bit positions are sampled
    chk.exhaustive = False
